"""enc2 engine: PLAIN (all types), DELTA_BINARY_PACKED (int32/int64), DELTA_LENGTH_BYTE_ARRAY, DELTA_BYTE_ARRAY,
BYTE_STREAM_SPLIT (float, double, generic width) and dictionary encoding - the parts of C11 and C12 that are not
the RLE/bit-packed hybrid.

  check_enc2_c11(rep, tier, rng)   decode(encode(v)) == v with exact byte counts on the implementation (oracle
                                   independent of the model); extracted models vs implementation byte-exact on
                                   encoders, value/consumed/status exact on decoders, also on malformed inputs
  check_enc2_c12(rep, tier, rng)   carquet-encode -> independent reference decoder (checks/enc_ref.py, and the
                                   extracted Coq specification Enc/*Spec.v), reference-encode (incl. legal forms
                                   carquet never emits) -> carquet-decode; Coq spec vs Python reference cross-check
  replay_enc2(obj)                 re-run a recorded case on the implementation

Drivers: harness/h_enc2.c (exact-size heap buffers, ASan+UBSan), ocaml/run_enc2.ml (Extract/Extract_enc2.v).
"""
import random, itertools, json
from pathlib import Path
import vlib
from vlib import build_driver, build_runner, run_sharded, log
import enc_ref as R

M64 = (1 << 64) - 1
M32 = (1 << 32) - 1
CORPUS = vlib.VERIF / "corpus" / "ENC2"


def nums(vs):
    return ",".join("%x" % v for v in vs) if vs else "-"


def bas(ss):
    return ",".join((s.hex() if s else ".") for s in ss) if ss else "-"


def hx(b):
    return bytes(b).hex() if b else "-"


def unhx(t):
    return b"" if t == "-" else bytes.fromhex(t)


# ===================================================================== case generation

class Case:
    """one value sequence of one encoding family"""
    __slots__ = ("fam", "par", "vals", "tag", "enc_line", "impl_enc", "model_enc")

    def __init__(self, fam, par, vals, tag=""):
        self.fam, self.par, self.vals, self.tag = fam, par, vals, tag
        self.enc_line = enc_line(fam, par, vals)
        self.impl_enc = self.model_enc = None


def enc_line(fam, par, vals):
    if fam == "plain":
        ty = par
        if ty == "ba":
            return "plain_enc ba " + bas(vals)
        if ty.startswith("flba"):
            return "plain_enc %s %s" % (ty, hx(b"".join(vals)))
        return "plain_enc %s %s" % (ty, nums(vals))
    if fam in ("d32", "d64"):
        return "%s_enc %d %s" % (fam, par, nums(vals))
    if fam in ("dl", "ds"):
        return "%s_enc %s" % (fam, bas(vals))
    if fam == "bss":
        kind, cap = par
        return "bss_enc %s %d %s" % (kind, cap, hx(b"".join(vals)))
    if fam == "dict":
        return "dict_enc %s %s" % (par, bas(vals) if par == "ba" else nums(vals))
    raise ValueError(fam)


def bss_width(kind):
    return 4 if kind == "f32" else 8 if kind == "f64" else int(kind)


def dec_line(c, data, count=None):
    """decode line for the encoded bytes `data` of case c"""
    n = len(c.vals) if count is None else count
    if c.fam == "plain":
        if c.par == "i96":
            n = len(c.vals) // 3 if count is None else count
        return "plain_dec %s %d %s" % (c.par, n, hx(data))
    if c.fam in ("d32", "d64"):
        return "%s_dec %d %s" % (c.fam, n, hx(data))
    if c.fam == "dl":
        return "dl_dec %d %s" % (n, hx(data))
    if c.fam == "ds":
        return "ds_dec %d %d %s" % (n, sum(len(s) for s in c.vals), hx(data))
    if c.fam == "bss":
        return "bss_dec %s %d %s" % (c.par[0], n, hx(data))
    raise ValueError(c.fam)


def expect_dec(c, nbytes):
    """canonical result line of a correct decoder for case c whose encoding has nbytes bytes"""
    if c.fam == "plain":
        ty = c.par
        if ty == "ba":
            return "OK %d %s" % (nbytes, bas(c.vals))
        if ty.startswith("flba"):
            return "OK %d %s" % (nbytes, hx(b"".join(c.vals)))
        if ty == "bool":
            return "OK %d %s" % (nbytes, nums([1 if v else 0 for v in c.vals]))
        return "OK %d %s" % (nbytes, nums(c.vals))
    if c.fam in ("d32", "d64"):
        return "OK %d %s" % (nbytes, nums(c.vals))
    if c.fam in ("dl", "ds"):
        return "OK %d %s" % (nbytes, bas(c.vals))
    if c.fam == "bss":
        return "OK %s" % hx(b"".join(c.vals))
    raise ValueError(c.fam)


def rb(rng, n):
    return bytes(rng.getrandbits(8) for _ in range(n))


LENS = [1, 2, 3, 31, 32, 33, 34, 64, 65, 96, 97, 127, 128, 129, 130, 256, 257, 258, 384, 385, 386]
WIDTHS64 = [0, 1, 7, 8, 9, 31, 32, 33, 40, 63, 64]


def delta_seq(rng, bits, n, w):
    """n values whose (n-1) deltas, minus their minimum, need exactly w bits (per 128-block, when n-1 >= 2)."""
    mask = (1 << bits) - 1
    base = rng.getrandbits(bits)
    off = rng.getrandbits(bits) if rng.random() < 0.7 else rng.choice([0, 1, mask, 1 << (bits - 1)])
    vals = [base]
    k = n - 1
    ds = []
    for i in range(k):
        d = rng.getrandbits(w) if w else 0
        ds.append(d)
    # make every block contain a zero and a top-bit delta when possible
    for s in range(0, k, 128):
        blk = range(s, min(s + 128, k))
        if len(blk) >= 2 and w:
            i, j = rng.sample(list(blk), 2)
            ds[i] = 0
            ds[j] = (1 << (w - 1)) | rng.getrandbits(w - 1) if w > 1 else 1
    if w == bits and k >= 2:
        ds[0], ds[1] = 0, mask        # full range
    for d in ds:
        vals.append((vals[-1] + off + d) & mask)
    return vals


def delta_struct(rng, bits, classes, cut=0):
    """values whose mini-blocks (32 deltas each, 4 per block) have the given width classes: 0 = width 0 (all deltas equal
    the block's min delta), 1 = narrow, 2 = wide (INT64: 33..62 bits; INT32: 17..30 bits).  `cut` values are dropped from the
    end (partial last mini-block)."""
    mask = (1 << bits) - 1
    narrow = lambda: rng.choice([1, 2, 7, 8, 9, 16, 31, 32] if bits == 64 else [1, 2, 7, 8, 9, 16])
    wide = lambda: rng.choice([33, 34, 40, 47, 48, 56, 59, 61, 62] if bits == 64 else [17, 24, 25, 30])
    vals = [rng.getrandbits(bits)]
    for b in range(0, len(classes), 4):
        m = -rng.getrandbits(rng.choice([1, 20, bits - 3])) - 1 if rng.random() < 0.7 else rng.getrandbits(rng.choice([1, 12, bits - 3]))
        blk = classes[b:b + 4]
        for j, c in enumerate(blk):
            w = 0 if c == 0 else narrow() if c == 1 else wide()
            offs = [rng.getrandbits(w) if w else 0 for _ in range(32)]
            if w:
                offs[rng.randrange(32)] = (1 << (w - 1)) | rng.getrandbits(w - 1) if w > 1 else 1
            if j == 0 and 0 not in blk:
                offs[rng.randrange(32)] = 0           # the block's min delta must occur
                if w and not any(o >> (w - 1) for o in offs):
                    offs[[i for i, o in enumerate(offs) if o][0] if any(offs) else 0] |= 1 << (w - 1)
            for o in offs:
                vals.append((vals[-1] + m + o) & mask)
    return vals[:len(vals) - cut] if cut else vals


def gen_delta(tier, rng, fam):
    bits = 64 if fam == "d64" else 32
    mask = (1 << bits) - 1
    lo, hi = 1 << (bits - 1), (1 << (bits - 1)) - 1       # INT_MIN, INT_MAX patterns
    out = []
    cap = lambda n: 2000 + 10 * n
    widths = [w for w in WIDTHS64 if w <= bits]
    reps = 3 if tier == "thorough" else 1
    for _ in range(reps):
        for w in widths:
            for n in LENS:
                out.append(Case(fam, cap(n), delta_seq(rng, bits, n, w), "w%d" % w))
    # every width once more at two random lengths
    for w in range(bits + 1):
        for n in (rng.choice(LENS), rng.randrange(2, 300)):
            out.append(Case(fam, cap(n), delta_seq(rng, bits, n, w), "w%d" % w))
    # mini-block STRUCTURE: every sequence of width classes {0, narrow, wide} over the 4 mini-blocks of one block, and
    # sampled (thorough: many more) sequences over the 8 mini-blocks of two blocks, last mini-block full or partial
    import itertools as _it
    classes = [0, 1, 2]
    one = list(_it.product(classes, repeat=4))
    two_all = list(_it.product(classes, repeat=8))
    two = rng.sample(two_all, 1500 if tier == "thorough" else 90) + \
        [t for t in two_all if t[:4] in ((0, 2, 0, 0), (0, 0, 2, 0), (2, 0, 2, 0)) and t[4:] in ((0, 2, 0, 2), (0, 0, 0, 0))]
    for st in one + two:
        for cut in ((0, rng.randrange(1, 32)) if len(st) == 4 or rng.random() < 0.3 else (0,)):
            out.append(Case(fam, cap(32 * len(st) + 1), delta_struct(rng, bits, st, cut), "struct"))
    # extremes and wrap-around
    ext = [lo, hi, 0, 1, mask, mask - 1, lo + 1, hi - 1]
    for n in (1, 2, 3, 4, 33, 129, 130, 257):
        out.append(Case(fam, cap(n), [lo if i % 2 == 0 else hi for i in range(n)], "minmax"))
        out.append(Case(fam, cap(n), [hi if i % 2 == 0 else lo for i in range(n)], "maxmin"))
        out.append(Case(fam, cap(n), [0 if i % 2 == 0 else mask for i in range(n)], "0/-1"))
        out.append(Case(fam, cap(n), [rng.choice(ext) for _ in range(n)], "extremes"))
        out.append(Case(fam, cap(n), [7] * n, "const"))
        out.append(Case(fam, cap(n), [(1000 + 3 * i) & mask for i in range(n)], "ramp"))
        out.append(Case(fam, cap(n), [(5 - i * i) & mask for i in range(n)], "parabola"))
    # a different width in every mini-block
    for _ in range(20 * reps):
        n = rng.choice([130, 257, 258, 300, 385])
        vals = [rng.getrandbits(bits)]
        while len(vals) < n:
            w = rng.choice(widths + [rng.randrange(bits + 1)])
            for _ in range(min(32, n - len(vals))):
                vals.append((vals[-1] + (rng.getrandbits(w) if w else 0)) & mask)
        out.append(Case(fam, cap(n), vals, "mixed"))
    # random walks
    for _ in range(60 * reps):
        n = rng.randrange(1, 200)
        s = rng.choice([1, 3, 8, 17, 30, bits - 1])
        vals = [rng.getrandbits(bits)]
        for _ in range(n - 1):
            vals.append((vals[-1] + rng.getrandbits(s) - (1 << s >> 1)) & mask)
        out.append(Case(fam, cap(n), vals, "walk"))
    # bounded-exhaustive over a small alphabet of extreme values
    alpha = [0, 1, lo, mask] if fam == "d64" else [0, 1, lo, mask, hi]
    maxlen = (6 if fam == "d64" else 5) if tier == "thorough" else (5 if fam == "d64" else 4)
    for n in range(1, maxlen + 1):
        for t in itertools.product(alpha, repeat=n):
            out.append(Case(fam, 400, list(t), "exh"))
    # zero values and capacity boundaries (model tie: OK / ENCODE at the same capacities)
    out.append(Case(fam, 100, [], "empty"))
    out.append(Case(fam, 0, [], "empty"))
    for _ in range(40 * reps):
        n = rng.choice([1, 2, 3, 33, 129, 130])
        vals = delta_seq(rng, bits, n, rng.choice(widths))
        need = len(R.delta_enc(vals, bits=bits))
        for c in {39, 40, need, need + 13, need + 14, rng.randrange(0, need + 20)}:
            out.append(Case(fam, c, vals, "cap"))
    return out


WORDS = [b"", b"a", b"ab", b"abc", b"abd", b"abcde", b"b", b"ba", b"parquet", b"parquetry", b"park", b"\x00", b"\x00\x00", b"\xff" * 3]


def gen_strings(tier, rng, fam):
    out = []
    reps = 3 if tier == "thorough" else 1
    out.append(Case(fam, None, [], "empty-list"))
    for s in (b"", b"x", b"hello", rb(rng, 300), rb(rng, 1000)):
        out.append(Case(fam, None, [s], "single"))
    for n in (2, 3, 32, 33, 129, 130, 257):
        out.append(Case(fam, None, [b""] * n, "all-empty"))
        out.append(Case(fam, None, [b"same"] * n, "all-equal"))
        out.append(Case(fam, None, [rng.choice(WORDS) for _ in range(n)], "words"))
        srt = sorted(rb(rng, rng.randrange(0, 6)) + b"k" * rng.randrange(0, 3) for _ in range(n))
        out.append(Case(fam, None, srt, "sorted"))
        # growing / shrinking shared prefixes
        base = rb(rng, 40)
        out.append(Case(fam, None, [base[:i % 41] for i in range(n)], "grow"))
        out.append(Case(fam, None, [base[:40 - i % 41] + bytes([i & 255]) for i in range(n)], "shrink"))
    for _ in range(80 * reps):
        n = rng.randrange(1, 60)
        pool = [rb(rng, rng.choice([0, 1, 2, 5, 17, 70])) for _ in range(4)]
        vals = []
        for _ in range(n):
            p = rng.choice(pool)
            vals.append(p[:rng.randrange(0, len(p) + 1)] + rb(rng, rng.choice([0, 0, 1, 3])))
        out.append(Case(fam, None, vals, "pool"))
    # successive values that share k >= 8 bytes and then differ in exactly ONE byte, at every offset 0..15 of the following
    # two 8-byte words (word-at-a-time prefix search: the position of the differing byte inside the word matters)
    for k in (8, 9, 15, 16, 24, 40):
        base = rb(rng, k + 24)
        for off in range(16):
            x = bytearray(base); x[k + off] ^= rng.choice([1, 0x80, 0xFF, 0x10])
            out.append(Case(fam, None, [base, bytes(x)], "flip1"))
        chain = [base]
        for off in rng.sample(range(16), 16):
            x = bytearray(chain[-1]); x[k + off] ^= rng.choice([1, 2, 0x40, 0x80])
            chain.append(bytes(x))
        out.append(Case(fam, None, chain, "flip-chain"))
    for _ in range(40 * reps):        # sparse flips anywhere, records like "...;shard=01;kind=..." / "...;shard=02;kind=..."
        n, ln = rng.randrange(2, 40), rng.choice([8, 12, 17, 32, 33, 64])
        cur = bytearray(rb(rng, ln)); vals = [bytes(cur)]
        for _ in range(n - 1):
            for _ in range(rng.choice([1, 1, 1, 2])):
                cur[rng.randrange(ln)] ^= 1 << rng.randrange(8)
            if rng.random() < 0.15:
                cur = cur[:rng.randrange(8, ln + 1)] + bytearray(rb(rng, rng.randrange(0, 4)))
                ln = len(cur) if len(cur) >= 8 else ln
                if len(cur) < 8:
                    cur = bytearray(rb(rng, 8)); ln = 8
            vals.append(bytes(cur))
        out.append(Case(fam, None, vals, "sparse-flip"))
    # one long string among short ones (wide length deltas)
    for big in (300, 5000, 70000):
        out.append(Case(fam, None, [b"", bytes(big), b""], "long"))
        out.append(Case(fam, None, [b"q", b"q" * big, b"q" * big + b"r", b""], "long"))
    # bounded-exhaustive: all lists of up to 4 strings over {"", "a", "ab", "b"}
    al = [b"", b"a", b"ab", b"b"]
    for n in range(1, 5 if tier == "thorough" else 4):
        for t in itertools.product(al, repeat=n):
            out.append(Case(fam, None, list(t), "exh"))
    return out


def gen_bss(tier, rng):
    out = []
    kinds = ["f32", "f64"] + [str(k) for k in range(1, 17)]
    counts = list(range(0, 71))
    for kind in kinds:
        k = bss_width(kind)
        cs = counts if (tier == "thorough" or kind in ("f32", "f64")) else sorted(set(rng.sample(counts, 18) + [0, 1, 2, 7, 8, 9, 15, 16, 17, 31, 32, 33, 63, 64, 65, 70]))
        for n in cs:
            if rng.random() < 0.5:
                vals = [rb(rng, k) for _ in range(n)]
            else:
                vals = [bytes(((i * 16 + j) & 255) for j in range(k)) for i in range(n)]
            out.append(Case("bss", (kind, n * k), vals, kind))
        for n in (3, 17):
            out.append(Case("bss", (kind, n * k - 1), [rb(rng, k) for _ in range(n)], "cap-1"))
            out.append(Case("bss", (kind, n * k + 5), [rb(rng, k) for _ in range(n)], "cap+5"))
    for kind in ("f32", "f64"):
        k = bss_width(kind)
        for n in (100, 127, 128, 129, 255, 256, 257, 1000):
            out.append(Case("bss", (kind, n * k), [rb(rng, k) for _ in range(n)], kind + "-long"))
    # value counts around powers of two where an implementation may cut its work into blocks: the K streams must
    # still be whole-input streams (too large for the extracted model: implementation against the specification only)
    big = [4095, 4096, 4097, 32767, 32768, 32769, 65535, 65536, 65537]
    if tier == "thorough":
        big += [8191, 8192, 8193, 16383, 16384, 16385, 100003, 131073]
    for kind in ("f32", "f64", "4", "3"):
        k = bss_width(kind)
        for n in (big if kind in ("f32", "f64") else [4097, 32769]):
            raw = rng.randbytes(n * k)
            out.append(Case("bss", (kind, n * k), [raw[i * k:(i + 1) * k] for i in range(n)], "big"))
    return out


F32_SPECIAL = [0x00000000, 0x80000000, 0x7FC00000, 0x7FC00001, 0xFFC00000, 0x7F800000, 0xFF800000, 0x3F800000, 0x00000001]
F64_SPECIAL = [0x0, 0x8000000000000000, 0x7FF8000000000000, 0x7FF8000000000001, 0xFFF8000000000000,
               0x7FF0000000000000, 0xFFF0000000000000, 0x3FF0000000000000, 0x1]


def gen_plain(tier, rng):
    out = []
    counts = list(range(0, 41)) + [63, 64, 65, 70, 127, 128, 129]
    for n in counts:
        out.append(Case("plain", "bool", [rng.getrandbits(1) for _ in range(n)], "bool"))
        out.append(Case("plain", "bool", [rng.choice([0, 1, 2, 255, 128]) for _ in range(n)], "bool-nonzero"))
    for n in (0, 1, 2, 3, 7, 8, 9, 33, 70):
        out.append(Case("plain", "i32", [rng.choice([0, 1, M32, 1 << 31, (1 << 31) - 1, rng.getrandbits(32)]) for _ in range(n)], "i32"))
        out.append(Case("plain", "i64", [rng.choice([0, 1, M64, 1 << 63, (1 << 63) - 1, rng.getrandbits(64)]) for _ in range(n)], "i64"))
        out.append(Case("plain", "f32", [rng.choice(F32_SPECIAL + [rng.getrandbits(32)]) for _ in range(n)], "f32"))
        out.append(Case("plain", "f64", [rng.choice(F64_SPECIAL + [rng.getrandbits(64)]) for _ in range(n)], "f64"))
        out.append(Case("plain", "i96", [rng.choice([0, M32, rng.getrandbits(32)]) for _ in range(3 * n)], "i96"))
        out.append(Case("plain", "ba", [rng.choice(WORDS + [rb(rng, rng.randrange(0, 40))]) for _ in range(n)], "ba"))
    out.append(Case("plain", "ba", [rb(rng, 70000), b"", rb(rng, 3)], "ba-long"))
    for w in range(1, 17):
        for n in (0, 1, 2, 5, 33):
            out.append(Case("plain", "flba%d" % w, [rb(rng, w) for _ in range(n)], "flba"))
    # bounded-exhaustive booleans: every sequence up to length 10
    for n in range(1, 11 if tier == "thorough" else 10):
        for t in itertools.product([0, 1], repeat=n):
            out.append(Case("plain", "bool", list(t), "bool-exh"))
    return out


def fnv1a_pairs(width, n, rng):
    """fallback when the builder's own hash cannot be called: pairs of `width`-byte values with equal 32-bit FNV-1a"""
    seen, pairs = {}, []
    base = rng.getrandbits(8 * width)
    for i in range(n):
        v = (base + i // 2) & ((1 << (8 * width)) - 1) if i & 1 else rng.getrandbits(8 * width)
        h = 0x811C9DC5
        for b in v.to_bytes(width, "little"):
            h = ((h ^ b) * 0x01000193) & 0xFFFFFFFF
        if h in seen and seen[h] != v:
            pairs.append((seen[h], v))
        seen[h] = v
    return pairs


def hash_collisions(rep, tier, rng):
    """{4: [(a, b), ...], 8: [...]}: distinct values to which the dictionary builder's hash gives the same 32 bits"""
    n = 600000 if tier == "thorough" else 300000
    try:
        drv = build_driver("h_enc2hash")
        out, rc, err = vlib.run_lines(drv, ["scan 4 %d %d 24" % (n, rng.getrandbits(30)), "scan 8 %d %d 12" % (n, rng.getrandbits(30))])
        if rc != 0 or len(out) != 2 or not all(o.startswith("OK") for o in out):
            raise vlib.BuildError("hash driver failed: %s %s" % (out, err[-300:]))
        res = {}
        for w, o in zip((4, 8), out):
            t = o.split()[1]
            res[w] = [tuple(int(x, 16) for x in p.split(":")) for p in t.split(",")] if t != "-" else []
        rep.cov.setdefault("input_distribution", {})["enc2_hash_collisions"] = {"source": "dict_hash of the working tree", "w4": len(res[4]), "w8": len(res[8])}
        return res
    except vlib.BuildError as e:
        log("enc2: harness/h_enc2hash.c does not build against this tree (%s); FNV-1a pairs from Python instead" % str(e)[-200:])
        res = {4: fnv1a_pairs(4, 150000, rng)[:24], 8: fnv1a_pairs(8, 150000, rng)[:12]}
        rep.cov.setdefault("input_distribution", {})["enc2_hash_collisions"] = {"source": "FNV-1a in Python (fallback)", "w4": len(res[4]), "w8": len(res[8])}
        return res


def gen_dict_collisions(tier, rng, coll):
    out = []
    p4, p8 = coll.get(4, []), coll.get(8, [])
    for ty, pairs, w in (("i32", p4, 4), ("f32", p4, 4), ("i64", p8, 8), ("f64", p8, 8)):
        for a, b in pairs[:12 if tier == "thorough" else 6]:
            out.append(Case("dict", ty, [a, b, a, b, b, a], "hash-collision"))
            out.append(Case("dict", ty, [b, 7, a, 7, a, b], "hash-collision"))
        if pairs:
            allv = [v for pr in pairs for v in pr]
            out.append(Case("dict", ty, [rng.choice(allv) for _ in range(200)] + allv, "hash-collision"))
    for pairs, w in ((p4, 4), (p8, 8)):
        for a, b in pairs[:6]:
            out.append(Case("dict", "ba", [a.to_bytes(w, "little"), b.to_bytes(w, "little"), b"x", a.to_bytes(w, "little"),
                                           b.to_bytes(w, "little")], "hash-collision"))
    # many distinct values: long chains in the 1024 buckets
    for ty, bits in (("i32", 32), ("i64", 64)):
        u = rng.sample(range(1 << 24), 3000)
        out.append(Case("dict", ty, u + [rng.choice(u) for _ in range(500)], "bucket-chains"))
    out.append(Case("dict", "ba", [rb(rng, rng.choice([1, 2, 3, 4])) for _ in range(2500)], "bucket-chains"))
    return out


def gen_dict(tier, rng):
    out = []
    for ty, bits, special in (("i32", 32, [0, 1, M32, 1 << 31]), ("i64", 64, [0, 1, M64, 1 << 63]),
                              ("f32", 32, F32_SPECIAL), ("f64", 64, F64_SPECIAL)):
        out.append(Case("dict", ty, [], "empty"))
        for n in (1, 2, 7, 8, 9, 100):
            out.append(Case("dict", ty, [special[1]] * n, "all-equal"))
        for k in (1, 2, 3, 4, 5, 8, 9, 16, 17, 32, 33, 64, 65, 128, 129, 256, 257, 300):
            uniq = rng.sample(range(1 << 20), k)
            out.append(Case("dict", ty, list(uniq), "all-unique-%d" % k))
            vals = list(uniq) + [rng.choice(uniq) for _ in range(rng.randrange(0, 40))]
            out.append(Case("dict", ty, list(vals), "entries-%d" % k))
            rng.shuffle(vals)
            out.append(Case("dict", ty, list(vals), "entries-%d" % k))
        for n in (5, 20, 70):
            out.append(Case("dict", ty, [rng.choice(special) for _ in range(n)], "special"))
            out.append(Case("dict", ty, [rng.getrandbits(bits) for _ in range(n)], "random"))
            out.append(Case("dict", ty, [rng.choice(special[:3]) for _ in range(8)] * (n // 8 + 1), "runs"))
        for n in range(1, 7 if tier == "thorough" else 6):
            for t in itertools.product(special[:3], repeat=n):
                out.append(Case("dict", ty, list(t), "exh"))
    # more values than the builder's initial index capacity (1024, doubled on demand)
    for ty, bits in (("i32", 32), ("f64", 64)):
        for n in ((1024, 1025, 2049, 5000) if tier == "thorough" or ty == "i32" else (1025, 2500)):
            pool = [rng.getrandbits(bits) for _ in range(rng.choice([3, 40]))]
            out.append(Case("dict", ty, [rng.choice(pool) for _ in range(n)], "many-values"))
    out.append(Case("dict", "ba", [rng.choice(WORDS) for _ in range(1500)], "many-values"))
    out.append(Case("dict", "ba", [], "empty"))
    for n in (1, 2, 9, 40, 130):
        out.append(Case("dict", "ba", [rng.choice(WORDS) for _ in range(n)], "ba-words"))
        out.append(Case("dict", "ba", [rb(rng, rng.randrange(0, 9)) for _ in range(n)], "ba-random"))
        out.append(Case("dict", "ba", [b"", b"\x00", b"\x00\x00"] * n, "ba-zeros"))
    return out


def gen_all(tier, rng, coll=None):
    cs = []
    cs += gen_dict_collisions(tier, rng, coll or {})
    cs += gen_plain(tier, rng)
    cs += gen_bss(tier, rng)
    cs += gen_delta(tier, rng, "d64")
    cs += gen_delta(tier, rng, "d32")
    cs += gen_strings(tier, rng, "dl")
    cs += gen_strings(tier, rng, "ds")
    cs += gen_dict(tier, rng)
    return cs


# ===================================================================== shared preparation (encode round)

_STATE = {}


def _prepare(rep, tier, rng):
    key = tier
    if key in _STATE:
        return _STATE[key]
    st = {"ok": False}
    _STATE[key] = st
    try:
        st["drv"] = build_driver("h_enc2")
        st["run"] = build_runner("enc2")
    except vlib.BuildError as e:
        rep.tie_broken("enc2 harness/runner does not build against the current tree: " + str(e)[-800:])
        return st
    cases = gen_all(tier, rng, hash_collisions(rep, tier, rng))
    lines = [c.enc_line for c in cases]
    impl, p1 = run_sharded(st["drv"], lines)
    model, p2 = run_sharded(st["run"], lines)
    st["died_enc"] = p1
    st["died_enc_model"] = p2
    st["unparsable"] = []
    for c, a, b in zip(cases, impl, model):
        c.impl_enc, c.model_enc = _wellformed(c, a, st["unparsable"]), b
    st["cases"] = cases
    # the same encoders on NON-EMPTY output buffers (they append: level bytes of a page, an earlier page, ...)
    pcs, plines = [], []
    for c in cases:
        if c.fam not in ("plain", "dl", "ds", "dict") or c.tag == "big":
            continue
        if c.tag in ("exh", "bool-exh") and rng.random() > 0.05:
            continue
        if rng.random() > (1.0 if tier == "thorough" else 0.4) and c.tag not in ("words", "single", "ba", "long"):
            continue
        pre = rb(rng, rng.choice([1, 2, 9, 9, 60, 300, 5000]))
        t = c.enc_line.split()
        plines.append("%sp %s %s" % (t[0], " ".join(t[1:]), hx(pre)))
        pcs.append((c, pre))
    impl, p1 = run_sharded(st["drv"], plines)
    model, p2 = run_sharded(st["run"], plines)
    st["prefix"] = [(c, pre, l, a, b) for (c, pre), l, a, b in zip(pcs, plines, impl, model)]
    st["died_prefix"] = p1
    st["ok"] = True
    return st


def prefix_expect(c, pre):
    """what an appending encoder must leave in a buffer that held `pre`: pre, then its encoding on an empty buffer"""
    t = c.impl_enc.split()
    if t[0] != "OK":
        return c.impl_enc
    if c.fam == "dict":
        return "OK %s %s %s" % (hx(pre + unhx(t[1])), hx(pre + unhx(t[2])), " ".join(t[3:]))
    return "OK " + hx(pre + unhx(t[1]))


def _wellformed(c, a, bad):
    """the driver's answer to an encode line, or 'FAULT unparsable ...' (recorded in bad) when it does not have the agreed shape:
    later code may then split an OK line without looking again"""
    try:
        t = a.split()
        if not t:
            raise ValueError("empty line")
        if t[0] == "OK":
            need = 6 if c.fam == "dict" else 2
            if len(t) != need:
                raise ValueError("%d tokens" % len(t))
            unhx(t[1])
            if c.fam == "dict":
                unhx(t[2]); int(t[3]); int(t[4])
                [int(x, 16) for x in t[5].split(",")] if t[5] != "-" else []
        elif t[0] not in ("ERR", "FAULT"):
            raise ValueError("unknown status")
        return a
    except (ValueError, IndexError) as e:
        bad.append((c, a, str(e)))
        return "FAULT unparsable driver output"


def _legit_refusal(c):
    """an encoder may refuse for capacity (d32/d64/bss cases made with a small cap) and for an empty list (dl/ds)"""
    return (c.fam in ("d32", "d64") and c.tag == "cap") or (c.fam in ("dl", "ds") and not c.vals) \
        or (c.fam == "bss" and c.tag == "cap-1") or (c.fam in ("d32", "d64") and c.par < 40 and c.vals)


def _dist(cases):
    d = {}
    for c in cases:
        k = c.fam + (":" + c.par if c.fam in ("plain", "dict") and isinstance(c.par, str) else "")
        d[k] = d.get(k, 0) + 1
    return d


def _rp(kind, line, expect=None, **kw):
    o = {"engine": "enc2", "kind": kind, "case": line}
    if expect is not None:
        o["expected"] = expect
    o.update(kw)
    return o


def _corpus_lines():
    out = []
    if CORPUS.exists():
        for f in sorted(CORPUS.glob("*.txt")):
            for ln in f.read_text().splitlines():
                ln = ln.strip()
                if ln and not ln.startswith("#"):
                    exp = None
                    if " => " in ln:
                        ln, exp = ln.split(" => ", 1)
                    out.append((f.name, ln.strip(), exp.strip() if exp else None))
    return out


# ===================================================================== malformed inputs (model tie, decoders)

def mutations(rng, data, k):
    """k malformed variants of an encoded stream: truncations, byte changes, header edits, random tails"""
    out = []
    n = len(data)
    for _ in range(k):
        r = rng.random()
        b = bytearray(data)
        if r < 0.35 and n:
            out.append(bytes(b[:rng.randrange(0, n)]))
        elif r < 0.7 and n:
            for _ in range(rng.choice([1, 1, 2, 4])):
                i = rng.randrange(0, min(n, 24)) if rng.random() < 0.6 else rng.randrange(0, n)
                b[i] = rng.choice([0, 1, 0x7F, 0x80, 0xFF, 4, 32, 33, 64, 65, rng.getrandbits(8)])
            out.append(bytes(b))
        elif r < 0.8 and n:
            i = rng.randrange(0, n)
            out.append(bytes(b[:i] + b[i + 1:]))
        elif r < 0.9:
            i = rng.randrange(0, n + 1)
            out.append(bytes(b[:i]) + rb(rng, rng.randrange(1, 4)) + bytes(b[i:]))
        else:
            out.append(rb(rng, rng.randrange(0, 40)))
    return out


def delta_header(block, minis, total, first_zz):
    return R.uleb_enc(block) + R.uleb_enc(minis) + R.uleb_enc(total) + R.uleb_enc(first_zz)


def gen_malformed(tier, rng, cases):
    """decode lines (impl and model must agree exactly; a sanitizer report is a broken tie here and C08's business)"""
    lines = []
    per = 6 if tier == "thorough" else 2
    for c in cases:
        if c.fam not in ("d32", "d64", "dl", "ds", "plain", "bss") or c.impl_enc is None:
            continue
        t = c.impl_enc.split()
        if t[0] != "OK" or c.tag in ("exh", "bool-exh", "cap") and rng.random() < 0.9:
            continue
        data = unhx(t[1])
        if len(data) > 1500:
            continue
        n = len(c.vals) // 3 if c.par == "i96" else len(c.vals)
        for m in mutations(rng, data, per):
            cnt = n if rng.random() < 0.7 else rng.choice([0, 1, n + 1, max(0, n - 1), 2 * n + 3])
            lines.append(dec_line(c, m, cnt))
        # correct data, other counts
        for cnt in {0, 1, max(0, n - 1), n + 1}:
            lines.append(dec_line(c, data, cnt))
    # DELTA geometries carquet accepts although the format does not allow them, widths, counts
    for fam in ("d64", "d32"):
        for _ in range(600 if tier == "thorough" else 200):
            block = rng.choice([1, 2, 3, 4, 7, 8, 16, 31, 32, 33, 64, 96, 100, 127, 128, 129, 256, 0, 1 << 31, (1 << 32) + 4])
            minis = rng.choice([1, 2, 3, 4, 4, 4, 5, 0, 128, (1 << 32) + 4])
            total = rng.choice([0, 1, 2, 3, 5, 9, 40, 200, 1 << 31, (1 << 32) + 3])
            want = rng.choice([0, 1, 2, 3, 5, 9, 40])
            body = bytearray(delta_header(block, minis, total, rng.getrandbits(rng.choice([1, 8, 64]))))
            mbs = block // minis if minis and minis < 1000 else 1
            for _ in range(rng.randrange(0, 4)):
                body += R.uleb_enc(rng.getrandbits(rng.choice([1, 7, 33, 64])))
                ws = [rng.choice([0, 0, 1, 3, 8, 9, 31, 32, 33, 40, 63, 64, 65, 200, 255]) for _ in range(min(minis, 6))]
                body += bytes(ws)
                for w in ws:
                    if w <= 64 and mbs <= 128:
                        body += rb(rng, (mbs * w + 7) // 8)
            if rng.random() < 0.3 and body:
                body = body[:rng.randrange(0, len(body))]
            lines.append("%s_dec %d %s" % (fam, want, hx(body)))
    # dictionary decoders: index ranges, sizes
    for ty, k in (("i32", 4), ("i64", 8), ("f32", 4), ("f64", 8)):
        for _ in range(300 if tier == "thorough" else 80):
            nd = rng.randrange(0, 6)
            d = rb(rng, nd * k - (rng.random() < 0.2 and nd > 0))
            dc = rng.choice([nd, nd, nd, nd + 1, 0, -1, nd - 1 if nd else 0])
            bw = rng.choice([0, 1, 2, 3, 8, 31, 32, 32, 33, 64, 255])
            oc = rng.randrange(0, 12)
            # hand-made hybrid stream: RLE runs and bit-packed groups of in-range and out-of-range indices
            s = bytearray([bw])
            for _ in range(rng.randrange(0, 4)):
                if rng.random() < 0.6:
                    cnt = rng.randrange(0, 12)
                    v = rng.choice([0, 1, nd - 1 if nd else 0, nd, nd + 1, (1 << bw) - 1 if bw else 0, 1 << 31 if bw == 32 else 0])
                    s += R.uleb_enc(cnt << 1) + (v & ((1 << min(bw, 32)) - 1 if bw else 0)).to_bytes((min(bw, 32) + 7) // 8, "little")
                else:
                    g = rng.randrange(1, 3)
                    vals = [rng.randrange(0, max(1, min(nd + 2, 1 << bw if bw else 1))) for _ in range(8 * g)]
                    s += R.uleb_enc((g << 1) | 1) + (R.bitpack(vals, min(bw, 32)) if bw else b"")
            if rng.random() < 0.2 and s:
                s = s[:rng.randrange(0, len(s))]
            lines.append("dict_dec %s %d %d %s %s" % (ty, dc, oc, hx(d), hx(s)))
    return lines


# ===================================================================== C11

def check_enc2_c11(rep, tier, rng):
    st = _prepare(rep, tier, rng)
    if not st["ok"]:
        return
    drv, run = st["drv"], st["run"]
    cases = st["cases"]
    for pr in st["died_enc"]:
        rep.violation("enc2: an encoder died on a valid value sequence (rc=%s): %s" % (pr[1], pr[2][-500:]),
                      _rp("line", pr[3]))
    for pr in st["died_enc_model"]:
        rep.tie_broken("enc2 model runner died (rc=%s): %s" % (pr[1], pr[2][-300:]), pr[3])
    for c, a, why in st["unparsable"]:
        rep.violation("enc2: unparsable answer of the %s encoder driver (%s): %s" % (c.fam, why, a[:200]), _rp("line-ok", c.enc_line, impl=a[:400]))

    # ---- corpus first
    corpus = _corpus_lines()
    if corpus:
        ci, _ = run_sharded(drv, [l for _, l, _ in corpus], shards=4)
        cm, _ = run_sharded(run, [l for _, l, _ in corpus], shards=4)
        for (fn, l, exp), a, b in zip(corpus, ci, cm):
            rep.count("corpus " + l)
            if exp is not None and a != exp:
                rep.violation("enc2 corpus case %s: implementation gives %s, expected %s" % (fn, a[:200], exp[:200]),
                              _rp("line", l, exp, impl=a))
            if b != "SKIP" and not b.startswith("RUNNER-ERROR") and a != b:
                rep.tie_broken("enc2 corpus case %s: model %s / implementation %s" % (fn, b[:200], a[:200]), l)

    # ---- encoders: model tie (byte exact), then decode round
    dec_cases, dec_lines = [], []
    dict_cases, dict_lines = [], []
    for c in cases:
        a, b = c.impl_enc, c.model_enc
        if b != "SKIP" and a != b:
            rep.tie_broken("enc2 encoder model differs from implementation (%s %s): model %s / impl %s"
                           % (c.fam, c.tag, b[:160], a[:160]), c.enc_line[:2000])
        t = a.split()
        if t[0] != "OK":
            # an encoder may refuse for capacity (d32/d64/bss with a small cap) and for an empty list (dl/ds); anything
            # else is a failure of the property on a valid value sequence
            legit = _legit_refusal(c)
            rep.count(c.enc_line, nontrivial=False)
            if not legit:
                rep.violation("enc2: %s encoder rejects a valid value sequence (%s): %s" % (c.fam, c.tag, a),
                              _rp("line-ok", c.enc_line, impl=a))
            continue
        if c.fam == "dict":
            dict_cases.append(c)
            continue
        data = unhx(t[1])
        dec_cases.append((c, len(data)))
        dec_lines.append(dec_line(c, data))
    impl, p1 = run_sharded(drv, dec_lines)
    model, p2 = run_sharded(run, dec_lines)
    for pr in p1:
        rep.violation("enc2: a decoder died on carquet's own output (rc=%s): %s" % (pr[1], pr[2][-500:]), _rp("line", pr[3]))
    for pr in p2:
        rep.tie_broken("enc2 model runner died (rc=%s): %s" % (pr[1], pr[2][-300:]), pr[3])
    for (c, nb), l, a, b in zip(dec_cases, dec_lines, impl, model):
        rep.count(c.enc_line, nontrivial=len(c.vals) > 0)
        if c.fam in ("d32", "d64") and not c.vals:
            # zero values: the encoder writes nothing and the decoder needs a header (stated as delta_empty_* in Coq)
            want = "ERR 40"
        elif c.fam == "bss" and c.tag == "cap+5":
            want = expect_dec(c, nb)
        else:
            want = expect_dec(c, nb)
        if a != want:
            rep.violation("enc2 round trip fails: %s %s decode(encode(v)) gives %s, expected %s"
                          % (c.fam, c.tag, a[:200], want[:200]),
                          _rp("roundtrip", l, want, encode=c.enc_line, impl=a, dec_prefix=" ".join(l.split()[:-1]),
                              want_vals=want.split()[-1], with_count=(c.fam != "bss")))
        if b != "SKIP" and a != b:
            rep.tie_broken("enc2 decoder model differs from implementation (%s %s): model %s / impl %s"
                           % (c.fam, c.tag, b[:160], a[:160]), l[:2000])

    # ---- PLAIN through the generic entry point carquet_decode_plain (what the page reader calls): same result
    gl = [("plain_decg " + l.split(" ", 1)[1], expect_dec(c, nb)) for (c, nb), l in zip(dec_cases, dec_lines)
          if c.fam == "plain" and (c.tag != "bool-exh" or rng.random() < 0.2)]
    gl.append(("plain_decg bad 1 0000000000000000", "ERR -1"))      # a physical type that does not exist
    impl, p1 = run_sharded(drv, [l for l, _ in gl])
    model, _ = run_sharded(run, [l for l, _ in gl])
    for pr in p1:
        rep.violation("enc2: carquet_decode_plain died on carquet's own output (rc=%s): %s" % (pr[1], pr[2][-400:]), _rp("line", pr[3]))
    for (l, want), a, b in zip(gl, impl, model):
        rep.count(l)
        if a != want:
            rep.violation("enc2 round trip fails through the generic carquet_decode_plain: %s, expected %s" % (a[:160], want[:160]),
                          _rp("line-expect", l, want, impl=a))
        if b != "SKIP" and a != b:
            rep.tie_broken("enc2 model differs on carquet_decode_plain: model %s / impl %s" % (b[:120], a[:120]), l[:2000])

    # ---- the library's own size estimates are upper bounds: *_max_encoded_size >= bytes really appended;
    #      delta_strings_work_buffer_size is enough work buffer to decode the strings back
    bl, bm = [], []
    for c in cases:
        if c.fam in ("dl", "ds") and c.vals and (c.impl_enc or "").startswith("OK") and (c.tag != "exh" or rng.random() < 0.3):
            bl.append("str_bounds %s %s" % (c.fam, bas(c.vals)))
            bm.append(c)
    big_lines = ["dl_big 1000", "dl_big 8388608", "dl_big 16777216", "dl_big 134217728", "ds_big 16777216", "ds_big2 16777216",
                 "ds_big2 33554432"]
    impl, p1 = run_sharded(drv, bl + big_lines)
    for pr in p1:
        rep.violation("enc2: size-estimate driver died (rc=%s): %s" % (pr[1], pr[2][-400:]), _rp("line", pr[3]))
    for l, a, c in zip(bl + big_lines, impl, bm + [None] * len(big_lines)):
        rep.count(l)
        t = a.split()
        bad = None
        if not t or t[0] != "OK":
            bad = "the encoder fails: " + a
        elif len(t) not in (3, 6) or not all(x.lstrip("-").isdigit() for x in t[1:]):
            bad = "unparsable answer: " + a[:200]
        elif int(t[1]) > int(t[2]):
            bad = "max_encoded_size %s is below the %s bytes really written" % (t[2], t[1])
        elif c is not None and int(t[1]) != len(unhx(c.impl_enc.split()[1])):
            bad = "encoded size %s differs from the first encoding (%d bytes)" % (t[1], len(unhx(c.impl_enc.split()[1])))
        elif c is not None and c.fam == "ds" and (int(t[3]) != sum(len(x) for x in c.vals) or t[4] != "0" or t[5] != "1"):
            bad = "work_buffer_size %s (sum of lengths %d): decode with exactly that work buffer gives status %s, same values %s" \
                  % (t[3], sum(len(x) for x in c.vals), t[4], t[5])
        if bad:
            rep.violation("enc2: size estimate of %s: %s" % (l.split()[0] + " " + l.split()[1][:20], bad), _rp("bounds", l, impl=a))

    # ---- dictionary: decode through the four typed decoders; byte arrays through a PLAIN reading of the dictionary page
    dl, meta = [], []
    for c in dict_cases:
        t = c.impl_enc.split()
        dpage, ix, bw, got, idx = t[1], t[2], int(t[3]), int(t[4]), t[5]
        idxs = [int(x, 16) for x in idx.split(",")] if idx != "-" else []
        rep.count(c.enc_line, nontrivial=len(c.vals) > 0)
        if c.par == "ba":
            try:
                entries, used = R.plain_dec("ba", unhx(dpage), len(set(c.vals)))
            except R.SpecError as e:
                entries, used = None, str(e)
            back = [entries[i] for i in idxs] if entries is not None and all(i < len(entries) for i in idxs) else None
            if back != c.vals or used != len(unhx(dpage)):
                rep.violation("enc2 dictionary round trip fails (byte_array %s): indices/dictionary do not give back the values"
                              % c.tag, _rp("dict-ba", c.enc_line, impl=c.impl_enc[:400]))
            continue
        k = 4 if c.par in ("i32", "f32") else 8
        ndict = len(unhx(dpage)) // k
        if c.vals:
            dl.append("dict_dec %s %d %d %s %s" % (c.par, ndict, len(c.vals), dpage, ix))
            meta.append(c)
        # structural facts independent of the model: first-occurrence order, no duplicates
        seen = []
        for v in c.vals:
            if v not in seen:
                seen.append(v)
        want_page = b"".join(v.to_bytes(k, "little") for v in seen)
        if unhx(dpage) != want_page:
            rep.violation("enc2 dictionary page is not the distinct values in first-occurrence order (%s %s)" % (c.par, c.tag),
                          _rp("dict-page", c.enc_line, hx(want_page), impl=c.impl_enc[:400]))
    impl, p1 = run_sharded(drv, dl)
    model, p2 = run_sharded(run, dl)
    for pr in p1:
        rep.violation("enc2: dictionary decoder died on carquet's own output (rc=%s): %s" % (pr[1], pr[2][-500:]), _rp("line", pr[3]))
    for c, l, a, b in zip(meta, dl, impl, model):
        want = "OK " + nums(c.vals)
        if a != want:
            rep.violation("enc2 dictionary round trip fails (%s %s): %s, expected %s" % (c.par, c.tag, a[:200], want[:200]),
                          _rp("dict-roundtrip", l, want, encode=c.enc_line, impl=a, ty=c.par, n=len(c.vals)))
        if a != b:
            rep.tie_broken("enc2 dictionary decoder model differs (%s %s): model %s / impl %s" % (c.par, c.tag, b[:160], a[:160]), l[:2000])

    # ---- encoders on non-empty buffers: the content already there stays, what is appended is the encoding
    for pr in st["died_prefix"]:
        rep.violation("enc2: an encoder died when appending to a non-empty buffer (rc=%s): %s" % (pr[1], pr[2][-500:]), _rp("line", pr[3]))
    for c, pre, l, a, b in st["prefix"]:
        rep.count(l, nontrivial=len(c.vals) > 0)
        want = prefix_expect(c, pre)
        if a != want:
            rep.violation("enc2: %s encoder on a buffer that already holds %d bytes: the buffer is not <those bytes><encoding> (%s): %s, expected %s"
                          % (c.fam, len(pre), c.tag, a[:160], want[:160]), _rp("line-expect", l, want, impl=a))
        if b != "SKIP" and a != b:
            rep.tie_broken("enc2 encoder model differs on a non-empty buffer (%s %s): model %s / impl %s" % (c.fam, c.tag, b[:120], a[:120]), l[:2000])

    # ---- decoders given more bytes than the stream (data_size is what is available, not the encoded size): the values and
    #      the consumed count must be those of the stream; stream lengths 1+128k-1, 1+128k, 1+128k+1 always included
    sl_lines, sl_meta = [], []
    p_slack = 1.0 if tier == "thorough" else 0.25
    for (c, nb), l in zip(dec_cases, dec_lines):
        if not c.vals or (c.tag in ("exh", "bool-exh") and rng.random() > 0.1):
            continue
        n = len(c.vals)
        edge = c.fam in ("d32", "d64", "dl", "ds") and n in (127, 128, 129, 130, 256, 257, 258, 384, 385, 386)
        if not (edge or c.fam == "bss" or rng.random() < p_slack):
            continue
        data = unhx(l.split()[-1])
        if c.fam == "bss":
            k = bss_width(c.par[0])
            slacks = {1, k - 1, k, 3 * k + 2} if c.tag != "big" else {k}
        elif c.fam == "plain" and c.par in ("i32", "f32", "i64", "f64", "i96"):
            k = {"i32": 4, "f32": 4, "i64": 8, "f64": 8, "i96": 12}[c.par]
            slacks = {1, k, 2 * k + 1}
        else:
            slacks = {1, 5, rng.choice([8, 13, 40])}
        for sk in sorted(x for x in slacks if x > 0):
            tail = rng.choice([rb(rng, sk), bytes(sk), b"\xff" * sk, bytes([rng.choice([1, 2, 4, 0x80])]) * sk])
            sl_lines.append(dec_line(c, data + tail))
            sl_meta.append((c, nb, sk))
    # dictionary: more bytes after the dictionary entries and after the index stream
    for c in dict_cases:
        if c.par == "ba" or not c.vals or (c.tag == "exh" and rng.random() > 0.05) or rng.random() > max(p_slack, 0.3):
            continue
        t = c.impl_enc.split()
        k = 4 if c.par in ("i32", "f32") else 8
        nd = len(unhx(t[1])) // k
        sl_lines.append("dict_dec %s %d %d %s %s" % (c.par, nd, len(c.vals), hx(unhx(t[1]) + rb(rng, rng.choice([1, k, 9]))),
                                                     hx(unhx(t[2]) + rb(rng, rng.choice([1, 4, 11])))))
        sl_meta.append((c, None, 0))
    impl, p1 = run_sharded(drv, sl_lines)
    model, p2 = run_sharded(run, sl_lines)
    for pr in p1:
        rep.violation("enc2: a decoder died on a valid stream followed by more bytes (rc=%s): %s" % (pr[1], pr[2][-500:]), _rp("line", pr[3]))
    for (c, nb, sk), l, a, b in zip(sl_meta, sl_lines, impl, model):
        rep.count(l)
        want = "OK " + nums(c.vals) if c.fam == "dict" else expect_dec(c, nb)
        if a != want:
            rep.violation("enc2 round trip fails when %s bytes follow the stream in the buffer: %s %s (n=%d) gives %s, expected %s"
                          % (sk or "some", c.fam, c.tag, len(c.vals), a[:160], want[:160]), _rp("line-expect", l, want, impl=a))
        if b != "SKIP" and a != b:
            rep.tie_broken("enc2 decoder model differs with trailing bytes (%s %s): model %s / impl %s" % (c.fam, c.tag, b[:120], a[:120]), l[:2000])

    # ---- malformed inputs: model and implementation must agree (values, consumed, status)
    mal = gen_malformed(tier, rng, cases)
    impl, p1 = run_sharded(drv, mal)
    model, p2 = run_sharded(run, mal)
    for pr in p1:
        rep.tie_broken("enc2: a decoder died on a malformed input where the model predicts a normal return (rc=%s): %s"
                       % (pr[1], pr[2][-600:]), pr[3])
    for pr in p2:
        rep.tie_broken("enc2 model runner died (rc=%s): %s" % (pr[1], pr[2][-300:]), pr[3])
    nmal = 0
    for l, a, b in zip(mal, impl, model):
        if b == "SKIP":
            continue
        nmal += 1
        rep.count(l)
        if a != b:
            rep.tie_broken("enc2 decoder model differs on a malformed input: model %s / impl %s" % (b[:160], a[:160]), l[:2000])
    d = rep.cov.setdefault("input_distribution", {})
    d["enc2"] = dict(_dist(cases), malformed=nmal, corpus=len(corpus), non_empty_buffer=len(st["prefix"]),
                     trailing_bytes=len(sl_lines))
    rep.sample({"enc2": cases[len(cases) // 3].enc_line[:300]})
    rep.sample({"enc2": cases[-7].enc_line[:300]})


# ===================================================================== C12

def ref_decode(c, data):
    """independent decoding of carquet's bytes for case c -> (canonical values, consumed)"""
    if c.fam == "plain":
        ty = c.par
        if ty.startswith("flba"):
            w = int(ty[4:])
            v, used = R.plain_dec("flba", data, len(c.vals), w)
            return v, used
        n = len(c.vals) // 3 if ty == "i96" else len(c.vals)
        return R.plain_dec(ty, data, n)
    if c.fam == "d64":
        return R.delta_dec(data, bits=64)
    if c.fam == "d32":
        return R.delta_dec(data, bits=32, max_width=32)
    if c.fam == "dl":
        return R.delta_length_dec(data)
    if c.fam == "ds":
        return R.delta_strings_dec(data)
    if c.fam == "bss":
        k = bss_width(c.par[0])
        raw = R.bss_dec(data, k, len(c.vals))
        return [raw[i * k:(i + 1) * k] for i in range(len(c.vals))], len(data)
    raise ValueError(c.fam)


def spec_line(c, data):
    """the same question to the extracted Coq specification"""
    if c.fam == "plain":
        n = len(c.vals) // 3 if c.par == "i96" else len(c.vals)
        return "spec_plain %s %d %s" % (c.par, n, hx(data))
    if c.fam in ("d64", "d32"):
        return "spec_delta %d %s" % (64 if c.fam == "d64" else 32, hx(data))
    if c.fam == "dl":
        return "spec_dl " + hx(data)
    if c.fam == "ds":
        return "spec_ds " + hx(data)
    if c.fam == "bss":
        return "spec_bss_dec %s %d %s" % (c.par[0], len(c.vals), hx(data))


def spec_expect(c, nb):
    if c.fam in ("d64", "d32"):
        return "OK %d %s 128 4" % (nb, nums(c.vals))
    if c.fam == "bss":
        return "OK " + hx(b"".join(c.vals))
    return expect_dec(c, nb)


def ref_variants(rng, c):
    """legal encodings of c.vals by the reference encoder, including forms carquet never emits -> [(label, bytes)]"""
    out = []
    if c.fam in ("d64", "d32"):
        bits = 64 if c.fam == "d64" else 32
        if not c.vals:
            return out
        out.append(("ref", R.delta_enc(c.vals, bits=bits)))
        out.append(("junk-widths", R.delta_enc(c.vals, bits=bits, junk_widths=lambda: rng.choice([1, 7, 32, 64, 65, 255, rng.getrandbits(8)]))))
        out.append(("padded-varints", R.delta_enc(c.vals, bits=bits, varint_pad=rng.choice([1, 2]))))
        if bits == 64:
            out.append(("wider", R.delta_enc(c.vals, bits=64, widen=rng.choice([1, 2, 5]))))
            try:
                out.append(("lower-min", R.delta_enc(c.vals, bits=64, min_choice=lambda blk: min(blk) - rng.choice([1, 2, 1000]))))
            except R.SpecError:
                pass
        # padding values of the last mini-block are arbitrary: rewrite them with ones where the width allows
        out.append(("ones-padding", delta_enc_padding(c.vals, bits, rng)))
    elif c.fam == "dl":
        if c.vals:
            out.append(("ref", R.delta_length_enc(c.vals)))
            out.append(("junk-widths", R.delta_length_enc(c.vals, junk_widths=lambda: rng.getrandbits(8))))
    elif c.fam == "ds":
        if c.vals:
            out.append(("ref", R.delta_strings_enc(c.vals)))
            out.append(("junk-widths", R.delta_strings_enc(c.vals, junk_widths=lambda: rng.getrandbits(8))))
            out.append(("shorter-prefixes", R.delta_strings_enc(c.vals, shorter_prefix=lambda p: rng.randrange(0, p + 1))))
            out.append(("no-prefixes", R.delta_strings_enc(c.vals, shorter_prefix=lambda p: 0)))
    elif c.fam == "plain":
        ty = c.par
        if ty.startswith("flba"):
            out.append(("ref", R.plain_enc("flba", c.vals)))
        elif ty == "bool":
            out.append(("ref", R.plain_enc("bool", [1 if v else 0 for v in c.vals])))
            b = bytearray(out[-1][1])
            if len(c.vals) % 8 and b:
                b[-1] |= (0xFF << (len(c.vals) % 8)) & 0xFF       # padding bits of the last byte are arbitrary
                out.append(("ones-padding", bytes(b)))
        else:
            out.append(("ref", R.plain_enc(ty, c.vals)))
    elif c.fam == "bss":
        k = bss_width(c.par[0])
        out.append(("ref", R.bss_enc(b"".join(c.vals), k)))
    return out


def delta_enc_padding(vals, bits, rng):
    """reference encoding whose last mini-block is padded with non-zero values (legal)"""
    mask = (1 << bits) - 1
    sign = 1 << (bits - 1)
    sx = lambda p: (p - (1 << bits)) & M64 if p & sign else p
    out = bytearray(R.uleb_enc(128) + R.uleb_enc(4) + R.uleb_enc(len(vals)) + R.uleb_enc(R.zigzag_enc(sx(vals[0]))))
    deltas = []
    for a, b in zip(vals, vals[1:]):
        d = (b - a) & mask
        deltas.append(d - (1 << bits) if d & sign else d)
    for s in range(0, len(deltas), 128):
        blk = deltas[s:s + 128]
        md = min(blk)
        out += R.uleb_enc(R.zigzag_enc(md & M64))
        adj = [d - md for d in blk]
        ws, body = [], bytearray()
        for m in range(4):
            part = adj[m * 32:(m + 1) * 32]
            if not part:
                ws.append(rng.getrandbits(8))
                continue
            w = max(x.bit_length() for x in part)
            ws.append(w)
            body += R.bitpack(part + [rng.getrandbits(w) if w else 0 for _ in range(32 - len(part))], w)
        out += bytes(ws) + body
    return bytes(out)


def check_enc2_c12(rep, tier, rng):
    st = _prepare(rep, tier, rng)
    if not st["ok"]:
        return
    drv, run = st["drv"], st["run"]
    cases = [c for c in st["cases"] if c.fam != "dict"]

    # ---- direction 1: carquet's bytes read by the independent decoders (Python; extracted Coq spec on a subset)
    for pr in st["died_enc"] + st["died_prefix"]:
        rep.violation("enc2: an encoder died on a valid value sequence, nothing for the specification decoder to read (rc=%s): %s"
                      % (pr[1], pr[2][-500:]), _rp("line", pr[3]))
    spec_lines, spec_meta = [], []
    sub = 1.0 if tier == "thorough" else 0.35
    for c in cases:
        t = (c.impl_enc or "").split()
        if not t or t[0] != "OK":
            if not _legit_refusal(c) and not st["died_enc"]:
                rep.violation("enc2: %s encoder gives no stream for a valid value sequence (%s): %s" % (c.fam, c.tag, (c.impl_enc or "")[:100]),
                              _rp("line-ok", c.enc_line, impl=(c.impl_enc or "")[:200]))
            continue
        if c.fam in ("d64", "d32", "dl", "ds") and not c.vals:
            continue
        data = unhx(t[1])
        rep.count("c12a " + c.enc_line, nontrivial=len(c.vals) > 0)
        try:
            got, used = ref_decode(c, data)
        except R.SpecError as e:
            got, used = "reference decoder rejects the stream: %s" % e, -1
        want = [1 if v else 0 for v in c.vals] if (c.fam == "plain" and c.par == "bool") else c.vals
        if got != want or used != len(data):
            rep.violation("enc2: carquet's %s %s output is not read back by the specification decoder (%s)"
                          % (c.fam, c.tag, got if isinstance(got, str) else "values differ or %d of %d bytes used" % (used, len(data))),
                          _rp("encode-refdecode", c.enc_line, fam=c.fam, par=c.par, impl=c.impl_enc[:600]))
        if (c.fam == "plain" and rng.random() < 0.15) or \
           (c.fam != "plain" and len(data) <= 1200 and (rng.random() < sub or c.tag.startswith("w"))):
            spec_lines.append(spec_line(c, data))
            spec_meta.append((c, len(data)))
    # the same when the encoder appends to a buffer that already holds data: what follows that data must be a stream the
    # specification decoder reads back (and the data must still be there)
    for c, pre, l, a, b in st["prefix"]:
        if c.fam == "dict" or not (c.impl_enc or "").startswith("OK") or (c.fam in ("dl", "ds") and not c.vals):
            continue
        rep.count("c12p " + l, nontrivial=len(c.vals) > 0)
        t = a.split()
        whole = unhx(t[1]) if t[0] == "OK" and len(t) > 1 else None
        if whole is None or whole[:len(pre)] != pre:
            got, used, app = "the %d bytes already in the buffer were not kept (%s)" % (len(pre), a[:80]), -1, b""
        else:
            app = whole[len(pre):]
            try:
                got, used = ref_decode(c, app)
            except R.SpecError as e:
                got, used = "reference decoder rejects the appended bytes: %s" % e, -1
        want = [1 if v else 0 for v in c.vals] if (c.fam == "plain" and c.par == "bool") else c.vals
        if got != want or used != len(app):
            rep.violation("enc2: what carquet's %s encoder appends to a non-empty buffer is not read back by the specification decoder (%s, %s)"
                          % (c.fam, c.tag, got if isinstance(got, str) else "values differ or %d of %d bytes used" % (used, len(app))),
                          _rp("line-expect", l, prefix_expect(c, pre), impl=a))
    sp, p2 = run_sharded(run, spec_lines)
    for pr in p2:
        rep.tie_broken("enc2 runner died in the Coq specification decoder (rc=%s): %s" % (pr[1], pr[2][-300:]), pr[3])
    for (c, nb), l, b in zip(spec_meta, spec_lines, sp):
        want = spec_expect(c, nb)
        if b != "SKIP" and b != want:
            # Python reference accepted it (above) and the Coq specification does not: the two transcriptions differ
            rep.tie_broken("enc2: extracted Coq specification decoder disagrees on carquet's %s %s output: %s, expected %s"
                           % (c.fam, c.tag, b[:160], want[:160]), l[:2000])

    # ---- direction 2: reference-encoded streams (legal variants) through carquet's decoders and the models
    lines, meta = [], []
    keep = 1.0 if tier == "thorough" else 0.5
    for c in cases:
        if c.tag in ("cap", "cap-1", "cap+5") or (c.tag in ("exh", "bool-exh") and rng.random() > keep):
            continue
        for label, data in (ref_variants(rng, c)[:2] if c.tag in ("struct", "flip1") and tier != "thorough" else ref_variants(rng, c)):
            lines.append(dec_line(c, data))
            meta.append((c, label, len(data)))
    impl, p1 = run_sharded(drv, lines)
    model, p2 = run_sharded(run, lines)
    for pr in p1:
        rep.violation("enc2: a decoder died on a specification-conformant stream (rc=%s): %s" % (pr[1], pr[2][-500:]), _rp("line", pr[3]))
    for pr in p2:
        rep.tie_broken("enc2 model runner died (rc=%s): %s" % (pr[1], pr[2][-300:]), pr[3])
    for (c, label, nb), l in list(zip(meta, lines)):
        if c.fam == "plain" and (c.tag != "bool-exh" or rng.random() < 0.2):
            lines.append("plain_decg " + l.split(" ", 1)[1])
            meta.append((c, label + "/generic", nb))
    if len(lines) > len(impl):
        i2, p1 = run_sharded(drv, lines[len(impl):])
        m2, _ = run_sharded(run, lines[len(model):])
        for pr in p1:
            rep.violation("enc2: carquet_decode_plain died on a specification-conformant stream: %s" % pr[2][-400:], _rp("line", pr[3]))
        impl, model = impl + i2, model + m2
    vdist = {}
    for (c, label, nb), l, a, b in zip(meta, lines, impl, model):
        rep.count("c12b " + l, nontrivial=len(c.vals) > 0)
        vdist[label] = vdist.get(label, 0) + 1
        want = expect_dec(c, nb)
        if a != want:
            rep.violation("enc2: carquet's %s decoder does not return the values of a legal stream (%s, %s): %s, expected %s"
                          % (c.fam, label, c.tag, a[:200], want[:200]), _rp("line-expect", l, want, impl=a, variant=label))
        if b != "SKIP" and a != b:
            rep.tie_broken("enc2 decoder model differs on a reference stream (%s %s): model %s / impl %s" % (c.fam, label, b[:160], a[:160]), l[:2000])

    # ---- Coq specification vs Python reference on the variant streams (validation of the transcription)
    sl, sm = [], []
    for (c, label, nb), l in zip(meta, lines):
        if c.fam in ("d64", "d32", "dl", "ds") and nb <= 900 and rng.random() < (0.5 if tier == "thorough" else 0.12):
            sl.append(spec_line(c, unhx(l.split()[-1])))
            sm.append((c, label, nb))
    sp, p2 = run_sharded(run, sl)
    for (c, label, nb), l, b in zip(sm, sl, sp):
        want = spec_expect(c, nb)
        if b != "SKIP" and b != want:
            rep.tie_broken("enc2: extracted Coq specification decoder rejects/misreads a Python-reference stream (%s %s): %s, expected %s"
                           % (c.fam, label, b[:160], want[:160]), l[:2000])

    # ---- other legal block geometries: carquet must refuse them (ERR), never return wrong values
    glines, gmeta = [], []
    for fam, bits in (("d64", 64), ("d32", 32)):
        for block, minis in ((128, 1), (128, 2), (256, 2), (256, 4), (256, 8), (512, 4), (1024, 32), (384, 4)):
            for n in (1, 2, 40, 200, 300):
                vals = delta_seq(rng, bits, n, rng.choice([0, 3, 8, 17]))
                data = R.delta_enc(vals, bits=bits, block=block, nmini=minis)
                glines.append("%s_dec %d %s" % (fam, n, hx(data)))
                gmeta.append((fam, block, minis, vals, len(data)))
    impl, p1 = run_sharded(drv, glines, shards=4)
    model, _ = run_sharded(run, glines, shards=4)
    for pr in p1:
        rep.violation("enc2: delta decoder died on a legal stream with another block geometry: %s" % pr[2][-400:], _rp("line", pr[3]))
    accepted = set()
    for (fam, block, minis, vals, nb), l, a, b in zip(gmeta, glines, impl, model):
        rep.count("c12g " + l)
        if a.startswith("OK"):
            accepted.add((block, minis))
            if a != "OK %d %s" % (nb, nums(vals)):
                rep.violation("enc2: %s decoder mis-decodes a legal stream with block size %d / %d mini-blocks: %s"
                              % (fam, block, minis, a[:200]), _rp("line-expect", l, "ERR or OK %d %s" % (nb, nums(vals)), impl=a))
        if a != b:
            rep.tie_broken("enc2 decoder model differs on geometry %d/%d: model %s / impl %s" % (block, minis, b[:120], a[:120]), l[:2000])
    d = rep.cov.setdefault("input_distribution", {})
    d["enc2_c12"] = {"carquet_streams": len([c for c in cases if (c.impl_enc or "").startswith("OK")]),
                     "appended_to_non_empty_buffer": len([1 for x in st["prefix"] if x[0].fam != "dict"]),
                     "reference_streams": vdist, "coq_spec_cross_checks": len(spec_lines) + len(sl),
                     "other_geometries": len(glines),
                     "geometries_accepted_besides_128/4": sorted(accepted)}


# ===================================================================== replay

def replay_enc2(j):
    """j: the 'replay' object of a recorded violation.  Returns 1 when the implementation still misbehaves."""
    drv = build_driver("h_enc2")
    line = j.get("case")
    kind = j.get("kind")
    out, rc, err = vlib.run_lines(drv, [line])
    got = out[0] if out else "(no output)"
    print("case     :", line[:400])
    print("impl     :", got[:400], "rc", rc)
    if err:
        print(err[-1500:])
    if rc != 0 or not out:
        return 1
    if kind == "bounds":
        t = got.split()
        ok = t[0] == "OK" and int(t[1]) <= int(t[2]) and (len(t) < 6 or (t[4] == "0" and t[5] == "1"))
        print("size estimates hold:", ok)
        return 0 if ok else 1
    if kind == "roundtrip" and j.get("encode"):
        # redo the whole round trip on the current tree: encode, then decode the bytes just produced
        eo, rc, err = vlib.run_lines(drv, [j["encode"]])
        print("encode   :", (eo[0] if eo else "(died)")[:200])
        if rc != 0 or not eo or not eo[0].startswith("OK"):
            return 1
        data = eo[0].split()[1]
        dl = j["dec_prefix"] + " " + data
        do, rc, err = vlib.run_lines(drv, [dl])
        nb = 0 if data == "-" else len(data) // 2
        want = ("OK %d %s" % (nb, j["want_vals"])) if j.get("with_count") else "OK " + j["want_vals"]
        print("decode   :", (do[0] if do else "(died)")[:200])
        print("expected :", want[:200])
        return 0 if (rc == 0 and do and do[0] == want) else 1
    if kind == "dict-roundtrip":
        eo, rc, err = vlib.run_lines(drv, [j["encode"]])
        if rc != 0 or not eo or not eo[0].startswith("OK"):
            return 1
        t = eo[0].split()
        k = 4 if j["ty"] in ("i32", "f32") else 8
        nd = (0 if t[1] == "-" else len(t[1]) // 2) // k
        do, rc, err = vlib.run_lines(drv, ["dict_dec %s %d %d %s %s" % (j["ty"], nd, j["n"], t[1], t[2])])
        print("decode   :", (do[0] if do else "(died)")[:200])
        print("expected :", j["expected"][:200])
        return 0 if (rc == 0 and do and do[0] == j["expected"]) else 1
    if kind in ("dict-ba", "dict-page"):
        t = got.split()
        if t[0] != "OK":
            return 1
        toks = line.split()
        if toks[1] == "ba":
            vals = [b"" if x == "." else bytes.fromhex(x) for x in toks[2].split(",")] if toks[2] != "-" else []
            idxs = [int(x, 16) for x in t[5].split(",")] if t[5] != "-" else []
            try:
                entries, used = R.plain_dec("ba", unhx(t[1]), len(set(vals)))
            except R.SpecError:
                return 1
            ok = all(i < len(entries) for i in idxs) and [entries[i] for i in idxs] == vals and used == len(unhx(t[1]))
            print("dictionary page + indices give the values back:", ok)
            return 0 if ok else 1
        k = 4 if toks[1] in ("i32", "f32") else 8
        vals = [int(x, 16) for x in toks[2].split(",")] if toks[2] != "-" else []
        seen = []
        for v in vals:
            if v not in seen:
                seen.append(v)
        ok = unhx(t[1]) == b"".join(v.to_bytes(k, "little") for v in seen)
        print("dictionary page = distinct values in first-occurrence order:", ok)
        return 0 if ok else 1
    if kind in ("roundtrip", "line-expect", "line"):
        exp = j.get("expected")
        print("expected :", (exp or "")[:400])
        if exp is None:
            return 0
        if exp.startswith("ERR or "):
            return 0 if got.startswith("ERR") or got == exp[7:] else 1
        return 0 if got == exp else 1
    if kind == "line-ok":
        return 0 if got.startswith("OK") else 1
    if kind == "encode-refdecode":
        t = got.split()
        if t[0] != "OK":
            return 1
        toks = line.split()
        fam = j["fam"]
        par = j["par"]
        par = tuple(par) if isinstance(par, list) else par
        data = unhx(t[1])
        try:
            if fam in ("d64", "d32"):
                vals = [int(x, 16) for x in toks[2].split(",")] if toks[2] != "-" else []
                got_v, used = R.delta_dec(data, bits=64 if fam == "d64" else 32, max_width=64 if fam == "d64" else 32)
            elif fam in ("dl", "ds"):
                vals = [b"" if x == "." else bytes.fromhex(x) for x in toks[1].split(",")]
                got_v, used = (R.delta_length_dec if fam == "dl" else R.delta_strings_dec)(data)
            elif fam == "bss":
                k = bss_width(par[0])
                raw = unhx(toks[3])
                vals = [raw[i * k:(i + 1) * k] for i in range(len(raw) // k)]
                back = R.bss_dec(data, k, len(vals))
                got_v, used = [back[i * k:(i + 1) * k] for i in range(len(vals))], len(data)
            else:   # plain
                ty = par
                if ty == "ba":
                    vals = [b"" if x == "." else bytes.fromhex(x) for x in toks[2].split(",")] if toks[2] != "-" else []
                    got_v, used = R.plain_dec("ba", data, len(vals))
                elif ty.startswith("flba"):
                    w = int(ty[4:]); raw = unhx(toks[2])
                    vals = [raw[i * w:(i + 1) * w] for i in range(len(raw) // w)]
                    got_v, used = R.plain_dec("flba", data, len(vals), w)
                else:
                    vals = [int(x, 16) for x in toks[2].split(",")] if toks[2] != "-" else []
                    if ty == "bool":
                        vals = [1 if v else 0 for v in vals]
                    got_v, used = R.plain_dec(ty, data, len(vals) // 3 if ty == "i96" else len(vals))
        except R.SpecError as e:
            print("reference decoder:", e)
            return 1
        print("reference decoder:", "same values" if got_v == vals else "DIFFERENT values", used, "of", len(data), "bytes")
        return 0 if got_v == vals and used == len(data) else 1
    return 1
