"""Shared by checks/C01.py and checks/C05.py: the case generator (schemas x contents x codecs x page sizes x
row-group layout x write histories), running the real library through tools/filecase.py, the two
implementation-level oracles (independent of the Coq model) and the model tie (extracted writer model
predicts the file bytes).

C01 oracle  every writer call OK  =>  the file re-opens in all three I/O modes and the dump equals
            filecase.expected_table(case): same schema, row count, partition into non-empty row groups, null
            positions, bit-identical values; no read error, no sanitizer report, byte arrays unchanged until the
            next call on the column reader (lifetime clause, checked by the driver).
C05 oracle  close OK  =>  tools/pq.py (independent reader written from the format documents) reports no
            error-level violation of the structural clauses, recovers exactly the written table and schema, and a
            second write of the same case gives a byte-identical file."""
import json, struct, random, os, itertools
from pathlib import Path
import vlib
import filecase as fc
import pq

VERIF = vlib.VERIF
CORPUS_FILE = VERIF / "corpus" / "file"

# pq.validate() clauses that are error-level for C05 although tools/pq.py files them as warnings:
#   codec_lz4_framing   Compression.md: codec 5 (LZ4) is the Hadoop-framed layout, a bare LZ4 block is LZ4_RAW (7);
#                       the property demands "correct codec tags" (decision recorded in design.d/C05.md, FA6)
C05_ERROR_WARNINGS = {"codec_lz4_framing"}


# ----------------------------------------------------------------------------- values

def i32(v):
    return struct.pack("<i", v)


def seq_rows(col, n, start=0):
    """n distinct, easily recognised values of the column's type."""
    t = col.ptype
    out = []
    for i in range(start, start + n):
        if t == "BOOLEAN":
            out.append(bytes([1 if i % 3 != 1 else 0]))
        elif t in ("INT32", "FLOAT"):
            out.append(struct.pack("<I", (0x01010101 * (i + 1)) & 0xFFFFFFFF))
        elif t in ("INT64", "DOUBLE"):
            out.append(struct.pack("<Q", (0x0101010101010101 * (i + 1)) & 0xFFFFFFFFFFFFFFFF))
        elif t == "FIXED_LEN_BYTE_ARRAY":
            out.append(bytes(((i + 1) * 17 + j) % 256 for j in range(col.type_length)))
        else:
            out.append(bytes([0x61 + i % 26]) * (i % 4) + bytes([0x30 + i % 10]) if i % 5 != 4 else b"")
    return out


def with_nulls(rows, present):
    return [r if p else None for r, p in zip(rows, present)]


def pattern(spec):
    """'3p8n2p' -> [True]*3 + [False]*8 + [True]*2"""
    out, num = [], ""
    for ch in spec:
        if ch.isdigit():
            num += ch
        else:
            out.extend([ch == "p"] * int(num))
            num = ""
    return out


def batches_of(rows, sizes):
    out, p = [], 0
    for s in sizes:
        out.append(rows[p:p + s])
        p += s
    assert p == len(rows), (p, len(rows))
    return out


def history(schema, options, groups, name="", nodefs=None):
    """groups: list of row groups; row group = list (per column) of batches (list of row lists).
    Batches are issued column by column.  nodefs: set of (group, col, batch index) written with def_levels=NULL."""
    ops = []
    for g, percol in enumerate(groups):
        for c, bs in enumerate(percol):
            for k, b in enumerate(bs):
                ops.append(fc.WriteOp("batch", c, list(b), nodefs=bool(nodefs and (g, c, k) in nodefs)))
        if g < len(groups) - 1:
            ops.append(fc.WriteOp("new_row_group"))
    ops.append(fc.WriteOp("close"))
    return fc.Case(schema, options, ops, name=name)


# ----------------------------------------------------------------------------- targeted generators

def targeted_cases(rng, tier):
    """Shapes the proofs split on: level runs around 7/8/9 against batch and page boundaries, booleans split
    off byte boundaries, estimated page size reached exactly, strings crossing pages, def_levels = NULL,
    zero-row calls, empty row groups, interleaved columns, several row groups."""
    out = []
    codecs = fc.CODECS
    k = 0

    def opt(page_size, codec=None):
        nonlocal k
        k += 1
        return fc.Options(codec=codec or codecs[k % len(codecs)], page_size=page_size)

    # 1. OPTIONAL column: null runs around 7/8/9 cut into batches at -1/0/+1 of the run boundaries,
    #    all batches in one page (1 MiB), one batch per page (1 B) and a page boundary in the middle
    pats = ["1n9p1n", "3p8n3p", "7p1n8p", "8n8p", "9p7n1p8n", "1p7n9p", "16n1p", "1n16p", "7n", "8p", "9n", "17p3n"]
    if tier == "thorough":
        pats += ["%d%s%d%s%d%s" % (a, x, b, y, c, x) for a in (1, 7, 8) for b in (7, 8, 9) for c in (1, 8)
                 for x, y in (("p", "n"), ("n", "p"))]
    types = ["INT32", "BOOLEAN", "BYTE_ARRAY", "INT64", "FIXED_LEN_BYTE_ARRAY", "DOUBLE", "FLOAT"]
    for pi, ps in enumerate(pats):
        present = pattern(ps)
        n = len(present)
        col = fc.Column("c0", types[pi % len(types)], "OPTIONAL", 3 if types[pi % len(types)] == "FIXED_LEN_BYTE_ARRAY" else 0)
        rows = with_nulls(seq_rows(col, n), present)
        bounds = [i for i in range(1, n) if present[i] != present[i - 1]]
        cutsets = [[]] + [[b + d for b in bounds if 0 < b + d < n] for d in (-1, 0, 1)] + [[c] for c in range(1, n, max(1, n // 5))]
        for cuts in cutsets:
            cuts = sorted(set(cuts))
            sizes = [b - a for a, b in zip([0] + cuts, cuts + [n])]
            for page in (1 << 20, 1, 64 + 4 + 2 * 4):
                out.append(history(fc.Schema([col]), opt(page), [[batches_of(rows, sizes)]], name=f"runs:{ps}:{sizes}:{page}"))
    # 2. booleans: counts around byte boundaries, every split into <= 3 batches, one page
    for rep_ in ("REQUIRED", "OPTIONAL"):
        col = fc.Column("b", "BOOLEAN", rep_)
        for n in ((1, 3, 7, 8, 9, 15, 16, 17) if tier == "quick" else range(1, 26)):
            vals = [bytes([rng.getrandbits(1)]) for _ in range(n)]
            present = fc.gen_nulls(rng, n, "short") if rep_ == "OPTIONAL" else [True] * n
            rows = with_nulls(vals, present)
            comps = [[n]] + [[a, n - a] for a in range(1, n)]
            if n <= 9 or tier == "thorough":
                comps += [[a, b, n - a - b] for a in range(1, n) for b in range(1, n - a)]
            if tier == "quick" and len(comps) > 14:
                comps = comps[:3] + rng.sample(comps[3:], 11)
            for sizes in comps:
                out.append(history(fc.Schema([col]), opt(1 << 20), [[batches_of(rows, sizes)]], name=f"bool:{rep_}:{sizes}"))
    # 3. estimated page size reached exactly / one short / one over (estimate = values + levels + 64)
    for typ, w in (("INT32", 4), ("INT64", 8), ("FIXED_LEN_BYTE_ARRAY", 5)):
        col = fc.Column("v", typ, "REQUIRED", 5 if typ == "FIXED_LEN_BYTE_ARRAY" else 0)
        for kvals in (1, 3, 8):
            target = 64 + w * kvals
            for first in (kvals - 1, kvals, kvals + 1):
                if first <= 0:
                    continue
                for tail in (0, 1, kvals):
                    n = first + tail
                    rows = seq_rows(col, n)
                    sizes = [first] + ([tail] if tail else [])
                    out.append(history(fc.Schema([col]), opt(target), [[batches_of(rows, sizes)]], name=f"exact:{typ}:{target}:{sizes}"))
                    out.append(history(fc.Schema([col]), opt(target), [[batches_of(rows, [1] * n)]], name=f"exact1:{typ}:{target}:{n}"))
    # ... same with an OPTIONAL column (level estimate 4 + (rows+7)/8)
    col = fc.Column("v", "INT32", "OPTIONAL")
    for n in (8, 9, 16, 17):
        rows = with_nulls(seq_rows(col, n), [i % 3 != 0 for i in range(n)])
        nn = sum(1 for r in rows if r is not None)
        for d in (-1, 0, 1):
            target = 64 + 4 * nn + 4 + (n + 7) // 8 + d
            out.append(history(fc.Schema([col]), opt(target), [[batches_of(rows + rows, [n, n])]], name=f"exactopt:{n}:{d}"))
    # 4. strings crossing pages, empty strings at page starts/ends
    col = fc.Column("s", "BYTE_ARRAY", "OPTIONAL")
    for page in (65, 100, 200, 4096):
        lens = [0, 63, 64, 65, 0, 1, 127, 129, 0, 257, 3, 0]
        vals = [bytes((i * 7 + j) % 251 for j in range(l)) for i, l in enumerate(lens)]
        present = [True, True, False, True, True, True, False, True, True, True, True, True]
        rows = with_nulls(vals, present)
        for sizes in ([12], [1] * 12, [5, 7], [2, 2, 8]):
            out.append(history(fc.Schema([col]), opt(page), [[batches_of(rows, sizes)]], name=f"str:{page}:{sizes}"))
    # 5. def_levels = NULL on OPTIONAL columns, mixed with batches that carry levels, in one page and in separate pages
    for typ in ("INT32", "BOOLEAN", "BYTE_ARRAY"):
        col = fc.Column("o", typ, "OPTIONAL")
        rows = seq_rows(col, 5) + with_nulls(seq_rows(col, 9, 5), pattern("1n7p1n")) + seq_rows(col, 3, 14)
        for page in (1 << 20, 1):
            out.append(history(fc.Schema([col]), opt(page), [[batches_of(rows, [5, 9, 3])]], name=f"nodefs:{typ}:{page}",
                               nodefs={(0, 0, 0), (0, 0, 2)}))
            out.append(history(fc.Schema([col]), opt(page), [[batches_of(rows[:5], [5])]], name=f"nodefs1:{typ}:{page}", nodefs={(0, 0, 0)}))
    # 6. zero-row calls and empty row groups
    col = fc.Column("z", "INT32", "OPTIONAL")
    r2 = with_nulls(seq_rows(col, 2), [True, False])
    for page in (1, 1 << 20):
        out.append(history(fc.Schema([col]), opt(page), [[[[], r2]]], name=f"zero-first:{page}"))
        out.append(history(fc.Schema([col]), opt(page), [[[r2, []]]], name=f"zero-last:{page}"))
        out.append(history(fc.Schema([col]), opt(page), [[[[]]]], name=f"zero-only:{page}"))
        out.append(history(fc.Schema([col]), opt(page), [[[r2]], [[[]]], [[r2, r2]]], name=f"zero-group-between:{page}"))
    c = fc.Case(fc.Schema([col]), opt(100), [fc.WriteOp("new_row_group"), fc.WriteOp("batch", 0, r2), fc.WriteOp("new_row_group"),
                                             fc.WriteOp("new_row_group"), fc.WriteOp("batch", 0, r2), fc.WriteOp("new_row_group"),
                                             fc.WriteOp("close")], name="redundant-newrg")
    out.append(c)
    out.append(fc.Case(fc.Schema([col, fc.Column("y", "BYTE_ARRAY")]), opt(100), [fc.WriteOp("close")], name="no-rows-2col"))
    # 6b. a column index outside the schema (INVALID_ARGUMENT, nothing else happens): no table, the tie compares statuses
    out.append(fc.Case(fc.Schema([col]), opt(100), [fc.WriteOp("batch", 5, [i32(1)]), fc.WriteOp("batch", 0, r2), fc.WriteOp("close")],
                       name="badcol-first"))
    out.append(fc.Case(fc.Schema([col]), opt(100), [fc.WriteOp("batch", 0, r2), fc.WriteOp("batch", 1, [i32(1)]), fc.WriteOp("new_row_group"),
                                                    fc.WriteOp("batch", 0, r2), fc.WriteOp("close")], name="badcol-mid"))
    # 7. several columns: interleaved calls, column 0 written last, row groups of different sizes
    sch = fc.Schema([fc.Column("a", "INT32"), fc.Column("b", "BYTE_ARRAY", "OPTIONAL"), fc.Column("c", "BOOLEAN", "OPTIONAL"),
                     fc.Column("d", "DOUBLE")])
    for page in (1, 90, 1 << 20):
        ops = []
        base = 0
        for g, n in enumerate((3, 10, 1)):
            percol = []
            for ci, cc in enumerate(sch.columns):
                rows = seq_rows(cc, n, base)
                if cc.rep == "OPTIONAL":
                    rows = with_nulls(rows, [(i + ci + g) % 3 != 0 for i in range(n)])
                cut = n // 2
                percol.append([rows[:cut], rows[cut:]] if cut else [rows])
            order = [ci for ci in (3, 1, 2, 0) for _ in percol[ci]]
            if g == 1:
                order = [1, 0, 3, 2, 2, 3, 0, 1]
            idx = [0] * 4
            for ci in order:
                ops.append(fc.WriteOp("batch", ci, percol[ci][idx[ci]]))
                idx[ci] += 1
            ops.append(fc.WriteOp("new_row_group"))
            base += n
        ops[-1] = fc.WriteOp("close")
        out.append(fc.Case(sch, opt(page), ops, name=f"multi:{page}"))
    return out


def boundary_cases(rng, tier):
    """Counts, sizes and offsets that sit exactly on the boundaries of the variable-length integers of the
    metadata (zigzag varints change length at 64, 8192, 2^20; plain varints at 128, 16384): value counts and row
    counts of a page / chunk / row group / file, uncompressed and compressed page sizes, chunk sizes.  One page per
    chunk (huge page_size) unless stated.  Offsets are placed by place_at_offset()."""
    out = []
    big = fc.Options(codec="UNCOMPRESSED", page_size=1 << 26)
    marks = [64, 8192] + ([1 << 20] if tier == "thorough" else [])
    around = lambda m: (m - 1, m, m + 1)
    i32c, boolc = fc.Column("v", "INT32"), fc.Column("b", "BOOLEAN")
    for m in marks:
        for n in around(m):
            # num_values / num_rows = n (BOOLEAN: small file) ; uncompressed_page_size = n (INT32: n/4 values)
            if n <= 8193 or n == 1 << 20:
                rows = [bytes([k % 3 == 0]) for k in range(n)]
                out.append(history(fc.Schema([boolc]), big, [[[rows]]], name=f"boundary:rows:{n}"))
            if n % 4 == 0:
                rows = [struct.pack("<I", (k * 2654435761) & 0xFFFFFFFF) for k in range(n // 4)]
                out.append(history(fc.Schema([i32c]), big, [[[rows]]], name=f"boundary:pagebytes:{n}"))
    # the file / a row group holds exactly 8192 rows in two halves; 8192 nulls
    rows = [bytes([k % 5 == 0]) for k in range(4096)]
    out.append(history(fc.Schema([boolc]), big, [[[rows]], [[rows]]], name="boundary:file-rows:4096+4096"))
    out.append(history(fc.Schema([boolc]), big, [[[rows, rows]]], name="boundary:rg-rows:2x4096-one-page"))
    oc = fc.Column("o", "INT32", "OPTIONAL")
    out.append(history(fc.Schema([oc]), big, [[[[None] * 8192 + [i32(7)]]]], name="boundary:nulls:8192"))
    # 8192 values split over pages of 64 values (page headers with num_values 64, chunk num_values 8192)
    rows = [struct.pack("<I", k) for k in range(8192)]
    out.append(history(fc.Schema([i32c]), fc.Options(page_size=64 + 4 * 64), [[batches_of(rows, [64] * 128)]], name="boundary:pages-of-64"))
    # compressed page sizes near the marks: constant data compresses to little, random data to itself
    for codec in ("SNAPPY", "LZ4", "ZSTD", "GZIP"):
        rows = [bytes(rng.getrandbits(8) for _ in range(8)) for _ in range(1024)]
        out.append(history(fc.Schema([fc.Column("d", "INT64")]), fc.Options(codec=codec, page_size=1 << 26), [[[rows]]], name=f"boundary:{codec}:8192-random"))
    return out


def place_at_offset(target, codec="UNCOMPRESSED"):
    """A two-column history whose SECOND chunk starts exactly at file offset `target` (data_page_offset / file_offset
    = target, first chunk's total_compressed_size = target - 4): the first column is one BYTE_ARRAY value whose
    length is adjusted until the independent reader sees the second chunk there.  Returns None when not reached."""
    sch = fc.Schema([fc.Column("pad", "BYTE_ARRAY"), fc.Column("v", "INT32")])
    opt = fc.Options(codec=codec, page_size=1 << 26)
    length = max(0, target - 60)
    for _ in range(6):
        pad = bytes((k * 7 + 3) % 251 for k in range(length))
        c = history(sch, opt, [[[[pad]], [[i32(1), i32(2)]]]], name=f"boundary:offset:{target}")
        (st, data), = write_all([c])
        if data is None:
            return None
        pf = pq.read_file(data, decode_values=False)
        try:
            start = pf.chunks[0][1].start
        except (IndexError, AttributeError):
            return None
        if start == target:
            return c
        length += target - start
        if length < 0:
            return None
    return None


def enum_cases(rng, tier):
    """Write histories enumerated exhaustively for small tables: every ordered partition of the rows of every
    column (2^(n-1) histories for n rows), for page sizes that put all calls in one page, each call in its own
    page, and a boundary in between."""
    out = []
    sizes = (1, 2, 3, 4, 5) if tier == "quick" else (1, 2, 3, 4, 5, 6, 7, 8)
    codecs = fc.CODECS
    k = 0
    for n in sizes:
        reps = 1 if tier == "quick" else 2
        for _ in range(reps):
            t = fc.gen_table(rng, max_cols=3, nrows=n, long_strings=False, max_flba=6)
            for page in (1, 1 << 20, rng.choice([66, 70, 75, 80, 90])):
                k += 1
                o = fc.Options(codec=codecs[k % len(codecs)], page_size=page)
                cuts = () if n < 3 or k % 3 else (rng.randrange(1, n),)
                for cse in fc.enum_write_histories(t, o, cuts=cuts):
                    cse.name = f"enum:n{n}:p{page}:{cse.name}"
                    out.append(cse)
    return out


def random_cases(rng, tier, count):
    out = []
    for i in range(count):
        big = (i % 12 == 0)
        c = fc.gen_case(rng, max_rows=400 if big else 70, long_strings=(i % 9 == 0), max_cols=6 if i % 4 == 0 else 3)
        c.name = f"rand{i}"
        out.append(c)
    return out


def incompressible_cases(rng, tier):
    """Pages of incompressible bytes whose size sweeps EVERY value of a window, for every codec: compressors change
    the encoding of a literal run at particular lengths (LZ4: token nibble 15, then one extension byte per 255 -
    270, 525, 780, ..; Snappy: literal tags at 60 / 61, 2^8, 2^16; deflate: stored blocks) and a mistake there shows
    only at exactly that length.  page_size = 1: every write_batch call is its own page.
      FIXED_LEN_BYTE_ARRAY(1) REQUIRED: a call of n rows = a page body of exactly n bytes, n = 1..600 and
                                        15 + 255 k + {-1, 0, 1} up to k = 8;
      INT32 / INT64 REQUIRED:           pages of n random values, n = 1..600 (thorough; quick: n = 1..600 INT32 for
                                        one codec chosen by the seed);
      BYTE_ARRAY REQUIRED:              one value per page, lengths sweeping the same window (thorough)."""
    out = []
    rb = lambda n: bytes(rng.getrandbits(8) for _ in range(n))
    sizes = list(range(1, 601)) + [15 + 255 * k + d for k in range(3, 9) for d in (-1, 0, 1)]
    flba = fc.Column("r", "FIXED_LEN_BYTE_ARRAY", "REQUIRED", 1)
    for codec in fc.CODECS:
        opt = fc.Options(codec=codec, page_size=1)
        out.append(history(fc.Schema([flba]), opt, [[[[rb(1) for _ in range(n)] for n in sizes]]], name=f"incompressible:bytes:{codec}"))
    wide = [(c, t, w) for c in fc.CODECS for t, w in (("INT32", 4), ("INT64", 8))]
    if tier == "quick":
        wide = [(fc.CODECS[(vlib.SEED + k) % len(fc.CODECS)], t, w) for k, (t, w) in enumerate((("INT32", 4),))] + [("LZ4", "INT32", 4)]
        wide = list(dict.fromkeys(wide))
    for codec, t, w in wide:
        opt = fc.Options(codec=codec, page_size=1)
        out.append(history(fc.Schema([fc.Column("v", t)]), opt, [[[[rb(w) for _ in range(n)] for n in range(1, 601)]]],
                           name=f"incompressible:{t}:{codec}"))
    if tier == "thorough":
        for codec in fc.CODECS:
            opt = fc.Options(codec=codec, page_size=1)
            out.append(history(fc.Schema([fc.Column("s", "BYTE_ARRAY")]), opt, [[[[rb(max(0, n - 4))] for n in sizes]]],
                               name=f"incompressible:BYTE_ARRAY:{codec}"))
    return out


def periodic_cases(rng, tier):
    """Pages whose content repeats with a period that sits exactly on the boundaries of the copy forms of the
    built-in compressors, so that the compressor emits a back-reference at exactly that distance: Snappy copy-1 /
    copy-2 at 2047 / 2048 / 2049, carquet's Snappy window 32768, Snappy copy-4 and the LZ4 window at 65535 / 65536;
    total length = period + t with t sweeping 4..80 (the tail of a long match after its 64 / 60-byte pieces takes
    every length 4..11 / 12..63).  One REQUIRED BYTE_ARRAY column, page_size 1, one value per write_batch call = one
    page per value (body = 4-byte length + the value: distances inside the value are unchanged).  Small periods
    1..9 (overlapping copies) ride along.  Codecs SNAPPY, LZ4, LZ4_RAW (GZIP / ZSTD on the mid periods)."""
    out = []
    col = fc.Column("p", "BYTE_ARRAY")

    def value(period, total):
        blk = bytes(rng.getrandbits(8) for _ in range(period))
        return (blk * (total // period + 1))[:total]

    tails = list(range(4, 81))
    few = [4, 5, 8, 11, 12, 15, 16, 19, 20, 63, 64, 67, 68, 75, 76, 80]
    mid, far = (2047, 2048, 2049), (32767, 32768, 32769, 65535, 65536, 65537)
    for codec in ("SNAPPY", "LZ4", "LZ4_RAW", "GZIP", "ZSTD"):
        opt = fc.Options(codec=codec, page_size=1)
        rows = [[value(p, p + t)] for p in (1, 2, 3, 4, 5, 7, 8, 9) for t in (4, 11, 12, 60, 64, 68)]
        rows += [[value(p, p + t)] for p in mid for t in tails]
        out.append(history(fc.Schema([col]), opt, [[rows]], name=f"periodic:mid:{codec}"))
        if codec in ("GZIP", "ZSTD"):
            continue
        for p in far:
            if tier == "quick" and p not in (32768, 65535, 65536):
                ts = few[:4]
            else:
                ts = few if tier == "quick" else tails
            out.append(history(fc.Schema([col]), opt, [[[[value(p, p + t)] for t in ts]]], name=f"periodic:{p}:{codec}"))
    return out


def api_variant_cases(rng, tier):
    """What the coverage audit showed no case reached (design.d/C05.md, Coverage audit):
      options = NULL; carquet_writer_create_file (the writer does not own the stream; buffered, unbuffered and
      7-byte buffered streams; same bytes expected as through carquet_writer_create - the model tie compares them);
      histories ending in carquet_writer_abort (nothing is claimed about the file: the run must not fault);
      Thrift lists of 14 / 15 / 16 / 17 elements (the compact protocol switches to the long list header at 15:
      schema elements = columns + 1, columns of a row group, row groups);
      the options the writer accepts and does not act on (statistics off, page index, bloom filters, dictionary
      modes, row_group_size, compression level) - the file must be the same valid file."""
    out = []
    cols = [fc.Column("a", "INT32"), fc.Column("b", "BYTE_ARRAY", "OPTIONAL"), fc.Column("c", "BOOLEAN", "OPTIONAL"),
            fc.Column("d", "FIXED_LEN_BYTE_ARRAY", "REQUIRED", 3), fc.Column("e", "DOUBLE", "OPTIONAL")]

    def table(ncol, nrows, ngroups, k):
        sch = fc.Schema(cols[:ncol])
        groups = []
        for g in range(ngroups):
            percol = []
            for ci, c in enumerate(sch.columns):
                rows = seq_rows(c, nrows, start=g * nrows)
                if c.rep == "OPTIONAL":
                    rows = with_nulls(rows, [(j + ci + k) % 3 != 0 for j in range(nrows)])
                cut = (k + ci) % (nrows + 1)
                percol.append([b for b in (rows[:cut], rows[cut:]) if b or nrows == 0])
            groups.append(percol)
        return sch, groups

    k = 0
    for ncol, nrows, ngroups in ((1, 3, 1), (3, 9, 2), (5, 17, 3), (2, 0, 1)):
        sch, groups = table(ncol, nrows, ngroups, k)
        out.append(history(sch, fc.Options(null_options=True), groups, name=f"api:null-options:{k}"))
        for codec in fc.CODECS:
            for buf in (None, 0, 7):
                if tier == "quick" and (k + len(out)) % 3 and buf is not None:
                    continue
                c = history(sch, fc.Options(codec=codec, page_size=(1, 64, 1 << 20)[k % 3]), groups,
                            name=f"api:create_file:{codec}:buf={buf}:{k}")
                c.sink = fc.SinkSpec(buf=buf, log=False)
                out.append(c)
        c = history(sch, fc.Options(null_options=True), groups, name=f"api:create_file:null-options:{k}")
        c.sink = fc.SinkSpec(log=False)
        out.append(c)
        for how in ("abort-instead-of-close", "abort-after-new-row-group"):
            c = history(sch, fc.Options(codec=fc.CODECS[k % len(fc.CODECS)], page_size=1), groups, name=f"api:{how}:{k}")
            c.ops = c.ops[:-1] + ([fc.WriteOp("new_row_group")] if how.endswith("group") else []) + [fc.WriteOp("abort")]
            out.append(c)
            c2 = fc.Case(c.schema, c.options, list(c.ops), name=c.name + ":create_file", sink=fc.SinkSpec(log=False))
            out.append(c2)
        k += 1
    # definition levels passed for REQUIRED columns (legal, ignored by the writer: they must change neither the pages
    # nor where pages are cut): page sizes sweeping the estimate of two, three and four 8-byte batches (+-6 bytes)
    req = fc.Schema([fc.Column("q", "INT32"), fc.Column("o", "INT32", "OPTIONAL")])
    for ps in range(64 + 16 - 6, 64 + 32 + 7):
        c = history(req, fc.Options(codec=fc.CODECS[ps % len(fc.CODECS)], page_size=ps),
                    [[[[i32(10 * b + j) for j in range(2)] for b in range(6)], [[i32(b), None] for b in range(6)]]],
                    name=f"api:defs-for-required:{ps}")
        for op in c.ops:
            if op.kind == "batch" and op.col == 0:
                op.force_defs = True
        out.append(c)
    # list headers: short form up to 14 elements, long form from 15
    for n in (13, 14, 15, 16, 17):
        sch = fc.Schema([fc.Column(f"c{i}", ("INT32", "INT64", "BOOLEAN")[i % 3], "OPTIONAL" if i % 4 == 1 else "REQUIRED") for i in range(n)])
        groups = [[[with_nulls(seq_rows(c, 2, start=g), [True, c.rep == "REQUIRED"])] for c in sch.columns] for g in range(2)]
        out.append(history(sch, fc.Options(codec=fc.CODECS[n % len(fc.CODECS)]), groups, name=f"lists:columns:{n}"))
        one = fc.Schema([fc.Column("v", "INT32")])
        out.append(history(one, fc.Options(codec=fc.CODECS[n % len(fc.CODECS)]), [[[[i32(g)]]] for g in range(n)], name=f"lists:row-groups:{n}"))
    sch = fc.Schema([fc.Column(f"c{i}", "INT32") for i in range(16)])
    out.append(history(sch, fc.Options(), [[[[i32(g * 16 + i)]] for i in range(16)] for g in range(16)], name="lists:16x16"))
    # options the writer accepts without acting on them
    sch, groups = table(5, 17, 2, 1)
    for name, kw in (("stats-off", {"stats": False}), ("page-index", {"page_index": True}), ("bloom", {"bloom": True}),
                     ("dict-plain", {"dict_enc": "PLAIN"}), ("dict-rle", {"dict_enc": "RLE_DICTIONARY", "dict_page_size": 1}),
                     ("row-group-size-1", {"row_group_size": 1}), ("level-9", {"level": 9, "codec": "GZIP"}),
                     ("level-19", {"level": 19, "codec": "ZSTD"}), ("all", {"stats": False, "page_index": True, "bloom": True, "level": 3, "codec": "SNAPPY"})):
        out.append(history(sch, fc.Options(**{"page_size": 64, **kw}), groups, name=f"options:{name}"))
    return out


LOGICAL_COLUMNS = [
    # (physical type, type_length, logical annotation): members with zero / false parameters included - a writer that
    # leaves out "default" values drops REQUIRED fields of DecimalType / IntType / TimeType / TimestampType
    ("INT32", 0, "DECIMAL:9:2"), ("INT64", 0, "DECIMAL:18:0"), ("FIXED_LEN_BYTE_ARRAY", 16, "DECIMAL:38:0"),
    ("BYTE_ARRAY", 0, "DECIMAL:10:0"),
    ("INT32", 0, "INT:8:0"), ("INT32", 0, "INT:16:1"), ("INT32", 0, "INT:32:0"), ("INT64", 0, "INT:64:1"), ("INT64", 0, "INT:64:0"),
    ("INT32", 0, "TIME:0:MILLIS"), ("INT32", 0, "TIME:1:MILLIS"), ("INT64", 0, "TIME:0:MICROS"), ("INT64", 0, "TIME:1:NANOS"),
    ("INT64", 0, "TIMESTAMP:0:MILLIS"), ("INT64", 0, "TIMESTAMP:1:MICROS"), ("INT64", 0, "TIMESTAMP:0:NANOS"),
    ("BYTE_ARRAY", 0, "STRING"), ("BYTE_ARRAY", 0, "ENUM"), ("BYTE_ARRAY", 0, "JSON"), ("BYTE_ARRAY", 0, "BSON"),
    ("INT32", 0, "DATE"), ("FIXED_LEN_BYTE_ARRAY", 16, "UUID"), ("FIXED_LEN_BYTE_ARRAY", 2, "FLOAT16"), ("INT32", 0, "NULL"),
]


def logical_cases(rng, tier):
    """Columns annotated with a LogicalType (the values are plain values of the physical type: the annotation only
    lives in the footer's SchemaElement.logicalType).  Four to six annotated columns per file, REQUIRED and OPTIONAL."""
    out = []
    cols = list(LOGICAL_COLUMNS)
    rng.shuffle(cols)
    k = 0
    while cols:
        take, cols = cols[:5], cols[5:]
        schema = fc.Schema([fc.Column(f"c{i}_{lg.split(':')[0].lower()}", t, "OPTIONAL" if (i + k) % 2 else "REQUIRED", tl, lg)
                            for i, (t, tl, lg) in enumerate(take)])
        n = 1 + k % 4
        groups = [[[with_nulls(seq_rows(c, n), [True] * n) if c.rep == "REQUIRED" else
                    with_nulls(seq_rows(c, n), [j % 2 == 0 for j in range(n)])] for c in schema.columns]]
        out.append(history(schema, fc.Options(codec=fc.CODECS[k % len(fc.CODECS)]), groups, name=f"logical:{k}"))
        k += 1
    return out


def many_row_groups(n):
    """n row groups of one INT32 row each."""
    col = fc.Column("c0", "INT32")
    ops = []
    for i in range(n):
        ops.append(fc.WriteOp("batch", 0, [i32(i)]))
        ops.append(fc.WriteOp("new_row_group"))
    ops.append(fc.WriteOp("close"))
    return fc.Case(fc.Schema([col]), fc.Options(), ops, name=f"limit:{n}-row-groups")


def gen_cases(tier, rng):
    cases = targeted_cases(rng, tier) + boundary_cases(rng, tier) + bigrun_cases(rng, tier) + incompressible_cases(rng, tier) + periodic_cases(rng, tier) + logical_cases(rng, tier) + api_variant_cases(rng, tier)
    if tier == "thorough":
        # RowGroup.ordinal is an i16: from the 32769th row group on it must be left out, not wrapped (fixed fa2774f)
        cases.append(many_row_groups(32770))
    for target in (64, 8192) + ((1 << 20,) if tier == "thorough" else ()):
        c = place_at_offset(target)
        if c is not None:
            cases.append(c)
    cases += enum_cases(rng, tier) + random_cases(rng, tier, 1500 if tier == "quick" else 25000)
    return cases


# ----------------------------------------------------------------------------- corpus

def corpus_cases(props):
    """(id, Case, entry) of the corpus/file reproducers of kind write_read that name one of `props`."""
    out = []
    for f in sorted(CORPUS_FILE.glob("*.json")):
        try:
            e = json.loads(f.read_text())
        except ValueError:
            continue
        if e.get("kind") not in ("write_read", "history") or "case" not in e or not (set(e.get("properties", [])) & set(props)):
            continue
        out.append((e["id"], fc.case_from_json(e["case"]), e))
    for pid in props:
        d = VERIF / "corpus" / pid
        if d.is_dir():
            for f in sorted(d.glob("*.json")):
                e = json.loads(f.read_text())
                out.append((f"{pid}/{f.stem}", fc.case_from_json(e["case"]), e))
    return out


# ----------------------------------------------------------------------------- running

def _asan_env(fill):
    """ASAN_OPTIONS of filecase with a chosen pattern for uninitialised heap memory (whole allocations)."""
    return {"ASAN_OPTIONS": fc.ASAN_ENV["ASAN_OPTIONS"] + f":malloc_fill_byte={fill}:max_malloc_fill_size=268435456"}


def write_all(cases, twice=False):
    """Write every case (twice when asked) -> list of (Statuses, bytes | None[, Statuses2, bytes2 | None]).
    The second write runs in other processes (other addresses) and with another fill pattern for uninitialised
    heap memory: a byte of the file that comes from uninitialised or address-dependent memory differs."""
    def go(env):
        paths = [fc.tmppath() for _ in cases]
        scripts = []
        for c, p in zip(cases, paths):
            sc = fc.Script(c.name).write(c, p)
            if c.sink is not None:              # carquet_writer_create_file: the bytes the stream accepted
                sc.raw("IMG_FROM_SINK", f"IMG_SAVE {p}")
            scripts.append(sc)
        sts = [fc.parse_write(o) for o in fc.run_scripts(scripts, env=env)]
        out = []
        for c, p, st in zip(cases, paths, sts):
            b = None
            if (st.exists or (c.sink is not None and st.close_ok())) and os.path.exists(p):
                b = Path(p).read_bytes()
            if os.path.exists(p):
                os.unlink(p)
            out.append((st, b))
        return out
    first = go(_asan_env(190))
    if not twice:
        return first
    second = go(_asan_env(66))
    return [(a, b, c, d) for (a, b), (c, d) in zip(first, second)]


def schema_tuple(cols):
    return [(c.name, c.ptype, c.rep, c.type_length if c.ptype == "FIXED_LEN_BYTE_ARRAY" else 0) for c in cols]


def c01_compare(case, d):
    """One dump of the file against the written table.  Returns None or a description of the difference."""
    want = fc.expected_table(case)
    if d.fault:
        return f"reader died: {d.fault.get('summary')}"
    if not d.opened:
        return f"re-open failed: {d.error}"
    got_schema = [(c.name, c.ptype, c.rep, c.type_length if c.ptype == "FIXED_LEN_BYTE_ARRAY" else 0) for c in d.schema]
    if got_schema != schema_tuple(case.schema.columns):
        return f"schema differs: wrote {schema_tuple(case.schema.columns)} read {got_schema}"
    rows = fc.table_rows(want)
    if d.num_rows != rows:
        return f"row count: wrote {rows}, reader reports {d.num_rows}"
    want_rg = [len(g[0]) for g in want]
    got_rg = [r for r in d.rg_rows if r != 0]
    if got_rg != want_rg:
        return f"row groups: wrote {want_rg} (non-empty), reader reports {d.rg_rows}"
    if d.read_errors():
        return f"read errors {d.read_errors()}"
    diff = fc.compare_tables(want, d.table(drop_empty=True))
    if diff:
        return diff
    if any("LIFETIME-CHANGED" in l for l in d.raw):
        return "a byte array handed out by read_batch changed before the next call on that column reader"
    for ch in d.chunks:
        if ch.end != "OK":
            return f"chunk rg={ch.rg} col={ch.col} ended {ch.end}"
    return None


def repeated_histories(rng, n):
    """Write histories with a REPEATED leaf column (a list of values per row, lists may be empty): level entries
    (def, rep, value) cut into write_batch calls anywhere - also inside a list -, with explicit levels, with
    rep_levels = NULL (every entry its own row) or both NULL; optionally a second REQUIRED / OPTIONAL column with one
    entry per row; several row groups.  Returns [(name, columns, options, lines(path), expected)] where expected is
    [row group][column] -> (defs, reps, values) and the row counts."""
    out = []
    types = [("INT32", 0), ("INT64", 0), ("BOOLEAN", 0), ("BYTE_ARRAY", 0), ("FIXED_LEN_BYTE_ARRAY", 3), ("DOUBLE", 0), ("FLOAT", 0)]
    for k in range(n):
        t, tl = types[k % len(types)]
        rcol = fc.Column("r", t, "REPEATED", tl)
        other = [None, fc.Column("x", "INT32", "REQUIRED"), fc.Column("y", "BYTE_ARRAY", "OPTIONAL")][k % 3]
        first = (k // 3) % 2 == 0 or other is None             # the REPEATED column is column 0 (row reference) or 1
        cols = [rcol] + ([other] if other else []) if first else [other, rcol]
        ri = cols.index(rcol)
        opt = fc.Options(codec=fc.CODECS[k % len(fc.CODECS)], page_size=[1, 48, 1 << 20][(k // 2) % 3])
        mode = ["levels", "levels", "levels", "no-reps", "no-levels"][k % 5]
        lines, expected, rows_per_rg = [], [], []
        for g in range(1 + k % 3):
            nrows = rng.choice([1, 2, 3, 9, 17, 40]) if k % 11 else 0
            ents, vcount = [], 0
            for _ in range(nrows):
                ln = 1 if mode != "levels" else rng.choice([0, 0, 1, 1, 2, 3, 5, 9])
                if mode == "no-reps" and rng.random() < 0.3:
                    ln = 0
                if ln == 0:
                    ents.append((0, 0, None))
                for j in range(ln):
                    ents.append((1, 0 if j == 0 else 1, fc.gen_value(rng, rcol, long_strings=False)))
            # cut the entries into batches anywhere
            cuts = sorted({rng.randrange(1, len(ents)) for _ in range(rng.choice([0, 1, 2, 5]))}) if len(ents) > 1 else []
            percol = {}
            for a, b in zip([0] + cuts, cuts + [len(ents)]):
                part = ents[a:b]
                vals = [v for _, _, v in part if v is not None]
                defs = "".join(str(d) for d, _, _ in part) or "E"
                reps = "".join(str(r) for _, r, _ in part) or "E"
                if mode == "no-reps":
                    reps = "-"
                if mode == "no-levels":
                    defs = reps = "-"
                percol.setdefault(ri, []).append(f"W {ri} {len(part)} {defs} {reps} {len(vals)} {fc._vals_token(rcol, vals)}")
            exp = {ri: ([d for d, _, _ in ents], [r for _, r, _ in ents], [v for _, _, v in ents if v is not None])}
            if other:
                oi = cols.index(other)
                rows = [fc.gen_value(rng, other, long_strings=False) if (other.rep == "REQUIRED" or rng.random() < 0.7) else None for _ in range(nrows)]
                vals = [v for v in rows if v is not None]
                defs = "".join("0" if v is None else "1" for v in rows) if other.rep == "OPTIONAL" else "-"
                if nrows:
                    percol.setdefault(oi, []).append(f"W {oi} {nrows} {defs or 'E'} - {len(vals)} {fc._vals_token(other, vals)}")
                exp[oi] = ([0 if v is None else 1 for v in rows] if other.rep == "OPTIONAL" else [], [], vals)
            order = sorted(percol) if k % 2 else sorted(percol, reverse=True)
            for ci in order:
                lines += percol[ci]
            lines.append("NEWRG")
            if nrows:
                expected.append([exp[i] for i in range(len(cols))])
                rows_per_rg.append(nrows)
        lines[-1] = "CLOSE"
        out.append((f"repeated:{k}:{t}:{mode}", cols, opt, lines, (expected, rows_per_rg)))
    return out


def bigrun_cases(rng, tier):
    """Level runs of 2^20 rows and more in ONE data page: the RLE run header (run length << 1 as a varint) takes a
    fourth byte from 1048576 equal levels on.  OPTIONAL columns whose rows stay under the default 1 MiB page: all
    present written without definition levels (INT32: one write_batch call - a page holds whole calls), all null,
    BOOLEAN values; n = 2^20 + 1 (quick), also 2^20 - 1, 2^20 and 2^21 + 3 (thorough)."""
    out = []
    ns = [(1 << 20) + 1] + ([(1 << 20) - 1, 1 << 20, (1 << 21) + 3] if tier == "thorough" else [])
    for n in ns:
        ci, cb = fc.Column("i", "INT32", "OPTIONAL"), fc.Column("b", "BOOLEAN", "OPTIONAL")
        codec = fc.CODECS[n % len(fc.CODECS)]
        out.append(history(fc.Schema([ci]), fc.Options(codec=codec), [[[[i32(k & 0x7FFFFFFF) for k in range(n)]]]],
                           name=f"bigrun:{n}:all-present-nodefs", nodefs={(0, 0, 0)}))
        out.append(history(fc.Schema([ci]), fc.Options(codec=codec), [[[[None] * n]]], name=f"bigrun:{n}:all-null"))
        rows = [bytes([k % 3 == 0]) for k in range(n)]
        out.append(history(fc.Schema([cb]), fc.Options(codec=codec), [[batches_of(rows, [n // 2, n - n // 2])]],
                           name=f"bigrun:{n}:boolean-two-calls-one-page"))
        out.append(history(fc.Schema([ci]), fc.Options(codec=codec), [[[[i32(1)] * 5 + [None] * n + [i32(2)] * 5]]],
                           name=f"bigrun:{n}:nulls-between-values"))
    return out


def rowwise_scripts(cases_data, rng, k=None):
    """Read the columns of a row group SIDE BY SIDE on the FILE* path: one column reader per column, each asked for k
    rows in turn until all are drained (the readers share the reader's FILE*).  cases_data: [(case, bytes)] with
    2..15 columns.  Returns (scripts, tmp paths, per script: (case, k, [(file rg index, rows)]))."""
    scripts, tmps, infos = [], [], []
    for case, data in cases_data:
        kk = k or rng.choice([1, 2, 3, 7, 300])
        groups = fc.expected_table(case, keep_empty=True) or []
        s, tmp = fc._read_script(data, "stdio", True, tag="rowwise:" + case.name)
        plan = []
        for r, g in enumerate(groups):
            rows = len(g[0])
            if rows == 0:
                continue
            plan.append((r, rows))
            ncol = len(case.schema.columns)
            for c in range(ncol):
                s.raw(f"CR_OPEN {c} {r} {c}")
            for _ in range(-(-rows // kk) + 1):
                for c in range(ncol):
                    s.raw(f"CR_READ {c} {kk}")
            for c in range(ncol):
                s.raw(f"CR_FREE {c}")
        s.close()
        scripts.append(s)
        tmps.append(tmp)
        infos.append((case, kk, plan))
    return scripts, tmps, infos


def rowwise_compare(case, plan, out):
    """CaseOut of a rowwise script against the written table.  None or a description."""
    if out.fault:
        return f"reader died: {out.fault.get('summary')}"
    want = fc.expected_table(case, keep_empty=True)
    cols = case.schema.columns
    got, cur = {}, None
    gi = -1
    opened = 0
    for ln in out.lines:
        t = ln.split()
        if not t:
            continue
        if t[0] == "cr_open":
            if t[-1] != "OK":
                return "carquet_reader_get_column failed: " + ln[:120]
            if int(t[1]) == 0:
                gi += 1
                got[gi] = [[] for _ in cols]
        elif t[0] == "read" and len(t) > 2 and t[2].startswith("ret="):
            kv = fc._kv(ln)
            c = int(t[1])
            ret = int(kv["ret"])
            if ret < 0:
                return f"rg {plan[gi][0]} col {c}: read_batch returned {ret}"
            col = cols[c]
            defs = fc._levels(kv["defs"])
            vals = fc._values(kv["vals"], col.ptype, col.type_length, int(kv["nvals"]))
            got[gi][c] += fc.assemble(defs, vals, 1) if col.rep == "OPTIONAL" else list(vals)
    if gi + 1 != len(plan):
        return f"{gi + 1} of {len(plan)} row groups read"
    return fc.compare_tables([want[r] for r, _ in plan], [got[i] for i in range(len(plan))])


def check_repeated(rep, rng, tier):
    """C05 on REPEATED leaf columns (outside C01's statement and outside the writer model): every file is written
    twice, validated by the independent reader, and its levels and values per chunk are compared with the entries
    written; row counts are the numbers of lists.  Before the repair (findings.d/C05.json, repeated-leaf-levels) such
    a column was written with repetition levels but without definition levels: no reader, carquet's included, could
    decode it."""
    import pq
    hist = repeated_histories(rng, 70 if tier == "quick" else 700)

    def go(env):
        paths = [fc.tmppath() for _ in hist]
        scripts = []
        for (name, cols, opt, lines, _), p in zip(hist, paths):
            sc = fc.Script(name)
            for c in cols:
                sc.raw(f"COL {c.name.encode().hex()} {c.ptype} {c.rep} {c.type_length}")
            sc.raw(opt.line(), f"WOPEN path {p}", *lines)
            scripts.append(sc)
        outs = fc.run_scripts(scripts, env=env)
        res = []
        for o, p in zip(outs, paths):
            st = fc.parse_write(o)
            b = Path(p).read_bytes() if os.path.exists(p) else None
            if os.path.exists(p):
                os.unlink(p)
            res.append((st, b, list(scripts[len(res)].lines)))
        return res
    first, second = go(_asan_env(190)), go(_asan_env(66))
    n_ok = 0
    for (name, cols, opt, lines, (expected, rows_per_rg)), (st, data, script), (st2, data2, _) in zip(hist, first, second):
        rj = {"kind": "repeated", "name": name, "script": script}
        rep.count(("c05-repeated", "\n".join(l for l in script if not l.startswith("WOPEN"))), nontrivial=bool(rows_per_rg))
        if st.fault or st2.fault:
            rep.violation(f"the writer died on a history with a REPEATED column ({name}): {(st.fault or st2.fault).get('summary')}", rj)
            continue
        if not st.close_ok():
            continue
        if data is None:
            rep.violation(f"close returned OK but no file exists ({name})", rj)
            continue
        pf = pq.read_file(data)
        errs = [str(v) for v in pf.validate() if v.severity == "error" or v.clause in C05_ERROR_WARNINGS]
        if errs or pf.fatal:
            rep.violation(f"independent reader rejects a file with a REPEATED column the writer reported complete ({name}): " + "; ".join(errs[:3]), rj)
            continue
        got = [[(list(d), list(r), list(v)) for d, r, v in rg] for rg in pf.levels()]
        got = [rg for rg, n in zip(got, pf.rg_rows()) if n]
        want = [[(list(d), list(r) if cols[i].rep == "REPEATED" else [], list(v)) for i, (d, r, v) in enumerate(rg)] for rg in expected]
        view = lambda t: [[(d if cols[i].rep != "REQUIRED" else [], r if cols[i].rep == "REPEATED" else [], v)
                           for i, (d, r, v) in enumerate(rg)] for rg in t]
        if view(got) != view(want):
            rep.violation(f"independent reader recovers other levels / values than were written ({name})", rj)
            continue
        if [n for n in pf.rg_rows() if n] != rows_per_rg or pf.num_rows() != sum(rows_per_rg):
            rep.violation(f"row counts {pf.rg_rows()} / {pf.num_rows()}, {rows_per_rg} lists were written ({name})", rj)
            continue
        if list(st) != list(st2) or data != data2:
            rep.violation(f"two writes of the same history with a REPEATED column differ ({name})", rj)
            continue
        n_ok += 1
    rep.cov.setdefault("input_distribution", {})["repeated_column_files_validated"] = n_ok


def check_limits(rep, which, columns=True):
    """The writer stays inside the limits of carquet's own footer parser (fixed de6d388): 100001 row groups of one
    row - the calls for the 100001st are refused (INVALID_METADATA), close still returns OK, and the file holds the
    first 100000 row groups: the independent reader accepts it (C05) and carquet re-opens and reads it (C01).  Before
    the repair every call returned OK and the file could not be opened again."""
    n = 100000
    case, kept = many_row_groups(n + 1), many_row_groups(n)
    (st, data), = write_all([case])
    cj = {"kind": "limit", "row_groups": n + 1}
    if st.fault:
        rep.violation(f"the writer died writing {n + 1} row groups: {st.fault.get('summary')}", cj)
        return
    refused = [i for i, x in enumerate(st) if not x.endswith(" OK")]
    if not st.close_ok() or data is None:
        rep.violation(f"{n + 1} row groups: close did not return OK / no file ({[st[i] for i in refused][:3]})", cj)
        return
    if not refused:
        kept = case                              # a build without the limit: the whole table must be there
    if which == "C05":
        bad = c05_check(kept, data)
        if bad:
            rep.violation(f"independent reader rejects the file of {n + 1} one-row row groups: " + "; ".join(t for _, t in bad[:3]), cj)
    else:
        d = fc.dump(data, "stdio", True, 1 << 20)
        diff = c01_compare(kept, d)
        if diff:
            rep.violation(f"{n + 1} one-row row groups, calls refused: {len(refused)}; close OK; reading the file back: {diff}", cj)
    rep.cov.setdefault("input_distribution", {})["limit_row_groups"] = {"written": n + 1, "refused_calls": len(refused)}
    # schema width: 9999 columns fit (10000 schema elements with the root), 10000 are refused at creation
    wide = {}
    for ncol in ((9999, 10000) if columns else ()):
        sch = fc.Schema([fc.Column(f"c{i}", "INT32") for i in range(ncol)])
        case = history(sch, fc.Options(), [[[[i32(i)]] for i in range(ncol)]], name=f"limit:{ncol}-columns")
        (st, data), = write_all([case])
        cj = {"kind": "limit", "columns": ncol}
        if st.fault:
            rep.violation(f"the writer died on a schema of {ncol} columns: {st.fault.get('summary')}", cj)
            continue
        wide[ncol] = "created" if (st and st[0] == "create OK") else (st[0] if st else "?")
        if not st.close_ok():
            continue                              # refused: nothing was reported complete
        if data is None:
            rep.violation(f"{ncol} columns: close returned OK but no file exists", cj)
        elif which == "C05":
            bad = c05_check(case, data)
            if bad:
                rep.violation(f"independent reader rejects the file with {ncol} columns: " + "; ".join(t for _, t in bad[:3]), cj)
        else:
            diff = c01_compare(case, fc.dump(data, "stdio", True, 1 << 20))
            if diff:
                rep.violation(f"{ncol} columns, every call OK; reading the file back: {diff}", cj)
    rep.cov["input_distribution"]["limit_columns"] = wide


def logical_want(spec):
    """'DECIMAL:18:0' -> (LogicalType member, {field: value}) as pq.named shows it; None when there is no annotation."""
    if not spec:
        return None
    t = spec.split(":")
    if t[0] == "DECIMAL":
        return "DECIMAL", {"precision": int(t[1]), "scale": int(t[2])}
    if t[0] == "INT":
        return "INTEGER", {"bitWidth": int(t[1]), "isSigned": bool(int(t[2]))}
    if t[0] in ("TIME", "TIMESTAMP"):
        return t[0], {"isAdjustedToUTC": bool(int(t[1])), "unit": t[2]}
    return {"NULL": "UNKNOWN"}.get(t[0], t[0]), {}


def c05_check(case, data):
    """Independent reader on the file bytes.  Returns a list of (clause, text)."""
    bad = []
    pf = pq.read_file(data)
    for v in pf.validate():
        if v.severity == "error" or v.clause in C05_ERROR_WARNINGS:
            bad.append((v.clause, str(v)))
    if pf.fatal:
        return bad or [("unreadable", "file not readable")]
    want = fc.expected_table(case)
    got = [g for g in pf.table() if not (g and all(c is not None and len(c) == 0 for c in g))]
    diff = fc.compare_tables(want, got)
    if diff:
        bad.append(("table", "independent reader recovers a different table: " + diff))
    ss = [(n, t, r, tl if t == "FIXED_LEN_BYTE_ARRAY" else 0) for n, t, r, tl in
          [(a, b, c, d or 0) for a, b, c, d in pf.schema_summary()]]
    if ss != schema_tuple(case.schema.columns):
        bad.append(("schema", f"schema differs: wrote {schema_tuple(case.schema.columns)} file says {ss}"))
    if pf.num_rows() != fc.table_rows(want):
        bad.append(("count_file_rows", f"num_rows {pf.num_rows()} but {fc.table_rows(want)} rows were written"))
    cb = pf.meta.get("created_by") if pf.meta else None
    cb = cb.decode("utf-8", "replace") if isinstance(cb, (bytes, bytearray)) else cb
    want_cb = "Carquet" if (not case.options.created_by or case.options.null_options) else case.options.created_by
    if cb != want_cb:
        bad.append(("created_by", f"created_by {cb!r}, the options say {want_cb!r}"))
    els = (pf.meta.get("schema") or []) if pf.meta else []
    for i, col in enumerate(case.schema.columns):
        got_lt = els[i + 1].get("logicalType") if i + 1 < len(els) else None
        want_lt = logical_want(col.logical)
        if want_lt is None:
            if got_lt is not None and any(not k.startswith("_") for k in got_lt):
                bad.append(("logical_type", f"column {col.name}: logicalType present although none was given"))
            continue
        member, params = want_lt
        mem = got_lt.get(member) if got_lt else None
        if mem is None:
            bad.append(("logical_type", f"column {col.name}: LogicalType.{member} ({col.logical}) not in the footer"))
            continue
        for key, val in params.items():
            have = mem.get(key)
            if isinstance(val, str):                      # TimeUnit member
                have = next((u for u in ("MILLIS", "MICROS", "NANOS") if isinstance(have, dict) and u in have), None)
            if have is None or have != val:
                bad.append(("logical_type", f"column {col.name}: {member}.{key} = {have!r} in the footer, the schema says {val!r} ({col.logical})"))
    for k, rg in enumerate((pf.meta.get("row_groups") or []) if pf.meta else []):
        if rg.get("ordinal") is not None and rg.get("ordinal") != k:
            bad.append(("rg_ordinal", f"row group {k} carries ordinal {rg.get('ordinal')}"))
            break
    codec_want = {"LZ4": "LZ4_RAW"}.get(case.options.codec, case.options.codec)
    if case.options.null_options:
        codec_want = "UNCOMPRESSED"
    for rg in pf.chunks:
        for ch in rg:
            if ch is not None and ch.meta is not None:
                name = pq.CODEC.get(ch.meta.get("codec"), ch.meta.get("codec"))
                if name != codec_want:
                    bad.append(("codec_tag", f"rg{ch.rg}.col{ch.col}: codec tag {name}, pages were compressed with {case.options.codec}"))
    return bad


def case_summary(case):
    """Short human-readable description for evidence samples."""
    cols = ",".join(f"{c.ptype[:5]}{'?' if c.rep == 'OPTIONAL' else ''}" for c in case.schema.columns)
    ops = []
    for op in case.ops[:12]:
        if op.kind == "batch":
            ops.append(f"W{op.col}x{len(op.rows)}" + ("-nodefs" if op.nodefs else ""))
        else:
            ops.append(op.kind)
    return {"name": case.name, "columns": cols, "codec": case.options.codec, "page_size": case.options.page_size,
            "ops": " ".join(ops) + (" ..." if len(case.ops) > 12 else "")}


# ----------------------------------------------------------------------------- model tie

CODEC_ID = {"UNCOMPRESSED": 0, "SNAPPY": 1, "GZIP": 2, "LZ4": 5, "ZSTD": 6, "LZ4_RAW": 7}
TYPE_TOK = {"BOOLEAN": "B", "INT32": "I32", "INT64": "I64", "FLOAT": "F", "DOUBLE": "D", "BYTE_ARRAY": "BA",
            "FIXED_LEN_BYTE_ARRAY": "FL"}
MODEL_CODECS = ("UNCOMPRESSED", "SNAPPY", "LZ4")      # codecs whose compressor is modelled concretely


def model_line(case):
    """The extracted writer model's input line for `case` (ocaml/run_writer.ml)."""
    o = case.options
    if any(c.logical or c.rep not in ("REQUIRED", "OPTIONAL") for c in case.schema.columns):
        return None                           # (the model's schema has no logical types and no REPEATED columns)
    # (the driver's OPT line cannot express an empty created_by: "-" = NULL pointer = the library's default)
    cb = "NULL" if (not o.created_by or o.null_options) else o.created_by.encode().hex()
    page = (1 << 20) if o.null_options else o.page_size
    codec = 0 if o.null_options else CODEC_ID[o.codec]
    t = ["wr", str(codec), str(page), cb, str(len(case.schema.columns))]
    for c in case.schema.columns:
        t.append(f"{c.name.encode().hex() or '-'}:{TYPE_TOK[c.ptype]}:{'O' if c.rep == 'OPTIONAL' else 'R'}:{c.type_length}")
    for op in case.ops:
        if op.kind == "batch":
            if op.col < 0:
                return None                   # (the model's column index is a nat; the driver passes it as int32)
            col = case.schema.columns[op.col] if op.col < len(case.schema.columns) else fc.Column("?", "INT32")
            vals = [r for r in op.rows if r is not None]
            if op.nodefs:
                defs = "-"
            elif col.rep == "OPTIONAL" or op.force_defs:
                defs = "".join("0" if r is None else "1" for r in op.rows) or "E"
            else:
                defs = "-"
            vt = ",".join((v.hex() or "x") for v in vals) or "-"
            t.append(f"B:{op.col}:{len(op.rows)}:{defs}:{vt}")
        elif op.kind == "new_row_group":
            t.append("N")
        elif op.kind == "close":
            t.append("C")
        else:
            return None
    return " ".join(t)


def model_read_line(case):
    """What `rd` of ocaml/run_writer.ml must print for the file of `case`: every row group of the file, the
    empty ones included (a zero-row call before new_row_group / close leaves one)."""
    cols = ",".join(f"{c.name.encode().hex() or '-'}:{TYPE_TOK[c.ptype]}:{'O' if c.rep == 'OPTIONAL' else 'R'}:{c.type_length}"
                    for c in case.schema.columns) or "-"
    groups = fc.expected_table(case, keep_empty=True)

    def row(r):
        return "N" if r is None else (r.hex() or "x")
    gs = "|".join("%d[%s]" % (len(g[0]) if g else 0, ";".join(".".join(row(r) for r in col) or "-" for col in g)) for g in groups) or "-"
    return f"OK rows={sum(len(g[0]) if g else 0 for g in groups)} schema={cols} groups={gs}"


def model_size(case):
    """Bytes of values in the history (the extracted model computes with inductive numbers: keep cases small)."""
    return sum((len(r) if r is not None else 0) + 1 for op in case.ops if op.kind == "batch" for r in op.rows) + 8 * len(case.ops)


def status_codes(st):
    """Statuses of the write history as the integers the model prints (create excluded)."""
    out = []
    for s in st:
        w = s.split()
        if w[0] in ("create", "schema_create", "schema_add_column"):
            continue
        out.append(0 if w[-1] == "OK" else int(w[2]) if len(w) > 2 and w[1] == "ERR" else -1)
    return out


def model_tie(rep, written, limit=4000):
    """Extracted writer model vs implementation: statuses + file bytes (UNCOMPRESSED/SNAPPY/LZ4), page
    structure after decompression (GZIP/ZSTD)."""
    try:
        run = vlib.build_runner("writer")
    except vlib.BuildError as e:
        rep.tie_broken("extracted writer model does not build: " + str(e)[:600])
        return
    import pq, pq_codecs
    sel = [(c, st, data) for c, st, data in written if st.fault is None
           and model_size(c) < (12 * limit if c.name.startswith("boundary:") else limit) and model_line(c) is not None]
    lines = []
    for c, st, data in sel:
        if c.options.codec in MODEL_CODECS:
            lines.append(model_line(c))
        else:
            c0 = fc.Case(c.schema, fc.Options(**{**c.options.__dict__, "codec": "UNCOMPRESSED"}), c.ops, c.name)
            lines.append(model_line(c0))
    out, probs = vlib.run_sharded(run, lines)
    for pr in probs:
        rep.tie_broken(f"model runner died (rc={pr[1]}): {pr[2][-300:]}", pr[3])
    n_exact = n_struct = 0
    for (c, st, data), line, o in zip(sel, lines, out):
        t = o.split()
        if not t or t[0] != "OK":
            rep.tie_broken(f"writer model does not run on a history the implementation accepts: {o[:200]}", line)
            continue
        msts = [int(x) for x in t[1].split(",")] if len(t) > 1 and t[1] else []
        if msts != status_codes(st):
            rep.tie_broken(f"statuses differ: model {msts}, implementation {status_codes(st)} ({c.name})", line)
            continue
        mbytes = bytes.fromhex(t[3]) if len(t) > 3 and t[3] != "-" else b""
        closed = len(t) > 2 and t[2] == "1"
        if not closed or data is None:
            continue
        if c.options.codec in MODEL_CODECS:
            n_exact += 1
            if mbytes != data:
                k = next((i for i, (a, b) in enumerate(zip(mbytes, data)) if a != b), min(len(mbytes), len(data)))
                rep.tie_broken(f"file bytes differ from the model's prediction at offset {k} (model {len(mbytes)} bytes, "
                               f"implementation {len(data)} bytes; codec {c.options.codec}; {c.name})", line)
        else:
            n_struct += 1
            a, b = pq.read_file(mbytes), pq.read_file(data)

            def shape(pf, codec):
                rows = []
                for rg in pf.chunks:
                    for ch in rg:
                        for p in (ch.pages if ch is not None else []):
                            raw = pf.data[p.body_offset:p.body_offset + p.compressed_size]
                            rows.append((ch.rg, ch.col, p.num_values, pq_codecs.decompress(codec, raw, p.uncompressed_size)))
                return rows
            try:
                sa, sb = shape(a, 0), shape(b, pq.CODEC_ID.get(c.options.codec, 0))
            except Exception as e:              # undecodable page: C05's oracle reports it
                rep.tie_broken(f"pages of a {c.options.codec} file cannot be decompressed for the comparison: {e}", line)
                continue
            if sa != sb:
                rep.tie_broken(f"page structure after decompression differs from the model's prediction "
                               f"({len(sa)} / {len(sb)} pages; codec {c.options.codec}; {c.name})", line)
    # reader half: the extracted reader model (open, footer, chunks page after page) on the bytes of the REAL file
    rsel = [(c, data) for c, st, data in sel if data is not None and st.close_ok() and c.options.codec in MODEL_CODECS
            and len(data) < (40000 if c.name.startswith("boundary:") else 6000) and fc.expected_table(c) is not None]
    rout, rprobs = vlib.run_sharded(run, ["rd 1 " + (d.hex() or "-") for _, d in rsel])
    for pr in rprobs:
        rep.tie_broken(f"model runner died while reading (rc={pr[1]}): {pr[2][-300:]}", pr[3])
    n_read = 0
    for (c, data), o in zip(rsel, rout):
        want = model_read_line(c)
        n_read += 1
        if o.strip() != want:
            rep.tie_broken(f"the reader model does not read the implementation's file as the table written ({c.name}): "
                           f"model {o[:160]} / expected {want[:160]}", model_line(c))
    rep.cov["model_tie"] = {"byte_exact_files": n_exact, "structure_after_decompression_files": n_struct,
                            "files_read_by_reader_model": n_read}





# ----------------------------------------------------------------------------- determinism inside one process

def _repetitive(rng, n):
    """Bytes with many repeats over a small alphabet (what compressors find matches in)."""
    alpha = rng.choice([b"ab", b"abc", b"abcd", b"abcdefgh"])
    segs = [bytes(rng.choice(alpha) for _ in range(rng.randrange(6, 30))) for _ in range(8)]
    out = bytearray()
    while len(out) < n:
        out += rng.choice(segs) if rng.random() < 0.6 else bytes(rng.choice(alpha) for _ in range(rng.randrange(1, 9)))
    return bytes(out[:n])


def _perturb(rng, data, frac):
    b = bytearray(data)
    for i in range(len(b)):
        if rng.random() < frac:
            b[i] = rng.choice(b"abcd")
    return bytes(b)


def history_sequences(rng, tier):
    """Sequences T, U1..Uk, T written by ONE process: the second T must be byte-identical to the first whatever the
    process compressed / allocated in between.  U's are perturbed copies of T (same bytes at the same offsets, other
    matches), tables with other codecs and sizes, and unrelated random tables."""
    seqs = []
    n_blob, n_rand = (60, 30) if tier == "quick" else (400, 200)
    for k in range(n_blob):
        data = _repetitive(rng, rng.choice([300, 1000, 3000, 8000]))
        codec = rng.choice(["SNAPPY", "LZ4", "SNAPPY", "LZ4", "ZSTD", "GZIP"])
        col = fc.Column("b", "BYTE_ARRAY", rng.choice(["REQUIRED", "OPTIONAL"]))

        def blob(d, cd, nm):
            cut = rng.randrange(1, 4)
            parts = [d[i * len(d) // cut:(i + 1) * len(d) // cut] for i in range(cut)]
            return fc.Case(fc.Schema([col]), fc.Options(codec=cd, page_size=1 << 22),
                           [fc.WriteOp("batch", 0, parts), fc.WriteOp("close")], name=nm)
        t = fc.Case(fc.Schema([col]), fc.Options(codec=codec, page_size=1 << 22),
                    [fc.WriteOp("batch", 0, [data]), fc.WriteOp("close")], name=f"seqT{k}")
        us = [blob(_perturb(rng, data, f), codec, "U") for f in (0.05, 0.2)]
        us.append(blob(bytes(rng.getrandbits(8) for _ in range(rng.choice([100, 500, 5000]))), rng.choice(["SNAPPY", "LZ4"]), "R"))
        seqs.append([t] + us + [t])
    for k in range(n_rand):
        t = fc.gen_case(rng, max_rows=80, long_strings=False, max_cols=3)
        t.name = f"seqR{k}"
        us = [fc.gen_case(rng, max_rows=120, long_strings=(j == 0), max_cols=4) for j in range(rng.randrange(1, 4))]
        seqs.append([t] + us + [t])
    return seqs


def check_history_determinism(rep, rng, tier):
    """Runs the sequences; a T whose two files differ is a violation (C05 determinism clause)."""
    seqs = history_sequences(rng, tier)
    scripts, meta = [], []
    for seq in seqs:
        s = fc.Script("seq")
        paths = [fc.tmppath() for _ in seq]
        for c, p in zip(seq, paths):
            s.raw("SCHEMA_RESET")
            s.write(c, p)
        scripts.append(s)
        meta.append(paths)
    outs = fc.run_scripts(scripts, env={"OMP_NUM_THREADS": "2"})
    n = 0
    for seq, paths, o in zip(seqs, meta, outs):
        a = Path(paths[0]).read_bytes() if os.path.exists(paths[0]) else None
        b = Path(paths[-1]).read_bytes() if os.path.exists(paths[-1]) else None
        for p in paths:
            if os.path.exists(p):
                os.unlink(p)
        rep.count(("seq", seq[0].name, len(seq)), nontrivial=bool(a))
        replay = {"kind": "history-determinism", "sequence": [fc.case_to_json(c) for c in seq]}
        if o.fault:
            rep.violation(f"the writer died while writing a sequence of tables in one process: {o.fault.get('summary')}", replay)
            continue
        n += 1
        if a != b:
            k = None if (a is None or b is None) else next((i for i, (x, y) in enumerate(zip(a, b)) if x != y), min(len(a), len(b)))
            rep.violation(f"the same table written twice by one process gives different files when other tables are written in "
                          f"between ({seq[0].name}, {seq[0].options.codec}, {len(seq) - 2} tables in between): "
                          f"{len(a or b'')} / {len(b or b'')} bytes, first difference at {k}", replay)
    rep.cov.setdefault("input_distribution", {})["in_process_T_U_T_sequences"] = n


def replay_history_determinism(r):
    seq = [fc.case_from_json(c) for c in r["sequence"]]
    s = fc.Script("seq")
    paths = [fc.tmppath() for _ in seq]
    for c, p in zip(seq, paths):
        s.raw("SCHEMA_RESET")
        s.write(c, p)
    o = fc.run_scripts([s], shards=1)[0]
    a = Path(paths[0]).read_bytes() if os.path.exists(paths[0]) else None
    b = Path(paths[-1]).read_bytes() if os.path.exists(paths[-1]) else None
    for p in paths:
        if os.path.exists(p):
            os.unlink(p)
    print(f"sequence of {len(seq)} tables in one process; first and last are the same table")
    print("  first write:", len(a or b""), "bytes; last write:", len(b or b""), "bytes;", "IDENTICAL" if a == b and a else "DIFFERENT", o.fault or "")
    return 0 if (a == b and a and not o.fault) else 1
