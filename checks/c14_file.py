"""C14, file level: with checksum verification on, every modification confined to the stored bytes of a page
body makes reading that page report an error instead of returning data; an undamaged file never reports a
checksum error; with verification off the same damaged files are handled without a sanitizer report.

    check_files(rep, tier, rng)        called by checks/C14.py
    replay_file(obj) -> exit code      re-runs one recorded violation ({"file_case":..., "damage":..., "mode":...})

Files: written by carquet itself (tools/filecase generators, every codec, all seven types, one or several pages
per chunk; the triggers of the known writer/reader defects are avoided so that the undamaged file reads back).
Page bodies are located with the independent reader tools/pq.py.  Damage:
  quick     every single bit of every page body of 6 small files (one per codec)
  thorough  ~40 files: every bit; every other byte value at sampled positions; one burst of 2..32 bits starting
            at every bit (first and last bit of the burst flipped, interior random)
each x {buffer, stdio, mmap}, read through the column reader (all of them) and the batch reader (a sample).
Oracle (independent of any model): verify_checksums=1 -> the read of the damaged column ends in an error and no
row of the damaged page or of a later page is delivered.  verify_checksums=0 -> no crash/sanitizer report (the
property's last clause; counted in rep.cov["asan_with_verification_off"] and reported as a violation).
"""
import os, sys, json, random
from pathlib import Path

sys.path.insert(0, str(Path(__file__).resolve().parent.parent / "tools"))
import vlib
import filecase as fc
import pq

MODES = ["buffer", "stdio", "mmap"]
BIG = 1 << 20


def _gen_files(tier, rng):
    """Small valid files with varied codec / types / page layout -> [(case, bytes, ParsedFile)]."""
    want = 6 if tier == "quick" else 40               # quick: one small file per codec
    budget = 520 if tier == "quick" else 1400          # bytes of page bodies per file
    avoid = set(fc.AVOIDABLE)
    out, tries = [], 0
    while len(out) < want and tries < want * 30:
        tries += 1
        codec = fc.ALL_CODECS[len(out) % len(fc.ALL_CODECS)]
        t = fc.gen_table(rng, max_cols=3 if tier == "quick" else 4, max_rows=24 if tier == "quick" else 60,
                         long_strings=False, avoid=avoid)
        if t.nrows == 0:
            continue
        opts = fc.gen_options(rng, avoid, codecs=[codec])
        if len(out) % 2 == 0:
            opts.page_size = rng.choice([1, 32, 64])   # one page per write_batch call: several pages per chunk
        case = fc.gen_write_history(rng, t, options=opts, avoid=avoid, name=f"c14file{len(out)}")
        p = fc.tmppath()
        st = fc.write_case(case, p)
        if not st.close_ok() or not st.all_ok():
            continue
        data = Path(p).read_bytes()
        os.unlink(p)
        pf = pq.read_file(data)
        if pf.fatal or any(v.clause in ("page_chain", "page_decode", "page_crc") for v in pf.validate()):
            continue          # not this property's business (C05/C01 report it)
        bodies = pf.page_bodies()
        if not bodies or sum(b[4] for b in bodies) > budget or sum(b[4] for b in bodies) == 0:
            continue
        out.append((case, data, pf))
    # the crafted CRC == 0 page (always)
    case = _crc0_case(rng)
    p = fc.tmppath()
    st = fc.write_case(case, p)
    if st.close_ok() and st.all_ok():
        data = Path(p).read_bytes()
        pf = pq.read_file(data)
        if not pf.fatal:
            out.append((case, data, pf))
    if os.path.exists(p):
        os.unlink(p)
    return out


def _crc0_case(rng):
    """REQUIRED INT32, uncompressed, one page whose body has CRC-32 exactly 0: the last value is chosen by
    solving the (affine over GF(2)) map last-value -> crc."""
    import zlib
    n = rng.randrange(8, 40)
    vals = [rng.getrandbits(32).to_bytes(4, "little") for _ in range(n - 1)]
    prefix = b"".join(vals)
    base = zlib.crc32(prefix + b"\0\0\0\0")
    cols = [zlib.crc32(prefix + (1 << i).to_bytes(4, "little")) ^ base for i in range(32)]
    # solve  XOR_i x_i * cols[i] = base  (target crc 0)
    rows = [(cols[i], 1 << i) for i in range(32)]
    x, tgt = 0, base
    piv = []
    for bit in range(32):
        j = next((k for k, (c, _) in enumerate(rows) if (c >> bit) & 1), None)
        if j is None:
            continue
        c, m = rows.pop(j)
        rows = [((c2 ^ c, m2 ^ m) if (c2 >> bit) & 1 else (c2, m2)) for c2, m2 in rows]
        piv.append((bit, c, m))
    for bit, c, m in piv:
        if (tgt >> bit) & 1:
            tgt ^= c; x ^= m
    last = x.to_bytes(4, "little")
    assert zlib.crc32(prefix + last) == 0
    sch = fc.Schema([fc.Column("c0", "INT32", "REQUIRED")])
    return fc.Case(schema=sch, options=fc.Options(codec="UNCOMPRESSED"),
                   ops=[fc.WriteOp("batch", 0, vals + [last]), fc.WriteOp("close")], name="c14crc0")


def _damages(tier, rng, data, pf):
    """All damages of one file -> list of dicts {rg, col, page, offset, mask(hex), kind, rows_before}."""
    dmg = []
    rgrows = pf.rg_rows()
    for ch in (c for row in pf.chunks for c in row):
        before = 0
        for i, pg in enumerate(ch.pages):
            lo, n = pg.body_offset, pg.compressed_size
            # rows that may legitimately be delivered before the error: column reader of this chunk /
            # batch reader walking the whole file
            base = {"rg": ch.rg, "col": ch.col, "page": i, "rows_before": before,
                    "rows_before_file": before + sum(rgrows[:ch.rg])}
            for bit in range(n * 8):
                dmg.append(dict(base, offset=lo + bit // 8, mask="%02x" % (1 << (bit % 8)), kind="bit"))
            if tier == "thorough" and n:
                for pos in sorted(rng.sample(range(n), min(n, 4))):
                    for v in range(1, 256):
                        dmg.append(dict(base, offset=lo + pos, mask="%02x" % v, kind="byte"))
                for bit in range(n * 8 - 1):
                    L = rng.randrange(2, min(32, n * 8 - bit) + 1)
                    pat = 1 | (1 << (L - 1)) | (rng.getrandbits(L) & ((1 << L) - 1))
                    m = pat << (bit % 8)
                    nb = (m.bit_length() + 7) // 8
                    dmg.append(dict(base, offset=lo + bit // 8, mask=m.to_bytes(nb, "little").hex(), kind="burst"))
            # boundary-aimed 32-bit bursts: the first four body bytes of an uncompressed data page are the
            # length prefix of its level block (when the column has levels): set it to the values around
            # "everything that is left of the page", where a length check is decided
            if pg.kind == "DATA_PAGE" and n >= 8 and pg.uncompressed_size == n:
                cur = int.from_bytes(data[lo:lo + 4], "little")
                for tgt in (n - 7, n - 6, n - 5, n - 4, n - 3, n - 2, n - 1, n, n + 1):
                    if tgt >= 0 and tgt != cur:
                        dmg.append(dict(base, offset=lo, mask=(cur ^ tgt).to_bytes(4, "little").hex(), kind="prefix"))
            if pg.kind in ("DATA_PAGE", "DATA_PAGE_V2"):
                before += pg.num_values
    return dmg


def _script(data, damages, idxs, verify, tmp, br_every):
    """One driver case: the file image once, then for each damage: apply, read in the three modes, undo."""
    s = fc.Script()
    s.load_image(data)
    for i in idxs:
        d = damages[i]
        s.raw(f"ECHO D {i}", f"IMG_XOR {d['offset']} {d['mask']}", f"IMG_SAVE {tmp}")
        for m in MODES:
            s.raw(f"ECHO R {i} {m} col")
            s.open(m, verify, tmp)
            s.dump(BIG, rg=d["rg"], col=d["col"])
            if br_every and i % br_every == 0:
                s.raw(f"ECHO R {i} {m} br", f"BR_OPEN batch=4096 idx={d['col']}", "BR_ALL max=64")
            s.close()
        s.raw(f"IMG_XOR {d['offset']} {d['mask']}")
    s.raw(f"UNLINK {tmp}", "ECHO FIN")
    return s


def _parse(out):
    """CaseOut -> ({(damage index, mode, kind): verdict dict}, last damage index started, finished flag)."""
    res, cur, last, fin = {}, None, None, False
    for ln in out.lines:
        if ln.startswith("D "):
            last = int(ln.split()[1])
            cur = None
        elif ln.startswith("R "):
            t = ln.split()
            cur = {"error": False, "rows": 0, "done": False}
            res[(int(t[1]), t[2], t[3])] = cur
        elif ln == "FIN":
            fin = True
        elif cur is not None:
            if ln.startswith("open ERR") or (ln.startswith("cr_open") and "ERR" in ln) or ln.startswith("br_open ERR"):
                cur["error"], cur["done"] = True, True
            elif ln.startswith("chunk_end "):
                kv = dict(x.split("=", 1) for x in ln.split()[1:])
                cur["rows"] = int(kv["rows"])
                cur["error"] = kv["end"] != "OK"
                cur["done"] = True
            elif ln.startswith("batch OK rows="):
                cur["rows"] += int(ln.split("rows=")[1].split()[0])
            elif ln.startswith("batch ERR"):
                code = int(ln.split()[2])
                cur["error"] = code != 63          # END_OF_DATA is the normal end, not an error report
                cur["done"] = True
            elif ln.startswith("batch OK NULL"):
                cur["done"] = True
    return res, last, fin


def _run_all(data, damages, verify, br_every, per_script, on_result, on_fault):
    """Run every damage; a script that dies is attributed to the damage it died on and the rest is re-run."""
    pending = [list(range(i, min(i + per_script, len(damages)))) for i in range(0, len(damages), per_script)]
    rounds = 0
    while pending and rounds < 12:
        rounds += 1
        tmps = [fc.tmppath(".dmg") for _ in pending]
        outs = fc.run_scripts([_script(data, damages, idxs, verify, t, br_every) for idxs, t in zip(pending, tmps)],
                              case_timeout=300)
        nxt = []
        for idxs, out, t in zip(pending, outs, tmps):
            res, last, fin = _parse(out)
            for k, v in res.items():
                if v["done"]:
                    on_result(k, v)
            if out.fault is not None or not fin:
                culprit = last if last is not None else idxs[0]
                on_fault(culprit, out.fault or {"summary": "case did not finish"}, out.stderr)
                rest = [i for i in idxs if i > culprit]
                if rest:
                    nxt.append(rest)
            try:
                os.unlink(t)
            except OSError:
                pass
        pending = nxt


def check_undamaged(rep, tier, rng):
    """Clause "an undamaged file never reports a checksum error": a broad family of written files (every
    physical type x REQUIRED/OPTIONAL x many write histories with several batches per page x all codecs),
    read with verification ON in all three modes; an error that disappears with verification off (or a
    difference between the two dumps) is a violation."""
    n = 60 if tier == "quick" else 600
    cases = []
    for i in range(n):
        kw = {}
        if i % 3 == 0:        # single-column tables of each type, several batches into one page
            t = fc.TYPES[(i // 3) % len(fc.TYPES)]
            kw = dict(max_cols=1, types=[t], max_rows=60)
        case = fc.gen_case(rng, codecs=[fc.ALL_CODECS[i % len(fc.ALL_CODECS)]], long_strings=False, **({"max_cols": 3, "max_rows": 80} | kw))
        case.name = "c14ok%d" % i
        if i % 2 == 0:
            case.options.page_size = 1 << 20      # every batch of a row group lands in ONE page
        cases.append(case)
    bad = 0
    for case in cases:
        p = fc.tmppath()
        st = fc.write_case(case, p)
        if not (st.close_ok() and st.all_ok()):
            if os.path.exists(p):
                os.unlink(p)
            continue
        data = Path(p).read_bytes()
        os.unlink(p)
        for m in MODES:
            rep.count(("undamaged", case.name, m))
            dv = fc.dump(data, m, True, BIG)
            if dv.fault or not dv.opened or dv.read_errors():
                d0 = fc.dump(data, m, False, BIG)
                if not (d0.fault or not d0.opened or d0.read_errors()):
                    bad += 1
                    if bad <= 4:
                        rep.violation(f"undamaged file reports an error only with verify_checksums=1 in mode {m}: "
                                      f"{dv.error or dv.read_errors() or dv.fault}",
                                      {"file_case": fc.case_to_json(case), "mode": m, "damage": None})
    rep.cov.setdefault("file_level_undamaged", {})["files"] = len(cases)


def _foreign_files(tier, rng):
    """Files carquet's own writer cannot produce, written by the independent writer tools/pq.py:
    dictionary-encoded chunks whose DICTIONARY pages and data pages carry CRCs (the reader has separate checksum
    sites for dictionary pages), data pages v1 and v2, compressed and not - and the same files WITHOUT any CRC
    (nothing to verify: they must read with verification on).  -> [(name, bytes, has_crc)]"""
    import struct
    out = []
    # data pages v1 only: what the reader does with v2 pages is C06's subject, not the checksum's
    variants = [("UNCOMPRESSED", 1), ("SNAPPY", 1), ("ZSTD", 1)] if tier == "quick" else \
               [(c, 1) for c in ("UNCOMPRESSED", "SNAPPY", "GZIP", "ZSTD", "LZ4_RAW")]
    for codec, ver in variants:
        for crc in (True, False):
            n = rng.choice([9, 12, 17])
            ivals = [struct.pack("<q", rng.choice([7, 7, 11, 13, rng.getrandbits(40)])) for _ in range(n)]
            defs = [rng.choice([1, 1, 0]) for _ in range(n)]
            svals = [rng.choice([b"alpha", b"beta", b"", b"gamma-gamma"]) for d in defs if d]
            cut = rng.randrange(1, n)

            def pages(enc):
                return [pq.PageSpec(cut, enc, version=ver, crc=crc), pq.PageSpec(n - cut, enc, version=ver, crc=crc)]
            cols = [pq.ColumnSpec([0] * n, [0] * n, ivals, pages("RLE_DICTIONARY"), codec=codec, dictionary="auto",
                                  dict_offset=rng.choice(["present", "absent"]), dict_crc=crc),
                    pq.ColumnSpec(defs, [0] * n, svals, pages("RLE_DICTIONARY"),
                                  codec=codec, dictionary="auto", dict_crc=crc)]
            root = pq.SchemaNode("schema", "REQUIRED", None, 0,
                                 [pq.SchemaNode("k", "REQUIRED", "INT64", 0), pq.SchemaNode("s", "OPTIONAL", "BYTE_ARRAY", 0)])
            try:
                data = pq.write_file(pq.FileSpec(root, [pq.RowGroupSpec(n, cols)]), random.Random(rng.getrandbits(32)))
            except Exception as e:          # an option this version of pq.py does not offer
                vlib.log("   C14 foreign file not written:", e)
                continue
            out.append(("pq-dict-%s-v%d-%s" % (codec, ver, "crc" if crc else "nocrc"), data, crc))
    return out


def check_foreign(rep, tier, rng):
    """Checksum sites the carquet-written files never reach: dictionary pages with a CRC, files without CRCs."""
    files = _foreign_files(tier, rng)
    stats = {"files": len(files), "damaged_reads": 0, "dictionary_page_bits": 0, "without_crc": 0}
    for name, data, has_crc in files:
        cj = {"image_hex": data.hex(), "name": name}
        pf = pq.read_file(data)
        if pf.fatal or any(v.clause in ("page_chain", "page_decode", "page_crc") for v in pf.validate()):
            rep.tie_broken("file-level C14: the independent reader does not accept its own file " + name, name); continue
        ok0 = True
        for m in MODES:                     # undamaged: no error with verification on, with or without CRCs in the file
            rep.count(("foreign-undamaged", name, m))
            dv = fc.dump(data, m, True, BIG)
            if dv.fault or not dv.opened or dv.read_errors():
                d0 = fc.dump(data, m, False, BIG)
                if not (d0.fault or not d0.opened or d0.read_errors()):
                    rep.violation(f"undamaged file ({name}: dictionary pages, {'page and dictionary CRCs' if has_crc else 'NO checksums stored'}) "
                                  f"reports an error only with verify_checksums=1 in mode {m}: {dv.error or dv.read_errors() or dv.fault}",
                                  {"file_case": cj, "mode": m, "damage": None})
                else:
                    rep.tie_broken(f"file-level C14: foreign file {name} does not read back even without verification (mode {m}): "
                                   f"{d0.error or d0.read_errors() or d0.fault}", name)
                ok0 = False
        if not has_crc:
            stats["without_crc"] += 1
            continue
        if not ok0:
            continue
        damages = [d for d in _damages("quick", rng, data, pf)]
        # all bits of the dictionary pages, a sample of the data-page bits (those sites are swept on carquet's own files)
        dict_pages = {(ch.rg, ch.col, i) for row in pf.chunks for ch in row for i, pg in enumerate(ch.pages) if pg.kind == "DICTIONARY_PAGE"}
        dd = [d for d in damages if (d["rg"], d["col"], d["page"]) in dict_pages]
        rest = [d for d in damages if (d["rg"], d["col"], d["page"]) not in dict_pages]
        rng.shuffle(rest)
        damages = dd + rest[: (60 if tier == "quick" else 600)]
        stats["dictionary_page_bits"] += len(dd)

        def on_result(k, v, damages=damages, cj=cj, name=name):
            i, mode, kind = k
            d = damages[i]
            rep.count(("foreign-on", name, i, mode, kind))
            stats["damaged_reads"] += 1
            if len(rep.violations) >= 12:
                return
            if not v["error"]:
                rep.violation(f"damaged page body read without error (verify_checksums=1, {mode}, {kind} reader, file {name}): "
                              f"rg {d['rg']} col {d['col']} page {d['page']}{' (dictionary page)' if (d['rg'], d['col'], d['page']) in dict_pages else ''} "
                              f"offset {d['offset']} xor {d['mask']}; {v['rows']} rows delivered",
                              {"file_case": cj, "damage": d, "mode": mode, "reader": kind}, key=None)
            elif v["rows"] > (d["rows_before_file"] if kind == "br" else d["rows_before"]):
                rep.violation(f"rows of a damaged page were delivered before the error (verify_checksums=1, {mode}, {kind} reader, file {name}): "
                              f"{v['rows']} rows, only {d['rows_before']} precede page {d['page']}",
                              {"file_case": cj, "damage": d, "mode": mode, "reader": kind}, key=None)

        def on_fault(i, fault, stderr, damages=damages, cj=cj):
            if len(rep.violations) < 12:
                rep.violation(f"crash / sanitizer report while reading a damaged page with verify_checksums=1: {fault.get('summary')}",
                              {"file_case": cj, "damage": damages[i], "stderr": stderr[-1500:]}, key=None)

        def on_result_off(k, v, name=name):
            rep.count(("foreign-off", name) + k)

        def on_fault_off(i, fault, stderr, damages=damages, cj=cj):
            if len(rep.violations) < 12:
                rep.violation(f"crash / sanitizer report while reading a damaged page with verify_checksums=0: {fault.get('summary')}",
                              {"file_case": cj, "damage": damages[i], "verify": False, "stderr": stderr[-1500:]}, key=None)
        _run_all(data, damages, True, 8, 40, on_result, on_fault)
        _run_all(data, damages, False, 8, 40, on_result_off, on_fault_off)
    rep.cov["file_level_foreign"] = stats


def check_files(rep, tier, rng):
    """Entry point used by checks/C14.py (see module docstring)."""
    try:
        fc.driver()
    except vlib.BuildError as e:
        rep.tie_broken("harness h_file does not build against the current tree: " + str(e)[:400])
        return
    check_undamaged(rep, tier, rng)
    check_foreign(rep, tier, rng)
    files = _gen_files(tier, rng)
    if len(files) < (4 if tier == "quick" else 20):
        rep.tie_broken(f"file-level C14: only {len(files)} usable carquet-written files could be produced")
    stats = {"files": len(files), "page_bodies": 0, "body_bytes": 0, "damaged_reads": 0, "by_kind": {}, "by_codec": {}}
    off_faults = []
    br_every = 16 if tier == "quick" else 8
    for fi, (case, data, pf) in enumerate(files):
        cj = fc.case_to_json(case)
        bodies = pf.page_bodies()
        stats["page_bodies"] += len(bodies)
        stats["body_bytes"] += sum(b[4] for b in bodies)
        stats["by_codec"][case.options.codec] = stats["by_codec"].get(case.options.codec, 0) + 1
        # undamaged file: never an error with verification on (compared with verification off)
        for m in MODES:
            dv = fc.dump(data, m, True, BIG)
            if dv.fault or not dv.opened or dv.read_errors():
                d0 = fc.dump(data, m, False, BIG)
                if not (d0.fault or not d0.opened or d0.read_errors()):
                    rep.violation(f"undamaged file reports an error only with verify_checksums=1 in mode {m}: "
                                  f"{dv.error or dv.read_errors() or dv.fault}", {"file_case": cj, "mode": m, "damage": None})
                else:
                    rep.tie_broken(f"file-level C14: generated file {case.name} does not read back even without verification (mode {m})", cj)
        damages = _damages(tier, rng, data, pf)
        nrows_rg = pf.rg_rows()

        def on_result_on(k, v, fi=fi, damages=damages, cj=cj):
            """Verdict for one damaged read with verification on."""
            i, mode, kind = k
            d = damages[i]
            rep.count(("on", fi, i, mode, kind))
            stats["damaged_reads"] += 1
            stats["by_kind"][d["kind"]] = stats["by_kind"].get(d["kind"], 0) + 1
            if (not v["error"] or v["rows"] > d["rows_before_file"]) and len(rep.violations) >= 12:
                stats["further_violations"] = stats.get("further_violations", 0) + 1
            elif not v["error"]:
                rep.violation(f"damaged page body read without error (verify_checksums=1, {mode}, {kind} reader): "
                              f"rg {d['rg']} col {d['col']} page {d['page']} offset {d['offset']} xor {d['mask']}; {v['rows']} rows delivered",
                              {"file_case": cj, "damage": d, "mode": mode, "reader": kind}, key=None)
            elif v["rows"] > (d["rows_before_file"] if kind == "br" else d["rows_before"]):
                rep.violation(f"rows of a damaged page were delivered before the error (verify_checksums=1, {mode}, {kind} reader): "
                              f"{v['rows']} rows delivered, only {d['rows_before']} precede page {d['page']} of rg {d['rg']} col {d['col']}",
                              {"file_case": cj, "damage": d, "mode": mode, "reader": kind}, key=None)

        def on_fault_on(i, fault, stderr, damages=damages, cj=cj):
            """A crash with verification on is a violation of C14."""
            rep.violation(f"crash / sanitizer report while reading a damaged page with verify_checksums=1: {fault.get('summary')}",
                          {"file_case": cj, "damage": damages[i], "stderr": stderr[-1500:]}, key=None)

        def on_result_off(k, v, fi=fi):
            """Count one damaged read with verification off."""
            rep.count(("off", fi) + k)
            stats["damaged_reads"] += 1

        def on_fault_off(i, fault, stderr, damages=damages, case=case, cj=cj):
            """A crash with verification off violates the property's last clause ("with verification
            disabled the same damaged files are still handled memory-safely")."""
            if len(off_faults) < 10:
                off_faults.append({"file": case.name, "codec": case.options.codec, "damage": damages[i], "summary": fault.get("summary")})
            stats["off_faults"] = stats.get("off_faults", 0) + 1
            if len(rep.violations) < 12:
                rep.violation(f"crash / sanitizer report while reading a damaged page with verify_checksums=0: {fault.get('summary')}",
                              {"file_case": cj, "damage": damages[i], "verify": False, "stderr": stderr[-1500:]}, key=None)

        per = 40 if tier == "quick" else 150
        _run_all(data, damages, True, br_every, per, on_result_on, on_fault_on)
        _run_all(data, damages, False, br_every, per, on_result_off, on_fault_off)
        if fi < 3:
            rep.sample({"file": case.name, "codec": case.options.codec, "columns": [(c.ptype, c.rep) for c in case.schema.columns],
                        "rows": nrows_rg, "page_bodies": [(b[0], b[1], b[2], b[4]) for b in bodies][:8], "damages": len(damages)})
    rep.cov["file_level"] = stats
    rep.cov["asan_with_verification_off"] = {"count": stats.get("off_faults", 0), "first": off_faults}
    vlib.log(f"   C14 file level: {stats}")


def replay_file(obj):
    """Re-run one recorded file-level violation; returns 1 when it still shows."""
    if "image_hex" in obj["file_case"]:                 # a file of the independent writer: the image itself is recorded
        data = bytes.fromhex(obj["file_case"]["image_hex"])
        print("foreign file", obj["file_case"].get("name"), len(data), "bytes")
    else:
        case = fc.case_from_json(obj["file_case"])
        p = fc.tmppath()
        st = fc.write_case(case, p)
        print("write:", list(st))
        data = Path(p).read_bytes()
    d = obj.get("damage")
    if d:
        b = bytearray(data)
        for j, m in enumerate(bytes.fromhex(d["mask"])):
            b[d["offset"] + j] ^= m
        data = bytes(b)
    bad = 0
    for m in ([obj["mode"]] if obj.get("mode") else MODES):
        dv = fc.dump(data, m, True, BIG, **({} if not d else {}))
        errs = dv.read_errors()
        print(m, "open", dv.opened, dv.error, "read errors", errs, "fault", dv.fault)
        if d and not (errs or dv.fault or not dv.opened):
            bad = 1
        if not d and (errs or dv.fault or not dv.opened):
            bad = 1
    return bad


if __name__ == "__main__":
    # development entry: python3 checks/c14_file.py quick|thorough
    tier = sys.argv[1] if len(sys.argv) > 1 else "quick"
    rep = vlib.Report("C14file", tier)
    import time
    t0 = time.time()
    check_files(rep, tier, random.Random(vlib.SEED * 7919 + 14))
    print("violations", len(rep.violations), "broken", rep.broken, "evaluations", rep.cov["evaluations"], "%.1fs" % (time.time() - t0))
    for w, r, _ in rep.violations[:5]:
        print("  ", w)
    print(json.dumps(rep.cov.get("asan_with_verification_off"), indent=1)[:1500])
