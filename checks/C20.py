"""C20 - Bloom filters have no false negatives and follow the Parquet algorithm; the hash is XXH64.

Proof: coq/theories/Props/Properties_C20.v (10 theorems; models Util/Xxh64Model.v, Util/BloomModel.v;
       specifications Util/Xxh64Spec.v, Util/BloomSpec.v).
Tie:   (a) the five XXH primes, SALT[8] and the block size are regenerated from the C sources;
       (b) carquet_xxhash64 vs extracted model vs extracted specification vs libxxhash XXH64 on every
           length 0..N x seeds x alignments; random Bloom scenarios (create / typed and raw insert /
           check / merge / write / reload / load from bytes / dump) through the real API and through
           the extracted model + specification, bit arrays and every answer compared.
Property oracles evaluated on the implementation without the Coq model: libxxhash equality; an
       independent Python transcription of XXH64 and of the Parquet split-block Bloom filter predicts
       every result token (sizes, bit arrays, answers, merge/read/write status); and a bookkeeping
       oracle that only knows "what was inserted must be reported present" (also across merge/reload).
"""
import random, json, struct, math
from pathlib import Path
import vlib
from vlib import Report, prelude, build_driver, build_runner, run_sharded, hexs, log

PID = "C20"
M64 = (1 << 64) - 1

# ----------------------------------------------------------------------------- independent oracles

P1, P2, P3, P4, P5 = (0x9E3779B185EBCA87, 0xC2B2AE3D27D4EB4F, 0x165667B19E3779F9,
                      0x85EBCA77C2B2AE63, 0x27D4EB2F165667C5)


def _rotl(x, r):
    return ((x << r) | (x >> (64 - r))) & M64


def _round(acc, lane):
    return (_rotl((acc + lane * P2) & M64, 31) * P1) & M64


def py_xxh64(data, seed):
    """XXH64 transcribed from the xxHash specification (index based, independent of the Coq text)."""
    n, i = len(data), 0
    if n >= 32:
        a = [(seed + P1 + P2) & M64, (seed + P2) & M64, seed & M64, (seed - P1) & M64]
        while n - i >= 32:
            for j in range(4):
                a[j] = _round(a[j], int.from_bytes(data[i + 8 * j:i + 8 * j + 8], "little"))
            i += 32
        acc = (_rotl(a[0], 1) + _rotl(a[1], 7) + _rotl(a[2], 12) + _rotl(a[3], 18)) & M64
        for j in range(4):
            acc = (((acc ^ _round(0, a[j])) * P1) + P4) & M64
    else:
        acc = (seed + P5) & M64
    acc = (acc + n) & M64
    while n - i >= 8:
        acc ^= _round(0, int.from_bytes(data[i:i + 8], "little"))
        acc = (_rotl(acc, 27) * P1 + P4) & M64
        i += 8
    if n - i >= 4:
        acc ^= (int.from_bytes(data[i:i + 4], "little") * P1) & M64
        acc = (_rotl(acc, 23) * P2 + P3) & M64
        i += 4
    while i < n:
        acc ^= (data[i] * P5) & M64
        acc = (_rotl(acc, 11) * P1) & M64
        i += 1
    acc ^= acc >> 33
    acc = (acc * P2) & M64
    acc ^= acc >> 29
    acc = (acc * P3) & M64
    acc ^= acc >> 32
    return acc


SALT = (0x47b6137b, 0x44974d91, 0x8824ad5b, 0xa2b7289d, 0x705495c7, 0x2df1424b, 0x9efc4947, 0x5c6bfb31)


class Sbbf:
    """Parquet split-block Bloom filter, transcribed from parquet-format/BloomFilter.md."""

    def __init__(self, nblocks=None, raw=None):
        if raw is not None:
            self.w = list(struct.unpack("<%dI" % (len(raw) // 4), raw))
        else:
            self.w = [0] * (8 * nblocks)

    @property
    def nblocks(self):
        return len(self.w) // 8

    @property
    def nbytes(self):
        return len(self.w) * 4

    def _masks(self, h):
        x = h & 0xFFFFFFFF
        return [1 << (((x * s) & 0xFFFFFFFF) >> 27) for s in SALT]

    def _block(self, h):
        return ((h >> 32) * self.nblocks) >> 32

    def insert(self, h):
        b = self._block(h)
        for i, m in enumerate(self._masks(h)):
            self.w[8 * b + i] |= m

    def check(self, h):
        b = self._block(h)
        return all(self.w[8 * b + i] & m for i, m in enumerate(self._masks(h)))

    def bytes(self):
        return struct.pack("<%dI" % len(self.w), *self.w)

    def copy(self):
        return Sbbf(raw=self.bytes())


def size_to_blocks(n):
    return max(1, (n + 31) // 32)


HUGE = 1 << 40      # sizes above this are only used to probe the NULL result


def oracle_tokens(ops):
    """Expected result tokens of a scenario according to the Parquet algorithm (no Coq model involved),
    plus the list of 'false negative' checks: indices of q/qh ops whose value is known to have been
    inserted into that slot (directly, through a merge, or before a reload)."""
    slots, members = [None] * 4, [set() for _ in range(4)]
    exp, must = [], []
    for idx, op in enumerate(ops):
        f = op.split(":")
        o, k = f[0], int(f[1])
        s = slots[k]
        if o == "c":
            n = int(f[2], 16)
            if n > (1 << 64) - 32 or n > HUGE:
                slots[k] = None
                exp.append("c=NULL")
            else:
                slots[k] = Sbbf(size_to_blocks(n))
                exp.append("c=%x/%x" % (slots[k].nbytes, slots[k].nblocks))
            members[k] = set()
        elif o == "r":
            src = int(f[2])
            if slots[src] is None:
                exp.append("r=noslot")
            else:
                slots[k] = slots[src].copy()
                members[k] = set(members[src])
                exp.append("r=ok")
        elif o == "rb":
            raw = b"" if f[2] == "-" else bytes.fromhex(f[2])
            if len(raw) >= 32 and len(raw) % 32 == 0:
                slots[k] = Sbbf(raw=raw)
                members[k] = set()
                exp.append("rb=ok")
            else:
                exp.append("rb=err")
        elif s is None:
            exp.append(o + "=noslot")
        elif o in ("i", "q"):
            payload = b"" if f[3] == "-" else bytes.fromhex(f[3])
            h = py_xxh64(payload, 0)
            if o == "i":
                s.insert(h)
                members[k].add(h)
                exp.append("i")
            else:
                exp.append("q=%d" % s.check(h))
                if h in members[k]:
                    must.append(idx)
        elif o in ("ih", "qh"):
            h = int(f[2], 16)
            if o == "ih":
                s.insert(h)
                members[k].add(h)
                exp.append("ih")
            else:
                exp.append("qh=%d" % s.check(h))
                if h in members[k]:
                    must.append(idx)
        elif o == "x":
            slots[k] = None
            members[k] = set()
            exp.append("x")
        elif o == "m":
            src = int(f[2])
            if slots[src] is None:
                exp.append("m=noslot")
            elif slots[src].nbytes != s.nbytes:
                exp.append("m=err")
            else:
                other = slots[src]
                s.w = [a | b for a, b in zip(s.w, other.w)]
                members[k] |= members[src]
                exp.append("m=ok")
        elif o == "w":
            cap = int(f[2])
            exp.append("w=ok:" + hexs(s.bytes()) if cap >= s.nbytes else "w=err")
        elif o == "d":
            exp.append("d=%x/%x/%s" % (s.nbytes, s.nblocks, hexs(s.bytes())))
        else:
            exp.append(o + "=badop")
    return exp, must


# ----------------------------------------------------------------------------- generators

def rand_bytes(rng, n):
    return bytes(rng.getrandbits(8) for _ in range(n))


def gen_xxh(tier, rng):
    cases = []
    maxlen = 300 if tier == "thorough" else 96
    for n in range(0, maxlen + 1):
        for seed in (0, 1, M64, rng.getrandbits(64)):
            als = range(8) if (tier == "thorough" and n <= 72) else [rng.randrange(16)]
            for al in als:
                cases.append(("xxh", al, seed, rand_bytes(rng, n)))
    for n in (1, 3, 4, 7, 8, 11, 12, 31, 32, 33, 35, 36, 39, 40, 63, 64, 65, 95, 96, 127, 128, 129, 255, 256, 1024):
        for fill in (b"\x00", b"\xff"):
            cases.append(("xxh", rng.randrange(16), rng.choice([0, M64, rng.getrandbits(64)]), fill * n))
    nlong = 1200 if tier == "thorough" else 60
    for _ in range(nlong):
        base = rng.choice([32, 64, 96, 128, 512, 1024, 2048]) if rng.random() < 0.5 else rng.randrange(97, 3000)
        n = base + rng.choice([0, 0, 1, 3, 4, 5, 7, 8, 9, 12, 15, 16, 20, 24, 28, 31, -1])
        cases.append(("xxh", rng.randrange(16), rng.choice([0, 1, M64, rng.getrandbits(64)]), rand_bytes(rng, max(0, n))))
    return cases


SIZES = [0, 1, 31, 32, 33, 63, 64, 65, 95, 96, 97, 127, 128, 160, 224, 256, 1000, 1024]
I32S = [0, 1, -1, 2**31 - 1, -2**31, 42]
I64S = [0, 1, -1, 2**63 - 1, -2**63, 2**32, -2**32]
F32S = [0x00000000, 0x80000000, 0x7f800000, 0xff800000, 0x7fc00000, 0x7fa00001, 0x3f800000, 0x00000001]
F64S = [0x0, 0x8000000000000000, 0x7ff0000000000000, 0x7ff8000000000000, 0x7ff4000000000001, 0x3ff0000000000000, 1]


def rand_value(rng):
    t = rng.choice(["i32", "i64", "f32", "f64", "ba", "ba"])
    if t == "i32":
        v = rng.choice(I32S) if rng.random() < 0.3 else rng.randrange(-2**31, 2**31)
        return t, struct.pack("<i", v)
    if t == "i64":
        v = rng.choice(I64S) if rng.random() < 0.3 else rng.randrange(-2**63, 2**63)
        return t, struct.pack("<q", v)
    if t == "f32":
        v = rng.choice(F32S) if rng.random() < 0.3 else rng.getrandbits(32)
        return t, struct.pack("<I", v)
    if t == "f64":
        v = rng.choice(F64S) if rng.random() < 0.3 else rng.getrandbits(64)
        return t, struct.pack("<Q", v)
    r = rng.random()
    n = rng.randrange(0, 12) if r < 0.5 else (rng.randrange(12, 40) if r < 0.85 else rng.randrange(40, 140))
    return t, rand_bytes(rng, n)


def rand_hash(rng):
    hi = rng.choice([0, 1, 2, 0xFFFFFFFF, 0x80000000, 0x7FFFFFFF, 0x55555555]) if rng.random() < 0.4 else rng.getrandbits(32)
    lo = rng.choice([0, 1, 0xFFFFFFFF, 0x80000000]) if rng.random() < 0.2 else rng.getrandbits(32)
    return (hi << 32) | lo


def gen_scenario(tier, rng):
    ops = []
    live = {}                       # slot -> nbytes
    pool = [rand_value(rng) for _ in range(rng.randrange(3, 14))]
    hpool = [rand_hash(rng) for _ in range(rng.randrange(2, 8))]
    sizes = SIZES + ([2048, 4096, 5000] if tier == "thorough" else [])

    def create(k):
        r = rng.random()
        if r < 0.04:
            n = rng.choice([M64, M64 - 15, M64 - 30])            # cannot be rounded within size_t
        elif r < 0.75:
            n = rng.choice(sizes)
        elif live and r < 0.9:
            n = max(0, rng.choice(list(live.values())) - rng.randrange(0, 32))   # same rounded size as another slot
        else:
            n = rng.randrange(0, 2100)
        ops.append("c:%d:%x" % (k, n))
        if n > M64 - 31:
            live.pop(k, None)
        else:
            live[k] = 32 * size_to_blocks(n)

    create(0)
    nops = rng.randrange(8, 45)
    for _ in range(nops):
        r = rng.random()
        if not live:
            create(rng.randrange(4))
            continue
        k = rng.choice(list(live))
        if r < 0.08:
            create(rng.randrange(4))
        elif r < 0.40:
            t, p = rng.choice(pool)
            ops.append("i:%d:%s:%s" % (k, t, hexs(p)))
        elif r < 0.62:
            t, p = rng.choice(pool) if rng.random() < 0.8 else rand_value(rng)
            ops.append("q:%d:%s:%s" % (k, t, hexs(p)))
        elif r < 0.70:
            ops.append("ih:%d:%016x" % (k, rng.choice(hpool)))
        elif r < 0.77:
            ops.append("qh:%d:%016x" % (k, rng.choice(hpool) if rng.random() < 0.8 else rand_hash(rng)))
        elif r < 0.84:
            src = rng.choice(list(live))
            ops.append("m:%d:%d" % (k, src))
        elif r < 0.88:
            nb = live[k]
            ops.append("w:%d:%d" % (k, rng.choice([0, nb - 1, nb, nb + 1, rng.randrange(0, nb + 40)])))
        elif r < 0.93:
            dst = rng.randrange(4)
            ops.append("r:%d:%d" % (dst, k))
            live[dst] = live[k]
        elif r < 0.96:
            dst = rng.randrange(4)
            n = rng.choice([0, 1, 31, 32, 33, 64, 96, 100, 128])
            ops.append("rb:%d:%s" % (dst, hexs(rand_bytes(rng, n))))
            if n >= 32 and n % 32 == 0:
                live[dst] = n
        else:
            ops.append("d:%d" % k)
    # everything that was inserted is asked again at the end, every live filter is dumped
    for k in sorted(live):
        for t, p in pool:
            if rng.random() < 0.5:
                ops.append("q:%d:%s:%s" % (k, t, hexs(p)))
        for h in hpool:
            if rng.random() < 0.5:
                ops.append("qh:%d:%016x" % (k, h))
        ops.append("d:%d" % k)
    return ops


def gen_history(tier, rng):
    """Several filter LIFETIMES in one process (the writer's one-filter-per-row-group pattern): create, insert a
    run of values, check, destroy, create the next filter of the SAME size (the allocator hands out the same
    addresses again), whose first insertion equals the last insertion of its predecessor; the successor may also
    come from a reload or from raw bytes.  Interleaved insertions of one value into two live filters.  Any state
    the library keeps across filters (caches keyed by address, statics) shows up as a false negative or as bits
    that differ from the Parquet algorithm."""
    ops = []
    k = rng.randrange(4)
    size = rng.choice([1, 32, 64, 96, 128, 1000])
    nb = 32 * size_to_blocks(size)
    pool = [rand_value(rng) for _ in range(rng.randrange(2, 6))]
    hpool = [rand_hash(rng) for _ in range(2)]
    last = None
    for life in range(rng.randrange(3, 7)):
        how = rng.random()
        if life == 0 or how < 0.7:
            ops.append("c:%d:%x" % (k, max(0, nb - rng.randrange(0, 32))))
        elif how < 0.85:
            ops.append("rb:%d:%s" % (k, "00" * nb))
        else:
            other = (k + 1) % 4
            ops += ["c:%d:%x" % (other, nb), "r:%d:%d" % (k, other), "x:%d" % other]
        seq = []
        if last is not None and rng.random() < 0.85:
            seq.append(last)                              # the run of equal values straddles the boundary
        for _ in range(rng.randrange(0, 5)):
            v = rng.choice(pool) if rng.random() < 0.8 else ("h", rng.choice(hpool))
            seq += [v] * rng.choice([1, 1, 2, 3])         # runs inside one filter
        if not seq:
            seq.append(rng.choice(pool))
        for v in seq:
            ops.append("ih:%d:%016x" % (k, v[1]) if v[0] == "h" else "i:%d:%s:%s" % (k, v[0], hexs(v[1])))
        for v in dict.fromkeys(seq):
            ops.append("qh:%d:%016x" % (k, v[1]) if v[0] == "h" else "q:%d:%s:%s" % (k, v[0], hexs(v[1])))
        ops.append("d:%d" % k)
        last = seq[-1]
        if rng.random() < 0.9:
            ops.append("x:%d" % k)
    # two live filters, the same value alternately
    a, b = 0, 1
    ops += ["c:%d:%x" % (a, nb), "c:%d:%x" % (b, nb)]
    for _ in range(rng.randrange(2, 6)):
        v = rng.choice(pool)
        order = [a, b] if rng.random() < 0.5 else [b, a, b]
        for kk in order:
            ops.append("i:%d:%s:%s" % (kk, v[0], hexs(v[1])))
        ops += ["q:%d:%s:%s" % (kk, v[0], hexs(v[1])) for kk in (a, b)]
    ops += ["d:%d" % a, "d:%d" % b]
    return ops


def ndv_expect(ndv, fpp):
    """What create_with_ndv must return: None = NULL (invalid arguments, a size that does not fit size_t or that
    cannot be allocated), else the byte count before rounding to blocks (formula of the function's comment)."""
    if not (ndv > 0) or not (fpp > 0.0) or not (fpp < 1.0):      # NaN fails every comparison: invalid
        return None
    by = -float(ndv) * math.log(fpp) / 0.4804530139182014246671025263266649717305529515945455 / 8.0
    if not (by < float(HUGE)):
        return None
    return int(by) + 1


NDV_GRID = [0, 1, 2, -1, -2**63, 2**63 - 1, 2**62, 2**50, 1000]
FPP_GRID = [0.0, -0.0, 5e-324, 1e-300, 1e-9, 0.01, 0.5, 1.0 - 2**-53, 1.0, 1.0 + 2**-52, -1e-300, 2.0,
            float("inf"), float("-inf"), float("nan")]


def ndv_bytes(ndv, fpp):
    return -float(ndv) * math.log(fpp) / 0.4804530139182014246671025263266649717305529515945455 / 8.0


def fpp_for_bytes(ndv, target):
    """A false-positive probability for which the size formula gives exactly [target] bytes (a double), found by
    bisection over the bit patterns of fpp (the formula is monotone; neighbouring fpp move it by less than one ulp
    of the result, so the exact value is normally attained).  None if it is not."""
    as_bits = lambda x: struct.unpack("<Q", struct.pack("<d", x))[0]
    as_dbl = lambda b: struct.unpack("<d", struct.pack("<Q", b))[0]
    lo, hi = as_bits(5e-324), as_bits(1.0 - 2**-53)         # bytes(lo) is huge, bytes(hi) is about 0
    if not (ndv_bytes(ndv, as_dbl(lo)) >= target >= ndv_bytes(ndv, as_dbl(hi))):
        return None
    while hi - lo > 1:
        mid = (lo + hi) // 2
        if ndv_bytes(ndv, as_dbl(mid)) > target:
            lo = mid
        else:
            hi = mid
    return as_dbl(hi) if ndv_bytes(ndv, as_dbl(hi)) == target else None


def gen_ndv(tier, rng):
    """create_with_ndv is not modelled (libm); the implementation alone is checked against the property's size rule,
    the argument limits (ndv 0 / 1 / huge, fpp at 0, 1, their neighbours, tiny, NaN, infinities) and the
    no-false-negative rule."""
    pairs = [(n, f) for n in NDV_GRID for f in FPP_GRID]
    pairs = [(n, f) for n, f in pairs if not (HUGE / 64 < (ndv_expect(n, f) or 0))]   # nothing between 16 GiB and 2^40
    # the size formula landing exactly on 2^64 bytes (first value that does not fit size_t) and on its neighbours
    for ndv in (2**63 - 1, 2**62, 2**61 + 12345):
        f = fpp_for_bytes(ndv, 2.0**64)
        if f is not None:
            pairs += [(ndv, f), (ndv, math.nextafter(f, 0.0)), (ndv, math.nextafter(f, 1.0))]
    for _ in range(60 if tier == "thorough" else 12):
        pairs.append((rng.choice([1, 2, 10, 100, 1000, rng.randrange(1, 20000)]),
                      rng.choice([0.5, 0.1, 0.01, 0.001, 1e-6, rng.random() * 0.98 + 0.001])))
    out = []
    for ndv, fpp in pairs:
        if (ndv_expect(ndv, fpp) or 0) > (1 << 26):
            continue                                        # allocations above 64 MiB: not worth the time
        t, p = rand_value(rng)
        out.append((ndv, fpp, "bloom cn:0:%d:%016x i:0:%s:%s q:0:%s:%s" % (
            ndv, struct.unpack("<Q", struct.pack("<d", fpp))[0], t, hexs(p), t, hexs(p))))
    return out


# ----------------------------------------------------------------------------- the check

def xxh_line(c):
    return "xxh %d %x %s" % (c[1], c[2], hexs(c[3]))


def check_xxh(rep, tier, rng, drv, run):
    cases = gen_xxh(tier, rng)
    lines = [xxh_line(c) for c in cases]
    impl, p1 = run_sharded(drv, lines)
    model, p2 = run_sharded(run, lines)
    for pr in p1:
        rep.violation(f"implementation driver died in carquet_xxhash64 (rc={pr[1]}): {pr[2][-600:]}", {"case": pr[3]})
    for pr in p2:
        rep.tie_broken(f"model runner died (rc={pr[1]}): {pr[2][-300:]}", pr[3])
    for c, li, a, b in zip(cases, lines, impl, model):
        rep.count(li, nontrivial=len(c[3]) > 0)
        at, bt = a.split(), b.split()
        want = "%x" % py_xxh64(c[3], c[2])
        if len(at) != 3 or at[0] != "OK" or at[1] != at[2]:
            rep.violation(f"carquet_xxhash64 differs from libxxhash XXH64 (len {len(c[3])}, seed {c[2]:#x}): {a}",
                          {"case": li, "impl": a})
        elif at[1] != want:
            rep.tie_broken(f"the Python XXH64 oracle differs from libxxhash: {want} vs {a}", li)
        if len(bt) != 3 or bt[1] != bt[2]:
            rep.tie_broken(f"extracted Xxh64Model and extracted Xxh64Spec differ: {b}", li)
        elif at[:2] != bt[:2]:
            rep.tie_broken(f"Xxh64Model differs from carquet_xxhash64: model {b} / impl {a}", li)
    # lengths of 2^32 bytes and more ("every input length"): size_t vs 32-bit arithmetic in the length handling.
    # Optimised build, sparse anonymous mapping, libxxhash streaming API in 1 GiB pieces as the reference.
    try:
        pdrv = build_driver("h_util", flavour="plain", libs=["-lxxhash"])
        sizes = [(1 << 32) - 1, 1 << 32, (1 << 32) + 13] + ([(1 << 33) + 5] if tier == "thorough" else [])
        blines = ["xxhbig %d %x" % (n, rng.choice([0, 1, M64, rng.getrandbits(64)])) for n in sizes]
        bout, bp = run_sharded(pdrv, blines, shards=len(blines), timeout=900)
        for pr in bp:
            rep.tie_broken(f"xxhbig could not run (rc={pr[1]}): {pr[2][-200:]}", pr[3])
        for li, o in zip(blines, bout):
            rep.count(li)
            t = o.split()
            if o.startswith("FAULT"):
                continue
            if len(t) != 3 or t[0] != "OK":
                rep.tie_broken(f"xxhbig could not run: {o[:200]}", li)
            elif t[1] != t[2]:
                rep.violation(f"carquet_xxhash64 of a {li.split()[1]}-byte buffer differs from libxxhash XXH64 (streaming): {o}",
                              {"case": li, "impl": o, "flavour": "plain"})
    except vlib.BuildError as e:
        rep.tie_broken("plain-flavour harness does not build: " + str(e)[:300])
    rep.sample({"op": "xxh", "align": cases[130][1], "seed": "%x" % cases[130][2], "bytes": hexs(cases[130][3])})
    return len(cases)


def judge_scenario(rep, line, ops, a, b=None, flavour=None):
    """Compare one scenario's implementation output [a] with the oracles (and the model output [b])."""
    exp, must = oracle_tokens(ops)
    at = a.split()
    ok = True
    if not at or at[0] != "OK" or len(at) != len(ops) + 1:
        rep.violation(f"Bloom scenario: malformed driver output {a[:200]}", {"case": line, "impl": a[:2000]})
        return False
    got = at[1:]
    # (1) bookkeeping oracle: an inserted value must be reported present
    for i in must:
        if got[i] not in ("q=1", "qh=1"):
            rep.violation(f"false negative: op #{i} '{ops[i]}' asks for a value inserted earlier and gets {got[i]}",
                          dict({"case": line, "op_index": i, "impl": a[:2000]}, **({"flavour": flavour} if flavour else {})))
            ok = False
            break
    # (2) the Parquet algorithm predicts every token (sizes, bits, answers, status classes)
    for i, (g, e) in enumerate(zip(got, exp)):
        if g != e:
            rep.violation(f"op #{i} '{ops[i]}': implementation gives {g[:160]}, the Parquet split-block algorithm "
                          f"(independent transcription) gives {e[:160]}", dict({"case": line, "op_index": i, "impl": a[:2000]}, **({"flavour": flavour} if flavour else {})))
            ok = False
            break
    if b is not None:
        bt = b.split()
        if len(bt) != len(ops) + 2 or bt[0] != "OK":
            rep.tie_broken(f"model runner output malformed: {b[:200]}", line)
        else:
            if bt[-1] != "SPEC=agree":
                rep.tie_broken(f"extracted BloomModel and extracted BloomSpec disagree ({bt[-1]})", line)
            for i, (g, m) in enumerate(zip(got, bt[1:-1])):
                if g != m:
                    rep.tie_broken(f"op #{i} '{ops[i]}': BloomModel gives {m[:120]}, implementation {g[:120]}", line)
                    break
    return ok


def corpus_lines():
    d = vlib.VERIF / "corpus" / PID
    out = []
    if d.exists():
        for f in sorted(d.glob("*.txt")):
            out += [l.strip() for l in f.read_text().splitlines() if l.strip() and not l.startswith("#")]
    return out


def check_bloom(rep, tier, rng, drv, run):
    nsc = 20000 if tier == "thorough" else 1400
    scen = [l.split()[1:] for l in corpus_lines() if l.startswith("bloom ")]
    nhist = 1500 if tier == "thorough" else 250
    hist = [gen_history(tier, rng) for _ in range(nhist)]
    scen += hist
    scen += [gen_scenario(tier, rng) for _ in range(nsc)]
    lines = ["bloom " + " ".join(ops) for ops in scen]
    impl, p1 = run_sharded(drv, lines)
    model, p2 = run_sharded(run, lines)
    died = set()
    for pr in p1:
        died.add(pr[3])
        rep.violation(f"implementation driver died in a Bloom scenario (rc={pr[1]}): {pr[2][-700:]}", {"case": pr[3]})
    for pr in p2:
        rep.tie_broken(f"model runner died (rc={pr[1]}): {pr[2][-300:]}", pr[3])
    dist = {}
    for ops, li, a, b in zip(scen, lines, impl, model):
        rep.count(li, nontrivial=any(o.startswith(("i:", "ih:")) for o in ops))
        for o in ops:
            dist[o.split(":")[0]] = dist.get(o.split(":")[0], 0) + 1
        if a.startswith("FAULT"):
            continue                      # shard died: reported above with the case it died on
        judge_scenario(rep, li, ops, a, None if b.startswith("FAULT") else b)
    rep.sample({"op": "bloom", "scenario": lines[len(lines) // 2][:600]})
    # The sanitizer build never reuses a freed address (ASan quarantine).  The lifetime histories and a slice of the
    # random scenarios therefore also run against the optimised build with the system allocator, few shards, so that
    # each process sees long sequences of create/destroy with address reuse.
    try:
        pdrv = build_driver("h_util", flavour="plain", libs=["-lxxhash"])
        pscen = hist + scen[len(scen) - (nsc // 4):]
        plines = ["bloom " + " ".join(ops) for ops in pscen]
        pout, pp = run_sharded(pdrv, plines, shards=4)
        for pr in pp:
            rep.violation(f"optimised-build driver died in a Bloom scenario (rc={pr[1]}): {pr[2][-500:]}",
                          {"case": pr[3], "flavour": "plain"})
        for ops, li, a in zip(pscen, plines, pout):
            rep.count("plain " + li, nontrivial=True)
            if not a.startswith("FAULT"):
                judge_scenario(rep, li, ops, a, None, flavour="plain")
        dist["lifetime_histories"] = len(hist)
        dist["scenarios_on_optimised_build"] = len(plines)
    except vlib.BuildError as e:
        rep.tie_broken("plain-flavour harness does not build: " + str(e)[:300])
    rep.cov["input_distribution"] = dist
    # create_with_ndv, implementation only
    nd = gen_ndv(tier, rng)
    out, pr = run_sharded(drv, [x[2] for x in nd], shards=4)
    for p in pr:
        rep.violation(f"implementation driver died in create_with_ndv (rc={p[1]}): {p[2][-500:]}", {"case": p[3]})
    for (ndv, fpp, li), a in zip(nd, out):
        rep.count(li)
        t = a.split()
        if a.startswith("FAULT"):
            continue
        want = ndv_expect(ndv, fpp)
        if want is None:
            if t[1:] != ["cn=NULL", "i=noslot", "q=noslot"]:
                rep.violation(f"create_with_ndv({ndv}, {fpp!r}) must return no filter (invalid arguments or a size beyond size_t): {a[:200]}",
                              {"case": li, "impl": a[:500]})
            continue
        bad = None
        if len(t) != 4 or not t[1].startswith("cn=") or "/" not in t[1]:
            bad = "no filter"
        else:
            try:
                nb, nblk = [int(x, 16) for x in t[1][3:].split("/")]
            except ValueError:
                nb = nblk = -1
            lo, hi = 32 * size_to_blocks(max(0, want - 2)), 32 * size_to_blocks(want + 2)   # libm rounding: +-2 bytes
            if nb % 32 or nb < 32 or nblk * 32 != nb:
                bad = "size is not a whole number of 32-byte blocks"
            elif not (lo <= nb <= hi):
                bad = f"size {nb}, the formula -ndv*ln(fpp)/ln(2)^2/8 + 1 rounded to blocks gives {hi}"
            elif t[3] != "q=1":
                bad = "false negative"
        if bad:
            rep.violation(f"create_with_ndv({ndv}, {fpp!r}): {bad}: {a[:200]}", {"case": li, "impl": a[:500]})
    # NULL-filter entry points and an allocation that cannot succeed (implementation only; not modelled):
    # nothing may crash, a check without a filter must answer "maybe present" (never a false negative),
    # accessors give NULL/0, write/read/merge refuse, and a live filter is left untouched
    nl = ["bloomnull %016x %s" % (rand_hash(rng), hexs(rand_bytes(rng, rng.choice([0, 1, 5, 33])))) for _ in range(4)]
    nl += ["bloom c:0:%x qh:0:0000000000000001" % n for n in (1 << 62, (1 << 63) + 5)]
    out, pr = run_sharded(drv, nl, shards=2)
    for p in pr:
        rep.violation(f"implementation driver died on a NULL filter / impossible allocation (rc={p[1]}): {p[2][-500:]}", {"case": p[3]})
    want_null = ("OK ins qh=1 q32=1 q64=1 qf=1 qd=1 qb=1 data=NULL size=0 blocks=0 w=err w2=err w3=err r=err r2=err "
                 "m=err m2=err fresh=0")
    for li, a in zip(nl, out):
        rep.count(li)
        if a.startswith("FAULT"):
            continue
        want = want_null if li.startswith("bloomnull") else "OK c=NULL qh=noslot"
        if a != want:
            rep.violation(f"NULL filter / impossible allocation: got '{a[:300]}', expected '{want}'", {"case": li, "impl": a[:500]})
    return len(lines)


def run(tier):
    rep = Report(PID, tier)
    rng = random.Random(vlib.SEED * 104729 + 20)
    prelude(rep, PID)
    rep.cov["trusted_base"] = vlib.TRUSTED_BASE_COMMON + [
        "libxxhash 0.8 XXH64() as an independent oracle for the hash (validation of Xxh64Spec, not a proof); the Python transcriptions of XXH64 and of the Parquet split-block Bloom filter in checks/C20.py (oracle for the implementation, cross-checked against libxxhash and against the extracted BloomSpec)",
        "modelled, not verified: src/util/xxhash.c (carquet_xxhash64) and src/metadata/bloom_filter.c (create, from_data, insert/check hash and typed wrappers, write, read, merge); little-endian target for the uint32_t block accesses and for the object representation of int32/int64/float/double arguments",
        "not modelled: NULL filter arguments, malloc/calloc failure (assumed to succeed for sizes that can be rounded), carquet_bloom_filter_create_with_ndv (libm log; exercised on the implementation only)",
    ]
    rep.cov["rule"] = ("hash: every length 0..96 (thorough 0..300) x seeds {0,1,2^64-1,random} x alignments, structured contents, random long "
                       "inputs around multiples of 32; non-trivial = non-empty input. Bloom: random scenarios of 8..45 operations on up to 4 filters "
                       "(sizes around 0,1,31,32,33,64,96,128,1000,...; unroundable sizes; int32/int64/float/double/byte-array values incl. extremes, "
                       "NaNs, empty string; raw hashes with extreme halves; merge equal/unequal; write with capacities around the size; reload; load "
                       "from arbitrary bytes), every inserted value re-checked at the end and every filter dumped; non-trivial = at least one insert; "
                       "distinct by full case text")
    try:
        drv = build_driver("h_util", libs=["-lxxhash"])
        run_ = build_runner("util")
    except vlib.BuildError as e:
        rep.tie_broken("harness does not build against the current tree: " + str(e)[:500])
        return rep.finish()
    n1 = check_xxh(rep, tier, rng, drv, run_)
    n2 = check_bloom(rep, tier, rng, drv, run_)
    if tier == "thorough" and not rep.proof_error and "coqchk" not in rep.cov:
        # independent re-check of the compiled cone by coqchk (also reports axioms / unsafe flags)
        p = vlib.sh(["timeout", "1500", "coqchk", "-silent", "-o", "-Q", "theories", "Carquet",
                     "Carquet.Props.Properties_C20"], cwd=vlib.COQ)
        txt = p.stdout + p.stderr
        clean = p.returncode == 0 and "Axioms: <none>" in txt
        rep.cov["coqchk"] = "ok, no axioms" if clean else txt[-600:]
        if not clean:
            rep.broken.append(("proof", "coqchk does not accept the compiled proofs of C20: " + txt[-400:], None))
    log(f"C20: {n1} hash cases, {n2} Bloom scenarios")
    return rep.finish()


def replay(path):
    j = json.loads(Path(path).read_text())
    case = j.get("replay", {}).get("case")
    if not case:
        print(json.dumps(j, indent=1))
        return 1
    flav = j.get("replay", {}).get("flavour") or "san"
    drv = build_driver("h_util", flavour=flav, libs=["-lxxhash"])
    if flav == "plain" and case.startswith("bloom "):
        # address reuse depends on the allocator's history: replay the scenario several times in one process
        out, rc, err = vlib.run_lines(drv, [case] * 3, timeout=900)
        out = [o for o in out if o != out[0]][:1] or out[:1]
    else:
        out, rc, err = vlib.run_lines(drv, [case], timeout=900)
    print("case:", case[:3000])
    print("implementation:", [o[:3000] for o in out], "rc", rc)
    if err:
        print(err[-2000:])
    if rc != 0 or not out:
        return 1
    t = out[0].split()
    if case.startswith("bloomnull "):
        return 0 if out[0].endswith("m=err m2=err fresh=0") and "=0 " not in out[0].split(" data=")[0] else 1
    if case.startswith("xxh ") or case.startswith("xxhbig "):
        return 1 if (len(t) != 3 or t[0] != "OK" or t[1] != t[2]) else 0
    ops = case.split()[1:]
    if ops and ops[0].startswith("cn:"):
        print("create_with_ndv case: compare with the size rule by hand")
        return 1 if ("q=1" not in t and "cn=NULL" not in t) else 0
    exp, must = oracle_tokens(ops)
    print("expected      :", " ".join(["OK"] + exp)[:3000])
    rep = Report(PID, "quick")
    ok = judge_scenario(rep, case, ops, out[0])
    for w, _, _ in rep.violations:
        print("violation:", w)
    return 0 if ok else 1
