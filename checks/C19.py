"""C19 - allocation failure gives a clean error or a correct result, nothing else.

Proof: coq/theories/Props/Properties_C19.v (models Alloc/AllocMonad.v, BufferModel.v, ArenaModel.v,
       SiteModel.v; the table of allocation sites Gen/AllocSites_gen.v is regenerated from the
       sources by tools/gen.d/alloc_sites.py on every run).  PARTIAL: heap discipline of the real
       process (leaks, use after free) is observed by ASan/LSan, not proved (DESIGN.md section 10).
Tie:   harness/h_alloc.c, linked with --wrap=malloc/calloc/realloc/strdup: for every scenario the K
       allocation requests of the fault-free run are counted, then request k fails for every k in 1..K
       (one forked child each).  Observed per k: call site (call chain -> first frame outside the
       allocator helpers), the status of every API call, crash / sanitizer verdict, LeakSanitizer
       verdict, and the effect (bytes of the written file / values read) when success is reported.
       The property's oracle is evaluated on these observations; the class the model predicts for the
       site (from the generated table) is compared too.
"""
import random, json, sys, os, re, subprocess
from pathlib import Path
import vlib
from vlib import Report, prelude, build_driver, run_sharded, log

PID = "C19"
WRAP_EXT = ["-Wl,--wrap=carquet_arena_alloc,--wrap=carquet_arena_alloc_aligned,--wrap=carquet_arena_calloc,"
            "--wrap=carquet_arena_strdup,--wrap=carquet_arena_strndup,--wrap=carquet_arena_memdup", "-rdynamic"]
WRAP = ["-Wl,--wrap=malloc,--wrap=calloc,--wrap=realloc,--wrap=strdup,--wrap=carquet_arena_alloc,--wrap=carquet_arena_alloc_aligned,"
        "--wrap=carquet_arena_calloc,--wrap=carquet_arena_strdup,--wrap=carquet_arena_strndup,--wrap=carquet_arena_memdup", "-rdynamic"]
CODECS = {0: "uncompressed", 1: "snappy", 2: "gzip", 5: "lz4", 6: "zstd"}
HELPER_FILES = ("core/arena.c", "core/buffer.c", "thrift/thrift_encode.c")


def tmpdir():
    d = vlib.BUILD / "alloc" / "tmp"
    d.mkdir(parents=True, exist_ok=True)
    return d


def san_env(ext=False):
    e = _san_env()
    if ext:
        # whole-process flavour: allocations of the dynamic loader (dlopen of libgcc_s for backtrace) now reach
        # ASan through the driver's own malloc and are no longer recognised as loader-internal
        supp = vlib.BUILD / "alloc" / "lsan_ext.supp"
        supp.parent.mkdir(parents=True, exist_ok=True)
        txt = "leak:_dl_map_object_deps\nleak:dl_open_worker\nleak:_dl_new_object\nleak:_dl_check_map_versions\nleak:__libc_dlopen_mode\n"
        if not supp.exists() or supp.read_text() != txt:
            supp.write_text(txt)
        e["LSAN_OPTIONS"] = f"suppressions={supp}:print_suppressions=0"
    return e


def _san_env():
    return {"ASAN_OPTIONS": "detect_leaks=1:abort_on_error=0:exitcode=99:allocator_may_return_null=1:"
                            "max_malloc_fill_size=4194304:malloc_fill_byte=190:fast_unwind_on_malloc=1",
            "UBSAN_OPTIONS": "print_stacktrace=1:halt_on_error=1:exitcode=98",
            "OMP_NUM_THREADS": "1"}


def foreign_files():
    """files written by the independent writer tools/pq.py: dictionary-encoded pages (RLE_DICTIONARY / PLAIN_DICTIONARY,
    fixed width and BYTE_ARRAY, nullable), page and chunk statistics, key/value metadata, encoding stats, column orders -
    everything carquet's own writer never produces but its reader allocates for"""
    import struct
    import pq
    out = []
    n = 120
    for codec in ("UNCOMPRESSED", "SNAPPY", "GZIP", "ZSTD"):
        path = tmpdir() / f"foreign_{codec.lower()}.parquet"
        out.append(path)
        if path.exists() and path.stat().st_size > 12:
            continue
        root = pq.SchemaNode("schema", "REQUIRED", children=[
            pq.SchemaNode("a", "OPTIONAL", "INT32", 0), pq.SchemaNode("s", "REQUIRED", "BYTE_ARRAY", 0),
            pq.SchemaNode("t", "OPTIONAL", "BYTE_ARRAY", 0), pq.SchemaNode("d", "REQUIRED", "DOUBLE", 0)])
        defs = [0 if i % 5 == 0 else 1 for i in range(n)]
        tdefs = [0 if i % 7 == 3 else 1 for i in range(n)]

        def pages(enc):
            ps = [pq.PageSpec(40, enc) for _ in range(3)]
            for p_ in ps:
                p_.crc = True
                p_.stats = True
            return ps
        cols = [pq.ColumnSpec(defs, [0] * n, [struct.pack("<i", (i * 7) % 13) for i in range(n) if defs[i]], pages("RLE_DICTIONARY"), codec, dictionary="auto", chunk_stats=True, dict_crc=True),
                pq.ColumnSpec([0] * n, [0] * n, [("str%d" % (i % 11)).encode() for i in range(n)], pages("PLAIN_DICTIONARY"), codec, dictionary="auto", chunk_stats=True, dict_crc=True),
                pq.ColumnSpec(tdefs, [0] * n, [("opt-%d" % (i % 9)).encode() for i in range(n) if tdefs[i]], pages("RLE_DICTIONARY"), codec, dictionary="auto", chunk_stats=True, dict_crc=True),
                pq.ColumnSpec([0] * n, [0] * n, [struct.pack("<d", i * 0.5) for i in range(n)], pages("PLAIN"), codec, chunk_stats=True)]
        spec = pq.FileSpec(root, [pq.RowGroupSpec(n, cols)])
        spec.optional_meta = True
        tmp = path.with_suffix(".tmp%d" % os.getpid())
        tmp.write_bytes(pq.write_file(spec, random.Random(5)))
        os.replace(tmp, path)
    return out


def scenarios(tier):
    d = tmpdir()
    sc = ["schema 6", "schema 70", "schema 3500", "coreapi"]
    # files of another writer: dictionary pages, statistics, key/value metadata (allocation sites of the reader that
    # carquet's own files never reach)
    for i, path in enumerate(foreign_files()):
        modes = ("fread", "mmap", "buffer")
        sc.append(f"foreign {path} {modes[i % 3]} col")
        sc.append(f"foreign {path} {modes[(i + 1) % 3]} batch")
        if tier == "thorough":
            sc.append(f"foreign {path} {modes[(i + 2) % 3]} col")
    # the FILE*-based writer entry point (default options), logical types, a REPEATED column written with repetition levels
    sc.append(f"writef {d} 0 iLbBr 2 2 12 abort")
    sc.append(f"write {d} 1 ibrq 1 2 40 close")
    # batch reader with a column projection by index and by name
    sc.append(f"batchidx {d} 0 iLDfBox 2 2 12 fread")
    sc.append(f"batchname {d} 1 iLDfBox 2 2 12 mmap")
    small = "iLDfBox"
    for codec in CODECS:
        for after in ("abort", "close"):
            sc.append(f"write {d} {codec} {small} 2 2 12 {after}")
    # OPTIONAL columns written with def_levels == NULL (legal: all values present; the writer synthesises the levels),
    # next to a REQUIRED column and an OPTIONAL column with explicit levels; enough rows for the level buffers to grow
    sc.append(f"write {d} 0 inmLD 1 2 200 abort")
    sc.append(f"write {d} 1 inmLD 1 3 2100 abort")
    sc.append(f"read {d} 0 inmLD 1 2 200 fread")
    sc.append(f"batch {d} 1 inmLD 1 2 200 mmap")
    # zero-copy eligible columns only (REQUIRED, fixed width, PLAIN, uncompressed), several pages per chunk: the
    # batch reader and the column reader are kept in use after a failed (or swallowed) page load
    for mode in ("fread", "mmap", "buffer"):
        sc.append(f"batch {d} 0 ilfd 2 3 40 {mode}")
        sc.append(f"read {d} 0 ilfd 2 3 40 {mode}")
    sc.append(f"batch {d} 0 ild 1 1 1000 mmap")
    # BYTE_ARRAY columns with many small pages read by ONE read_batch call / one batch per row group: the values of
    # the finished pages must stay valid until the call has returned; every returned pointer is dereferenced afterwards
    for codec, mode in ((0, "fread"), (1, "fread"), (1, "mmap"), (6, "buffer"), (0, "mmap")):
        sc.append(f"readbig {d} {codec} bBi 1 30 8 {mode}")
        sc.append(f"batchbig {d} {codec} bBi 1 30 8 {mode}")
    # every capacity doubling of the writer's per-column arrays (8 -> 16 -> 32 -> 64: file_writer.c add_column_internal)
    for ncols in (9, 17, 33):
        sc.append(f"write {d} 0 {('iLdfBoxnm' * 4)[:ncols]} 1 1 4 abort")
    sc.append(f"write {d} 0 {('iLdfBoxnm' * 4)[:17]} 1 1 4 close")
    # continuation after a failed carquet_writer_new_row_group: retry it and go on / just close; when all later calls
    # report success the file must read back to exactly the row groups written (3 row groups, several columns)
    for codec in (0, 1):
        sc.append(f"write {d} {codec} iLDb 3 2 12 retry")
        sc.append(f"write {d} {codec} iLDb 3 2 12 close")
    # ... with column chunks of several KB, so that the row-group buffer also grows while a LATER column is appended, and
    # with the default page size, so that the pages are closed (compressed, checksummed) by the row-group finalize itself
    sc.append(f"write {d} 0 iLDb 3 2 300 retry")
    sc.append(f"write {d} 0 iLDb 3 2 300 close")
    sc.append(f"write {d} 1 iLDb 3 2 300 retryP")
    sc.append(f"write {d} 6 iLDb 3 2 300 closeP")
    # enough column chunks for the writer's and the reader's metadata arena to need a second block
    sc.append(f"write {d} 0 iLdiLdiLdiLd 20 1 3 abort")
    for codec in CODECS:
        for mode in ("fread", "mmap", "buffer"):
            sc.append(f"read {d} {codec} {small} 2 2 12 {mode}")
            sc.append(f"batch {d} {codec} {small} 2 2 12 {mode}")
    sc.append(f"read {d} 0 iLdiLdiLdiLd 20 1 3 fread")
    sc.append(f"batch {d} 1 iLdiLdiLdiLd 20 1 3 mmap")
    return sc


def growth_scenarios(tier):
    """shapes whose metadata crosses an arena block boundary at different places: only the requests
    that GROW an arena (arena_new_block reached from carquet_arena_alloc_aligned) are failed, so that
    the many arena call sites of parquet_types.c / file_writer.c / file_reader.c are each reached"""
    d = tmpdir()
    sc = []
    shapes = [("iLdiLdiLdiLd", n) for n in range(16, 31)] + [("iLdfiLdfiL", n) for n in range(19, 34)] + [("BBBBBBiL", n) for n in range(24, 40)]
    if tier == "quick":
        shapes = shapes[::2]
    for types, nrg in shapes:
        sc.append(f"write {d} 0 {types} {nrg} 1 2 abort")
        sc.append(f"read {d} 0 {types} {nrg} 1 2 fread")
        sc.append(f"read {d} 0 {types} {nrg} 1 2 mmap")
    return sc


def parse_rec(r):
    kv = {}
    for x in r.split():
        if "=" in x:
            k, v = x.split("=", 1)
            kv[k] = v
    return kv


class Sites:
    """return-address chains -> frames -> logical call site"""
    def __init__(self, exe):
        self.exe = exe
        self.size = os.path.getsize(exe) * 4
        self.cache = {}

    def resolve(self, offs):
        need = sorted({o for o in offs if o not in self.cache})
        for i in range(0, len(need), 400):
            chunk = need[i:i + 400]
            p = vlib.sh(["addr2line", "-f", "-i", "-a", "-e", str(self.exe)] + ["0x" + o for o in chunk])
            cur, frames = None, []
            lines = p.stdout.splitlines()
            j = 0
            res = {}
            while j < len(lines):
                ln = lines[j]
                if ln.startswith("0x"):
                    cur = ln[2:].lstrip("0") or "0"
                    res[cur] = []
                    j += 1
                    continue
                fn = ln
                loc = lines[j + 1] if j + 1 < len(lines) else "??:0"
                res[cur].append((fn, loc.split(" ")[0]))
                j += 2
            for o in chunk:
                self.cache[o] = res.get(o.lstrip("0") or "0", [])

    def chain(self, chain_txt):
        """'a/b/c' -> list of (function, file:line) innermost first, library and driver frames only"""
        out = []
        for o in chain_txt.split("/"):
            if o == "!gomp":
                continue
            if len(o) > 8:      # outside the executable (sanitizer runtime, libc, zlib, libzstd)
                out.append(("<outside>", ""))
                continue
            for fn, loc in self.cache.get(o, []):
                out.append((fn, loc))
        return out

    @staticmethod
    def logical(frames):
        """first frame of the library that is not an allocator helper: (file, function, line); plus
        the helper the request went through (malloc, arena, buffer, thrift encoder)"""
        via = "malloc"
        seen_wrapper = False
        for fn, loc in frames:
            if fn in ("__wrap_malloc", "__wrap_calloc", "__wrap_realloc", "__wrap_strdup", "malloc", "calloc", "realloc"):
                seen_wrapper = True
            if fn == "<outside>":
                if seen_wrapper and via == "malloc":
                    via = "external-library"
                continue
            if fn.startswith("__wrap_carquet_arena"):
                via = "arena"
            if "/src/" not in loc:
                continue
            rel = loc.split("/src/", 1)[1]
            f, _, line = rel.partition(":")
            if f in HELPER_FILES:
                if via == "malloc" or (via == "buffer" and f == "thrift/thrift_encode.c"):
                    via = {"core/arena.c": "arena", "core/buffer.c": "buffer", "thrift/thrift_encode.c": "thrift"}[f]
                continue
            return f, fn, line, via
        return "?", "?", "0", via


def corpus_lines():
    out = []
    for f in sorted((vlib.VERIF / "corpus" / PID).glob("*.case")):
        for ln in f.read_text().splitlines():
            if ln.strip() and not ln.startswith("#"):
                out.append(ln.replace("{D}", str(tmpdir())))
    return out


def ext_scenarios(tier):
    """scenarios for the second driver flavour, in which the requests made inside zlib / libzstd / stdio fail too"""
    d = tmpdir()
    sc = []
    for codec in ((2, 6) if tier == "quick" else CODECS):
        sc.append(f"write {d} {codec} iLDfB 1 2 12 abort")
        sc.append(f"read {d} {codec} iLDfB 1 2 12 fread")
        sc.append(f"batch {d} {codec} iLDfB 1 2 12 mmap")
    return sc


def run_all(rep, tier, rng, drv, ext=False):
    scs = scenarios(tier) if not ext else ext_scenarios(tier)
    growth = growth_scenarios(tier) if not ext else []
    scs = scs + growth
    # corpus first: (scenario, k-range) witnesses of earlier findings; their scenarios join the plan
    corpus = corpus_lines() if not ext else []
    for c in corpus:
        s = " ".join(c.split()[1:-2])
        if s not in scs:
            scs.append(s)
    cout, probs = run_sharded(drv, ["count " + s for s in scs], env=san_env(ext), timeout=1200)
    for pr in probs:
        rep.tie_broken(f"counting run died (rc={pr[1]}): {pr[2][-400:]}", pr[3])
    sites = Sites(drv)
    plan = []
    base = {}
    for s, o in zip(scs, cout):
        kv = parse_rec(o)
        if o.startswith("OK") and kv.get("ok") == "1" and kv.get("rb") == "0":
            rep.violation(f"fault-free run of scenario '{short(s)}': every call reports success but the file / the values read are not the "
                          f"intended table", {"case": "count " + s})
            continue
        if not o.startswith("OK") or kv.get("ok") != "1" or kv.get("exit") != "0" or kv.get("leak") != "0":
            rep.violation(f"fault-free run of scenario '{short(s)}' is not clean: {o[:400]}", {"case": "count " + s})
            continue
        K = int(kv["K"])
        chains = o.split("sites=", 1)[1].split(",") if K else []
        sites.resolve({a for c in chains for a in c.split("/") if len(a) <= 8 and a != "!gomp"})
        base[s] = (kv, chains)
        ks = list(range(1, K + 1))
        # requests made by the OpenMP runtime itself are not failed: libgomp aborts the process by design
        ks = [k for k in ks if not chains[k - 1].endswith("!gomp")]
        if s in growth:
            ks = [k for k, c in enumerate(chains, 1)
                  if not c.endswith("!gomp") and any(fn == "arena_new_block" for fn, _ in sites.chain(c)) and
                  not any(fn == "carquet_arena_init_size" for fn, _ in sites.chain(c))]
        elif K > 700 and tier == "quick":
            # big scenario: every distinct call site at its first, a middle and its last occurrence, plus a random sample
            by_site = {}
            for k, c in enumerate(chains, 1):
                by_site.setdefault(Sites.logical(sites.chain(c))[:2] + (c.split("/")[1] if "/" in c else c,), []).append(k)
            pick = set()
            for lst in by_site.values():
                pick.update([lst[0], lst[len(lst) // 2], lst[-1]])
            pick.update(rng.sample(ks, 250))
            ks = sorted(pick)
        plan.append((s, ks))
    # shard: contiguous k ranges of about 25 children per line
    lines, owner = [], []
    for c in corpus:
        s = " ".join(c.split()[1:-2])
        if s in base:
            K = int(base[s][0]["K"])
            t = c.split()
            k1, k2 = max(1, int(t[-2])), min(K, int(t[-1]))
            if k1 <= k2:
                lines.append(f"fail {s} {k1} {k2}")
                owner.append(s)
    for s, ks in plan:
        i = 0
        while i < len(ks):
            j = i
            while j + 1 < len(ks) and ks[j + 1] == ks[j] + 1 and j - i < 24:
                j += 1
            lines.append(f"fail {s} {ks[i]} {ks[j]}")
            owner.append(s)
            i = j + 1
    order = list(range(len(lines)))
    rng.shuffle(order)      # spread the long scenarios over the shards
    out_sh, probs = run_sharded(drv, [lines[i] for i in order], env=san_env(ext), timeout=2400)
    for pr in probs:
        rep.tie_broken(f"driver died (rc={pr[1]}): {pr[2][-400:]}", pr[3])
    out = [None] * len(lines)
    for pos, i in enumerate(order):
        out[i] = out_sh[pos]
    return scs, base, sites, lines, owner, out


def short(s):
    t = s.split()
    if t[0] in ("schema", "coreapi"):
        return s
    if t[0] == "foreign":
        return f"foreign {Path(t[1]).name} {t[2]} {t[3]}"
    return f"{t[0]} codec={CODECS.get(int(t[2]), t[2])} cols={t[3]} rg={t[4]} pages={t[5]} rows/page={t[6]} {t[7]}"


def evaluate(rep, scs, base, sites, lines, owner, out, model=None):
    """the property's oracle on the observations, one verdict per (scenario, k)"""
    per_site = {}
    nrec = 0
    for li, s, o in zip(lines, owner, out):
        if o is None or not o.startswith("OK"):
            if o is not None and not o.startswith("FAULT"):
                rep.tie_broken(f"driver: {o[:200]}", li)
            continue
        bkv, chains = base[s]
        for r in o.split(" | ")[1:]:
            kv = parse_rec(r)
            k = int(kv["k"])
            nrec += 1
            frames = sites.chain(chains[k - 1]) if k - 1 < len(chains) else []
            f, fn, line, via = Sites.logical(frames)
            site = f"{f}:{fn}"
            key = f"alloc:{site}"
            rep.count(f"{s} k={k}")
            case = {"case": f"fail {s} {k} {k}", "site": f"{f}:{line} in {fn} (via {via})",
                    "chain": " <- ".join(f"{a}@{b.split('/src/')[-1]}" for a, b in frames if "/src/" in b)[:600]}
            verdict = "clean-error"
            what = None
            if kv.get("exit") != "0" or kv.get("sig", "0") != "0" or "calls" not in kv:
                verdict = "crash"
                what = (f"request {k} ({via} request at {f}:{line}, {fn}) fails -> the process dies "
                        f"(exit {kv.get('exit')} signal {kv.get('sig')}): {kv.get('san', '-')[:300]}")
            elif kv.get("hit") != "1":
                verdict = "not-reached"     # the run took another path before request k (cannot happen for k <= K)
            elif kv.get("leak") == "1":
                verdict = "leak"
                what = (f"request {k} ({via} request at {f}:{line}, {fn}) fails -> memory is leaked "
                        f"(calls {kv.get('calls')[-120:]}): {kv.get('san', '-')[:300]}")
            elif kv.get("rbc") == "0":
                verdict = "ok-wrong-effect"
                what = (f"request {k} ({via} request at {f}:{line}, {fn}) fails in carquet_writer_new_row_group; every call AFTER the failed one "
                        f"reports success (calls {kv.get('calls')[-90:]}) but the file does not read back to the rows that were written")
            elif kv.get("ok") == "1":
                if kv.get("eff") == bkv.get("eff") and kv.get("fsize") == bkv.get("fsize"):
                    verdict = "ok-same-effect"
                else:
                    verdict = "ok-wrong-effect"
                    what = (f"request {k} ({via} request at {f}:{line}, {fn}) fails -> every API call still reports success but the "
                            f"effect differs from the fault-free run (" +
                            (f"file of {kv.get('fsize')} bytes instead of {bkv.get('fsize')}" if s.startswith("write") else "different values read") + ")")
            per_site.setdefault(site, {}).setdefault(verdict, 0)
            per_site[site][verdict] += 1
            if what:
                rep.violation(f"[{short(s)}] " + what, case, key=key)
            if model is not None:
                model(rep, site, via, verdict, case)
    return per_site, nrec


def site_table():
    """the translator's table for the tree under test: (file, function) -> list of classes"""
    import importlib.util
    f = vlib.VERIF / "tools" / "gen.d" / "alloc_sites.py"
    spec = importlib.util.spec_from_file_location("alloc_sites", f)
    mod = importlib.util.module_from_spec(spec)
    spec.loader.exec_module(mod)
    tab = {}
    for s in mod.scan(vlib.REPO):
        tab.setdefault((s["file"], s["func"]), []).append(s)
    return tab


def make_site_tie(rep, tab):
    """model tie at site level: SiteModel says a scenario through sites that are all Checked /
    Propagated is clean; the translator says which sites are.  A function whose rows are all OK but
    where a failing request was observed to crash / leak / report success with another effect means
    the table (or the model's reading of 'checked') is wrong."""
    seen = {}

    def tie(rep_, site, via, verdict, case):
        f, _, fn = site.partition(":")
        fn = re.sub(r"\._omp_fn\.\d+$|\.part\.\d+$|\.constprop\.\d+$|\.isra\.\d+$", "", fn)
        rows = tab.get((f, fn))
        st = seen.setdefault((f, fn), {"rows": len(rows or []), "bad_rows": [r for r in (rows or []) if r["cls"] in ("Ignored", "Unchecked")], "bad_obs": 0, "obs": 0})
        st["obs"] += 1
        bad = verdict in ("crash", "leak", "ok-wrong-effect")
        if bad:
            st["bad_obs"] += 1
            if rows is not None and not st["bad_rows"] and st["bad_obs"] == 1:
                rep_.tie_broken(f"site table: every allocation result in {f}:{fn} is classified checked/propagated, but a failing "
                                f"request there was observed as '{verdict}'", case["case"], key=f"alloc:{f}:{fn}")
    return tie, seen


def check_models(rep, tier, rng, drv, runner):
    """BufferModel / ArenaModel against the real buffer.c / arena.c with request k denied"""
    lines = []
    n = 900 if tier == "thorough" else 300
    for i in range(n):
        cnt = rng.randrange(1, 7)
        sizes = [rng.choice([0, 1, 3, 100, 4095, 4096, 4097, 5000, 8192, 8193, 20000, rng.randrange(1, 70000)]) for _ in range(cnt)]
        lines.append(f"mbuf {rng.randrange(0, cnt + 1)} {','.join(map(str, sizes))}")
    for i in range(n):
        cnt = rng.randrange(1, 9)
        reqs = [(rng.choice([0, 1, 7, 8, 16, 100, 4000, 30000, 65528, 65536, 65537, 70000, 140000, rng.randrange(1, 200000)]),
                 rng.choice([1, 1, 8, 16, 16, 4, 2, 0])) for _ in range(cnt)]
        lines.append(f"marena {rng.randrange(0, cnt + 2)} {rng.choice([4096, 65536, 100000, 1])} {','.join(f'{a}:{b}' for a, b in reqs)}")
    impl, p1 = run_sharded(drv, lines, env=san_env())
    model, p2 = run_sharded(runner, [l[1:] for l in lines])
    for pr in p1:
        m = re.search(r"(ERROR: AddressSanitizer: [^\n]*|runtime error: [^\n]*)", pr[2])
        rep.violation(f"carquet_buffer_append / carquet_arena_alloc with a denied request crashed (driver rc={pr[1]}): "
                      f"{m.group(1) if m else pr[2][-300:]}", {"case": pr[3]})
    for pr in p2:
        rep.tie_broken(f"model runner died (rc={pr[1]}): {pr[2][-300:]}", pr[3])
    for li, a, b in zip(lines, impl, model):
        rep.count(li)
        if a != b:
            rep.tie_broken(f"{'BufferModel' if li.startswith('mbuf') else 'ArenaModel'} differs from the C code: model {b} / code {a}", li)
    rep.sample({"op": "model-tie", "case": lines[n + 3], "impl": impl[n + 3], "model": model[n + 3]})
    # SiteModel: the extracted scenario semantics on the witnesses of the refuted theorems
    want = {"site 2 CIC": "OK ok 1,3 1", "site 0 CIC": "OK ok 1,2,3 1", "site 1 U": "OK fault - 0", "site 2 CC;C": "OK err 1 1"}
    out, rc, err = vlib.run_lines(runner, list(want))
    for li, o in zip(want, out):
        rep.count("model " + li)
        if o != want[li]:
            rep.tie_broken(f"extracted SiteModel disagrees with the Coq examples: {li} -> {o}, expected {want[li]}", li)


def run(tier):
    rep = Report(PID, tier)
    rng = random.Random(vlib.SEED * 7919 + 19)
    prelude(rep, PID)
    rep.cov["trusted_base"] = vlib.TRUSTED_BASE_COMMON + [
        "PARTIAL: that the C code frees what the model says it frees, and never uses freed memory, is observed by ASan/LeakSanitizer in the k-th-request-fails runs, not proved; the mapping request k <-> call site is observed (backtrace + addr2line), not derived",
        "GNU ld --wrap=malloc,calloc,realloc,strdup,carquet_arena_* (requests of libcarquet.a objects); second driver flavour with malloc/calloc/realloc defined in the executable (requests inside zlib/libzstd/stdio; libgomp's own requests are never failed: it aborts by design); fork(); LeakSanitizer's recoverable leak check in the child",
        "tools/gen.d/alloc_sites.py: a regular-expression reading of the call sites (is the result tested before use?)",
    ]
    rep.cov["rule"] = ("for each scenario (schema build x3 sizes; write of a 7-column multi-type nullable table x 5 codecs x {abort, close after the "
                       "failed call}; a 12-column 20-row-group table whose metadata outgrows the first arena block; column-reader and batch-reader "
                       "reads x 5 codecs x {fread, mmap, buffer}; OPTIONAL columns written with def_levels = NULL; zero-copy-eligible multi-page tables; "
                       "read scenarios keep using the column reader / batch reader after a failed call; the fault-free file of every write scenario is "
                       "read back and compared with the intended table, faulty runs that report success are compared with it byte for byte) every k in 1..K (quick: scenarios with K > 700 are sampled per call site); "
                       "one evaluation = one (scenario, k); distinct by scenario text and k")
    try:
        drv = build_driver("h_alloc", extra=WRAP)
        runner = vlib.build_runner("alloc")
    except vlib.BuildError as e:
        rep.tie_broken("harness does not build against the current tree: " + str(e)[:700])
        return rep.finish()
    tab = site_table()
    notok = [f"{r['file']}:{r['line']} {r['func']} -> {r['callee']} ({r['cls']})" for rows in tab.values() for r in rows if r["cls"] in ("Ignored", "Unchecked")]
    rep.cov["site_table"] = {"rows": sum(len(v) for v in tab.values()), "not_checked": notok[:40]}
    scs, base, sites, lines, owner, out = run_all(rep, tier, rng, drv)
    tie, seen = make_site_tie(rep, tab)
    per_site, nrec = evaluate(rep, scs, base, sites, lines, owner, out, tie)
    try:
        drv_ext = build_driver("h_alloc_ext", extra=WRAP_EXT)
        e_scs, e_base, e_sites, e_lines, e_owner, e_out = run_all(rep, tier, rng, drv_ext, ext=True)
        e_per_site, e_nrec = evaluate(rep, e_scs, e_base, e_sites, e_lines, e_owner, e_out, tie)
        rep.cov["external_requests"] = {"scenarios": len(e_scs), "requests_failed": e_nrec,
                                        "K_per_scenario": {short(s): int(e_base[s][0]["K"]) for s in e_base},
                                        "per_site": {k: v for k, v in sorted(e_per_site.items())}}
    except vlib.BuildError as e:
        rep.tie_broken("second driver flavour (whole-process interposition) does not build: " + str(e)[:500])
    rep.cov["site_table"]["functions_observed"] = len(seen)
    rep.cov["site_table"]["functions_observed_without_row"] = sorted(f"{f}:{fn}" for (f, fn), st in seen.items() if st["rows"] == 0)
    rep.cov["site_table"]["flagged_but_never_observed_bad"] = sorted(f"{f}:{fn}" for (f, fn), st in seen.items() if st["bad_rows"] and not st["bad_obs"])
    check_models(rep, tier, rng, drv, runner)
    rep.cov["input_distribution"] = {"scenarios": len(scs), "requests_failed": nrec,
                                     "K_per_scenario": {short(s): int(base[s][0]["K"]) for s in base}}
    rep.cov["per_site"] = {k: v for k, v in sorted(per_site.items())}
    rep.sample({"scenario": scs[4], "K": base.get(scs[4], ({},))[0].get("K")})
    return rep.finish()


def replay(path):
    j = json.loads(Path(path).read_text())
    r = j.get("replay", {})
    case = r.get("case")
    if not case:
        print(json.dumps(j, indent=1))
        return 1
    drv = build_driver("h_alloc", extra=WRAP)
    t = case.split()
    s = " ".join(t[1:-2])
    out, rc, err = vlib.run_lines(drv, ["count " + s, case], env=san_env())
    print("case:", case, "\nsite:", r.get("site"), "\nchain:", r.get("chain"))
    if len(out) < 2:
        print(out, err[-1500:])
        return 1
    b = parse_rec(out[0])
    kv = parse_rec(out[1].split(" | ")[1]) if " | " in out[1] else {}
    print("fault-free :", " ".join(f"{k}={b.get(k)}" for k in ("K", "ok", "eff", "fsize", "leak")))
    print("request fails:", out[1][:1500])
    bad = (kv.get("exit") != "0" or kv.get("sig", "0") != "0" or kv.get("leak") == "1" or
           (kv.get("ok") == "1" and (kv.get("eff") != b.get("eff") or kv.get("fsize") != b.get("fsize"))))
    print("VERDICT:", "violates C19" if bad else "clean")
    return 1 if bad else 0
