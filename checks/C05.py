"""C05 - every file the writer reports complete is structurally valid Parquet; writing twice gives identical bytes.

Proof:  coq/theories/Props/Properties_C05.v (structural clauses proved about the writer model's output for every
        history; determinism of the model).
Oracle: (independent of the model and of carquet's reader) close OK => tools/pq.py - a Parquet reader written from the
        format documents - reports no violation of: magic at both ends, footer length, required Thrift fields, chunks
        tiling the data region, page headers chaining through each chunk, counts adding up pages -> chunk -> row
        group -> file, encodings / codec tags (a bare LZ4 block must be tagged LZ4_RAW), stored CRC = CRC-32 of the
        stored page bytes, compressed / uncompressed sizes incl. page headers; it recovers exactly the written
        table and schema; a second write of the same history gives a byte-identical file.
Tie:    the extracted writer model predicts the file bytes exactly (UNCOMPRESSED / SNAPPY / LZ4) resp. the page
        structure after decompression (GZIP / ZSTD): the proved clauses then hold of the real file.
"""
import json, random
from pathlib import Path
import vlib
from vlib import Report, prelude, log
import filecase as fc
import writer_common as wc

PID = "C05"


def check_cases(rep, cases):
    res = wc.write_all(cases, twice=True)
    dist = {"close_not_ok": 0, "ill_formed_history": 0, "files_validated": 0, "clauses_seen_warn": {}}
    import pq
    for c, (st, data, st2, data2) in zip(cases, res):
        rep.count(("c05", json.dumps(fc.case_to_json(c), sort_keys=True)), nontrivial=fc.expected_table(c) not in (None, []))
        cj = fc.case_to_json(c)
        if st.fault or st2.fault:
            rep.violation(f"the writer died on a write history: {(st.fault or st2.fault).get('summary')}",
                          {"case": cj, "kind": "writer-fault"})
            continue
        if fc.expected_table(c) is None:
            dist["ill_formed_history"] += 1
            continue
        if not st.close_ok():
            dist["close_not_ok"] += 1
            continue
        if data is None:
            rep.violation("close returned OK but no file exists", {"case": cj, "kind": "no-file"})
            continue
        bad = wc.c05_check(c, data)
        if bad:
            rep.violation(f"independent reader rejects a file the writer reported complete ({c.name}): " +
                          "; ".join(t for _, t in bad[:3]), {"case": cj, "kind": "structure", "clauses": [k for k, _ in bad]})
        for v in pq.read_file(data).validate():
            if v.severity != "error" and v.clause not in wc.C05_ERROR_WARNINGS:
                dist["clauses_seen_warn"][v.clause] = dist["clauses_seen_warn"].get(v.clause, 0) + 1
        if list(st) != list(st2) or data != data2:
            k = None if data2 is None else next((i for i, (a, b) in enumerate(zip(data, data2)) if a != b), min(len(data), len(data2)))
            rep.violation(f"two writes of the same history differ ({c.name}): " +
                          (f"statuses {list(st)} / {list(st2)}" if list(st) != list(st2) else f"first differing byte {k} of {len(data)}/{len(data2 or b'')}"),
                          {"case": cj, "kind": "determinism"})
        dist["files_validated"] += 1
    rep.cov.setdefault("input_distribution", {}).update(dist)
    return [(c, st, data) for c, (st, data, _, _) in zip(cases, res)]


def run(tier):
    rep = Report(PID, tier)
    rng = random.Random(vlib.SEED * 7919 + 5)
    prelude(rep, PID)
    rep.cov["trusted_base"] = vlib.TRUSTED_BASE_COMMON + [
        "tools/pq.py + tools/pq_codecs.py: the independent Parquet reader/validator (written from the format documents; its 30 single-fault self-test files each trip the intended clause); system libsnappy / liblz4 / libzstd / zlib for page decompression in that reader",
        "decision recorded in design.d/C05.md: a bare LZ4 block under codec tag LZ4 (5) counts as a wrong codec tag (Compression.md: LZ4_RAW = 7)",
        "modelled, not verified: src/writer/{page,column,row_group,file}_writer.c; the Thrift encoders enter the proofs as uninterpreted functions (the structural clauses are about offsets, sizes, counts and CRCs around them), their bytes are C13",
    ]
    rep.cov["rule"] = ("same generator as C01 (corpus/file + corpus/C05 first; targeted shapes; exhaustive write histories for "
                       "small tables; boundary sizes 64 / 8192 (thorough 2^20) +-1 for counts, page bytes, chunk offsets; random "
                       "tables x 5 codecs x page sizes x row-group cuts); every history is written twice in different processes "
                       "with different heap fill patterns; sequences T, U1..Uk, T in ONE process (U = perturbed copies of T, other "
                       "codecs, unrelated tables) with T compared byte for byte; "
                       "non-trivial = the history denotes a table with at least one row; distinct by full case text")
    try:
        fc.driver()
    except vlib.BuildError as e:
        rep.tie_broken("harness/h_file.c does not build against the current tree: " + str(e)[:500])
        return rep.finish()
    corpus = wc.corpus_cases([PID])
    cases = [c for _, c, _ in corpus] + wc.gen_cases(tier, rng)
    log(f"C05: {len(cases)} write histories ({len(corpus)} from the corpus), each written twice")
    written = check_cases(rep, cases)
    wc.check_history_determinism(rep, rng, tier)
    wc.check_repeated(rep, rng, tier)
    if tier == "thorough":
        wc.check_limits(rep, PID)
    for c in (cases[len(corpus)], cases[len(cases) // 2], cases[-1]):
        rep.sample(wc.case_summary(c))
    wc.model_tie(rep, written)
    return rep.finish()


def replay(path):
    j = json.loads(Path(path).read_text())
    r = j.get("replay") or j
    if r.get("kind") == "history-determinism":
        return wc.replay_history_determinism(r)
    if "case" not in r:
        print(json.dumps(j, indent=1)[:3000])
        return 1
    case = fc.case_from_json(r["case"])
    print("history:", wc.case_summary(case))
    (st, data, st2, data2), = wc.write_all([case], twice=True)
    print("writer:", ", ".join(st), ("FAULT " + str(st.fault)) if st.fault else "")
    if st.fault or st2.fault:
        return 1
    if not st.close_ok() or fc.expected_table(case) is None:
        print("close did not return OK / the history denotes no table: the property says nothing")
        return 0
    if data is None:
        print("close OK but no file")
        return 1
    bad = wc.c05_check(case, data)
    for k, t in bad:
        print("  ", t)
    same = list(st) == list(st2) and data == data2
    print("independent reader:", "accepts, table equal" if not bad else f"{len(bad)} violation(s)")
    print("second write:", "byte-identical" if same else "DIFFERS")
    return 1 if (bad or not same) else 0
