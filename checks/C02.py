"""C02 - what a reader returns does not depend on how the caller consumes it.

Proof: coq/theories/Props/Properties_C02.v (spec Reader/CursorSpec.v, models Reader/CursorModel.v, Reader/BatchModel.v).
Tie:   harness/h_reader.c writes small files through carquet's public writer (one write_batch per page) and replays
       (a) column-reader histories: EVERY sequence of read_batch k / skip k (1 <= k <= rows+1) that passes the end of a
           chunk of <= 6 rows (thorough: <= 8) cut into 1..3 pages, REQUIRED and OPTIONAL, has_next/remaining after every
           step, zero-size operations, def_levels = NULL reads, reader re-creation, all physical types the writer supports;
           sampled long histories over bigger multi-page chunks and every codec;
       (b) the batch reader: every batch_size 1..rows+1 x every projection of <= 4 columns by index and by name x the
           three I/O modes.
       The property's oracle is evaluated on the implementation alone (reference_cursor in reader_common.py over the
       content delivered by the one-shot read; alignment / bitmap / concatenation for batches).  The extracted Coq models
       run on the same case lines and must print the same canonical lines (model tie).
"""
import random, json, sys, itertools
from pathlib import Path
sys.path.insert(0, str(Path(__file__).resolve().parent))
import vlib
from vlib import Report, prelude, build_driver, build_runner, run_sharded, log
import reader_common as rc
from reader_common import Col, FileSpec

PID = "C02"
ENV = {"H_TMP": str(vlib.VERIF / "build" / "tmp"), "OMP_WAIT_POLICY": "passive", "OMP_NUM_THREADS": "2"}
MAXV = 40          # violations kept per run


class Case:
    __slots__ = ("kind", "line", "mline", "fs", "rg", "col", "ops", "mode", "bs", "proj", "pcols", "tag")

    def __init__(self, **kw):
        for k in self.__slots__:
            setattr(self, k, kw.get(k))


def col_case(fs, rg, col, mode, ops_txt, tag, verify=1):
    line = f"col {mode} {verify} {fs.impl_text()} {rg} {col} {ops_txt}"
    return Case(kind="col", fs=fs, rg=rg, col=col, mode=mode, ops=ops_txt, tag=tag, line=line,
                mline=line if fs._impl is None else f"col {mode} {verify} {fs.text()} {rg} {col} {ops_txt}")


def bat_case(fs, mode, bs, proj, pcols, tag, verify=1):
    line = f"bat {mode} {verify} {fs.impl_text()} {bs} {proj}"
    if bs == "d":
        bs = 65536          # carquet_batch_reader_create(reader, NULL): carquet_batch_reader_config_init's batch size
    return Case(kind="bat", fs=fs, mode=mode, bs=bs, proj=proj, pcols=pcols, tag=tag, line=line,
                mline=line if fs._impl is None else line.replace(fs.impl_text(), fs.text()))


def one_col_file(typ, nullable, mask, sizes, codec=0):
    return FileSpec(codec, [Col("a", typ, nullable)], [[rc.make_chunk(typ, mask, sizes)]])


def masks_for(n, how, rng, sizes):
    """null patterns for an n-row OPTIONAL chunk"""
    allm = [[bool((m >> i) & 1) for i in range(n)] for m in range(2 ** n)]
    if how == "all":
        return allm
    # nulls right before / after every page boundary, plus one random pattern
    edge = [False] * n
    pos = 0
    for s in sizes[:-1]:
        pos += s
        edge[pos - 1] = True
    if n >= 2:
        edge[0] = not edge[0] if sizes[0] > 1 else edge[0]
    out = [edge]
    r = allm[rng.randrange(1, 2 ** n)]
    if r != edge:
        out.append(r)
    return out


def gen_col_cases(tier, rng):
    cases = []
    thorough = tier == "thorough"
    nmax = 8 if thorough else 6
    modes = "fmb"
    mi = 0
    # A. exhaustive histories, INT32, REQUIRED and OPTIONAL, every cut into 1..3 pages
    hcache = {}
    for n in range(1, nmax + 1):
        hcache[n] = rc.histories(n, n + 1)
        parts = rc.compositions(n, 3)
        # 8-row chunks have 111 540 histories each: every history, on a sample of the 29 cuts
        req_parts = parts if n < 8 else rng.sample(parts, 5)
        null_parts = parts if n < 8 else rng.sample(parts, 3)
        for sizes in parts:
            variants = [(False, [False] * n)] if sizes in req_parts else []
            how = "all" if n <= (5 if thorough else 4) else "edge"
            if sizes in null_parts:
                variants += [(True, m) for m in masks_for(n, how, rng, sizes)]
            first_null = next((m for nl, m in variants if nl), None)
            for nullable, mask in variants:
                fs = one_col_file("i32", nullable, mask, sizes)
                mode = modes[mi % 3]; mi += 1
                cases.append(col_case(fs, 0, 0, "f", f"r{n + 1}", "ref"))
                hs = hcache[n]
                if n >= 6 and nullable and how == "edge" and mask is not first_null:
                    hs = rng.sample(hs, len(hs) // (4 if n == 6 else 8))
                elif n >= 7 and nullable:
                    hs = rng.sample(hs, len(hs) // 2)
                for h in hs:
                    cases.append(col_case(fs, 0, 0, mode, rc.ops_text(h), "exh"))
    # B. the other physical types
    tmax = 6 if thorough else 4
    for typ in ("i64", "f32", "f64", "bool", "ba", "fl3"):
        for n in range(1, tmax + 1):
            for sizes in rc.compositions(n, 3):
                for nullable in (False, True):
                    mask = masks_for(n, "edge", rng, sizes)[-1] if nullable else [False] * n
                    fs = one_col_file(typ, nullable, mask, sizes, codec=rng.choice([0, 0, 1, 5]))
                    mode = modes[mi % 3]; mi += 1
                    cases.append(col_case(fs, 0, 0, "f", f"r{n + 1}", "ref"))
                    for h in hcache[n]:
                        cases.append(col_case(fs, 0, 0, mode, rc.ops_text(h), "types"))
    # C. zero-size operations anywhere (at most one per history, never two in a row)
    zmax = 5 if thorough else 4
    for n in range(1, zmax + 1):
        hz = [h for h in rc.histories(n, n + 1, zeros=1) if any(k == 0 for _, k in h)]
        for sizes in rc.compositions(n, 3):
            for typ, nullable in (("i32", True), ("ba", False)):
                mask = masks_for(n, "edge", rng, sizes)[0] if nullable else [False] * n
                fs = one_col_file(typ, nullable, mask, sizes)
                mode = modes[mi % 3]; mi += 1
                cases.append(col_case(fs, 0, 0, "f", f"r{n + 1}", "ref"))
                for h in hz:
                    cases.append(col_case(fs, 0, 0, mode, rc.ops_text(h), "zero"))
    # D. def_levels = NULL reads, reader re-creation, histories without probes
    for n in range(2, 7):
        for sizes in rc.compositions(n, 3):
            for typ, nullable in (("i32", True), ("i64", False), ("ba", True)):
                mask = masks_for(n, "edge", rng, sizes)[-1] if nullable else [False] * n
                fs = one_col_file(typ, nullable, mask, sizes)
                cases.append(col_case(fs, 0, 0, "f", f"r{n + 1}", "ref"))
                for h in rng.sample(hcache[n], min(len(hcache[n]), 60 if thorough else 25)):
                    mode = modes[mi % 3]; mi += 1
                    hq = tuple(("q", k) if kind == "r" and rng.random() < 0.5 else (kind, k) for kind, k in h)
                    cases.append(col_case(fs, 0, 0, mode, rc.ops_text(hq), "nodef"))
                    cut = rng.randrange(1, len(h) + 1)
                    hn = h[:cut] + (("n", 0),) + h
                    cases.append(col_case(fs, 0, 0, mode, rc.ops_text(hn), "reopen"))
                    cases.append(col_case(fs, 0, 0, mode, rc.ops_text(h, probes=False), "bare"))
    # E. long sampled histories on bigger multi-page chunks, all codecs, two row groups
    nlong = 120 if thorough else 36
    codecs = list(rc.CODECS.values())
    for i in range(nlong):
        typ = rng.choice(rc.TYPES)
        nullable = rng.random() < 0.6
        big = (i % 12 == 0)
        n = rng.randrange(2200, 2600) if big else rng.randrange(20, 160)
        npages = rng.randrange(1, 4) if big else rng.randrange(1, 9)
        cuts = sorted(rng.sample(range(1, n), npages - 1))
        b = [0] + cuts + [n]
        sizes = [b[j + 1] - b[j] for j in range(npages)]
        mask, base = [], 0
        for s in sizes:
            mask += rc.safe_nullmask(s, rng) if nullable else [False] * s
        ch0 = rc.make_chunk(typ, mask, sizes)
        n1 = rng.randrange(1, 12)
        ch1 = rc.make_chunk(typ, rc.safe_nullmask(n1, rng) if nullable else [False] * n1, [n1], base=n)
        fs = FileSpec(codecs[i % len(codecs)], [Col("a", typ, nullable)], [[ch0], [ch1]])
        cases.append(col_case(fs, 0, 0, "f", f"r{n + 1}", "ref"))
        cases.append(col_case(fs, 1, 0, "f", f"r{n1 + 1}", "ref"))
        for _ in range(6 if big else 24):
            h, pos = [], 0
            while pos < n:
                kind = rng.choice("rrrsq")
                kmax = 1500 if big else 40
                k = rng.choice([0, 1, 2, 7, 8, 9, 1023, 1024, 1025]) if rng.random() < 0.15 else rng.randrange(1, kmax)
                if not big and k > 200:
                    k = k % 50
                h.append((kind, k))
                pos += k
                if rng.random() < 0.03:
                    h.append(("n", 0)); pos = 0
            h.append((rng.choice("rs"), 3))
            rg = 0
            verify = rng.randrange(2)
            cases.append(col_case(fs, rg, 0, modes[mi % 3], rc.ops_text(tuple(h), probes=rng.random() < 0.7), "long", verify=verify))
            mi += 1
        cases.append(col_case(fs, 1, 0, modes[mi % 3], rc.ops_text(tuple(rng.choice(rc.histories(min(n1, 4), 5))), True), "long"))
    return cases


def layout_files(tier, rng):
    """multi-column files for the batch reader: mixes of zero-copy eligible columns (REQUIRED, fixed width,
    uncompressed) and columns that are not (OPTIONAL, BYTE_ARRAY, BOOLEAN, compressed), several pages per chunk,
    one to three row groups"""
    files = []

    def mk(codec, coldefs, rg_rows, rng, maxpages=3):
        cols = [Col("c%d_%s" % (i, t.replace("?", "")), t.rstrip("?"), t.endswith("?")) for i, t in enumerate(coldefs)]
        rgs, base = [], 0
        for n in rg_rows:
            rg = []
            for c in cols:
                comps = rc.compositions(n, maxpages) if n > 0 else [[]]
                sizes = rng.choice(comps)
                mask = []
                for s in sizes:
                    mask += rc.safe_nullmask(s, rng) if c.nullable else [False] * s
                rg.append(rc.make_chunk(c.typ, mask, sizes, base=base))
            rgs.append(rg)
            base += n
        return FileSpec(codec, cols, rgs)

    # the F7 layout first: eligible column next to a nullable one, pages smaller than the batch
    files.append(mk(0, ["i32", "i32?"], [5], rng))
    files.append(mk(0, ["i32?", "i64"], [6], rng))
    files.append(mk(0, ["i32", "i32?", "ba", "f64?"], [5, 3], rng))
    files.append(mk(0, ["ba?", "f64", "bool", "fl3"], [4, 4], rng))
    files.append(mk(1, ["i64", "i32?", "ba?", "f32"], [6], rng))
    files.append(mk(6, ["f64", "i64?", "bool?"], [3, 2, 4], rng))
    files.append(mk(0, ["i32", "i64", "f32", "f64"], [7], rng))
    files.append(mk(0, ["i64?"], [5, 1], rng))
    extra = 10 if tier == "thorough" else 3
    tys = ["i32", "i64", "f32", "f64", "bool", "ba", "fl3", "i32?", "i64?", "f64?", "ba?", "bool?", "fl3?"]
    for _ in range(extra):
        nc = rng.randrange(1, 5)
        files.append(mk(rng.choice([0, 0, 1, 2, 5, 6, 7]), [rng.choice(tys) for _ in range(nc)],
                        [rng.randrange(1, 8) for _ in range(rng.randrange(1, 4))], rng))
    return files


def prefix_name_files(rng):
    """schemas whose column names are proper prefixes / extensions of each other, in both orders, with columns of
    different types, nullability and content, so that a name resolved to the wrong column is visible"""
    files = []
    for names in (["ts_ms", "ts", "t", "ts_ms_x"], ["t", "ts", "ts_ms", "ts_ms_x"], ["value", "val", "va"]):
        tys = ["i64", "i32?", "ba", "f64?", "i32"]
        cols = [Col(nm, tys[i % len(tys)].rstrip("?"), tys[i % len(tys)].endswith("?")) for i, nm in enumerate(names)]
        n = 5
        rg = []
        for i, c in enumerate(cols):
            sizes = rng.choice(rc.compositions(n, 3))
            mask = rc.safe_nullmask(n, rng, "alt") if c.nullable else [False] * n
            rg.append(rc.make_chunk(c.typ, mask, sizes, base=10 * i))
        files.append(FileSpec(0, cols, [rg]))
    return files


def gen_name_cases(tier, rng):
    """by-name projections on such schemas: every name alone, pairs in both orders, and names that do not exist but are
    prefixes / extensions / case variants of existing ones (must be refused with COLUMN_NOT_FOUND)"""
    cases = []
    for fs in prefix_name_files(rng):
        names = [c.name for c in fs.cols]
        for c in range(len(names)):
            cases.append(col_case(fs, 0, c, "f", "r6", "ref"))
        projs = [([nm], [i]) for i, nm in enumerate(names)]
        projs += [([a, b], [i, j]) for i, a in enumerate(names) for j, b in enumerate(names) if i != j]
        projs.append((list(reversed(names)), list(reversed(range(len(names))))))
        ghosts = sorted({nm[:k] for nm in names for k in range(1, len(nm))} - set(names)) + \
                 [nm + "_" for nm in names if nm + "_" not in names] + [nm.upper() for nm in names] + [names[-1] + "x"]
        for g in ghosts:
            projs.append(([g], None))
            projs.append(([names[0], g], None))
        for pn, pcols in projs:
            for bs in (2, 6):
                for mode in "fmb":
                    cases.append(bat_case(fs, mode, bs, "n:" + ",".join(pn), pcols, "names"))
    return cases


def raw_col_case(f, rg, col, mode, ops_txt, tag, verify=1):
    return Case(kind="col", fs=f, rg=rg, col=col, mode=mode, ops=ops_txt, tag=tag, mline=None,
                line=f"col {mode} {verify} {f.impl_text()} {rg} {col} {ops_txt}")


def gen_nested_cases(tier, rng):
    """column-reader histories on nested columns (tools/pq.py files: REQUIRED leaves in an OPTIONAL group, in a REPEATED
    group, 3-level LIST): definition AND repetition levels are delivered by position like everything else
    (carquet_read_next_page copies rep levels at page_values_read, carquet_read_data_page_v1 decodes them).  Judged by
    the cursor arithmetic over the entries of the one-shot read; not replayed by the model (no repetition levels there)."""
    cases = []
    thorough = tier == "thorough"
    mi = 0
    for f in rc.nested_files(rng, thorough):
        for c in range(len(f.names)):
            n = len(f.truth[0][c][0])
            cases.append(raw_col_case(f, 0, c, "f", f"r{n + 1}", "ref"))
            hs = rc.histories(min(n, 5), min(n, 5) + 1)
            for h in rng.sample(hs, min(len(hs), 60 if thorough else 14)):
                h = tuple(h) + ((("r", n + 1),) if n > 5 else ())
                hq = tuple(("q", k) if kind == "r" and rng.random() < 0.2 else (kind, k) for kind, k in h)
                cases.append(raw_col_case(f, 0, c, "fmb"[mi % 3], rc.ops_text(hq), "nested", verify=mi % 2))
                mi += 1
    return cases


def gen_api_cases(tier, rng):
    """API variants and states of the anchored entry points that the other families never reach (coverage audit):
    carquet_batch_reader_create(reader, NULL), num_threads = 0, a projection by index that names a column the file does
    not have (accepted at create, the first next must fail with COLUMN_NOT_FOUND), carquet_reader_get_column with a row
    group / column outside the file, reader options = NULL"""
    cases = []
    fs = FileSpec(0, [Col("a", "i32", False), Col("b", "ba", True), Col("c", "f64", False)],
                  [[rc.make_chunk("i32", [False] * 5, [2, 3]), rc.make_chunk("ba", [False, True, False, True, False], [5]),
                    rc.make_chunk("f64", [False] * 5, [1, 4])],
                   [rc.make_chunk("i32", [False] * 2, [2], base=5), rc.make_chunk("ba", [True, False], [1, 1], base=5),
                    rc.make_chunk("f64", [False] * 2, [2], base=5)]])
    nc = len(fs.cols)
    for g in range(2):
        for c in range(nc):
            cases.append(col_case(fs, g, c, "f", "r9", "ref"))
    for mode in "fmb":
        for opts in ("1", "1,t0", "0,t1", "d"):
            cases.append(bat_case(fs, mode, "d", "all", list(range(nc)), "api", verify=opts))
            cases.append(bat_case(fs, mode, 2, "i:2,0", [2, 0], "api", verify=opts))
            cases.append(col_case(fs, 0, 1, mode, "r2,m,h,s1,r9,m,h", "api", verify=opts))
        for proj, pc in ((f"i:0,{nc}", [0, nc]), (f"i:{nc + 3}", [nc + 3]), (f"i:1,{nc},0", [1, nc, 0])):
            cases.append(bat_case(fs, mode, 3, proj, pc, "api"))
        # a projection array / name array that is given but empty (count 0) means "all columns"
        for proj in ("i0", "n0"):
            cases.append(bat_case(fs, mode, 3, proj, list(range(nc)), "api"))
        for g, c in ((2, 0), (0, nc), (5, nc + 1)):
            k = col_case(fs, g, c, mode, "r1", "api")
            k.mline = None
            cases.append(k)
    return cases


def gen_bat_cases(tier, rng):
    cases = gen_name_cases(tier, rng) + gen_api_cases(tier, rng) + gen_nested_cases(tier, rng)
    for fs in layout_files(tier, rng):
        nc = len(fs.cols)
        rows_max = max(sum(len(p) for p in rg[0]) for rg in fs.rgs)
        # reference content of every column chunk through the column reader
        for g in range(len(fs.rgs)):
            for c in range(nc):
                cases.append(col_case(fs, g, c, "f", f"r{len(fs.rows(g, c)) + 1}", "ref"))
        projs = [("all", list(range(nc)))]
        for k in range(1, min(nc, 4) + 1):
            for sel in itertools.permutations(range(nc), k):
                projs.append(("i:" + ",".join(map(str, sel)), list(sel)))
                projs.append(("n:" + ",".join(fs.cols[i].name for i in sel), list(sel)))
        if nc >= 2:
            projs.append(("i:0,0", [0, 0]))
            projs.append(("n:%s,%s,%s" % (fs.cols[1].name, fs.cols[1].name, fs.cols[0].name), [1, 1, 0]))
        for bs in range(1, rows_max + 2):
            for proj, pcols in projs:
                for mode in "fmb":
                    cases.append(bat_case(fs, mode, bs, proj, pcols, "bat"))
    return cases


def corpus_cases(pid="C02"):
    """minimised witnesses of the findings (corpus/<pid>/*.json): always run first, in all three modes"""
    cases = []
    for f in sorted((vlib.VERIF / "corpus" / pid).glob("*.json")):
        for w in json.loads(f.read_text()):
            fs = spec_from_text(w["spec"])
            if w.get("impl_hex"):
                fs._impl = "x:" + w["impl_hex"]
            for g in range(len(fs.rgs)):
                for c in range(len(fs.cols)):
                    cases.append(col_case(fs, g, c, "f", f"r{len(fs.rows(g, c)) + 1}", "ref"))
            for r in w["requests"]:
                for mode in "fmb":
                    if r[0] == "col":
                        cases.append(col_case(fs, r[1], r[2], mode, r[3], "corpus"))
                    else:
                        cases.append(bat_case(fs, mode, r[1], r[2], proj_cols(fs, r[2]), "corpus"))
    return cases


def special_pq_specs(rng):
    """(FileSpec, pq_bytes keywords): INT96 columns, dictionary page not announced in the chunk metadata, chunks mixing
    PLAIN and dictionary pages"""
    special = []
    for typ, nullable in (("i96", False), ("i96", True)):
        n, sizes = 5, [2, 3]
        mask = [False, True, False, False, True] if nullable else [False] * n
        for enc in ("PLAIN", "RLE_DICTIONARY"):
            fs = FileSpec(0, [Col("a", typ, nullable)], [[rc.make_chunk(typ, mask, sizes)]], dict_encoded=(enc != "PLAIN"))
            special.append((fs, dict(encoding=enc)))
    for typ, nullable, codec in (("i64", False, 0), ("ba", True, 1), ("i32", True, 0)):
        n, sizes = 6, [1, 3, 2]
        mask = rc.safe_nullmask(n, rng, "alt") if nullable else [False] * n
        fs = FileSpec(codec, [Col("a", typ, nullable)], [[rc.make_chunk(typ, mask, sizes)]], dict_encoded=True)
        special.append((fs, dict(encoding="RLE_DICTIONARY", dict_offset="absent")))
        fs = FileSpec(codec, [Col("a", typ, nullable)], [[rc.make_chunk(typ, mask, sizes)]], dict_encoded=True)
        special.append((fs, dict(page_encodings=["PLAIN", "RLE_DICTIONARY", "PLAIN"])))
        fs = FileSpec(codec, [Col("a", typ, nullable)], [[rc.make_chunk(typ, mask, sizes)]], dict_encoded=True)
        special.append((fs, dict(page_encodings=["RLE_DICTIONARY", "PLAIN"])))
    # page headers longer than the 256-byte window the loaders read first (Statistics with long BYTE_ARRAY min / max),
    # PLAIN and dictionary encoded, with a dictionary page header in front
    long_vals = [bytes([97 + i]) * (150 + 10 * i) for i in range(6)]
    for nullable, codec, enc in ((False, 0, "PLAIN"), (True, 1, "PLAIN"), (False, 0, "RLE_DICTIONARY")):
        rows = [None if (nullable and i == 2) else long_vals[i] for i in range(6)]
        fs = FileSpec(codec, [Col("a", "ba", nullable)], [[[rows[:2], rows[2:5], rows[5:]]]], dict_encoded=(enc != "PLAIN"))
        special.append((fs, dict(encoding=enc, page_stats=True)))
    # pages WITHOUT a stored CRC read with verify_checksums on (the histories alternate verify 0 / 1), dictionary page
    # included; and a BYTE_ARRAY dictionary whose LAST entry is the empty string (exactly 4 bytes left for it)
    for typ, nullable, enc in (("i32", True, "PLAIN"), ("ba", False, "RLE_DICTIONARY"), ("i64", False, "RLE_DICTIONARY")):
        n, sizes = 5, [2, 3]
        mask = [False, True, False, False, True] if nullable else [False] * n
        fs = FileSpec(0, [Col("a", typ, nullable)], [[rc.make_chunk(typ, mask, sizes)]], dict_encoded=(enc != "PLAIN"))
        special.append((fs, dict(encoding=enc, crc=False)))
    fs = FileSpec(0, [Col("a", "ba", False)], [[[[b"aa", b"b"], [b"aa", b"", b"b", b""]]]], dict_encoded=True)
    special.append((fs, dict(encoding="RLE_DICTIONARY", dictionary=[b"aa", b"b", b""])))
    return special


def empty_rowgroup_file(rng):
    """a row group without rows between two others and at the end"""
    fe = FileSpec(0, [Col("a", "i32", False), Col("b", "i32", True)],
                  [[rc.make_chunk("i32", [False] * 3, [3]), rc.make_chunk("i32", [False, True, False], [1, 2])], [[], []],
                   [rc.make_chunk("i32", [False] * 2, [2], base=3), rc.make_chunk("i32", [True, False], [2], base=3)], [[], []]])
    return fe.use_bytes(rc.pq_bytes(fe, encoding="PLAIN", crc=True, rng=rng))


def gen_pq_cases(tier, rng):
    """files from the independent writer tools/pq.py: dictionary-encoded chunks (the carquet writer only emits PLAIN),
    page CRCs, and chunks with a data page of zero values at the start, in the middle, at the end"""
    cases = []
    thorough = tier == "thorough"
    modes = "fmb"
    mi = 0
    layouts = []
    for typ in ("i32", "i64", "f64", "ba", "fl3", "f32"):
        for nullable in (False, True):
            n = rng.randrange(3, 7)
            sizes = rng.choice(rc.compositions(n, 3))
            mask = rc.safe_nullmask(n, rng, "rand") if nullable else [False] * n
            layouts.append((typ, nullable, mask, sizes))
    encs = ["RLE_DICTIONARY", "PLAIN_DICTIONARY", "PLAIN"]
    codecs = [0, 1, 2, 6, 7]
    for li, (typ, nullable, mask, sizes) in enumerate(layouts):
        for enc in (encs if thorough else [encs[li % 3], encs[(li + 1) % 3]]):
            codec = codecs[(li + len(enc)) % len(codecs)]
            fs = FileSpec(codec, [Col("a", typ, nullable)], [[rc.make_chunk(typ, mask, sizes)]], dict_encoded=(enc != "PLAIN"))
            try:
                fs.use_bytes(rc.pq_bytes(fs, encoding=enc, crc=True, rng=rng))
            except Exception as e:          # a codec the host lacks: skip this cell, never silently the whole family
                log(f"C02: pq.py cannot write {enc}/{codec}: {e}")
                continue
            n = sum(sizes)
            cases.append(col_case(fs, 0, 0, "f", f"r{n + 1}", "ref"))
            hs = rc.histories(n, n + 1)
            for h in rng.sample(hs, min(len(hs), 150 if thorough else 60)):
                cases.append(col_case(fs, 0, 0, modes[mi % 3], rc.ops_text(h), "dict", verify=mi % 2))
                mi += 1
    # coverage audit: INT96 (not writable by carquet), chunks whose dictionary page is not announced in the metadata,
    # chunks mixing PLAIN and dictionary pages (view <-> owned buffer transitions under mmap), a row group without rows
    special = special_pq_specs(rng)
    for fs, kw in special:
        try:
            fs.use_bytes(rc.pq_bytes(fs, rng=rng, **dict(dict(crc=True), **kw)))
        except Exception as e:
            log(f"C02: pq.py cannot write {kw}: {e}")
            continue
        n = len(fs.rows(0, 0))
        cases.append(col_case(fs, 0, 0, "f", f"r{n + 1}", "ref"))
        hs = rc.histories(n, n + 1)
        for h in rng.sample(hs, min(len(hs), 90 if thorough else 30)):
            cases.append(col_case(fs, 0, 0, modes[mi % 3], rc.ops_text(h), "special", verify=mi % 2))
            mi += 1
        for bs in (1, 2, 4, 7):
            for mode in "fmb":
                cases.append(bat_case(fs, mode, bs, "all", [0], "special"))
    # several readers of one chunk on one reader handle, one after the other: re-created column readers (after a full,
    # a partial, no read at all) and batch readers created after column readers - on dictionary files in particular,
    # with and without dictionary_page_offset (a loader must not leave anything behind in the shared chunk metadata)
    for fs, kw in special:
        if fs._impl is None:
            continue
        n = len(fs.rows(0, 0))
        for ops in (f"r{n + 1},m,n,r{n + 1},m,h", f"r1,n,m,r{n + 1},n,s2,r{n + 1}", f"n,r2,n,n,q1,r{n + 1},m", f"s{n},n,h,r{n + 1},n,r1,m",
                    f"m,h,n,r{n + 1}"):
            for mode in "fmb":
                cases.append(col_case(fs, 0, 0, mode, ops, "rereader", verify=mi % 2))
                mi += 1
        for pre in (0, 1, n + 1):
            for bs in (2, n + 1):
                for mode in "fmb":
                    cases.append(bat_case(fs, mode, bs, "all", [0], "rereader", verify=f"1,p{pre}"))
    # BYTE_ARRAY / FIXED_LEN_BYTE_ARRAY chunks in MANY small pages, reads and batches that span 10 and more pages
    # (page buffers of finished pages are kept alive until the next read call: however many there are)
    for typ, nullable, codec in (("ba", False, 0), ("ba", True, 1), ("fl3", False, 1), ("ba", False, 6)):
        npages = rng.randrange(24, 40)
        sizes = [rng.randrange(2, 6) for _ in range(npages)]
        n = sum(sizes)
        mask = []
        for sz in sizes:
            mask += rc.safe_nullmask(sz, rng) if nullable else [False] * sz
        fs = FileSpec(codec, [Col("k", "i32", False), Col("v", typ, nullable)],
                      [[rc.make_chunk("i32", [False] * n, [n]), rc.make_chunk(typ, mask, sizes)]])
        cases.append(col_case(fs, 0, 0, "f", f"r{n + 1}", "ref"))
        cases.append(col_case(fs, 0, 1, "f", f"r{n + 1}", "ref"))
        for ops in (f"r{n + 1},m,h", f"r45,m,r{n},m", f"r7,r60,m,s50,r{n},h", f"q{n // 2},r{n},m", f"s{n - 3},r9,m", f"r1,r{n - 2},r5"):
            for mode in "fmb":
                cases.append(col_case(fs, 0, 1, mode, ops, "manypages", verify=mi % 2))
                mi += 1
        for bs in (1, 7, 45, 60, n - 1, n, n + 1):
            for proj, pc in (("all", [0, 1]), ("i:1", [1])):
                for mode in "fmb":
                    cases.append(bat_case(fs, mode, bs, proj, pc, "manypages"))
    # a row group without rows between two others (src/reader/batch_reader.c "Handle empty row group")
    fe = empty_rowgroup_file(rng)
    for g in range(4):
        for c in range(2):
            cases.append(col_case(fe, g, c, "f", "r9", "ref"))
            cases.append(col_case(fe, g, c, "m", "m,h,r2,m,h,s1,r1,m,h", "special"))
    for bs in (1, 2, 3, 9):
        for proj, pc in (("all", [0, 1]), ("i:1", [1]), ("n:b,a", [1, 0])):
            for mode in "fmb":
                cases.append(bat_case(fe, mode, bs, proj, pc, "special"))
    # requests of 2^31 values and more (the repaired code compares in 64 bits; the pinned code cast to int32 first).
    # REQUIRED BOOLEAN: one byte per slot, the driver hands over untouched zero pages.  The model's caller buffer is an
    # explicit list, so these cases are judged by the property's oracle only (no model line).
    fsb = FileSpec(0, [Col("a", "bool", False)], [[rc.make_chunk("bool", [False] * 5, [3, 2])]])
    cases.append(col_case(fsb, 0, 0, "f", "r6", "ref"))
    for mode, ops in (("f", "q2147483648,m,h"), ("m", "q4294967296,m,h"), ("b", "r1,q4294967297,m,h"), ("f", "s2147483648,m,h")):
        c = col_case(fsb, 0, 0, mode, ops, "huge")
        c.mline = None
        cases.append(c)
    # multi-column dictionary file through the batch reader
    cols = [Col("k", "i64", False), Col("v", "i32", True), Col("s", "ba", True)]
    nrow = 6
    rg = [rc.make_chunk("i64", [False] * nrow, [2, 4]), rc.make_chunk("i32", rc.safe_nullmask(nrow, rng, "rand"), [3, 3]),
          rc.make_chunk("ba", rc.safe_nullmask(nrow, rng, "alt"), [1, 2, 3])]
    for enc, codec in (("RLE_DICTIONARY", 0), ("RLE_DICTIONARY", 1), ("PLAIN", 0)):
        fs = FileSpec(codec, cols, [rg], dict_encoded=(enc != "PLAIN"))
        try:
            fs.use_bytes(rc.pq_bytes(fs, encoding=enc, crc=True, rng=rng))
        except Exception as e:
            log(f"C02: pq.py cannot write {enc}/{codec}: {e}")
            continue
        for c in range(3):
            cases.append(col_case(fs, 0, c, "f", f"r{nrow + 1}", "ref"))
        for bs in range(1, nrow + 2):
            for proj, pcols in (("all", [0, 1, 2]), ("i:2,0", [2, 0]), ("n:v", [1]), ("n:s,k,v", [2, 0, 1])):
                for mode in "fmb":
                    cases.append(bat_case(fs, mode, bs, proj, pcols, "dictbat"))
    # a data page with num_values = 0 (legal in the format, never written by carquet itself) anywhere in the chunk
    for typ, nullable, where in (("i32", False, 1), ("i32", True, 1), ("ba", False, 1), ("i64", True, 0), ("i32", False, 2),
                                 ("f64", True, 2)):
        n, sizes = 4, [2, 2]
        mask = [False, True, False, False] if nullable else [False] * n
        pages = rc.make_chunk(typ, mask, sizes)
        pages.insert(where, [])                      # the empty page is part of the description the model gets
        fs = FileSpec(0, [Col("a", typ, nullable)], [[pages]])
        fs.use_bytes(rc.pq_bytes(fs, encoding="PLAIN", crc=True, rng=rng))
        cases.append(col_case(fs, 0, 0, "f", f"r{n + 1}", "ref"))
        for h in rc.histories(n, n + 1):
            cases.append(col_case(fs, 0, 0, modes[mi % 3], rc.ops_text(h), "empty"))
            mi += 1
        for bs in (1, 2, 3, 5):
            for mode in "fmb":
                cases.append(bat_case(fs, mode, bs, "all", [0], "empty"))
    return cases


# ------------------------------------------------------------------ evaluation on the implementation

def collect_refs(cases, impl):
    """content of every chunk as delivered by the one-shot read (mode f): {(file, rg, col): [tokens]}"""
    refs = {}
    for c, out in zip(cases, impl):
        if c.kind == "col" and c.tag == "ref":
            t = out.split()
            key = (c.fs.text(), c.rg, c.col)
            if isinstance(c.fs, rc.RawFile):
                if len(t) >= 2 and t[0] == "OK" and t[1][0] == "r":
                    refs[key + ("raw",)] = t[1]
                    f = c.fs
                    want = "OK " + rc.expected_oneshot(*f.truth[c.rg][c.col], *f.levels[c.col])
                    refs[key] = out if out == want else None
                continue
            if len(t) >= 2 and t[0] == "OK" and t[1][0] == "r":
                refs[key] = rc.parse_read_token(t[1])[1]
            elif key not in refs:
                refs[key] = None
    return refs


class Tally:
    def __init__(self, rep):
        self.rep, self.n, self.cur_key = rep, 0, None

    def violation(self, what, replay, key=None):
        key = key or self.cur_key        # cur_key: the open finding the current case's file is a witness of (or None)
        if self.rep.violation(what, replay, key=key) is False:
            return                       # matches an open finding: reported as KNOWN-FINDING, not counted
        self.n += 1
        if self.n > MAXV and self.rep.violations:
            self.rep.violations.pop()    # keep the first MAXV, count all


def check_col(c, out, refs, tally):
    key = (c.fs.text(), c.rg, c.col)
    ref = refs.get(key)
    if out.startswith("FAULT skipped"):
        return
    if out.startswith("FAULT"):
        tally.violation("the reader died on this history (sanitizer report or signal)", {"case": c.line}, key=c.fs.known)
        return
    if c.rg >= len(getattr(c.fs, "rgs", [0] * 99)) or (hasattr(c.fs, "cols") and c.col >= len(c.fs.cols)):
        want = "ERR get_column 62" if c.rg >= len(c.fs.rgs) else "ERR get_column 61"
        if out.strip() != want:
            tally.violation(f"carquet_reader_get_column outside the file: got {out[:100]}, expected {want} "
                            "(ROW_GROUP_NOT_FOUND / COLUMN_NOT_FOUND)", {"case": c.line})
        return
    if isinstance(c.fs, rc.RawFile):
        check_nested_col(c, out, refs, tally)
        return
    if ref is None:
        if c.tag == "ref":
            tally.violation(f"one-shot read of a freshly written chunk failed: {out[:200]}", {"case": c.line})
        return
    t = out.split()
    if not t or t[0] != "OK":
        tally.violation(f"history refused: {out[:200]}", {"case": c.line}, key=c.fs.known)
        return
    want = rc.reference_cursor(ref, c.fs.cols[c.col].nullable, rc.parse_ops(c.ops))
    if t[1:] != want:
        i = next((j for j, (a, b) in enumerate(zip(t[1:], want)) if a != b), min(len(want), len(t) - 1))
        tally.violation(
            f"column reader: history delivers something else than the one-shot read of the same chunk at step {i} "
            f"(op {c.ops.split(',')[i] if i < len(c.ops.split(',')) else '?'}): got {t[1 + i] if 1 + i < len(t) else None}, "
            f"the chunk content and cursor arithmetic give {want[i] if i < len(want) else None}",
            {"case": c.line, "got": t[1:], "want": want, "chunk_content_by_one_shot_read": ref}, key=c.fs.known)


def check_nested_col(c, out, refs, tally):
    f = c.fs
    md, mr = f.levels[c.col]
    t = out.split()
    if not t or t[0] != "OK":
        tally.violation(f"history on a nested column refused: {out[:200]}", {"case": c.line})
        return
    ref_tok = refs.get((f.text(), c.rg, c.col, "raw"))
    if ref_tok is None:
        return
    ops = rc.parse_ops(c.ops)
    if md > 1 or mr > 0:
        defs, reps, vals = rc.parse_nested_token(ref_tok)
        want = rc.reference_cursor_nested(defs, reps, vals, md, ops)
    else:
        want = rc.reference_cursor(rc.parse_read_token(ref_tok)[1], md > 0, ops)
    if t[1:] != want:
        i = next((j for j, (a, b) in enumerate(zip(t[1:], want)) if a != b), min(len(want), len(t) - 1))
        tally.violation(f"nested column: history delivers something else than the one-shot read of the same chunk at step {i}: "
                        f"got {t[1 + i] if 1 + i < len(t) else None}, cursor arithmetic over the one-shot entries gives "
                        f"{want[i] if i < len(want) else None}", {"case": c.line, "got": t[1:], "want": want})


def check_bat(c, out, refs, tally):
    if out.startswith("FAULT skipped"):
        return
    if out.startswith("FAULT"):
        tally.violation("the batch reader died on this configuration (sanitizer report or signal)", {"case": c.line})
        return
    if c.pcols is not None and any(p >= len(c.fs.cols) for p in c.pcols):
        # projection by an index the file does not have: created, then the first next fails
        if out.strip() != "OK E61 L1":
            tally.violation(f"projection {c.proj} names a column the file does not have: expected no batch and COLUMN_NOT_FOUND "
                            f"from the first next, got {out[:200]}", {"case": c.line, "got": out})
        return
    if c.pcols is None:
        # a projection naming a column that does not exist (a prefix / extension / case variant of existing names)
        if out.split()[:3] != ["ERR", "create", "61"]:
            tally.violation(f"projection by a name that no column has ({c.proj}) is not refused with COLUMN_NOT_FOUND: {out[:200]}",
                            {"case": c.line, "got": out})
        return
    p = rc.parse_batches(out)
    if p is None:
        tally.violation(f"batch reader refused a valid configuration: {out[:200]}", {"case": c.line})
        return
    batches, status, life = p
    fs = c.fs
    content = []
    for pc in c.pcols:
        col = []
        for g in range(len(fs.rgs)):
            r = refs.get((fs.text(), g, pc))
            if r is None:
                return      # reported by the reference case itself
            col += r
        content.append(col)
    if status != 63:
        tally.violation(f"batch reader ended with status {status} instead of END_OF_DATA", {"case": c.line, "got": out})
        return
    got = [[] for _ in c.pcols]
    for bi, (nr, cols) in enumerate(batches):
        if len(cols) != len(c.pcols):
            tally.violation(f"batch {bi} has {len(cols)} columns, projection has {len(c.pcols)}", {"case": c.line, "got": out})
            return
        ns = [n for n, _, _ in cols]
        if any(n != nr for n in ns):
            tally.violation(f"batch {bi}: columns of one batch have different lengths {ns} (num_rows {nr})",
                            {"case": c.line, "got": out})
            return
        if nr > c.bs:
            tally.violation(f"batch {bi} has {nr} rows, batch_size is {c.bs}", {"case": c.line, "got": out})
            return
        for ci, (n, bits, vals) in enumerate(cols):
            nullable = fs.cols[c.pcols[ci]].nullable
            if len(bits) != n or "x" in bits:
                tally.violation(f"batch {bi} column {ci}: no null bitmap for {n} rows", {"case": c.line, "got": out})
                return
            start = len(got[ci])
            expect_bits = "".join("1" if x == "N" else "0" for x in content[ci][start:start + n])
            if bits != expect_bits:
                tally.violation(
                    f"batch {bi} column {ci}: null bitmap {bits} does not separate null from non-null rows as the definition "
                    f"levels do ({expect_bits}; bit set = null, the polarity of every other column, batch and I/O path)",
                    {"case": c.line, "got": out})
                return
            got[ci] += rc.batch_rows(n, bits, vals, nullable)
    for ci in range(len(c.pcols)):
        if got[ci] != content[ci]:
            tally.violation(
                f"concatenation of the batches of projected column {ci} (file column {c.pcols[ci]}"
                + (f", the column the name '{c.proj[2:].split(',')[ci]}' denotes" if c.proj.startswith("n:") else "") +
                f") differs from the column-reader content: {got[ci]} vs {content[ci]}", {"case": c.line, "got": out})
            return
    if life is not True:
        tally.violation("data handed out in a batch changed before the reader was closed", {"case": c.line, "got": out})


def run(tier):
    rep = Report(PID, tier)
    rng = random.Random(vlib.SEED * 7919 + 2)
    prelude(rep, PID)
    rep.cov["trusted_base"] = vlib.TRUSTED_BASE_COMMON + [
        "carquet's own writer produces the test files (one write_batch per page, patterns that avoid the writer defects DESIGN F1-F3); that the files hold what was written is checked by the one-shot read",
        "modelled, not verified: carquet_read_next_page copy-out, carquet_column_read_batch, carquet_column_skip, has_next/remaining, carquet_batch_reader_next (OpenMP build: prefetch phase included); pages enter the model already decoded (levels + packed values): decoding is C01/C06/C11",
        "pointer lifetime of BYTE_ARRAY payloads and zero-copy views is observed under ASan by the driver, not proved",
    ]
    rep.cov["rule"] = ("column reader: every sequence of read_batch k / skip k, 1<=k<=rows+1, passing the end of a chunk of <=6 "
                       "(thorough <=8) rows in every cut into 1..3 pages, REQUIRED and OPTIONAL (all null patterns up to 4 rows, "
                       "boundary + random patterns above), remaining/has_next after every step; zero-size ops; def_levels=NULL "
                       "reads; reader re-creation; 7 physical types; long sampled histories on multi-page chunks x 6 codecs; "
                       "batch reader: every batch_size 1..rows+1 x every ordered projection of <=4 columns by index and by name x "
                       "3 I/O modes; non-trivial = not a reference read; distinct by full case text")
    try:
        drv = build_driver("h_reader")
    except vlib.BuildError as e:
        rep.tie_broken("harness does not build against the current tree: " + str(e)[:500])
        return rep.finish()
    cases = corpus_cases() + gen_col_cases(tier, rng) + gen_bat_cases(tier, rng) + gen_pq_cases(tier, rng)
    lines = [c.line for c in cases]
    log(f"C02: {len(lines)} cases")
    impl, deaths = rc.run_resilient(drv, lines, env=ENV)
    tally = Tally(rep)
    evaluate(rep, tally, cases, impl, deaths)
    rep.cov["violations_total"] = tally.n
    for c in (cases[5], cases[len(cases) // 3], cases[-1]):
        rep.sample({"case": c.line[:400]})
    model_tie(rep, cases, impl)
    return rep.finish()


def evaluate(rep, tally, cases, impl, deaths):
    for d in deaths:
        if d[0] is None:
            tally.violation(f"driver reported a problem at exit (rc={d[1]}): {d[2][-700:]}", {"case": None})
    died = {d[0]: d for d in deaths if d[0] is not None}
    refs = collect_refs(cases, impl)
    dist = {}
    for c, out in zip(cases, impl):
        rep.count(c.line, nontrivial=not c.tag.startswith("ref"))
        dist[c.tag] = dist.get(c.tag, 0) + 1
        tally.cur_key = c.fs.known
        if out == "FAULT died" and c.line in died:
            tally.violation(f"the reader died on this case (rc={died[c.line][1]}): {rc.asan_summary(died[c.line][2])}", {"case": c.line})
            continue
        try:
            if c.kind == "col":
                check_col(c, out, refs, tally)
            else:
                check_bat(c, out, refs, tally)
        except Exception as e:        # output that does not even have the shape of a result: a violation, with the case
            tally.violation(f"result line cannot be interpreted ({type(e).__name__}: {str(e)[:120]}): {out[:200]}", {"case": c.line, "got": out})
            continue
        if c.kind == "col":
            if c.tag == "ref" and isinstance(c.fs, rc.RawFile):
                if refs.get((c.fs.text(), c.rg, c.col)) is None and out.startswith("OK"):
                    rep.tie_broken("one-shot read of a nested column differs from the ground truth of tools/pq.py (page "
                                   "decoding, outside C02): " + out[:200], c.line)
            elif c.tag == "ref":
                written = [rc.tok(r) for r in c.fs.rows(c.rg, c.col)]
                if refs.get((c.fs.text(), c.rg, c.col)) not in (None, written):
                    # every history of this chunk is still compared with the one-shot read; this line only says
                    # that the file does not hold what the generator asked the writer to store
                    rep.tie_broken("one-shot read differs from what was written (writer or page decoding, outside C02): "
                                   f"{refs[(c.fs.text(), c.rg, c.col)]} vs {written}", c.line)
    tally.cur_key = None
    rep.cov["input_distribution"] = dist


def model_tie(rep, cases, impl):
    """the extracted CursorModel / BatchModel replay the same cases (files written by tools/pq.py are described to the
    model by their logical pages) and must print the same canonical line"""
    if not (vlib.VERIF / "ocaml" / "run_reader.ml").exists():
        rep.tie_broken("the model runner ocaml/run_reader.ml does not exist")
        return
    try:
        runner = build_runner("reader")
    except vlib.BuildError as e:
        rep.tie_broken("model runner does not build: " + str(e)[:600])
        return
    # not replayed by the model: witnesses of open findings (the model is the repaired code) and the 2^31-slot requests
    sel = [c for c in cases if c.fs.known is None and c.mline is not None]
    isel = [i for i, c in enumerate(cases) if c.fs.known is None and c.mline is not None]
    model, probs = run_sharded(runner, [c.mline for c in sel], timeout=3000)
    for pr in probs:
        rep.tie_broken(f"model runner died (rc={pr[1]}): {pr[2][-300:]}", pr[3])
    bad = 0
    for c, i, b in zip(sel, isel, model):
        a = impl[i]
        if a != b and not a.startswith("FAULT"):
            bad += 1
            if bad <= 5:
                rep.tie_broken(f"extracted model and implementation print different lines: model {b[:300]} / impl {a[:300]}", c.line)
    rep.cov["model_tie_mismatches"] = bad
    rep.cov["model_tie_cases"] = len(sel)


def replay(path):
    j = json.loads(Path(path).read_text())
    case = j.get("replay", {}).get("case")
    if not case:
        print(json.dumps(j, indent=1))
        return 1
    drv = build_driver("h_reader")
    t = case.split()
    print("case:", case)
    if t[0] == "col":
        spec, rg, col = t[3], t[4], t[5]
        ref_line = f"col f 1 {spec} {rg} {col} r100000"
        out, rcode, err = vlib.run_lines(drv, [ref_line, case], env=ENV)
        print("one-shot read   :", out[0] if out else None)
        print("history         :", out[1] if len(out) > 1 else None)
        if err:
            print(err[-3000:])
        if rcode != 0 or len(out) < 2 or not out[0].startswith("OK r"):
            return 1
        ref = rc.parse_read_token(out[0].split()[1])[1]
        nullable = "?" in spec.split(":")[2].split(",")[int(col)]
        want = rc.reference_cursor(ref, nullable, rc.parse_ops(t[6]))
        print("cursor arithmetic:", "OK " + " ".join(want))
        return 0 if out[1].split()[1:] == want else 1
    out, rcode, err = vlib.run_lines(drv, [case], env=ENV)
    print("implementation:", out[0] if out else None, "rc", rcode)
    if err:
        print(err[-3000:])
    if "got" in j.get("replay", {}):
        print("recorded      :", j["replay"]["got"])
    print("what          :", j.get("what"))
    # a batch case is judged again by the same oracle
    if rcode != 0 or not out:
        return 1
    fake = Report(PID, "quick")
    tally = Tally(fake)
    spec = t[3]
    fs = spec_from_text(spec)
    pcols = proj_cols(fs, t[5])
    refs = {}
    ref_lines = [f"col f 1 {spec} {g} {c} r100000" for g in range(len(fs.rgs)) for c in range(len(fs.cols))]
    ro, _, _ = vlib.run_lines(drv, ref_lines, env=ENV)
    k = 0
    for g in range(len(fs.rgs)):
        for c in range(len(fs.cols)):
            tt = ro[k].split(); k += 1
            refs[(fs.text(), g, c)] = rc.parse_read_token(tt[1])[1] if len(tt) > 1 and tt[0] == "OK" else None
    c = Case(kind="bat", fs=fs, mode=t[1], bs=int(t[4]), proj=t[5], pcols=pcols, line=case)
    check_bat(c, out[0], refs, tally)
    for w, _, _ in fake.violations:
        print("violation     :", w)
    return 1 if tally.n else 0


def spec_from_text(text):
    _, codec, defs, rgs = text.split(":", 3)
    dict_enc = codec.endswith("d")
    codec = codec.rstrip("d")
    cols = []
    for d in defs.split(","):
        name, typ = d.split("=")
        cols.append(Col(name, typ.rstrip("?"), typ.endswith("?")))
    out = []
    for rg in rgs.split("|"):
        chunks = []
        for ch in rg.split(";"):
            pages = []
            for pg in ch.split("/"):
                pages.append([] if pg == "" else
                             [None if r == "N" else (b"" if r == "-" else bytes.fromhex(r)) for r in pg.split(".")])
            chunks.append(pages)
        out.append(chunks)
    fs = FileSpec(int(codec), cols, out, dict_encoded=dict_enc)
    fs._text = text
    return fs


def proj_cols(fs, proj):
    if proj in ("all", "i0", "n0"):
        return list(range(len(fs.cols)))
    if proj.startswith("i:"):
        return [int(x) for x in proj[2:].split(",")]
    names = [c.name for c in fs.cols]
    want = proj[2:].split(",")
    return [names.index(x) for x in want] if all(x in names for x in want) else None
