"""C12 - encoded bytes follow the Parquet encoding specifications (both directions).

Proof: coq/theories/Props/Properties_C12.v.
Tie / oracles on the implementation:
  carquet-encode -> independent decoders (extracted RleSpec.spec_decode_all and checks/rle_ref.py) must
  return the input (+ < 8 padding zeros for the hybrid);
  independent encoder (checks/rle_ref.py: every legal form, incl. multi-group bit-packed runs, zero-length
  runs, padded final groups with random padding bits, mixes) -> carquet decoders (decode_all,
  decode_levels, decode_levels_prefixed) must return the denoted values;
  the extracted RleModel decoder runs on the same streams (model tie).  Other encodings: checks/c11_enc2.py.
"""
import random, json
from pathlib import Path
import vlib
from vlib import Report, prelude, build_driver, build_runner, run_sharded
import C11 as c11

PID = "C12"


def gen_runs(rng, w, maxruns=7):
    top = (1 << w) - 1
    runs = []
    for _ in range(rng.randrange(0, maxruns + 1)):
        r = rng.random()
        if r < 0.15:
            runs.append(("R", 0, rng.randint(0, top)))                      # zero-length run
        elif r < 0.5:
            runs.append(("R", rng.choice([1, 2, 7, 8, 9, 63, 64, 65, 127, 128, 200]), rng.randint(0, top)))
        elif r < 0.6:
            runs.append(("L", []))                                          # bit-packed run of 0 groups
        else:
            g = rng.choice([1, 1, 2, 3, 8, 63, 64]) if rng.random() < 0.8 else rng.randrange(1, 20)
            runs.append(("L", [rng.randint(0, top) for _ in range(8 * g)]))
    return runs


def vals_str(vs):
    return ",".join(map(str, vs)) if vs else "-"


def check_rle_conformance(rep, tier, rng, drv, run):
    import rle_ref
    lines, meta = [], []
    # direction 1: carquet encoder -> independent decoders
    n1 = 3000 if tier == "quick" else 40000
    for i in range(n1):
        w = rng.randrange(0, 33)
        vs = c11.gen_structured(rng, w)
        lines.append("rle_enc %d %s" % (w, " ".join(map(str, vs)))); meta.append(("enc", w, vs))
    for w, alpha, L in ((1, [0, 1], 10), (2, [0, 1, 3], 7)):
        for vs in c11.exhaustive(alpha, L if tier == "quick" else L + 2):
            lines.append("rle_enc %d %s" % (w, " ".join(map(str, vs)))); meta.append(("enc", w, vs))
    # direction 2: independent encoder -> carquet decoders
    n2 = 3000 if tier == "quick" else 40000
    for i in range(n2):
        w = rng.randrange(0, 33) if i % 2 else rng.choice([0, 1, 2, 3, 4, 7, 8, 9, 15, 16])
        runs = gen_runs(rng, w)
        data = rle_ref.enc_runs(w, runs)
        full = rle_ref.runs_vals(runs)
        n = rng.choice([len(full), len(full), max(0, len(full) - rng.randrange(0, 9)), len(full) + 5, rng.randrange(0, len(full) + 1)])
        lines.append("rle_dec %d %d %s" % (w, n, vlib.hexs(data))); meta.append(("dec", w, runs, n))
        if w <= 15:
            lines.append("rle_lvl %d %d %s" % (w, n, vlib.hexs(data))); meta.append(("lvl", w, runs, n))
            pre = len(data).to_bytes(4, "little") + data + bytes(rng.getrandbits(8) for _ in range(rng.randrange(0, 4)))
            lines.append("rle_lvlp %d %d %s" % (w, n, vlib.hexs(pre))); meta.append(("lvlp", w, runs, n, len(data)))
    # run headers of 4 and 5 varint bytes (counts >= 2^20 and >= 2^27): implementation-side only (the extracted
    # model is not run on million-element outputs)
    big = []
    for w in (1, 3, 8):
        top = (1 << w) - 1
        for cnt in ((1 << 20) - 1, 1 << 20, (1 << 20) + 1):
            runs = [("L", [rng.randint(0, top) for _ in range(8)]), ("R", cnt, top), ("R", 3, 0)]
            big.append((w, runs, cnt + 8 + 3))
        runs = [("R", (1 << 27) + 3, top), ("R", 5, 1 & top)]
        big.append((w, runs, 100))
    for w, runs, n in big[: (4 if tier == "quick" else len(big))] + big[-1:]:
        data = rle_ref.enc_runs(w, runs)
        lines.append("rle_dec %d %d %s" % (w, n, vlib.hexs(data))); meta.append(("decbig", w, runs, n))
        lines.append("rle_lvl %d %d %s" % (w, n, vlib.hexs(data))); meta.append(("lvl", w, runs, n))
        pre = len(data).to_bytes(4, "little") + data
        lines.append("rle_lvlp %d %d %s" % (w, n, vlib.hexs(pre))); meta.append(("lvlp", w, runs, n, len(data)))
    impl, p1 = run_sharded(drv, lines)
    for pr in p1:
        rep.violation("RLE entry point crashed / sanitizer report: %s" % pr[2][-500:], {"case": pr[3]})
    # second pass: carquet's encoded bytes through the extracted spec decoder; model decoder on the streams
    mlines, mmeta = [], []
    for li, m, a in zip(lines, meta, impl):
        if m[0] == "enc":
            t = a.split()
            if len(t) == 2 and t[0] == "OK":
                mlines.append("rle_spec_dec %d %s" % (m[1], t[1])); mmeta.append((li, m, a))
        elif m[0] == "dec":
            mlines.append(li); mmeta.append((li, m, a))
    model, p2 = run_sharded(run, mlines)
    for pr in p2:
        rep.tie_broken("model runner died: %s" % pr[2][-300:], pr[3])
    mres = {id(x[1]): y for x, y in zip(mmeta, model)}
    dist = {"enc": 0, "dec": 0, "lvl": 0, "lvlp": 0, "decbig": 0}
    for li, m, a in zip(lines, meta, impl):
        rep.count(li, nontrivial=len(li) > 16)
        dist[m[0]] += 1
        if m[0] == "enc":
            w, vs = m[1], m[2]
            t = a.split()
            if len(t) != 2 or t[0] != "OK":
                rep.violation("carquet_rle_encode_all failed: %s" % a, {"case": li, "impl": a}); continue
            data = bytes.fromhex(t[1]) if t[1] != "-" else b""
            ref = rle_ref.dec_stream(w, data)
            okref = ref is not None and ref[:len(vs)] == vs and len(ref) - len(vs) < 8 and not any(ref[len(vs):])
            if not okref:
                rep.violation("an independent decoder written from the Encodings document does not recover the input from "
                              "carquet's RLE output at width %d: got %s" % (w, None if ref is None else ref[:40]),
                              {"case": li, "impl": a})
            sd = mres.get(id(m))
            want = "OK " + vals_str(ref) if ref is not None else "ERR"
            if sd is not None and sd != want:
                rep.tie_broken("extracted RleSpec.spec_decode_all disagrees with the Python transcription on carquet's bytes: %s vs %s" % (sd[:80], want[:80]), li)
        else:
            w, runs, n = m[1], m[2], m[3]
            full = rle_ref.runs_vals(runs)
            want = full[:n]
            if m[0] in ("dec", "decbig"):
                if a != "OK " + vals_str(want):
                    rep.violation("carquet_rle_decode_all does not return the values a legal hybrid stream denotes (width %d): %s want %s"
                                  % (w, a[:120], vals_str(want)[:120]), {"case": li, "impl": a[:2000], "expected": vals_str(want)[:2000]})
                else:
                    md = mres.get(id(m))
                    if md is not None and md != a:
                        rep.tie_broken("RleModel.decode_all differs from carquet_rle_decode_all: model %s impl %s" % (md[:100], a[:100]), li)
            elif m[0] == "lvl":
                if a != "OK " + vals_str(want):
                    rep.violation("carquet_rle_decode_levels does not return the values a legal hybrid stream denotes (width %d): %s want %s"
                                  % (w, a[:120], vals_str(want)[:120]), {"case": li, "impl": a[:2000], "expected": vals_str(want)[:2000]})
            else:
                exp = "OK %s %d" % (vals_str(want), 4 + m[4])
                if a != exp:
                    rep.violation("carquet_rle_decode_levels_prefixed: values or bytes_consumed wrong: %s want %s" % (a[:120], exp[:120]),
                                  {"case": li, "impl": a[:2000], "expected": exp[:2000]})
    rep.cov.setdefault("input_distribution", {}).update({"rle_" + k: v for k, v in dist.items()})
    rep.sample({"op": "reference-encoded stream -> carquet", "case": next(l for l, m in zip(lines, meta) if m[0] == "dec")[:200]})
    rep.sample({"op": "carquet-encoded -> spec decoder", "case": lines[3][:200]})


def run(tier):
    rep = Report(PID, tier)
    rng = random.Random(vlib.SEED * 7919 + 12)
    prelude(rep, PID)
    rep.cov["trusted_base"] = vlib.TRUSTED_BASE_COMMON + [
        "the specifications are transcriptions of the Parquet Encodings document by the authors of this framework: Coq (Enc/BitpackSpec.v, Enc/RleSpec.v, ...) and, independently written, Python (checks/rle_ref.py, checks/enc_ref.py); no third-party Parquet implementation exists in the sandbox",
        "modelled, not verified: src/encoding/rle.c, src/core/bitpack.c (see C11)",
    ]
    rep.cov["rule"] = ("direction 1: carquet RLE-encodes structured and bounded-exhaustive sequences at all widths, bytes decoded by the extracted "
                       "spec decoder and by the Python transcription; direction 2: reference-encoded streams with zero-length runs, 0-group and "
                       "multi-group bit-packed runs, padded final groups, decoded by decode_all / decode_levels / decode_levels_prefixed with "
                       "request counts around the stream length; bit packing: all widths x single-bit vectors. Non-trivial = more than a header; "
                       "distinct by case text. Other encodings: input_distribution.enc2")
    try:
        drv = build_driver("h_enc")
        run_ = build_runner("enc")
    except vlib.BuildError as e:
        rep.tie_broken("harness does not build against the current tree: " + str(e)[:500])
        return rep.finish()
    c11.check_bitpack(rep, tier, rng, drv, run_)
    check_rle_conformance(rep, tier, rng, drv, run_)
    # legal multi-group / zero-length-run streams read through the STREAMING decoder under chunking and skipping
    c11.check_rle(rep, tier, rng, drv, run_, parts=("ops",))
    try:
        import c11_enc2
    except ImportError:
        c11_enc2 = None
    if c11_enc2 is not None:
        c11_enc2.check_enc2_c12(rep, tier, rng)
    return rep.finish()


def replay(path):
    j = json.loads(Path(path).read_text())
    if j.get("replay", {}).get("engine") == "enc2":
        import c11_enc2
        return c11_enc2.replay_enc2(j["replay"])
    case = j.get("replay", {}).get("case")
    if not case:
        print(json.dumps(j, indent=1)[:3000])
        return 1
    drv = build_driver("h_enc")
    out, rc, err = vlib.run_lines(drv, [case])
    print("case:", case[:300])
    print("implementation:", out, "rc", rc)
    print("recorded     :", j["replay"].get("impl"), "| expected:", j["replay"].get("expected"))
    if err:
        print(err[-2000:])
    exp = j["replay"].get("expected")
    if exp is not None and out:
        o = out[0]
        return 0 if (o in (exp, "OK " + exp) or o[:2000] in (exp, ("OK " + exp)[:2000]) or ("OK " + exp).startswith(o[:1900])) else 1
    return 1
