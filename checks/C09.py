"""C09 - codecs round-trip every input and honour their size bounds.

Proof: coq/theories/Props/Properties_C09.v.  Snappy / LZ4: round trip, output <= compress_bound, the
       LZ4 in-loop checks never fire, a smaller destination is refused - for EVERY match finder, so for
       every aliasing pattern of the 16-bit hash-table positions beyond 64 KiB.  GZIP / ZSTD: PARTIAL,
       wrapper only (level clamping, status mapping, size reporting) under assumptions on zlib / libzstd.
Tie:   carquet_*_compress into exact-size heap buffers of bound-1 / bound / bound+1 bytes, then
       carquet_*_decompress into exactly len(x) bytes, under ASan; libsnappy / liblz4 decode the same
       bytes; the extracted models predict result class and (up to 1500 input bytes) the exact bytes;
       the models' bound formulas against carquet_*_compress_bound; gzip levels 1-9 and zstd levels
       1-22 (and out-of-range levels) through carquet's wrappers at the three capacities.
"""
import random, json, sys
from pathlib import Path
sys.path.insert(0, str(Path(__file__).resolve().parent))
import vlib
from vlib import Report, prelude, build_driver, build_runner, run_sharded, hexs, log
import comp_lib as CL

PID = "C09"
LIBS = ["-lsnappy", "-llz4"]
MODEL_MAX = 1500
NAMES = {"scomp": "snappy", "lcomp": "lz4", "gz": "gzip", "zs": "zstd"}


def unhex(h):
    return b"" if h == "-" else bytes.fromhex(h)


def parse_out(out):
    t = out.split()
    if not t or t[0] not in ("OK", "ERR"):
        return None
    d = {"cls": t[0], "raw": t[1] if len(t) > 1 else ""}
    for x in t[2:]:
        if "=" in x:
            k, v = x.split("=", 1)
            d[k] = v
    if t[0] == "OK" and t[1].startswith("len="):
        d["clen"] = int(t[1][4:])
    elif t[0] == "OK" and t[1] != "OVERFLOW-REPORTED":
        d["clen"] = 0 if t[1] == "-" else len(t[1]) // 2
    return d


def judge(line, out):
    """Property oracle on the implementation.  line: '<op> [level] <delta> <hex>'."""
    t = line.split()
    op = t[0]
    delta = int(t[-2])
    name = f"carquet_{NAMES[op]}_compress" + (f" level {t[1]}" if op in ("gz", "zs") else "")
    d = parse_out(out)
    if d is None:
        return [f"{name}: memory error / crash: {out[:200]}"], None
    bad = []
    if d["cls"] == "ERR":
        if delta >= 0:
            bad.append(f"{name} fails (status {d['raw']}) although the destination has the advertised bound {d.get('bound')} {'+' + str(delta) if delta else ''}")
        return bad, d
    if "clen" not in d:
        return [f"{name} reports more bytes than the destination holds: {out[:160]}"], d
    bound = int(d.get("bound", "0"))
    if delta >= 0 and d["clen"] > bound:
        bad.append(f"{name} wrote {d['clen']} bytes, more than its advertised bound {bound}")
    if d.get("rt") != "1":
        bad.append(f"{name} then decompress into exactly len(x) bytes does not return x (output {d['clen']} bytes)")
    if op in ("scomp", "lcomp") and d.get("lib") != "1":
        bad.append(f"{name}: the reference decoder does not recover the input")
    return bad, d


def gen_lines(rng, tier):
    lines, labels = [], {}
    for codec, op in (("snappy", "scomp"), ("lz4", "lcomp")):
        ins, big = CL.compress_inputs(rng, tier, codec)
        for lab, x in ins:
            for delta in (-1, 0, 1):
                if delta != 0 and len(x) > 80 and rng.random() < 0.6:
                    continue
                l = f"{op} {delta} {hexs(x)}"
                labels[l] = lab
                lines.append(l)
        for lab, x in big:
            for delta in ((0,) if rng.random() < 0.7 else (0, -1)):
                l = f"{op} {delta} {hexs(x)}"
                labels[l] = lab
                lines.append(l)
        # capacities far below the bound
        for _ in range(40):
            x = CL.rnd(rng, rng.randrange(0, 400))
            b = (32 + len(x) + len(x) // 6) if op == "scomp" else (len(x) + len(x) // 255 + 16)
            l = f"{op} {-rng.randrange(1, b + 1)} {hexs(x)}"
            labels[l] = "tiny-dst"
            lines.append(l)
    return lines, labels


def sweep_lines(rng, tier):
    """EVERY destination capacity 0..bound+1 for a handful of small inputs (exact-size heap destination under
    ASan): 'a destination smaller than the bound is refused or handled without overflow' seen from the
    implementation; the per-write space checks of the compressors are 1-2 bytes short on length-extension
    bytes, so only a full sweep lands in the gap."""
    ins = [CL.rnd(rng, 100), CL.rnd(rng, 1000), CL.rnd(rng, 40) * 7 + CL.rnd(rng, 20),
           bytes([rng.getrandbits(8)]) * 300, b"test" * 75, CL.rnd(rng, 5), b""]
    for L in (14, 15, 16, 270):
        pat = CL.rnd(rng, 24)
        ins.append(pat + bytes([pat[-1] ^ 0x55]) + CL.rnd(rng, L) + pat + CL.rnd(rng, 13))
    if tier == "thorough":
        ins += [CL.rnd(rng, n) for n in (254, 255, 256, 269, 270, 271, 525, 2000)] + [CL.rnd(rng, 33) * 40, CL.rnd(rng, 300) * 5]
    lines = []
    for op in ("scomp", "lcomp"):
        for x in ins:
            n = len(x)
            b = (32 + n + n // 6) if op == "scomp" else (n + n // 255 + 16)
            for cap in range(0, b + 2):
                lines.append(f"{op} {cap - b} {hexs(x)}")
    return lines


def history_lines(rng, tier):
    """HISTORIES of calls on one thread (the codecs may keep per-thread state): a refused short-destination call
    followed by bound-sized calls, levels interleaved, compress / decompress (also of damaged data) interleaved,
    several inputs; every success is verified by carquet's decompressor and by the system library."""
    lines = []
    nh = 30 if tier == "quick" else 200
    for codec, levels in (("zstd", list(range(1, 23)) + [0, -1, 23, 100]), ("gzip", list(range(1, 10)) + [0, -5, 10, 100]),
                          ("snappy", [0]), ("lz4", [0])):
        for h in range(nh if codec in ("zstd", "gzip") else nh // 2):
            k = rng.choice([1, 2, 3])
            xs = []
            for _ in range(k):
                n = rng.choice([0, 1, 100, 1000, 5000, 20000, rng.randrange(0, 3000), 140000 if rng.random() < 0.15 else 300])
                kind = rng.random()
                xs.append(CL.rnd(rng, n) if kind < 0.5 else (b"some text, " * (n // 11 + 1))[:n] if kind < 0.8 else bytes([rng.getrandbits(8)]) * n)
            steps = []
            for _ in range(rng.randrange(3, 9)):
                i = rng.randrange(k)
                n = len(xs[i])
                short = rng.choice([0, 1, 10, n // 10, n // 2, n, max(0, n - 1), n + 1, n + 5])
                lv = rng.choice(levels)
                r = rng.random()
                if r < 0.35:
                    steps.append(f"c{i}:{lv}:{short}")
                    steps.append(f"c{rng.randrange(k)}:{rng.choice(levels)}:b")     # the call AFTER a (possibly) refused one
                elif r < 0.75:
                    steps.append(f"c{i}:{lv}:{rng.choice(['b', 'b', 'b+1', 'b-1', 'b+100'])}")
                else:
                    steps.append(f"t{i}")
            lines.append(f"hist {codec} {k} " + " ".join(hexs(x) for x in xs) + " " + ",".join(steps))
    return lines


def page_history_lines(rng, tier):
    """HISTORIES OF PAGES through one carquet_page_writer (page_writer.c allocates "exactly bound" for the codec and
    serves all pages of a column chunk): growing / shrinking, incompressible / compressible bodies, all four codecs,
    INT32 and BYTE_ARRAY PLAIN pages; sizes relative to the previous page: same, smaller, previous + a little,
    exactly the codec's bound for the previous page and just below it."""
    lines = []
    nh = 10 if tier == "quick" else 80
    seed = rng.randrange(1 << 30)
    for codec in ("snappy", "lz4", "gzip", "zstd"):
        for h in range(nh):
            typ = "i32" if rng.random() < 0.7 else "ba"
            n0 = rng.choice([24000, 100, 1000, 4096, 60000, rng.randrange(8, 30000)])
            steps = [f"r{n0}"]
            for _ in range(rng.randrange(5, 14)):
                r = rng.random()
                kind = rng.choice("rrrrtz")
                if r < 0.30:
                    steps.append(f"r{rng.choice(['b', 'b-4', 'b-8', 'b-' + str(rng.randrange(0, 40))])}")   # grows to the bound of the previous page
                elif r < 0.45:
                    steps.append(f"r{rng.choice(['p+4', 'p+8', 'p+' + str(rng.randrange(1, 200))])}")
                elif r < 0.60:
                    steps.append(f"{kind}p")                                   # same size
                elif r < 0.80:
                    steps.append(f"{kind}{rng.choice(['p-4', 'p-' + str(rng.randrange(1, 5000)), str(rng.randrange(0, 2000))])}")   # shrinks
                else:
                    steps.append(f"{kind}{rng.randrange(0, 70000)}")
            lines.append(f"pages {codec} {typ} {seed + h} " + ",".join(steps))
        # the scripted history of the bug class: equal, smaller, then each page as large as the bound of the previous one
        lines.append(f"pages {codec} i32 {seed} r24000,r24000,r12000,rb,rb,rb,rb,t1000,rb,rp+4")
    return lines


def judge_pages(line, out):
    t = line.split()
    codec = t[1]
    steps = t[-1].split(",")
    res = out.split()
    if len(res) != len(steps):
        return [f"page writer with {codec}: crash / malformed driver output in a page history: {out[:200]}"]
    bad = []
    for j, (st, r) in enumerate(zip(steps, res)):
        f = r.split(":")
        ctx = f"page {j} `{st}` of a page history through one page writer (previous pages: {', '.join(steps[max(0, j - 3):j])})"
        if f[0] == "ERR":
            bad.append(f"page writer with {codec}: finalize fails with status {f[1]} although it gives the codec a destination of its own bound: {ctx}")
        elif f[0] == "SIZES":
            bad.append(f"page writer with {codec}: inconsistent sizes {r}: {ctx}")
        elif f[0] == "OK" and (f[3] != "1" or f[4] != "1"):
            bad.append(f"page writer with {codec}: the compressed page body ({f[2]} bytes) does not decompress into exactly {f[1]} bytes to the page's values "
                       f"(carquet rt={f[3]}, system library={f[4]}): {ctx}")
    return bad


def clsweep_lines(rng, tier):
    """incompressible inputs whose COMPRESSED length sweeps k*65536 - 16 .. k*65536 + 16 for every multiple of 64 KiB
    up to 1 MiB (input length stepped one byte at a time in the driver), decompressed into exactly len(x) bytes:
    chunked / sliced I/O inside a wrapper has its boundaries at such compressed lengths"""
    lines = []
    for k in range(1, 17):
        t = k * 65536
        if tier == "thorough":
            gl = list(range(1, 10)); zl = [1, 3, 9, 15, 19, 22] if k <= 8 else [1, 3, 9, 15]
        else:
            gl = [rng.randrange(1, 10)] + ([rng.randrange(1, 10)] if k % 4 == 0 else [])
            zl = [rng.choice([1, 2, 3, 5, 7, 9, 12, 15, 17, 19, 22] if k <= 4 else [1, 2, 3, 5, 7, 9, 12])]
        for lv in sorted(set(gl)):
            lines.append(f"clsweep gzip {lv} {t} 16")
        for lv in sorted(set(zl)):
            lines.append(f"clsweep zstd {lv} {t} 16")
        if k in (1, 2, 4, 8) or tier == "thorough":
            lines.append(f"clsweep snappy 0 {t} 16")
            lines.append(f"clsweep lz4 0 {t} 16")
    return lines


def judge_clsweep(line, out):
    _, codec, lv, target, win = line.split()
    if out.startswith("OK"):
        d = dict(x.split("=", 1) for x in out.split()[1:])
        if int(d.get("tested", "0")) < int(win):
            return [f"clsweep {codec}: the sweep reached only {d.get('tested')} compressed lengths around {target} (driver problem)"]
        return []
    if out.startswith("FAIL"):
        d = dict(x.split("=", 1) for x in out.split()[1:] if "=" in x)
        if d.get("comp", "0") != "0":
            return [f"carquet_{codec}_compress level {lv} fails (status {d.get('comp')}) at its bound on {d.get('n')} incompressible bytes"]
        return [f"carquet_{codec} level {lv}: {d.get('n')} incompressible bytes compress to {d.get('clen')} bytes (near {target} = {int(target) // 65536} x 64 KiB) and "
                f"decompressing that into exactly {d.get('n')} bytes gives status {d.get('dec')}, length {d.get('out')} (system library decodes it: {d.get('lib')})"]
    return [f"carquet_{codec}: crash in the compressed-length sweep: {out[:200]}"]


def judge_hist(line, out):
    """Property oracle for a history: every compress step with cap >= bound must succeed; every success must report
    at most cap bytes and be decoded to its input by carquet and by the system library; damaged data must not
    decode to the input."""
    t = line.split()
    codec = t[1]
    steps = t[-1].split(",")
    res = out.split()
    if len(res) != len(steps):
        return [f"carquet_{codec}: crash / malformed driver output in a call history: {out[:200]}"]
    bad = []
    for j, (st, r) in enumerate(zip(steps, res)):
        f = r.split(":")
        prev = ", ".join(f"{a} -> {b}" for a, b in list(zip(steps, res))[max(0, j - 2):j])
        ctx = f"step {j} `{st}` of a call history on one thread" + (f" (after {prev})" if prev else "")
        if f[0] == "OK":
            clen, cap, bound, rt, lib = int(f[1]), int(f[2]), int(f[3]), f[4], f[5]
            if clen > cap:
                bad.append(f"carquet_{codec}_compress reports {clen} bytes for a destination of {cap}: {ctx}")
            elif rt != "1" or lib != "1":
                bad.append(f"carquet_{codec}_compress returned OK ({clen} bytes, destination {cap}, bound {bound}) but the output does not "
                           f"decode to the input (carquet rt={rt}, system library={lib}): {ctx}")
        elif f[0] == "ERR":
            cap, bound = int(f[2]), int(f[3])
            if cap >= bound:
                bad.append(f"carquet_{codec}_compress fails (status {f[1]}) with a destination of {cap} >= its bound {bound}: {ctx}")
        elif f[0] == "T" and f[1] == "OK" and f[2] != "1":
            bad.append(f"carquet_{codec}_decompress accepts a truncated stream with wrong bytes: {ctx}")
        elif f[0] == "BAD":
            bad.append(f"driver could not parse {st}")
    return bad


def gen_ext_lines(rng, tier):
    """gzip / zstd through carquet's wrappers"""
    sizes = [0, 1, 2, 100, 5000, 70000] + ([300000] if tier == "quick" else [300000, 2 * 1024 * 1024])
    inputs = []
    for n in sizes:
        inputs.append(CL.rnd(rng, n))
        if n:
            inputs.append(bytes([rng.getrandbits(8)]) * n)
            inputs.append(bytes(rng.choice(b"ab") for _ in range(min(n, 70000))))
    lines = []
    for op, levels in (("gz", list(range(1, 10)) + [0, -5, 10, 100]), ("zs", list(range(1, 23)) + [0, -1, 23, 100])):
        for lv in levels:
            pick = inputs if tier == "thorough" else rng.sample(inputs, 6) + [inputs[0], inputs[1]]
            for x in pick:
                if len(x) > 100000 and lv >= 19 and tier == "quick":
                    continue
                for delta in (0, 1, -1):
                    if delta != 0 and rng.random() < 0.5:
                        continue
                    lines.append(f"{op} {lv} {delta} {hexs(x)}")
                if rng.random() < 0.3:
                    lines.append(f"{op} {lv} {-rng.randrange(2, 40)} {hexs(x)}")
    return lines


def run(tier):
    rep = Report(PID, tier)
    rng = random.Random(vlib.SEED * 7919 + 9)
    prelude(rep, PID)
    rep.cov["trusted_base"] = vlib.TRUSTED_BASE_COMMON + [
        "ASSUMED, not proved (GZIP/ZSTD part is partial): zlib 1.2.13 deflate/inflate and libzstd 1.5.4 ZSTD_compress/ZSTD_decompressDCtx round-trip, never report more than avail_out, and succeed at compressBound(n)+18 / ZSTD_compressBound(n) for their valid levels (Section hypotheses of Comp/CodecIface.v); exercised here on every level, not verified",
        "modelled, not verified: src/compression/snappy.c, lz4.c, gzip.c, zstd.c (64-bit size_t; inputs shorter than 2^32 bytes for Snappy, whose preamble is a uint32_t; (uInt) truncation in gzip.c for sizes above 4 GiB not modelled)",
        "libsnappy 1.1.9 / liblz4 1.9.4 as independent decoders of carquet's output (validation)",
    ]
    rep.assumptions.append("GZIP and ZSTD: only carquet's wrappers are modelled and proved; the codecs themselves are zlib / libzstd and their round trip is assumed (named in trusted_base) and exercised, levels 1-9 / 1-22 and out-of-range levels, capacities bound-1 / bound / bound+1")
    rep.cov["partial"] = "snappy, lz4: proved for all inputs below 2^32 bytes and every match finder; gzip, zstd: wrapper only (external_codec_wrapper_roundtrip_partial)"
    rep.cov["rule"] = ("snappy, lz4: inputs empty, 1..20 bytes, all-equal, two-symbol, random, literal runs 0..271 x matches 4..275 (60/61, 64/67/68 boundaries), "
                       "tails 0..19 bytes after the last match, offsets around 2048 / 32768 / 65535, > 64 KiB and > 128 KiB inputs with periods 65535 / 65536 / 65537 / 32768 "
                       "(16-bit table position aliasing), 200 KB of zeros; destination capacities bound-1, bound, bound+1 and far below; "
                       "EVERY capacity 0..bound+1 for eleven small inputs (random 100 / 1000, period 40, literal runs 14/15/16/270, runs, empty, tiny) per codec; "
                       "gzip levels 1-9 and zstd levels 1-22 plus out-of-range levels x sizes 0 .. 300 KB (thorough 2 MiB) x the three capacities; "
                       "incompressible inputs whose compressed length sweeps k*64 KiB +-16 for k = 1..16 (gzip / zstd at sampled levels, snappy, lz4), exact-size destination; "
                       "page histories through one carquet_page_writer for all four codecs (INT32 / BYTE_ARRAY PLAIN; same, smaller, previous+k, exactly bound(previous) and just below; random / text / zero bodies), each body decompressed into exactly uncompressed_size bytes by carquet and the system library; "
                       "call histories on one thread for all four codecs (short destination then bound-sized, levels and inputs interleaved, truncated-data decompress in between), every success verified by the system library; "
                       "non-trivial = non-empty input; distinct by case text")
    try:
        drv = build_driver("h_comp", libs=LIBS)
        run_ = build_runner("comp")
    except vlib.BuildError as e:
        rep.tie_broken("harness does not build against the current tree: " + str(e)[:500])
        return rep.finish()
    lines = []
    cdir = vlib.VERIF / "corpus" / PID
    if cdir.exists():
        for f in sorted(cdir.glob("*.txt")):
            lines += [l.strip() for l in f.read_text().splitlines() if l.strip()]
    gl, labels = gen_lines(rng, tier)
    lines += gl
    sw = sweep_lines(rng, tier)
    for l in sw:
        labels[l] = "capacity-sweep"
    lines += sw
    hist = history_lines(rng, tier) + page_history_lines(rng, tier) + CL.big_lines(tier, codecs=("snappy", "lz4", "gzip", "zstd"))
    csw = clsweep_lines(rng, tier)
    rng.shuffle(csw)            # long-running lines: spread evenly over the shards
    ext = gen_ext_lines(rng, tier)
    allc = lines + ext
    impl, deaths = CL.run_all(vlib, drv, allc, timeout=(240 if tier == "quick" else 2400), max_deaths=40)
    hout, hdeaths = CL.run_all(vlib, drv, hist, timeout=(240 if tier == "quick" else 2400))
    cout, cdeaths = CL.run_all(vlib, drv, csw, timeout=(240 if tier == "quick" else 2400))
    hist, hout = hist + csw, hout + cout
    deaths = deaths + hdeaths + cdeaths
    nh_ok = 0
    for line, out in zip(hist, hout):
        if out == "FAULT died":
            continue
        rep.count(line[:4000])
        for b in (judge_clsweep(line, out) if line.startswith("clsweep ") else CL.judge_big(line, out)[0] if line.startswith("big ") else (judge_pages if line.startswith("pages ") else judge_hist)(line, out)):
            rep.violation(b, {"case": line if len(line) < 600000 else line[:600000], "impl": out[:300]})
        nh_ok += 1
    for case, rc, summ in deaths:
        rep.violation(f"sanitizer report or crash (rc={rc}) in compress/decompress with an exact-size buffer: {summ}",
                      {"case": case if case and len(case) < 300000 else (case or "")[:300000]})
    small = [i for i, l in enumerate(lines) if l.split()[0] in ("scomp", "lcomp") and len(l.split()[-1]) <= 2 * MODEL_MAX]
    model, p2 = run_sharded(run_, [lines[i] for i in small])
    for pr in p2:
        rep.tie_broken(f"model runner died (rc={pr[1]}): {pr[2][-300:]}", (pr[3] or "")[:300])
    mod = dict(zip(small, model))
    dist = {}
    bounds_seen = {}
    for i, (line, out) in enumerate(zip(allc, impl)):
        if out == "FAULT died":
            continue
        bad, d = judge(line, out)
        t = line.split()
        rep.count(line[:4000], nontrivial=t[-1] != "-")
        dist[t[0]] = dist.get(t[0], 0) + 1
        for b in bad:
            rep.violation(b, {"case": line if len(line) < 300000 else line[:300000], "label": labels.get(line), "impl": out[:200]})
        if d and "bound" in d and t[0] in ("scomp", "lcomp"):
            n = 0 if t[-1] == "-" else len(t[-1]) // 2
            bounds_seen[(t[0], n)] = int(d["bound"])
        if i in mod and d:
            mt = mod[i].split()
            if d["cls"] == "ERR":
                if not mt or mt[0] != "ERR" or mt[1] != d["raw"]:
                    rep.tie_broken(f"compressor model and implementation differ on a small destination: model {mod[i][:60]} / impl {out[:60]}", line[:300])
            elif "clen" in d:
                if len(mt) < 2 or mt[0] != "OK" or mt[1] != d["raw"]:
                    rep.tie_broken(f"model tie: the concrete-hash compressor model does not predict the bytes: model {mod[i][:60]} / impl {out[:60]}", line[:300])
    # the bound formulas of the models against carquet_*_compress_bound
    bl = [(("sbound" if op == "scomp" else "lbound"), n, b) for (op, n), b in sorted(bounds_seen.items())]
    extra = [0, 1, 5, 6, 254, 255, 256, 1 << 16, (1 << 20) + 3, (1 << 31) + 7]
    bout, _ = run_sharded(run_, [f"{o} {n}" for o, n, _ in bl])
    for (o, n, b), mo in zip(bl, bout):
        if mo.split() != ["OK", str(b)]:
            rep.tie_broken(f"bound formula of the model differs from carquet_{'snappy' if o == 'sbound' else 'lz4'}_compress_bound({n}) = {b}: model {mo}", f"{o} {n}")
    rep.cov["input_distribution"] = dist
    rep.cov["capacity_sweep_cases"] = len(sw)
    rep.cov["call_histories"] = len([l for l in hist if l.startswith("hist ")])
    rep.cov["page_writer_histories"] = len([l for l in hist if l.startswith("pages ")])
    rep.cov["bound_formula_points_compared"] = len(bl)
    rep.sample({"case": lines[25][:200]})
    rep.sample({"case": ext[10][:200]})
    if tier == "thorough":
        CL.coqchk(vlib, rep, PID)
    return rep.finish()


def replay(path):
    j = json.loads(Path(path).read_text())
    case = (j.get("replay") or {}).get("case")
    if not case:
        print(json.dumps(j, indent=1)[:4000])
        return 1
    drv = build_driver("h_comp", libs=LIBS)
    import subprocess
    try:
        out, rc, err = vlib.run_lines(drv, [case], timeout=30)
    except subprocess.TimeoutExpired:
        print("case:", case[:300])
        print("FAILS: no result within 30 s: the call does not terminate or its time is not proportional to the input size")
        return 1
    print("case:", case[:300])
    print("implementation:", (out[0][:300] if out else None), "rc", rc)
    if err:
        print(CL.san_summary(err))
    if rc != 0 or not out:
        return 1
    bad = judge_clsweep(case, out[0]) if case.startswith("clsweep ") else CL.judge_big(case, out[0])[0] if case.startswith("big ") else judge_hist(case, out[0]) if case.startswith("hist ") else judge_pages(case, out[0]) if case.startswith("pages ") else judge(case, out[0])[0]
    for b in bad:
        print("FAILS:", b)
    return 1 if bad else 0
