"""Shared by checks/C10.py and checks/C09.py: independent Python reference decoders and stream
generators for the raw Snappy block format and the LZ4 block format (written from the format
documents, not from carquet's code), input generators for the compressors, and the common
comparison code (implementation vs reference vs extracted specification vs extracted model)."""
import random

# --------------------------------------------------------------------------- Snappy reference

def snappy_ref_decode(s, wrap32=False):
    """Strict decoder from format_description.txt.  Returns bytes or None (invalid block).
    wrap32=True reproduces a laxity of libsnappy 1.1.9 (literal length computed in uint32_t: a 4-byte length
    field of ff ff ff ff gives length 0); only used to explain a libsnappy acceptance, never as the oracle."""
    n = len(s)
    i = 0
    v = 0
    shift = 0
    while True:
        if i >= n or i >= 5:
            return None
        b = s[i]; i += 1
        v |= (b & 0x7F) << shift
        if b < 0x80:
            break
        shift += 7
    if v >= 1 << 32:
        return None
    out = bytearray()
    while i < n:
        tag = s[i]; i += 1
        k = tag & 3
        if k == 0:
            m = tag >> 2
            if m < 60:
                ln = m + 1
            else:
                nb = m - 59
                if i + nb > n:
                    return None
                ln = int.from_bytes(s[i:i + nb], "little") + 1
                if wrap32:
                    ln &= 0xFFFFFFFF
                i += nb
            if i + ln > n:
                return None
            out += s[i:i + ln]; i += ln
        else:
            if k == 1:
                if i + 1 > n:
                    return None
                ln = ((tag >> 2) & 7) + 4
                off = ((tag >> 5) << 8) | s[i]; i += 1
            elif k == 2:
                if i + 2 > n:
                    return None
                ln = (tag >> 2) + 1
                off = s[i] | (s[i + 1] << 8); i += 2
            else:
                if i + 4 > n:
                    return None
                ln = (tag >> 2) + 1
                off = int.from_bytes(s[i:i + 4], "little"); i += 4
            if off == 0 or off > len(out):
                return None
            if off >= ln:
                st = len(out) - off
                out += out[st:st + ln]
            else:
                for _ in range(ln):
                    out.append(out[-off])
        if len(out) > v:
            return None
    if len(out) != v:
        return None
    return bytes(out)


def varint(v, pad=0):
    """little-endian base-128; pad > 0 appends redundant continuation groups (non-canonical, still valid)"""
    out = bytearray()
    while v >= 0x80:
        out.append((v & 0x7F) | 0x80); v >>= 7
    out.append(v)
    for _ in range(pad):
        if len(out) >= 5:
            break
        out[-1] |= 0x80
        out.append(0)
    return bytes(out)


def snappy_lit(data, form=None):
    """form None: shortest; 1..4: that many length bytes (always valid if the length fits)"""
    ln = len(data)
    assert ln >= 1
    if form is None:
        form = 0 if ln <= 60 else 1 if ln <= 256 else 2 if ln <= 65536 else 3
    if form == 0:
        assert ln <= 60
        return bytes([(ln - 1) << 2]) + data
    assert ln - 1 < 1 << (8 * form)
    return bytes([(59 + form) << 2]) + (ln - 1).to_bytes(form, "little") + data


def snappy_copy(off, ln, kind):
    if kind == 1:
        assert 4 <= ln <= 11 and off < 2048
        return bytes([((off >> 8) << 5) | ((ln - 4) << 2) | 1, off & 0xFF])
    if kind == 2:
        assert 1 <= ln <= 64 and off < 65536
        return bytes([((ln - 1) << 2) | 2, off & 0xFF, off >> 8])
    assert 1 <= ln <= 64 and off < 1 << 32
    return bytes([((ln - 1) << 2) | 3]) + off.to_bytes(4, "little")


def apply_copy(out, off, ln):
    for _ in range(ln):
        out.append(out[-off])


def gen_snappy_stream(rng, nelems=None, big=False):
    """Random valid block exercising forms carquet's compressor never emits.  Returns (stream, content)."""
    out = bytearray()
    body = bytearray()
    nelems = nelems if nelems is not None else rng.randrange(1, 9)
    for e in range(nelems):
        r = rng.random()
        if len(out) == 0 or r < 0.35:
            ln = rng.choice([1, 2, 3, 59, 60, 61, 62, 255, 256, 257, rng.randrange(1, 70), rng.randrange(1, 300)])
            if big and rng.random() < 0.3:
                ln = rng.choice([65535, 65536, 65537, 70000])
            ln = min(ln, 400) if not big else ln
            data = bytes(rng.getrandbits(8) for _ in range(ln)) if rng.random() < 0.7 else bytes([rng.getrandbits(8)]) * ln
            forms = [f for f in (0, 1, 2, 3, 4) if (f == 0 and ln <= 60) or (f > 0 and ln - 1 < 1 << (8 * f))]
            body += snappy_lit(data, rng.choice(forms))
            out += data
        else:
            kinds = []
            avail = len(out)
            kind = rng.choice([1, 2, 4])
            if kind == 1:
                ln = rng.randrange(4, 12); off = rng.randrange(1, min(avail, 2047) + 1)
            elif kind == 2:
                ln = rng.choice([1, 2, 63, 64, rng.randrange(1, 65)]); off = rng.randrange(1, min(avail, 65535) + 1)
            else:
                ln = rng.choice([1, 64, rng.randrange(1, 65)]); off = rng.randrange(1, avail + 1)
            if rng.random() < 0.4:
                off = min(avail, rng.choice([1, 2, 3]))          # overlapping copy (run-length behaviour)
            if rng.random() < 0.15:
                off = avail                                     # reaches back to the very first byte
            off = min(off, 2047 if kind == 1 else 65535 if kind == 2 else off)
            body += snappy_copy(off, ln, kind)
            apply_copy(out, off, ln)
    pad = rng.choice([0, 0, 0, 1, 2, 4])
    return varint(len(out), pad) + bytes(body), bytes(out)


# --------------------------------------------------------------------------- LZ4 reference

def lz4_ref_decode(s):
    """Decoder from lz4_Block_format.md.  Returns (content or None, kind) with kind in
    'strict' (valid block), 'open' (complete sequences, stops right after a match, or empty input:
    not a valid block, a decoder may accept or reject), 'invalid'.  Also returns the parsed structure
    for the end-of-block rules: list of (litlen, matchlen) and final literal count."""
    n = len(s)
    i = 0
    out = bytearray()
    seqs = []
    if n == 0:
        return b"", "open", [], None
    while True:
        if i >= n:
            return bytes(out), "open", seqs, None
        tok = s[i]; i += 1
        ll = tok >> 4
        if ll == 15:
            while True:
                if i >= n:
                    return None, "invalid", seqs, None
                b = s[i]; i += 1
                ll += b
                if b != 255:
                    break
        if i + ll > n:
            return None, "invalid", seqs, None
        out += s[i:i + ll]; i += ll
        if i == n:
            return bytes(out), "strict", seqs, ll
        if i + 2 > n:
            return None, "invalid", seqs, None
        off = s[i] | (s[i + 1] << 8); i += 2
        ml = tok & 15
        if ml == 15:
            while True:
                if i >= n:
                    return None, "invalid", seqs, None
                b = s[i]; i += 1
                ml += b
                if b != 255:
                    break
        ml += 4
        if off == 0 or off > len(out):
            return None, "invalid", seqs, None
        if off >= ml:
            st = len(out) - off
            out += out[st:st + ml]
        else:
            for _ in range(ml):
                out.append(out[-off])
        seqs.append((ll, ml))


def lz4_end_rules_ok(seqs, last):
    if last is None:
        return False
    if not seqs:
        return True
    return last >= 5 and seqs[-1][1] + last >= 12


def lz4_len(v):
    """(nibble, extension bytes) for a length value"""
    if v < 15:
        return v, b""
    v -= 15
    return 15, b"\xff" * (v // 255) + bytes([v % 255])


def lz4_seq(lits, off, ml):
    ln, le = lz4_len(len(lits))
    mn, me = lz4_len(ml - 4)
    return bytes([(ln << 4) | mn]) + le + lits + bytes([off & 0xFF, off >> 8]) + me


def lz4_last(lits, low=0):
    ln, le = lz4_len(len(lits))
    return bytes([(ln << 4) | low]) + le + lits


def gen_lz4_stream(rng, nseq=None, respect_end_rules=None):
    """Random valid LZ4 block: 255-run length extensions, overlap offsets 1..3, far offsets, matches
    ending at the buffer end.  Returns (stream, content, end_rules_respected)."""
    out = bytearray()
    body = bytearray()
    nseq = nseq if nseq is not None else rng.randrange(0, 6)
    last_ml = None
    for q in range(nseq):
        ll = rng.choice([0, 1, 14, 15, 16, 269, 270, 271, 15 + 255 * 2, rng.randrange(0, 40), rng.randrange(0, 600)])
        if len(out) == 0 and ll == 0:
            ll = rng.randrange(1, 20)
        lits = bytes(rng.getrandbits(8) for _ in range(ll)) if rng.random() < 0.7 else bytes([rng.getrandbits(8)]) * ll
        out += lits
        avail = len(out)
        ml = rng.choice([4, 5, 18, 19, 20, 273, 274, 275, 19 + 255 * 2, rng.randrange(4, 40), rng.randrange(4, 700)])
        off = rng.randrange(1, min(avail, 65535) + 1)
        if rng.random() < 0.4:
            off = min(avail, rng.choice([1, 2, 3]))
        if rng.random() < 0.15:
            off = min(avail, 65535)
        body += lz4_seq(lits, off, ml)
        apply_copy(out, off, ml)
        last_ml = ml
    if respect_end_rules is None:
        respect_end_rules = rng.random() < 0.6
    if nseq == 0:
        ll = rng.choice([0, 1, 4, 5, 14, 15, 16, 270, rng.randrange(0, 300)])
    elif respect_end_rules:
        ll = rng.choice([max(5, 12 - min(last_ml, 12)), 5, 12, 15, 16, rng.randrange(5, 300)])
        ll = max(ll, 5, 12 - last_ml)
    else:
        ll = rng.choice([0, 0, 1, 4])                          # match ends at / near the buffer end
    lits = bytes(rng.getrandbits(8) for _ in range(ll))
    out += lits
    low = rng.choice([0, 0, 0, 3, 15])
    body += lz4_last(lits, low)
    seqs_ok = (nseq == 0) or (ll >= 5 and last_ml + ll >= 12)
    return bytes(body), bytes(out), seqs_ok


# --------------------------------------------------------------------------- mutations

def mutations(rng, s, fmt, limit=40):
    """Malformed / perturbed variants of a valid stream (still classified by the reference decoder)."""
    res = []
    n = len(s)
    if n <= 48:
        res += [s[:k] for k in range(n)]                       # truncate at every position
    else:
        res += [s[:k] for k in sorted(rng.sample(range(n), 24))]
    for _ in range(6):                                         # byte substitutions (offset 0, offset too far, lengths)
        if n:
            k = rng.randrange(n)
            b = bytearray(s); b[k] = rng.choice([0, 0, 0xFF, 0xFF, b[k] ^ (1 << rng.randrange(8)), rng.getrandbits(8)])
            res.append(bytes(b))
    for k in range(max(0, n - 6), n - 1):                      # zero two adjacent bytes near the end (offset 0)
        b = bytearray(s); b[k] = 0; b[k + 1] = 0
        res.append(bytes(b))
    res.append(s + bytes([rng.getrandbits(8)]))                # trailing byte
    res.append(s + b"\x00")
    res.append(s + s[-3:])
    if fmt == "snappy" and n:
        res.append(bytes([(s[0] + 1) & 0x7F]) + s[1:] if s[0] < 0x7F else s)   # declared length + 1
        res.append(bytes([max(s[0] - 1, 0)]) + s[1:] if s[0] < 0x80 else s)     # declared length - 1
        res.append(b"\x80\x80\x80\x80\x10" + s[1:])            # preamble overflowing 32 bits
        res.append(b"\xff\xff\xff\xff\x7f" + s[1:])
        res.append(b"\x80\x80\x80\x80\x80\x00" + s[1:])        # six-byte preamble
    seen = set()
    out = []
    for m in res:
        if m not in seen and m != s:
            seen.add(m); out.append(m)
    if len(out) > limit:
        keep = out[:n if n <= 48 else 24]
        rest = out[len(keep):]
        rng.shuffle(rest)
        out = keep + rest[:max(0, limit - len(keep))]
    return out


# --------------------------------------------------------------------------- compressor inputs

def rnd(rng, n):
    return bytes(rng.getrandbits(8) for _ in range(n)) if n < 4096 else rng.randbytes(n)


def compress_inputs(rng, tier, codec):
    """(label, bytes) inputs aimed at the branches of carquet's compressors."""
    ins = [("empty", b"")]
    for n in range(1, 21):
        ins.append((f"len{n}", rnd(rng, n)))
        ins.append((f"same{n}", bytes([rng.getrandbits(8)]) * n))
    for n in (59, 60, 61, 62, 63, 64, 65, 66, 67, 68, 69, 70, 127, 128, 255, 256, 257, 269, 270, 271, 300, 524, 525, 526, 1000):
        ins.append((f"same{n}", bytes([rng.getrandbits(8)]) * n))
        ins.append((f"two{n}", bytes(rng.choice(b"ab") for _ in range(n))))
        ins.append((f"rand{n}", rnd(rng, n)))
    # literal runs of exactly L incompressible bytes between matches; matches of exactly M bytes
    reps = 3 if tier == "quick" else 8
    for _ in range(reps):
        for L in (0, 1, 14, 15, 16, 59, 60, 61, 62, 255, 256, 257, 269, 270, 271, 524, 525, 526):
            for M in (4, 5, 11, 12, 18, 19, 20, 63, 64, 65, 66, 67, 68, 69, 127, 128, 131, 132, 133, 273, 274, 275):
                if rng.random() > (0.25 if tier == "quick" else 0.6):
                    continue
                pat = rnd(rng, max(M, 4))[:M]
                tail = rnd(rng, rng.choice([0, 11, 12, 13, 15, 16, 20, 30]))
                if L == 0 or rng.random() < 0.25:
                    # one match of exactly M bytes after a first literal run of M + 1 + L bytes
                    x = pat + bytes([pat[M - 1] ^ 0x55]) + rnd(rng, L) + pat + bytes([pat[M - 1] ^ 0xAA]) + tail
                else:
                    # pattern, gap, pattern (match), then a literal run of EXACTLY L bytes (d2 + L-1 noise bytes), pattern
                    # (match of exactly M bytes): the bytes after the three pattern copies differ, so no match runs on
                    d = rng.sample([b for b in range(256) if b != pat[0]], 3)
                    noise = bytearray(rnd(rng, L - 1))
                    if noise and noise[-1] == pat[M - 1]:
                        noise[-1] ^= 0x10
                    x = (pat + bytes([d[0]]) + rnd(rng, 7) + pat + bytes([d[1]]) + bytes(noise) + pat + bytes([d[2]])
                         + (tail if len(tail) >= 13 else tail + rnd(rng, 16)))
                ins.append((f"lit{L}_match{M}", x))
    # matches ending exactly k bytes before the end (LZ4 last-literals margin, Snappy 15-byte limit)
    for k in range(0, 20):
        pat = rnd(rng, 24)
        ins.append((f"tail{k}", pat + b"\x00" + pat + rnd(rng, k)))
        ins.append((f"run_tail{k}", b"\x07" * 40 + rnd(rng, k)))
    # far offsets: around Snappy's 2048 (copy-1 / copy-2) and 32768, LZ4's 65535
    for dist in (2046, 2047, 2048, 2049, 4096):
        pat = rnd(rng, 9)
        ins.append((f"dist{dist}", pat + rnd(rng, dist - 9) + pat + rnd(rng, 16)))
    nbig = 2 if tier == "quick" else 6
    big = []
    for dist in (32767, 32768, 32769, 65534, 65535, 65536, 65537):
        pat = rnd(rng, 40)
        big.append((f"dist{dist}", pat + rnd(rng, dist - 40) + pat + rnd(rng, 16)))
    # > 64 KiB and > 128 KiB with periods that alias the 16-bit hash-table positions
    for period in (65536, 65535, 65537, 32768, 65536 + 4096, 1000, 4093):
        blk = rnd(rng, min(period, 70000))
        for total in (65536 + 300, 131072 + 300):
            x = (blk * (total // len(blk) + 1))[:total]
            big.append((f"period{period}_{total}", x))
    # same 4 bytes at positions p and p + 65536 but different continuation; different bytes with equal position mod 2^16
    base = bytearray(rnd(rng, 140000))
    for p in (100, 5000, 40000):
        base[p + 65536:p + 65536 + 6] = base[p:p + 6]
    big.append(("alias4", bytes(base)))
    big.append(("zeros200k", bytes(200000)))
    big.append(("two150k", bytes(rng.choice(b"xy") for _ in range(150000))))
    big.append(("rand100k", rnd(rng, 100000)))
    if tier == "quick":
        pass                                                    # all of them: they are cheap on the implementation
    else:
        for _ in range(4):
            n = rng.randrange(300000, 1500000)
            big.append((f"mixed{n}", b"".join(rng.choice([rnd(rng, rng.randrange(1, 400)), bytes([rng.getrandbits(8)]) * rng.randrange(1, 400), b"abcdefgh" * rng.randrange(1, 50)]) for _ in range(n // 200))))
    # random structured inputs
    nrand = 600 if tier == "quick" else 5000
    for _ in range(nrand):
        n = rng.randrange(13, 700)
        kind = rng.random()
        if kind < 0.3:
            x = rnd(rng, n)
        elif kind < 0.6:
            alphabet = rnd(rng, rng.randrange(1, 4))
            x = bytes(rng.choice(alphabet) for _ in range(n))
        else:
            parts = []
            while sum(map(len, parts)) < n:
                if parts and rng.random() < 0.5:
                    src = b"".join(parts)
                    st = rng.randrange(len(src)); ln = rng.randrange(4, 80)
                    parts.append((src[st:] * (ln // max(1, len(src) - st) + 1))[:ln])
                else:
                    parts.append(rnd(rng, rng.randrange(1, 70)))
            x = b"".join(parts)[:n]
        ins.append((f"mix{n}", x))
    return ins, big


# --------------------------------------------------------------------------- running

def san_summary(err):
    """the informative lines of a sanitizer report"""
    keep = [l.strip() for l in (err or "").splitlines()
            if ("ERROR: AddressSanitizer" in l or "SUMMARY:" in l or "runtime error" in l or l.strip().startswith("#0 ")
                or l.strip().startswith("#1 ") or "is located" in l or "LeakSanitizer" in l)]
    return " | ".join(keep[:8]) if keep else (err or "")[-600:]


def run_all(vlib, exe, lines, timeout=900, max_deaths=12, case_timeout=30):
    """run_sharded, but when a shard dies on a case the remaining cases of that shard are run again
    (so one crashing input does not hide the results of the others).  Returns (outs, deaths) where
    deaths = [(case line, returncode, report summary)] and the dead case's output is 'FAULT died'."""
    outs, probs = vlib.run_sharded(exe, lines, timeout=timeout)
    deaths = []
    # a shard that ran out of time: run its cases one by one to name the case that does not come back
    slow = [pr for pr in probs if pr[1] == -9]
    probs = [pr for pr in probs if pr[1] != -9]
    import subprocess as _sp
    for pr in slow:
        case = pr[3]
        try:
            k = next(i for i, (l, o) in enumerate(zip(lines, outs)) if o == "FAULT died" and l == case)
        except StopIteration:
            deaths.append((case, -9, "shard timed out")); continue
        j = k
        while j < len(lines) and outs[j] == "FAULT died":
            j += 1
        def one(i):
            try:
                o, rc, err = vlib.run_lines(exe, [lines[i]], timeout=case_timeout)
                return i, o, rc, err
            except _sp.TimeoutExpired:
                return i, None, -9, ""
        from concurrent.futures import ThreadPoolExecutor as _TP
        with _TP(vlib.NCPU) as ex:
            for i, o, rc, err in ex.map(one, range(k, j)):
                if o is None:
                    deaths.append((lines[i], -9, f"no result within {case_timeout} s: the call does not terminate or its time is not proportional to the input size"))
                elif rc != 0 or not o:
                    deaths.append((lines[i], rc, san_summary(err)))
                else:
                    outs[i] = o[0]
    pending = list(probs)
    budget = max_deaths
    while pending and budget > 0:
        budget -= 1
        pr = pending.pop(0)
        case = pr[3]
        deaths.append((case, pr[1], san_summary(pr[2])))
        if case is None:
            continue
        # position of the killer: first 'FAULT died' whose line equals case
        try:
            k = next(i for i, (l, o) in enumerate(zip(lines, outs)) if o == "FAULT died" and l == case)
        except StopIteration:
            continue
        j = k + 1
        while j < len(lines) and outs[j] == "FAULT died":
            j += 1
        rest = lines[k + 1:j]
        if rest:
            o2, p2 = vlib.run_sharded(exe, rest, timeout=timeout)
            outs[k + 1:j] = o2
            pending += p2
    return outs, deaths


def coqchk(vlib, rep, pid):
    """thorough tier: independent re-check of the compiled cone by coqchk (also reports axioms)"""
    if rep.proof_error or "coqchk" in rep.cov:      # vlib.prelude already ran it in the thorough tier
        return
    p = vlib.sh(["timeout", "2400", "coqchk", "-silent", "-o", "-Q", "theories", "Carquet",
                 f"Carquet.Props.Properties_{pid}"], cwd=vlib.COQ)
    txt = p.stdout + p.stderr
    clean = p.returncode == 0 and "Axioms: <none>" in txt
    rep.cov["coqchk"] = "ok, no axioms" if clean else txt[-600:]
    if not clean:
        rep.broken.append(("proof", f"coqchk does not accept the compiled proofs of {pid}: " + txt[-400:], None))


# --------------------------------------------------------------------------- large back-references

def far_reference_streams(rng, tier):
    """Spec-valid streams whose copies reach far back (more than 32 KiB / 64 KiB / 128 KiB of output
    already produced): forms carquet's own compressors never emit (copy-4; copy-2 and LZ4 offsets above
    32768).  Implementation + reference decoders only.  Returns [(fmt, label, stream, content)]."""
    res = []

    def snappy_base(total):
        """literals totalling `total` bytes, in several length forms"""
        out = bytearray(); body = bytearray()
        left = total
        for ln, form in ((60, 0), (256, 1), (65536, 2), (70000, 3), (1000, 4)):
            ln = min(ln, left)
            if ln <= 0:
                break
            data = rnd(rng, ln)
            if form == 0 and ln > 60:
                form = 2
            body += snappy_lit(data, form); out += data; left -= ln
        while left > 0:
            ln = min(left, 65536)
            data = rnd(rng, ln); body += snappy_lit(data, 3); out += data; left -= ln
        return out, body

    def snappy_stream(total, copies, label):
        out, body = snappy_base(total)
        for kind, off, ln in copies:
            if off == "produced":
                off = len(out)
            if off > len(out) or (kind == 2 and off > 65535):
                continue
            body += snappy_copy(off, ln, kind)
            apply_copy(out, off, ln)
        res.append(("snappy", label, varint(len(out)) + bytes(body), bytes(out)))

    offs4 = [32768, 32769, 65535, 65536, 65537, 70000, 131072, "produced"]
    k = rng.randrange(1, 300)
    # one stream per far offset (so that the replay names the offending form), copy-4, lengths 1 / 4 / 64
    for off in (65537, 70000, 131072, "produced"):
        total = (65536 + k) if off in (65537, "produced") else (70000 + k) if off == 70000 else (131072 + k)
        snappy_stream(total, [(4, off, ln) for ln in (1, 4, 64)], f"copy4_off_{off}")
    snappy_stream(65536 + k, [(4, off, ln) for off in offs4 for ln in (1, 4, 64)], "copy4_all_64k")
    snappy_stream(131072 + 2 * k, [(4, off, ln) for off in offs4 for ln in (1, 4, 64)] +
                  [(4, rng.randrange(65537, 131072), rng.randrange(1, 65)) for _ in range(20)], "copy4_all_128k")
    snappy_stream(65536 + k, [(2, off, ln) for off in (32769, 32770, 40000, 65534, 65535, rng.randrange(32769, 65536))
                              for ln in (1, 4, 64)] + [(4, 1, 64), (4, 2, 64), (4, 3, 7)], "copy2_far")
    if tier == "thorough":
        for _ in range(6):
            total = rng.randrange(65537, 200000)
            snappy_stream(total, [(rng.choice([2, 4, 4]), rng.randrange(1, total), rng.randrange(1, 65)) for _ in range(60)], "far_random")

    def lz4_stream(first_lits, seqs, last, label):
        out = bytearray(); body = bytearray()
        lits = rnd(rng, first_lits)
        for i, (off, ml, nxt) in enumerate(seqs):
            out += lits
            if off == "produced":
                off = min(len(out), 65535)
            off = min(off, len(out), 65535)
            body += lz4_seq(lits, off, ml)
            apply_copy(out, off, ml) if off < ml else out.extend(out[len(out) - off:len(out) - off + ml])
            lits = rnd(rng, nxt)
        tail = lits + rnd(rng, last)
        out += tail
        body += lz4_last(tail)
        res.append(("lz4", label, bytes(body), bytes(out)))

    far = [32768, 32769, 40000, 65534, 65535]
    lz4_stream(70000 + k, [(off, ml, rng.choice([0, 1, 20])) for off in far for ml in (4, 19, 300)], 12, "lz4_far_offsets")
    lz4_stream(65530, [(1000, 20, 3), (65535, 70000, 0), (1, 300, 5)], 12, "lz4_match_crossing_64k")   # matches crossing 64 KiB
    lz4_stream(65535, [(65535, 4, 0), ("produced", 19, 0)], 12, "lz4_offset_65535_at_start")
    if tier == "thorough":
        for _ in range(4):
            n0 = rng.randrange(65536, 150000)
            lz4_stream(n0, [(rng.randrange(32768, 65536), rng.randrange(4, 1000), rng.randrange(0, 30)) for _ in range(40)], 12, "lz4_far_random")
    return res


# --------------------------------------------------------------------------- third-round additions

def snappy_element_boundaries(s):
    """offsets of the element boundaries of a VALID raw Snappy block (after the preamble, between elements, end)"""
    i = 0
    while s[i] >= 0x80:
        i += 1
    i += 1
    res = [i]
    n = len(s)
    while i < n:
        tag = s[i]; i += 1
        k = tag & 3
        if k == 0:
            m = tag >> 2
            if m < 60:
                ln = m + 1
            else:
                nb = m - 59
                ln = int.from_bytes(s[i:i + nb], "little") + 1
                i += nb
            i += ln
        else:
            i += (1, 2, 4)[k - 1]
        res.append(i)
    return res


HUGE_LITERALS = [bytes([0xFC]) + v.to_bytes(4, "little") for v in
                 (0xFFFFFFFF, 0xFFFFFFFE, 0xFFFFFFFD, 0xFFFFFFF0, 0xFFFFFF00, 0x80000000, 0x7FFFFFFF, 0xFFFF0000)] + \
                [b"\xF8\xFF\xFF\xFF", b"\xF4\xFF\xFF", b"\xF0\xFF", b"\xFC\xFF\xFF\xFF\xFF\xFC\xFF\xFF\xFF\xFF"]


def overflow_splices(rng, s, limit=None):
    """A valid stream with an element spliced in at every element boundary whose length does not fit the
    arithmetic of a 32-bit implementation: literal with a 4-byte length field holding 2^32-1 (length 2^32, wraps
    to 0 in uint32_t), 2^32-2, ..., and the largest 3/2/1-byte forms.  All are invalid (the literal bytes are
    not there); classified by the reference decoder anyway."""
    res = []
    bs = snappy_element_boundaries(s)
    for b in bs:
        for h in (HUGE_LITERALS if limit is None else rng.sample(HUGE_LITERALS, limit)):
            res.append(s[:b] + h + s[b:])
    return res


def big_lines(tier, codecs=("snappy", "lz4")):
    """compress cases whose input is generated in the driver: sizes around every length boundary of the Snappy
    preamble varint (2^7, 2^14, 2^21, 2^28) and inside the four-byte range (4 MiB .. 10 MiB)"""
    sizes = []
    for b in (7, 14, 21):
        sizes += [(1 << b) - 1, 1 << b, (1 << b) + 1]
    sizes += [3 << 20, 4 << 20, (4 << 20) + 1, 5 << 20, (6 << 20) - 1, 6 << 20, (8 << 20) + 5, (10 << 20) - 1]
    if tier == "thorough":
        sizes += [(1 << 28) - 1, 1 << 28, (1 << 28) + 1, (12 << 20) + 3, (1 << 24) + 1, (1 << 26) - 1]
    lines = []
    if "snappy" in codecs:
        # more than 16 MiB without any match (period = n: pure noise): the five-byte literal header of snappy_emit_literal
        lines.append(f"big snappy r {(17 << 20) + 3} {(17 << 20) + 3}")
    for codec in codecs:
        # incompressible multi-megabyte inputs at the bound (the slack of the bound formulas grows with n)
        for n in ((3 << 20) + 1, (5 << 20) + 7):
            if not (codec == "zstd" and n > (4 << 20)):
                lines.append(f"big {codec} r {n} {n}")
        for n in sizes:
            kinds = [("z", 1), ("p", 40)] if n < (1 << 27) else [("z", 1)]
            if codec == "snappy" and n < (1 << 23):
                kinds.append(("r", 1000))
            if codec != "snappy" and n > (1 << 23) and n < (1 << 27):
                kinds = [("p", 40)]
            for k, per in kinds:
                lines.append(f"big {codec} {k} {n} {per}")
    return lines


def judge_big(line, out):
    """oracle for a `big` case: success at the bound, round trip, reference decoder, and (snappy) the preamble is
    the canonical varint of the input length"""
    _, codec, kind, n, per = line.split()
    n = int(n)
    t = out.split()
    if not t or t[0] not in ("OK", "ERR"):
        return [f"carquet_{codec}_compress: crash / sanitizer report on a {n}-byte input: {out[:200]}"], None
    if t[0] == "ERR":
        return [f"carquet_{codec}_compress fails with status {t[1]} on a {n}-byte input at the advertised bound"], None
    d = dict(x.split("=", 1) for x in t[1:] if "=" in x)
    bad = []
    head = bytes.fromhex(d.get("head", "")) if d.get("head", "-") != "-" else b""
    if int(d["len"]) > int(d["bound"]):
        bad.append(f"carquet_{codec}_compress wrote {d['len']} bytes for a {n}-byte input, more than its bound {d['bound']}")
    if codec == "snappy":
        want = varint(n)
        if head[:len(want)] != want:
            bad.append(f"carquet_snappy_compress: the preamble of a {n}-byte input is {head[:5].hex()}, the varint of {n} is {want.hex()} (not a valid raw Snappy block for this length)")
    if d.get("rt") != "1":
        bad.append(f"carquet_{codec}_compress of a {n}-byte input ({kind}, period {per}): carquet's decompressor does not return the input")
    if d.get("lib") == "0":
        bad.append(f"carquet_{codec}_compress of a {n}-byte input ({kind}, period {per}): the reference decoder does not return the input")
    return bad, head


def snappy_preamble_ref(s):
    """carquet_snappy_get_uncompressed_length per the format: the varint (at most 5 bytes, value < 2^32) or None"""
    v = 0
    for i in range(5):
        if i >= len(s):
            return None
        v |= (s[i] & 0x7F) << (7 * i)
        if s[i] < 0x80:
            return v if v < 1 << 32 else None
    return None


def slen_lines(rng, tier):
    """inputs for carquet_snappy_get_uncompressed_length: canonical and padded varints of boundary values, every
    truncation, overflowing fifth bytes, six-byte forms, followed by arbitrary bytes or nothing"""
    vals = [0, 1, 127, 128, 255, 16383, 16384, (1 << 21) - 1, 1 << 21, (1 << 28) - 1, 1 << 28, (1 << 31), (1 << 32) - 1] + \
           [rng.getrandbits(rng.randrange(1, 33)) for _ in range(40 if tier == "quick" else 400)]
    res = [b"", b"\x80", b"\xff\xff\xff\xff", b"\x80\x80\x80\x80\x10", b"\xff\xff\xff\xff\x0f", b"\xff\xff\xff\xff\x10",
           b"\xff\xff\xff\xff\x7f", b"\x80\x80\x80\x80\x80\x00", b"\x80\x80\x80\x80\x8f", b"\x80\x80\x80\x80\x00"]
    for v in vals:
        for pad in (0, 1, 2, 4):
            e = varint(v, pad)
            tail = bytes(rng.getrandbits(8) for _ in range(rng.choice([0, 0, 1, 5])))
            res.append(e + tail)
            for k in range(len(e)):
                res.append(e[:k])
    seen = set(); out = []
    for r in res:
        if r not in seen:
            seen.add(r); out.append("slen " + (r.hex() if r else "-"))
    return out


def sfar_lines(tier):
    """copy-4 back-references of 16 MiB and more (the fourth offset byte is non-zero): built in the driver"""
    n = (1 << 24) + 1000
    lines = [f"sfar {n} {1 << 24} 64", f"sfar {n} {(1 << 24) + 1} 1", f"sfar {n} {n} 4", f"sfar {n} {(1 << 24) - 1} 7"]
    if tier == "thorough":
        m = (1 << 25) + 77
        lines += [f"sfar {m} {1 << 25} 64", f"sfar {m} {m} 33", f"sfar {m} {(3 << 23) + 5} 2", f"sfar {(1 << 26) + 9} {1 << 26} 64"]
    return lines


def judge_sfar(line, out):
    _, n, off, ln = line.split()
    if not out.startswith("OK "):
        return [f"carquet_snappy_decompress: crash / sanitizer report on a valid block with a copy-4 of offset {off} after {n} literal bytes: {out[:160]}"]
    d = dict(x.split("=") for x in out.split()[1:])
    if d.get("lib") != "1":
        return []          # libsnappy disagrees with the driver's own encoder: not an implementation verdict
    if d.get("rt") != "1":
        return [f"carquet_snappy_decompress does not return the bytes a valid stream denotes: {n} literal bytes then copy-4 offset {off} length {ln} (status {d.get('status')}; libsnappy decodes it)"]
    return []
