#!/usr/bin/env python3
"""Self-validation of the C -> Gallina translator (tools/gen.d/c2coq.py) and of its semantics library
(coq/theories/Base/CSem.v) against gcc on this machine.  Run by hand:

    python3 checks/c2coq_selftest.py [cases per function, default 300]      (VERIF_SEED, VERIF_REPO honoured)

For every translated target a C program that #includes the source file calls the REAL function on boundary
and random arguments (compiled with -fsanitize=address,undefined -fno-sanitize-recover=all, so an argument
vector that runs into undefined behaviour kills the harness instead of producing a number), the generated
Gallina definition is evaluated on the same arguments inside coqc (`Eval vm_compute`), and the results
(return value and final contents of every written array) are compared.  Argument domains that exclude the
executions outside the model (shift amounts, divisors, array lengths) come from the "domain" entry of the
target in tools/c2coq.d/targets.json; arrays have ARRLEN elements.  Exit code 0 iff no mismatch."""
import importlib.util, json, os, random, subprocess, sys
from pathlib import Path

VERIF = Path(__file__).resolve().parent.parent
sys.path.insert(0, str(VERIF / "tools"))
import vlib  # noqa: E402

ARRLEN = 16
CTYPE = {("int", False, 8): "uint8_t", ("int", False, 16): "uint16_t", ("int", False, 32): "uint32_t",
         ("int", False, 64): "uint64_t", ("int", True, 8): "int8_t", ("int", True, 16): "int16_t",
         ("int", True, 32): "int32_t", ("int", True, 64): "int64_t", ("bool", False, 1): "bool"}


def load_translator():
    spec = importlib.util.spec_from_file_location("c2coq", VERIF / "tools" / "gen.d" / "c2coq.py")
    mod = importlib.util.module_from_spec(spec)
    spec.loader.exec_module(mod)
    return mod


def ctype(t):
    return CTYPE[(t.kind, t.signed, t.width)]


def values_for(t, rnd, n, dom=None):
    lo, hi = t.rng()
    if dom:
        lo, hi = max(lo, dom[0]), min(hi, dom[1])
    cand = {lo, hi, min(hi, lo + 1), max(lo, hi - 1)}
    for v in tuple(range(0, 17)) + (31, 32, 33, 63, 64, 127, 128, 255, 256, 65535, 65536, 2**31 - 1, 2**31, 2**32 - 1, 2**32,
              2**63 - 1, 2**63, -1, -2, -128, -2**31, -2**63):
        if lo <= v <= hi:
            cand.add(v)
    out = sorted(cand)
    rnd.shuffle(out)
    while len(out) < n:
        k = rnd.choice((0, 1, 2, 3))
        if k == 0:
            out.append(rnd.randint(lo, hi))
        elif k == 1:      # small magnitude
            out.append(max(lo, min(hi, rnd.randint(-300, 300))))
        elif k == 2:      # around a power of two
            out.append(max(lo, min(hi, (1 << rnd.randint(0, 64)) + rnd.randint(-2, 2))))
        else:             # sparse bit pattern
            v = 0
            for _ in range(rnd.randint(1, 4)):
                v |= 1 << rnd.randint(0, 63)
            out.append(max(lo, min(hi, v if lo >= 0 or rnd.random() < .5 else -v)))
    return out


def clit(v, t):
    if t.kind == "bool":
        return "1" if v else "0"
    if t.signed:
        if v == -2**63:
            return "(-9223372036854775807LL-1)"
        return "%dLL" % v if t.width == 64 else "%d" % v if v != -2**31 else "(-2147483647-1)"
    return "%dULL" % v if t.width == 64 else "%dU" % v


def zlit(v):
    return "%d" % v if v >= 0 else "(%d)" % v


def main():
    ncases = int(sys.argv[1]) if len(sys.argv) > 1 else 300
    rnd = random.Random(vlib.SEED)
    c2 = load_translator()
    vlib.gen_translators()
    ok, out = vlib.coq_make(["theories/Gen/CLeaf_gen.vo"])
    if not ok:
        print("Gen/CLeaf_gen.v does not compile:\n" + out[-2000:])
        return 2
    unit, done, failures = c2.translate_all(vlib.REPO)
    lib = vlib.build_repo()      # the other functions of an #included source file are linked from the library build
    work = VERIF / "build" / "c2coq_selftest"
    work.mkdir(parents=True, exist_ok=True)
    by_file = {}
    for tg, info in done:
        by_file.setdefault(tg["file"], []).append((tg, info))
    coq_tests, expected, labels = [], [], []
    counts = {}
    for rel, items in by_file.items():
        src = ['#include <stdint.h>', '#include <stdbool.h>', '#include <stdio.h>', '#include <stddef.h>', '#include <string.h>',
               '#include "%s"' % (vlib.REPO / rel),
               "int main(void){"]
        for fi, (tg, info) in enumerate(items):
            dom = tg.get("domain", {})
            cols = []
            for (pn, pk, pt) in info.params:
                if pk == "int":
                    cols.append(values_for(pt, rnd, ncases, dom.get(pn)))
                else:
                    cols.append([[values_for(pt.elem, rnd, ARRLEN, dom.get(pn + "[]"))[i] for i in range(ARRLEN)] for _ in range(ncases)])
            counts[info.coqname] = ncases
            # a table of argument vectors and one loop over it (a statement per case takes gcc minutes)
            fields = []
            for pi, (pn, pk, pt) in enumerate(info.params):
                fields.append("%s p%d;" % (ctype(pt), pi) if pk == "int" else "%s p%d[%d];" % (ctype(pt.elem), pi, ARRLEN))
            rows = []
            base = len(labels)
            for ci in range(ncases):
                crow, zargs = [], []
                for pi, (pn, pk, pt) in enumerate(info.params):
                    v = cols[pi][ci]
                    if pk == "int":
                        crow.append(clit(v, pt))
                        zargs.append(zlit(v))
                    else:
                        crow.append("{%s}" % ",".join(clit(x, pt.elem) for x in v))
                        zargs.append("[%s]" % ";".join(zlit(x) for x in v))
                idx = len(labels)
                labels.append("%s #%d (%s)" % (info.coqname, ci, " ".join(zargs)[:300]))
                rows.append("{%s}" % ",".join(crow))
                nw = len(info.written)
                app = "%s %s" % (info.coqname, " ".join(zargs))
                if info.ret.kind != "void" and nw == 0:
                    flat = "[%s]" % app
                elif info.ret.kind == "void" and nw == 1:
                    flat = app
                else:
                    names = ["x%d" % i for i in range(nw)] + (["r"] if info.ret.kind != "void" else [])
                    flat = "let '(%s) := %s in %s" % (", ".join(names), app, " ++ ".join(names[:nw] + (["[r]"] if info.ret.kind != "void" else [])))
                coq_tests.append("(%d, %s)" % (idx, flat))
            src.insert(len(src) - 1, "static const struct { %s } T%d[] = {\n%s\n};" % (" ".join(fields), fi, ",\n".join(rows)))
            body = "for (int c = 0; c < %d; c++) {" % ncases
            cargs = []
            for pi, (pn, pk, pt) in enumerate(info.params):
                if pk == "int":
                    cargs.append("T%d[c].p%d" % (fi, pi))
                else:
                    body += "%s a%d[%d]; memcpy(a%d, T%d[c].p%d, sizeof a%d);" % (ctype(pt.elem), pi, ARRLEN, pi, fi, pi, pi)
                    cargs.append("a%d" % pi)
            call = "%s(%s)" % (info.name, ",".join(cargs))
            body += 'printf("%%d", %d + c);' % base
            body += ("%s r=%s;" % (ctype(info.ret), call)) if info.ret.kind != "void" else (call + ";")
            for wi in info.written:
                et = info.params[wi][2].elem
                body += 'for(int i=0;i<%d;i++)printf(" %s",(%s)a%d[i]);' % (
                    ARRLEN, "%lld" if et.signed else "%llu", "long long" if et.signed else "unsigned long long", wi)
            if info.ret.kind != "void":
                body += 'printf(" %lld",(long long)r);' if info.ret.signed else 'printf(" %llu",(unsigned long long)r);'
            body += 'printf("\\n");}'
            src.append(body)
        src.append("return 0;}")
        cfile = work / ("h_" + rel.replace("/", "_").replace(".", "_") + ".c")
        cfile.write_text("\n".join(src) + "\n")
        exe = cfile.with_suffix("")
        cc = ["gcc", "-std=gnu11", "-O1", "-g", "-w", "-fsanitize=address,undefined", "-fno-sanitize-recover=all",
              "-DCARQUET_VERIF", "-DCARQUET_ARCH_X86", "-I", str(vlib.REPO / "include"), "-I", str(vlib.REPO / "src"),
              str(cfile), str(lib), "-Wl,--allow-multiple-definition", "-o", str(exe), "-fopenmp", "-lzstd", "-lz", "-lm"]
        p = subprocess.run(cc, capture_output=True, text=True)
        if p.returncode != 0:
            print("harness for %s does not compile:\n%s" % (rel, p.stderr[-3000:]))
            return 2
        r = subprocess.run([str(exe)], capture_output=True, text=True)
        if r.returncode != 0:
            last = r.stdout.strip().split("\n")[-1][:200] if r.stdout.strip() else "-"
            print("harness for %s died (an argument vector outside the model? give the target a \"domain\"):\n last line: %s\n%s"
                  % (rel, last, r.stderr[-1500:]))
            return 2
        for line in r.stdout.split("\n"):
            if line.strip():
                f = line.split()
                expected.append((int(f[0]), [int(x) for x in f[1:]]))
    exp = dict(expected)
    # one Coq file: every test is (id, result); the expected results; the list of ids that differ
    vf = work / "Selftest.v"
    lines = ["From Coq Require Import ZArith List Bool.", "From Carquet Require Import Base.CSem Gen.CLeaf_gen.",
             "Import ListNotations.", "Local Open Scope Z_scope.",
             "Fixpoint leq (a b : list Z) : bool := match a, b with [] , [] => true | x :: a', y :: b' => Z.eqb x y && leq a' b' | _, _ => false end.",
             "Definition got : list (Z * list Z) := ["]
    lines.append(";\n".join(coq_tests))
    lines.append("].")
    lines.append("Definition want : list (Z * list Z) := [")
    lines.append(";\n".join("(%d, [%s])" % (i, ";".join(zlit(x) for x in exp[i])) for i in range(len(labels))))
    lines.append("].")
    lines.append("Definition bad := map (fun gw => (fst (fst gw), snd (fst gw), snd (snd gw))) (filter (fun gw => negb (leq (snd (fst gw)) (snd (snd gw)))) (combine got want)).")
    lines.append('Eval vm_compute in (length got, length want, length bad).')
    lines.append('Eval vm_compute in (firstn 20 bad).')
    vf.write_text("\n".join(lines) + "\n")
    vlib.log("c2coq_selftest: harnesses done, running coqc on %d cases" % len(labels))
    p = subprocess.run(["timeout", "1200", "coqc", "-Q", str(vlib.COQ / "theories"), "Carquet", "-Q", str(work), "C2coqSelftest", str(vf)],
                       capture_output=True, text=True, cwd=work)
    if p.returncode != 0:
        print("coqc failed on the self-test file:\n" + (p.stdout + p.stderr)[-3000:])
        return 2
    out = p.stdout
    import re
    m = re.search(r"=\s*\((\d+)%nat,\s*(\d+)%nat,\s*(\d+)%nat\)", out)
    if not m:
        print("could not read coqc's answer:\n" + out[-2000:])
        return 2
    ngot, nwant, nbad = (int(x) for x in m.groups())
    print("c2coq self-validation: %d functions, %d cases evaluated by gcc (ASan+UBSan) and by coqc (vm_compute); %d mismatches"
          % (len(counts), ngot, nbad))
    for rel, items in by_file.items():
        print("  %-34s %s" % (rel, " ".join(info.coqname[2:] for _, info in items)))
    if failures:
        print("  not translated: " + "; ".join("%s (%s)" % (f[0], f[3]) for f in failures))
    if nbad or ngot != nwant or ngot != len(labels):
        ids = [int(x) for x in re.findall(r"\((\d+),\s*\[", out[out.index("firstn") if "firstn" in out else m.end():])]
        print("MISMATCHES (first 20): ")
        print(out[m.end():][:4000])
        for i in ids[:20]:
            print("  ", labels[i])
        return 1
    return 0


if __name__ == "__main__":
    sys.exit(main())
