"""C17 - schema trees map to the right leaf columns and def/rep levels.

Proof: coq/theories/Props/Properties_C17.v (spec Schema/SchemaTree.v, models Schema/SchemaModel.v and
       Schema/SchemaBuilderModel.v, proofs Schema/SchemaProofs.v).
Tie:   (a) CARQUET_MAX_SCHEMA_ELEMENTS, SCHEMA_INITIAL_CAPACITY/GROWTH_FACTOR, the repetition enum and the status
       enum regenerated from the sources; (b) every ordered forest with <= N nodes x every labelling by
       {REQUIRED, OPTIONAL, REPEATED} written into a minimal Parquet footer by checks/pq_min.py (an independent
       Thrift-compact writer) and opened with carquet_reader_open_buffer; what the reader exposes (internal leaf
       arrays, public accessors, column-reader levels, find_column) is compared with the EXTRACTED SPECIFICATION
       (property oracle -> VIOLATION) and with the extracted model (-> correspondence); random trees to depth 12 /
       200 nodes; arbitrary non-tree element lists (safety, termination, model agreement only); builder call
       sequences to 300 columns under ASan against the builder model and the flat-tree specification.
"""
import random, json, sys, itertools
from pathlib import Path
import vlib
from vlib import Report, prelude, build_driver, build_runner, run_sharded, log
sys.path.insert(0, str(Path(__file__).resolve().parent))
import pq_min as pq

PID = "C17"
sys.setrecursionlimit(200000)
I32MAX = 2**31 - 1
LOGICALS = [10000, 20000, 30000, 40000, 60000, 110000, 120000, 130000, 140000, 150000,       # parameterless
            50000 + 2 * 100 + 9, 50000 + 0 * 100 + 38, 100000 + 8 * 100 + 1, 100000 + 64 * 100 + 0,
            100000 + 32 * 100 + 1, 70000 + 1 * 100 + 1, 70000 + 0 * 100 + 3, 80000 + 1 * 100 + 2, 80000 + 0 * 100 + 1,
            80000 + 0 * 100 + 3, 80000 + 1 * 100 + 3, 70000 + 1 * 100 + 2]
# members with parameters: also written with additional unknown fields inside their struct (must be skipped, parameters kept)
PARAM_LOGICALS = [c for c in LOGICALS if c // 10000 in (5, 7, 8, 10)]
LOGICAL_NAMES = {1: "STRING", 2: "MAP", 3: "LIST", 4: "ENUM", 6: "DATE", 11: "NULL", 12: "JSON", 13: "BSON",
                 14: "UUID", 15: "FLOAT16"}


# newer / unknown members of the LogicalType union (9 = UNKNOWN, 16 VARIANT, 17 GEOMETRY, 18 GEOGRAPHY, 19, 20 not assigned yet):
# a reader must skip the member whatever it holds and expose an "unknown" logical type (code 0); wire = (member id, body variant)
RAW_LOGICALS = [(fid, v) for fid in (9, 16, 17, 18, 19, 20) for v in (0, 1, 2)]


def logical_tuple(code):
    if isinstance(code, tuple):
        if code[0] == "EXTRA":
            return ("EXTRA",) + logical_tuple(code[1])
        return ("RAW", code[0], code[1])
    fid, a, b = code // 10000, (code // 100) % 100, code % 100
    if fid in LOGICAL_NAMES:
        return (LOGICAL_NAMES[fid],)
    if fid == 5:
        return ("DECIMAL", a, b)
    if fid == 10:
        return ("INTEGER", a, b)
    unit = {1: "MILLIS", 2: "MICROS", 3: "NANOS"}[b]
    return ("TIME" if fid == 7 else "TIMESTAMP", a, unit)


# ------------------------------------------------------------------ trees
# a tree is ("L", rep, name, type, tlen, logical) or ("G", rep, name, [children])

def shapes(n):
    """all ordered forests with exactly n nodes, as nested lists (a node = list of its children)"""
    if n == 0:
        return [[]]
    out = []
    for k in range(1, n + 1):            # size of the first tree
        for first in shapes(k - 1):      # its children
            for rest in shapes(n - k):
                out.append([first] + rest)
    return out


def count_nodes(forest):
    return sum(1 + count_nodes(c) for c in forest)


class Namer:
    def __init__(self, rng, dup=0.0, dots=0.0):
        self.k, self.rng, self.dup, self.used, self.dots = 0, rng, dup, [], dots

    def __call__(self):
        if self.used and self.rng.random() < self.dup:
            return self.rng.choice(self.used)
        if self.dots and self.rng.random() < self.dots:
            plain = [u for u in self.used if u < 9000]
            c = self.rng.choice([SPECIAL0 + self.rng.randrange(len(SPECIAL_NAMES))] +
                                ([self.rng.choice([20000, 30000, 40000]) + self.rng.choice(plain)] if plain else []))
            self.used.append(c)
            return c
        self.k += 1
        self.used.append(self.k)
        return self.k


def leaf_payload(rng):
    ty = rng.randrange(8)
    tlen = rng.choice([1, 12, 16, 255]) if ty == pq.FIXED_LEN_BYTE_ARRAY else 0
    lg = rng.choice(LOGICALS) if rng.random() < 0.3 else None
    if rng.random() < 0.08:
        lg = (0, rng.choice(RAW_LOGICALS))       # exposed as code 0, written as the raw union member
    elif rng.random() < 0.06:
        c = rng.choice(PARAM_LOGICALS)
        lg = (c, ("EXTRA", c))                   # exposed as c, written with extra unknown fields in its struct
    return ty, tlen, lg


def label(forest, reps, rng, namer):
    """attach repetitions (consumed from the iterator reps, preorder), names and leaf payloads"""
    out = []
    for node in forest:
        r = next(reps)
        nm = namer()
        if node:
            out.append(("G", r, nm, label(node, reps, rng, namer)))
        else:
            ty, tlen, lg = leaf_payload(rng)
            out.append(("L", r, nm, ty, tlen, lg))
    return out


def tree_text(t):
    """iterative (chains are 10 000 deep)"""
    out, stack = [], [t]
    while stack:
        x = stack.pop()
        if isinstance(x, str):
            out.append(x)
        elif x[0] == "L":
            out.append("L%d.%d.%d.%d.%s" % (x[1], x[2], x[3], x[4], "-" if x[5] is None else x[5][0] if isinstance(x[5], tuple) else x[5]))
        else:
            out.append("G%d.%d[" % (x[1], x[2]))
            stack.append("]")
            for k, c in enumerate(reversed(x[3])):
                stack.append(c)
                if k != len(x[3]) - 1:
                    stack.append(";")
    return "".join(out)


def flatten(t, out):
    """elements as dicts in depth-first order (the generator's own flattening; cross-checked against the specification's)"""
    stack = [t]
    while stack:
        x = stack.pop()
        if x[0] == "L":
            lg = x[5]
            out.append(dict(name=x[2], hastype=1, type=x[3], tlen=x[4], hasrep=1, rep=x[1], nc=0,
                            logical=lg[0] if isinstance(lg, tuple) else lg, lwire=lg[1] if isinstance(lg, tuple) else None))
        else:
            out.append(dict(name=x[2], hastype=0, type=0, tlen=0, hasrep=1, rep=x[1], nc=len(x[3]), logical=None))
            stack.extend(reversed(x[3]))


def leaves_of(forest, out):
    stack = list(reversed(forest))
    while stack:
        x = stack.pop()
        if x[0] == "L":
            out.append(x)
        else:
            stack.extend(reversed(x[3]))


def elems_text(els):
    def one(e):
        return "%s/%d/%d/%d/%d/%d/%d/%s" % ("-" if e["name"] is None else e["name"], e["hastype"], e["type"], e["tlen"],
                                             e["hasrep"], e["rep"], e["nc"], "-" if e["logical"] is None else e["logical"])
    return ",".join(one(e) for e in els) if els else "-"


# pairs of names that collide under common 32-bit string hashes: a lookup structure keyed by such a hash must still confirm the name
HASH_COLLISIONS = [("fnv1a", "costarring", "liquid"), ("fnv1a", "declinate", "macallums"), ("fnv1a", "altarage", "zinke"),
                   ("fnv1a", "k_4e62", "col48001"), ("fnv1", "col7659", "k_3e4c"), ("djb2", "hetairas", "mentioner"),
                   ("djb2", "mmozp", "nfzsxz"), ("djb2x", "k_7ff0", "k_8690"), ("sdbm", "dgdbqrvhx", "mjputv"),
                   ("murmur3_32 seed 0", "col34941", "k_19c7c"), ("xxh32 seed 0", "k_1b19e", "col141341"), ("crc32", "gpfazyks", "mxxbif")]


def _h(kind, s):
    M, b = 0xFFFFFFFF, s.encode()
    if kind == "fnv1a":
        h = 0x811C9DC5
        for c in b: h = ((h ^ c) * 0x01000193) & M
    elif kind == "fnv1":
        h = 0x811C9DC5
        for c in b: h = ((h * 0x01000193) & M) ^ c
    elif kind == "djb2":
        h = 5381
        for c in b: h = (h * 33 + c) & M
    elif kind == "djb2x":
        h = 5381
        for c in b: h = ((h * 33) & M) ^ c
    elif kind == "sdbm":
        h = 0
        for c in b: h = (c + (h << 6) + (h << 16) - h) & M
    elif kind == "crc32":
        import zlib
        h = zlib.crc32(b) & M
    else:
        return None
    return h


for _k, _a, _b in HASH_COLLISIONS:      # the tabulated pairs are re-computed where the hash is cheap to state
    assert _a != _b and (_h(_k, _a) is None or _h(_k, _a) == _h(_k, _b)), (_k, _a, _b)

SPECIAL_NAMES = ["a.b.c", "ratio.", ".hidden", "stats.v", "v", "hidden", "c", "nosuch.v", "with space", "na\u00efve.\u00e9", "", ".", "..", "b.c"] + \
                [x for _k, _a, _b in HASH_COLLISIONS for x in (_a, _b)]
COLLISION0 = 14            # index of the first colliding name in SPECIAL_NAMES
SPECIAL0 = 19001


def name_str(i):
    """identifier -> column name (same scheme as harness/h_schema.c name_of_id): names with dots, leading / trailing dots,
    spaces, non-ASCII bytes, the empty name; 20000+k is "ghost.n<k>", 30000+k "n<k>.", 40000+k ".n<k>" """
    if i == 0:
        return "schema"
    if i >= 40000:
        return ".n%d" % (i - 40000)
    if i >= 30000:
        return "n%d." % (i - 30000)
    if i >= 20000:
        return "ghost.n%d" % (i - 20000)
    if SPECIAL0 <= i < SPECIAL0 + len(SPECIAL_NAMES):
        return SPECIAL_NAMES[i - SPECIAL0]
    return "n%d" % i


def dotted_finds(names, rng, k=6):
    """lookups that must answer -1 unless they are real names: <anything>.<existing leaf>, <leaf>., .<leaf>, table names"""
    base = [n for n in names if 0 < n < 9000]
    out = []
    for n in rng.sample(base, min(len(base), k)):
        out += [20000 + n, 30000 + n, 40000 + n]
    out += rng.sample(range(SPECIAL0, SPECIAL0 + len(SPECIAL_NAMES)), 4)
    return out


def file_of(els, leaves=None, order=None, rng=None):
    """footer with the element list; when `leaves` is given, one row group with a chunk per leaf; `order` permutes the fields
    of every SchemaElement and of FileMetaData (legal in the compact protocol: the tree must come out the same)"""
    se = []
    for e in els:
        se.append(pq.permute(pq.schema_element(
            name=None if e["name"] is None else name_str(e["name"]),
            type=e["type"] if e["hastype"] else None,
            type_length=e["tlen"] if e.get("tlen_present", e["tlen"] != 0) else None,
            repetition=e["rep"] if e["hasrep"] else None,
            num_children=e["nc"] if e.get("nc_present", e["nc"] != 0) else None,
            logical=None if e["logical"] is None else logical_tuple(e.get("lwire") or e["logical"]),
            **(e.get("extras") or {})), order, rng))
    rgs = []
    if leaves is not None:
        rgs = [pq.row_group([pq.column_chunk(l[3], [name_str(l[2])], 0) for l in leaves], 0)]
    return pq.parquet_file(pq.permute(pq.file_metadata(se, 0, rgs), order if order in ("desc", "shuffle") else None, rng))


def tree_case(root_rep, forest, rng, with_rg, extra_finds=()):
    els = [dict(name=0, hastype=0, type=0, tlen=0, hasrep=0 if root_rep is None else 1,
                rep=0 if root_rep is None else root_rep, nc=len(forest), logical=None)]
    for t in forest:
        flatten(t, els)
    lv = []
    leaves_of(forest, lv)
    # logical types on groups too (LIST, MAP, or a newer union member that must be skipped): the rest of the tree must stay intact
    for e in els[1:]:
        if not e["hastype"] and rng.random() < 0.12:
            c = rng.choice([20000, 30000, (0, rng.choice(RAW_LOGICALS)), (0, rng.choice(RAW_LOGICALS))])
            e["logical"], e["lwire"] = (c[0], c[1]) if isinstance(c, tuple) else (c, None)
    # fields of SchemaElement no accessor exposes (converted_type, scale, precision, field_id) and a field from the future:
    # parsed or skipped, the rest of the element and of the tree stays intact
    for e in els:
        if rng.random() < 0.15:
            e["extras"] = dict(converted_type=rng.choice([None, 0, 5, 21]), scale=rng.choice([None, 2]), precision=rng.choice([None, 9]),
                               field_id=rng.choice([None, 1, -7, 2**31 - 1]), unknown_field=rng.random() < 0.5)
    names = sorted({e["name"] for e in els})
    finds = names[:12] + [n for n in names if n >= 9000][:6] + dotted_finds(names, rng) + list(extra_finds)
    order = rng.choice(pq.ORDERS) if rng.random() < 0.3 else None
    data = file_of(els, lv if with_rg else None, order, rng)
    ttxt = "%s.0[%s]" % ("-" if root_rep is None else root_rep, ";".join(tree_text(t) for t in forest))
    return "schema %s %s %s %d %s" % (data.hex(), elems_text(els), ",".join(map(str, finds)) or "-", 1 if with_rg else 0, ttxt)


def list_case(els, finds):
    return "schema %s %s %s 0 -" % (file_of(els).hex(), elems_text(els), ",".join(map(str, finds)) or "-")


# ------------------------------------------------------------------ generators

def gen_exhaustive(maxn, rng):
    lines = []
    for n in range(1, maxn + 1):
        for sh in shapes(n):
            for reps in itertools.product((0, 1, 2), repeat=n):
                forest = label(sh, iter(reps), rng, Namer(rng))
                lines.append(tree_case(rng.choice([None, None, 0, 1, 2]), forest, rng, with_rg=(n <= 4)))
    return lines


def random_forest(rng, budget, depth, namer):
    """random forest with exactly `budget` nodes (>= 1) and nesting <= depth"""
    out = []
    while budget > 0:
        take = budget if rng.random() < 0.25 else rng.randint(1, budget)
        r = rng.randrange(3)
        nm = namer()
        if take == 1 or depth <= 1:
            ty, tlen, lg = leaf_payload(rng)
            out.append(("L", r, nm, ty, tlen, lg))
            budget -= 1
        else:
            out.append(("G", r, nm, random_forest(rng, take - 1, depth - 1, namer)))
            budget -= take
    return out


def chain(depth, reps, rng):
    t = ("L", reps[-1], depth + 1, pq.INT32, 0, None)
    for i in range(depth - 1, -1, -1):
        t = ("G", reps[i], i + 1, [t])
    return [t]


def gen_random(tier, rng):
    lines = []
    k = 400 if tier == "quick" else 4000
    for i in range(k):
        n = rng.choice([1, 2, 3, 8, 20, 50, 200]) if rng.random() < 0.3 else rng.randint(1, 200)
        forest = random_forest(rng, n, rng.randint(1, 12), Namer(rng, dup=rng.choice([0, 0, 0.2, 0.6]), dots=rng.choice([0, 0.1, 0.3])))
        lines.append(tree_case(rng.choice([None, 0, 1, 2]), forest, rng, with_rg=rng.random() < 0.5, extra_finds=(9999,)))
    # a group as last child, sibling groups after deep ones, deep chains
    for d in (1, 2, 3, 12, 13, 40, 200):
        for reps in ((1,) * (d + 1), (2,) * (d + 1), tuple(rng.randrange(3) for _ in range(d + 1))):
            lines.append(tree_case(None, chain(d, reps, rng), rng, with_rg=True))
    deep = [2000] if tier == "quick" else [2000, 4000]
    for d in deep:
        lines.append(tree_case(None, chain(d, tuple(rng.choice((1, 2)) for _ in range(d + 1)), rng), rng, with_rg=False))
    # CARQUET_MAX_SCHEMA_ELEMENTS is 10000: root + 9998 groups + leaf.  The extracted specification is too slow at this
    # depth (it recomputes subtree sizes), so this one is compared with the model only.
    li = tree_case(None, chain(9998, tuple(rng.choice((0, 1, 2)) for _ in range(9999)), rng), rng, with_rg=False).split()
    li[-1] = "-"
    lines.append(" ".join(li))
    wide = 3000 if tier == "quick" else 9999
    lines.append(tree_case(None, [("L", rng.randrange(3), i + 1, rng.randrange(8), 0, None) for i in range(wide)], rng, with_rg=False))
    return lines


NC_CHOICES = [0, 0, 1, 1, 2, 3, 5, -1, -7, -2**31, I32MAX, I32MAX - 1, 2**30, 65536, 200]


def gen_lists(tier, rng):
    """arbitrary element lists: child counts too large / too small / negative, missing fields, bad enums"""
    lines = []
    k = 1500 if tier == "quick" else 15000
    for i in range(k):
        n = rng.choice([0, 1, 2, 3]) if rng.random() < 0.2 else rng.randint(1, 14)
        els = []
        for j in range(n):
            nc = rng.choice(NC_CHOICES) if rng.random() < 0.7 else rng.randint(-3, n + 2)
            hastype = 1 if (nc == 0 and rng.random() < 0.9) or rng.random() < 0.1 else 0
            hasrep = 0 if (j == 0 and rng.random() < 0.7) or rng.random() < 0.1 else 1
            els.append(dict(name=None if rng.random() < 0.08 else rng.randint(0, 6), hastype=hastype,
                            type=rng.choice([0, 1, 2, 3, 4, 5, 6, 7, 9, -1]) if hastype else 0,
                            tlen=rng.choice([0, 0, 16, -4]), hasrep=hasrep,
                            rep=rng.choice([0, 1, 2, 2, 1, 3, -1, 77]) if hasrep else 0, nc=nc,
                            nc_present=(nc != 0 or rng.random() < 0.3),
                            logical=rng.choice(LOGICALS) if rng.random() < 0.15 else None))
        lines.append(list_case(els, [0, 1, 2, 3, 4, 5, 6, 7]))
    # empty groups inside otherwise well-formed trees (not valid Parquet: treated as lists)
    for i in range(60 if tier == "quick" else 600):
        forest = random_forest(rng, rng.randint(2, 30), 6, Namer(rng))
        els = [dict(name=0, hastype=0, type=0, tlen=0, hasrep=0, rep=0, nc=len(forest), logical=None)]
        for t in forest:
            flatten(t, els)
        for e in els[1:]:
            if e["hastype"] and rng.random() < 0.3:
                e["hastype"], e["type"] = 0, 0          # a group without children
        lines.append(list_case(els, [1, 2, 3]))
    return lines


def hostile_lists(tier):
    """DESIGN section 6 F10: nested groups whose child count exceeds the remaining elements"""
    out = []
    for depth in ([3, 60, 3000] if tier == "quick" else [3, 60, 3000, 9998]):
        els = [dict(name=0, hastype=0, type=0, tlen=0, hasrep=0, rep=0, nc=I32MAX, logical=None)]
        for i in range(depth):
            els.append(dict(name=i + 1, hastype=0, type=0, tlen=0, hasrep=1, rep=1, nc=I32MAX, logical=None))
        els.append(dict(name=depth + 1, hastype=1, type=1, tlen=0, hasrep=1, rep=0, nc=0, logical=None))
        out.append(list_case(els, [depth + 1]))
    return out


def gen_collisions(tier, rng):
    """sibling columns whose names collide under a 32-bit string hash, in both orders, and lookups of the absent partner"""
    lines = []
    for i in range(len(HASH_COLLISIONS)):
        a, b = SPECIAL0 + COLLISION0 + 2 * i, SPECIAL0 + COLLISION0 + 2 * i + 1
        for first, second, present in ((a, b, True), (b, a, True), (a, b, False), (b, a, False)):
            ty, tlen, lg = leaf_payload(rng)
            leaves = [("L", rng.randrange(3), 1, 1, 0, None), ("L", rng.randrange(3), first, ty, tlen, lg)]
            if present:
                leaves.append(("L", rng.randrange(3), second, 2, 0, None))
            leaves.append(("L", 0, 2, 5, 0, None))
            forest = leaves if rng.random() < 0.5 else [leaves[0], ("G", rng.randrange(3), 3, leaves[1:])]
            lines.append(tree_case(None, forest, rng, with_rg=False, extra_finds=(a, b)))
            bl = [(l[0], l[1], l[2], l[3], l[4], None) for l in leaves]       # the builder calls carry no logical type here
            ops = ",".join("c:%d:%d:-:%d:%d" % (l[2], l[3], l[1], l[4]) for l in bl)
            lines.append("builder %s %s -.0[%s]" % (ops, ",".join(map(str, [a, b, 1, 2])), ";".join(tree_text(t) for t in bl)))
    return lines


def gen_builder(tier, rng):
    lines = []
    k = 120 if tier == "quick" else 1200
    for i in range(k):
        n = rng.choice([0, 1, 2, 62, 63, 64, 65, 66, 127, 128, 129, 255, 256, 257, 300]) if rng.random() < 0.5 else rng.randint(0, 300)
        mixed = rng.random() < 0.35
        namer = Namer(rng, dup=rng.choice([0, 0, 0.1]), dots=rng.choice([0, 0, 0.15]))
        ops, leaves = [], []
        for j in range(n):
            if mixed and rng.random() < 0.15:
                ops.append("g:%d:%d:%d" % (namer(), rng.choice([0, 1, 2, 2, 3]), rng.choice([-1, 0, 0, 1, 5, -2])))
            else:
                ty, tlen, lg = leaf_payload(rng)
                if isinstance(lg, tuple):
                    lg = None                       # the builder API cannot express an unknown logical type
                rp = rng.choice([0, 1, 2]) if not mixed else rng.choice([0, 1, 2, 2, 3, -1])
                nm = namer()
                ops.append("c:%d:%d:%s:%d:%d" % (nm, ty, "-" if lg is None else lg, rp, tlen))
                leaves.append(("L", rp, nm, ty, tlen, lg))
        lnames = sorted({l[2] for l in leaves})
        finds = lnames[:10] + [n for n in lnames if n >= 9000][:6] + (dotted_finds(lnames, rng, 3) if lnames else []) + [0, 8999]
        tree = "-" if mixed else "-.0[%s]" % ";".join(tree_text(t) for t in leaves)
        lines.append("builder %s %s %s" % (",".join(ops) or "-", ",".join(map(str, finds)), tree))
    return lines


# ------------------------------------------------------------------ judging one case

def kv(line):
    d = {}
    for t in line.split()[1:]:
        if "=" in t:
            a, b = t.split("=", 1)
            d[a] = b
    return d


def lst(s):
    return [] if s in ("-", "", None) else s.split(",")


def judge(line, impl, model):
    """-> list of (kind, text); kind 'violation' = the property's own oracle (extracted specification, safety,
    termination) fails on the implementation; 'tie' = model/generator disagreement"""
    out = []
    toks = line.split()
    is_builder = toks[0] == "builder"
    tree = toks[-1]
    spec = None
    mtxt = model
    if " | " in model:
        mtxt, spec = model.split(" | ", 1)
    if impl.startswith("FAULT"):
        out.append(("violation", "implementation did not survive the case: " + impl))
        return out
    if is_builder and impl.startswith("OK"):
        # documented effects of the builder calls, independent of the model: add_column returns CARQUET_OK and appends a column;
        # add_group under the root (parent -1 or 0) returns the index of the new element; the root counts its children
        n_el, n_col, want_rets = 1, 0, []
        for op in lst(toks[1]):
            f_ = op.split(":")
            if f_[0] == "c":
                want_rets.append("0"); n_el += 1; n_col += 1
            elif f_[3] in ("-1", "0"):
                want_rets.append(str(n_el)); n_el += 1
            else:
                want_rets.append(None)          # other parents: not specified
        a0 = kv(impl.rpartition(" RT=")[0] if " RT=" in impl else impl)
        got_rets = lst(a0.get("rets"))
        if len(got_rets) != len(want_rets) or any(w is not None and g != w for g, w in zip(got_rets, want_rets)):
            bad_i = next((i for i, (g, w) in enumerate(zip(got_rets, want_rets)) if w is not None and g != w), len(got_rets))
            out.append(("violation", "builder call #%d returned %s, documented result %s" % (bad_i, got_rets[bad_i:bad_i + 1], want_rets[bad_i:bad_i + 1])))
        elif None not in want_rets:
            if a0.get("n") != str(n_el) or a0.get("k") != str(n_col):
                out.append(("violation", "after %d add_column and %d add_group calls the schema has %s elements / %s columns" % (n_col, n_el - 1 - n_col, a0.get("n"), a0.get("k"))))
            if a0.get("rootnc") != str(n_el - 1):
                out.append(("violation", "the root element counts %s children, %d elements were added under it" % (a0.get("rootnc"), n_el - 1)))
        # every element added under the root (column or group): leaf flag, repetition and the textbook levels of a top-level node
        if len(got_rets) == len(want_rets) and all(w is None or g == w for g, w in zip(got_rets, want_rets)):
            Eb = [x.split("/") for x in lst(a0.get("E"))]
            i_ = 0
            for op, g_ in zip(lst(toks[1]), got_rets):
                f_ = op.split(":")
                if f_[0] == "g" and g_ == "-1":
                    continue                     # refused (parent other than the root): no element
                i_ += 1
                rp = f_[4] if f_[0] == "c" else f_[2]
                want_e = ["1" if f_[0] == "c" else "0", rp, "1" if rp in ("1", "2") else "0", "1" if rp == "2" else "0"]
                if i_ < len(Eb) and len(Eb[i_]) == 8 and [Eb[i_][1], Eb[i_][5], Eb[i_][6], Eb[i_][7]] != want_e:
                    out.append(("violation", "builder element %d (%s): is_leaf/repetition/max_def/max_rep %s, a top-level node with that repetition has %s"
                                % (i_, "column" if f_[0] == "c" else "group", [Eb[i_][1], Eb[i_][5], Eb[i_][6], Eb[i_][7]], want_e)))
                    break
    if is_builder and " RT=" in impl:
        impl, _, rt = impl.rpartition(" RT=")
        if rt != "same":
            out.append(("violation", "a file written with the builder's schema is read back with different columns/levels: " + rt))
    if mtxt.startswith("FAULT") or mtxt.startswith("RUNNER-ERROR"):
        out.append(("tie", "model: " + mtxt[:200]))
    elif impl != mtxt:
        a, b = kv(impl), kv(mtxt)
        diff = [k for k in sorted(set(a) | set(b)) if a.get(k) != b.get(k)]
        out.append(("tie", "model and implementation differ in %s: impl %s / model %s" % (
            diff or "status", {k: a.get(k, impl[:40])[:120] for k in diff[:3]}, {k: b.get(k, mtxt[:40])[:120] for k in diff[:3]})))
    if tree == "-":
        return out
    # ---- property oracle: the extracted specification
    if spec is None or not spec.startswith("SPEC"):
        out.append(("tie", "specification runner gave no answer: %r" % (spec,)))
        return out
    s = kv("x " + spec[5:])
    if s.get("WF") != "1":
        out.append(("tie", "generator produced a tree with an empty group"))
        return out
    if not impl.startswith("OK"):
        out.append(("violation", "a well-formed schema is rejected: " + impl))
        return out
    a = kv(impl)
    cols = [c.split("/") for c in lst(s["C"])]          # ei/name/type/tlen/logical/rep/def/rep
    L = [x.split("/") for x in lst(a["L"])]
    E = [x.split("/") for x in lst(a["E"])]             # name/isleaf/type/tlen/logical/rep/maxdef/maxrep
    if a["k"] != s["k"] or (not is_builder and a["kr"] != s["k"]) or len(L) != len(cols):
        out.append(("violation", "number of columns %s (reader: %s), the schema has %s leaves" % (a["k"], a.get("kr"), s["k"])))
        return out
    FL = [x.split("/") for x in lst(s["FL"])]           # name/hastype/type/tlen/hasrep/rep/nc/logical
    if not is_builder:
        own = [x.split("/") for x in lst(toks[2])]
        if [o[:7] + ([o[7]] if o[1] == "1" else []) for o in own] != [f[:7] + ([f[7]] if f[1] == "1" else []) for f in FL]:
            out.append(("tie", "the generator's flattening differs from SchemaTree.schema_of"))
        for i, (e, o) in enumerate(zip(E, own)):
            if o[1] == "0" and e[4] != o[7]:
                out.append(("violation", "group element %d: logical type accessor gives %s, the file states %s" % (i, e[4], o[7])))
    if a["n"] != str(len(FL)) or len(E) != len(FL):
        out.append(("violation", "num_elements %s, the file states %d" % (a["n"], len(FL))))
        return out
    for i, (c, l) in enumerate(zip(cols, L)):
        if l[0] != c[0]:
            out.append(("violation", "column %d is element %s, depth-first leaf order says %s" % (i, l[0], c[0])))
            continue
        if l[1] != c[6] or l[2] != c[7]:
            out.append(("violation", "column %d (element %s): max def/rep level %s/%s, textbook %s/%s" % (i, l[0], l[1], l[2], c[6], c[7])))
        e = E[int(l[0])]
        got = [e[0], e[2], e[3], e[4], e[5]]
        want = [c[1], c[2], c[3], c[4], c[5]]
        if got != want or e[1] != "1":
            out.append(("violation", "column %d accessors name/type/type_length/logical/repetition %s is_leaf=%s, the file states %s" % (i, got, e[1], want)))
        if e[6] != c[6] or e[7] != c[7]:
            out.append(("violation", "carquet_schema_node_max_def/rep_level of column %d: %s/%s, textbook %s/%s" % (i, e[6], e[7], c[6], c[7])))
    N = [x.split("/") for x in lst(s["N"])]
    for i, (e, f, nl) in enumerate(zip(E, FL, N)):
        if [e[0], e[1], e[5]] != [f[0], f[1], f[5]] or (f[1] == "1" and [e[2], e[3], e[4]] != [f[2], f[3], f[7]]):
            out.append(("violation", "element %d accessors %s, the file states %s" % (i, e, f)))
        if i > 0 and [e[6], e[7]] != nl and not is_builder:
            out.append(("violation", "node %d max def/rep level %s/%s, textbook %s/%s" % (i, e[6], e[7], nl[0], nl[1])))
    if a.get("X") != "00":
        out.append(("violation", "carquet_schema_get_element returns a node for an index outside [0, num_elements)"))
    if lst(a["F"]) != lst(s["F"]):
        out.append(("violation", "carquet_schema_find_column gives %s, first column of that name is %s" % (a["F"][:100], s["F"][:100])))
    if not is_builder and toks[4] == "1":
        R = [x.split("/") for x in lst(a["R"])]
        want = [[c[6], c[7], c[3]] for c in cols]
        if R != want:
            out.append(("violation", "column readers take max def/rep/type_length %s, textbook %s" % (R[:6], want[:6])))
    return out


def run_cases(rep, drv, run, lines, what, dist):
    impl, p1 = run_sharded(drv, lines)
    model, p2 = run_sharded(run, lines)
    for pr in p1:
        err = pr[2]
        k = max(err.find("ERROR: AddressSanitizer"), err.find("runtime error"))
        err = err[k - 40 if k > 40 else 0:][:700] if k >= 0 else err[-700:]
        rep.violation("%s: implementation driver died (rc=%s) %s" % (what, pr[1], " ".join(err.split())), {"case": pr[3]})
    for pr in p2:
        rep.tie_broken("%s: model runner died (rc=%s): %s" % (what, pr[1], pr[2][-300:]), pr[3])
    nv = 0
    for li, a, b in zip(lines, impl, model):
        rep.count(li)
        dist[what] = dist.get(what, 0) + 1
        if a == "FAULT died":
            continue   # already reported through p1 for the first case of the shard
        try:
            verdicts = judge(li, a, b)
        except Exception as ex:      # unparsable output of a changed tree is a violation with this case as replay, never a crash
            verdicts = [("violation", "the driver's answer cannot be interpreted (%s: %s): %s" % (type(ex).__name__, ex, a[:300]))]
        for kind, text in verdicts:
            nv += 1
            if kind == "violation":
                rep.violation(what + ": " + text, {"case": li, "impl": a[:2000], "model": b[:2000]})
            else:
                rep.tie_broken(what + ": " + text, li[:3000])
    return nv


def run(tier):
    rep = Report(PID, tier)
    rng = random.Random(vlib.SEED * 7919 + 17)
    prelude(rep, PID)
    sys.setrecursionlimit(200000)      # a translator imported by the prelude lowers it; the 9998-deep chain needs it
    rep.cov["trusted_base"] = vlib.TRUSTED_BASE_COMMON + [
        "checks/pq_min.py: the independent Thrift-compact / footer writer that turns element lists into files",
        "modelled, not verified: parse_schema_element / parse_logical_type (src/thrift/parquet_types.c) are exercised through the files but have no Gallina model here (C13 owns the Thrift layer); allocation failure in the builder (C19)",
        "stack use of the recursive traversal is bounded by the element-count limit (theorem traverse_depth_bounded); the frame size is not measured here (C04)",
    ]
    maxn = 6 if tier == "quick" else 7
    rep.cov["rule"] = ("every ordered forest with <= %d nodes below the root x every labelling by {REQUIRED, OPTIONAL, REPEATED} "
                       "(random physical/logical types, random root repetition); random forests to 200 nodes / depth 12 with duplicate names; "
                       "chains to depth 2000/4000 against the specification and to depth 9998 against the model, flat schemas to 9999 columns; arbitrary element lists with child counts in "
                       "{0, small, negative, > remaining, INT32_MAX}; builder sequences of 0..300 calls; distinct by full case text" % maxn)
    try:
        drv = build_driver("h_schema")
        run_ = build_runner("schema")
    except vlib.BuildError as e:
        rep.tie_broken("harness does not build against the current tree: " + str(e)[:800])
        return rep.finish()
    dist = {}
    # corpus first
    corpus = sorted((vlib.VERIF / "corpus" / PID).glob("*.case")) if (vlib.VERIF / "corpus" / PID).exists() else []
    clines = [p.read_text().strip() for p in corpus]
    if clines:
        run_cases(rep, drv, run_, clines, "corpus", dist)
    # hostile child counts: each in its own process so that a time-out costs one case
    for li in hostile_lists(tier):
        rep.count(li)
        dist["hostile"] = dist.get("hostile", 0) + 1
        try:
            out, rc, err = vlib.run_lines(drv, [li], timeout=60)
        except Exception as e:
            out, rc, err = [], -9, "timeout"
        if rc != 0 or not out or out[0].startswith("FAULT"):
            nel = li.split()[2].count(",") + 1
            rep.violation("opening a footer with %d schema elements whose child counts exceed the remaining elements does not "
                          "finish within 20 s (rc=%s %s)" % (nel, rc, " ".join((out[0] if out else err[-300:]).split())), {"case": li})
        else:
            mo, _, _ = vlib.run_lines(run_, [li], timeout=300)
            try:
                hv = judge(li, out[0], mo[0] if mo else "RUNNER-ERROR none")
            except Exception as ex:
                hv = [("violation", "the driver's answer cannot be interpreted (%s): %s" % (ex, out[0][:300]))]
            for kind, text in hv:
                (rep.violation if kind == "violation" else rep.tie_broken)("hostile: " + text, {"case": li} if kind == "violation" else li[:2000])
    run_cases(rep, drv, run_, gen_exhaustive(maxn, rng), "exhaustive", dist)
    run_cases(rep, drv, run_, gen_random(tier, rng), "random", dist)
    run_cases(rep, drv, run_, gen_lists(tier, rng), "lists", dist)
    run_cases(rep, drv, run_, gen_builder(tier, rng), "builder", dist)
    run_cases(rep, drv, run_, gen_collisions(tier, rng), "hash_collisions", dist)
    rep.cov["input_distribution"] = dist
    ex = tree_case(None, label(shapes(4)[9], iter((1, 2, 0, 1)), rng, Namer(rng)), rng, True)
    rep.sample({"op": "schema", "tree": ex.split()[-1], "file_hex": ex.split()[1]})
    rep.sample({"op": "list", "elements(name/hastype/type/tlen/hasrep/rep/num_children/logical)": hostile_lists("quick")[0].split()[2]})
    rep.sample({"op": "builder", "calls": gen_builder("quick", random.Random(5))[3].split()[1][:300]})
    return rep.finish()


def replay(path):
    j = json.loads(Path(path).read_text())
    r = j.get("replay", {})
    case = r.get("case") if isinstance(r, dict) else None
    if not case:
        for x in j.get("no_longer_checks", []):
            if x.get("first_case"):
                case = x["first_case"]
                break
    if not case:
        print(json.dumps(j, indent=1)[:3000])
        return 1
    sys.setrecursionlimit(200000)
    drv = build_driver("h_schema")
    run_ = build_runner("schema")
    try:
        out, rc, err = vlib.run_lines(drv, [case], timeout=60)
    except Exception:
        out, rc, err = [], -9, "timeout"
    mo, _, _ = vlib.run_lines(run_, [case], timeout=600)
    print("case:", case[:600])
    print("implementation:", (out[0] if out else "")[:1500], "rc", rc)
    print("model | spec:  ", (mo[0] if mo else "")[:3000])
    if err:
        print(err[-2000:])
    if rc != 0 or not out:
        return 1
    try:
        res = judge(case, out[0], mo[0] if mo else "RUNNER-ERROR none")
    except Exception as ex:
        res = [("violation", "the driver's answer cannot be interpreted (%s: %s)" % (type(ex).__name__, ex))]
    for kind, text in res:
        print(kind.upper() + ":", text)
    return 1 if res else 0
