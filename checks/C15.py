"""C15 - every SIMD kernel equals its scalar definition at every ISA level.

Proof: coq/theories/Props/Properties_C15.v
       dispatcher   - for EVERY capability set the selected kernel needs only features the set provides
                      (table regenerated from src/simd/dispatch.c, requirements from the intrinsic inventory and
                      the CMake flags of src/simd/x86/*.c), plus the refutation for the pinned table (F28);
       kernels      - per modelled kernel and ISA: model = scalar model for every count and input, and every
                      load/store inside [0, count*width) (see design.d/C15.md for the list).
Tie:   (a) tools/gen.d/dispatch.py regenerates Gen/Dispatch_gen.v and Gen/Intrinsics_gen.v on every run;
       (b) harness/h_simd.c calls every carquet_{sse,avx2,avx512}_* kernel, the scalar definitions of dispatch.c
           and the carquet_dispatch_* entry points (under capability masks, through the CARQUET_VERIF_CPU_CAP
           hook in detect.c) on exact-size heap buffers at src/dst misalignments 0..63 for every count 0..N,
           compares them with an independent re-implementation, and the result with the extracted Coq models;
           the dispatcher's selection under every mask is compared with the model and with a direct
           evaluation of the regenerated table; each modelled intrinsic is executed on the hardware and
           compared with its Gallina semantics.
"""
import random, json, sys, os, re, importlib.util, subprocess
from pathlib import Path
from concurrent.futures import ThreadPoolExecutor
import vlib
from vlib import Report, prelude, build_driver, build_runner, run_sharded, hexs, log

PID = "C15"
M32, M64 = (1 << 32) - 1, (1 << 64) - 1


def _translator():
    f = vlib.VERIF / "tools" / "gen.d" / "dispatch.py"
    spec = importlib.util.spec_from_file_location("gen_dispatch_c15", f)
    mod = importlib.util.module_from_spec(spec)
    spec.loader.exec_module(mod)
    return mod


# ------------------------------------------------------------------------------------------- which op covers which kernel

# kernel symbol -> (harness op, variant).  Every function the translator finds in src/simd/x86/*.c must be here.
def kernel_ops():
    m = {}
    for isa in ("sse", "avx2", "avx512"):
        p = "carquet_%s_" % isa
        for k, op in (("prefix_sum_i32", "psum32"), ("prefix_sum_i64", "psum64"), ("gather_i32", "gather32"),
                      ("gather_i64", "gather64"), ("gather_float", "gatherf"), ("gather_double", "gatherd"),
                      ("byte_stream_split_encode_float", "bssef"), ("byte_stream_split_decode_float", "bssdf"),
                      ("unpack_bools", "unpackb"), ("pack_bools", "packb"), ("find_run_length_i32", "runlen")):
            m[p + k] = (op, isa)
    for isa in ("sse", "avx2"):
        m["carquet_%s_byte_stream_split_encode_double" % isa] = ("bssed", isa)
        m["carquet_%s_byte_stream_split_decode_double" % isa] = ("bssdd", isa)
    for k, op in (("crc32c", "crc32c"), ("match_copy", "mcopy"), ("match_length", "mlen"), ("count_non_nulls", "nonnull"),
                  ("build_null_bitmap", "nullbm"), ("fill_def_levels", "filldef"), ("memset_small", "mset"),
                  ("memcpy_small", "mcpy")):
        m["carquet_sse_" + k] = (op, "sse")
    for isa in ("avx2", "avx512"):
        m["carquet_%s_memset" % isa] = ("mset", isa)
        m["carquet_%s_memcpy" % isa] = ("mcpy", isa)
    for name, bu in (("carquet_sse_bitunpack32_1bit", "sse_32_1"), ("carquet_sse_bitunpack8_4bit", "sse_8_4"),
                     ("carquet_sse_bitunpack8_8bit", "sse_8_8"), ("carquet_avx2_bitunpack64_1bit", "avx2_64_1"),
                     ("carquet_avx2_bitunpack16_4bit", "avx2_16_4"), ("carquet_avx2_bitunpack16_8bit", "avx2_16_8"),
                     ("carquet_avx2_bitunpack8_16bit", "avx2_8_16"), ("carquet_avx512_bitunpack32_8bit", "avx512_32_8"),
                     ("carquet_avx512_bitunpack16_16bit", "avx512_16_16"), ("carquet_avx512_bitunpack32_4bit", "avx512_32_4")):
        m[name] = ("bu:" + bu, name.split("_")[1])
    return m


BU = {"sse_32_1": 4, "sse_8_4": 4, "sse_8_8": 8, "avx2_64_1": 8, "avx2_16_4": 8, "avx2_16_8": 16, "avx2_8_16": 16,
      "avx512_32_8": 32, "avx512_16_16": 32, "avx512_32_4": 16}
DISPATCH_OPS = {"prefix_sum_i32": "psum32", "prefix_sum_i64": "psum64", "gather_i32": "gather32", "gather_i64": "gather64",
                "gather_float": "gatherf", "gather_double": "gatherd", "byte_split_encode_float": "bssef",
                "byte_split_decode_float": "bssdf", "byte_split_encode_double": "bssed", "byte_split_decode_double": "bssdd",
                "unpack_bools": "unpackb", "pack_bools": "packb", "find_run_length_i32": "runlen", "crc32c": "crc32c",
                "match_copy": "mcopy", "match_length": "mlen", "count_non_nulls": "nonnull",
                "build_null_bitmap": "nullbm", "fill_def_levels": "filldef"}


# ------------------------------------------------------------------------------------------- case generation

def le(vals, w):
    return b"".join(int(v % (1 << (8 * w))).to_bytes(w, "little") for v in vals)


def rb(rng, n):
    return bytes(rng.getrandbits(8) for _ in range(n))


FLOATS = [0x00000000, 0x80000000, 0x7f800000, 0xff800000, 0x7fc00000, 0x7fc00001, 0xffc00000, 0x7f800001, 0x00000001,
          0x807fffff, 0x3f800000, 0xffffffff]
DOUBLES = [0, 1 << 63, 0x7ff0000000000000, 0xfff0000000000000, 0x7ff8000000000000, 0x7ff0000000000001, 1,
           0x800fffffffffffff, 0x3ff0000000000000, M64]


def gen_cases(tier, rng):
    """list of (op, params(str), nontrivial, flavours) ; flavours: 'sp' = sanitizer and plain builds, 'p' = plain only"""
    C = []
    thorough = tier == "thorough"

    def add(op, params, nontrivial=True, fl="sp"):
        C.append((op, params, nontrivial, fl))

    # prefix sums: counts 0..4*16+3 / 0..4*8+3
    for op, w, N in (("psum32", 4, 67), ("psum64", 8, 35)):
        bits = 8 * w
        for n in range(N + 1):
            small = [rng.randrange(-(1 << 20), 1 << 20) for _ in range(n)]
            add(op, "%d %x %s" % (n, rng.randrange(-(1 << 20), 1 << 20) % (1 << bits), hexs(le(small, w))), n > 0)
            mx = (1 << (bits - 1)) - 1
            bound = [mx if i % 2 == 0 else -mx for i in range(n)]
            add(op, "%d %x %s" % (n, 0, hexs(le(bound, w))), n > 0)
            # overflow-wrapping: signed overflow is undefined in the C scalar definition, the compiled code wraps;
            # executed in the plain (no UBSan) build only
            wrap = [rng.getrandbits(bits) for _ in range(n)]
            add(op, "%d %x %s" % (n, rng.getrandbits(bits), hexs(le(wrap, w))), n > 0, "p")
            wrap2 = [mx for _ in range(n)]
            add(op, "%d %x %s" % (n, mx, hexs(le(wrap2, w))), n > 0, "p")
    # gathers
    for op, w, N, special in (("gather32", 4, 67, None), ("gatherf", 4, 67, FLOATS), ("gather64", 8, 35, None),
                              ("gatherd", 8, 35, DOUBLES)):
        for n in range(N + 1):
            dl = rng.randrange(1, 40)
            d = [rng.getrandbits(8 * w) for _ in range(dl)]
            if special:
                for i in range(dl):
                    if rng.random() < 0.5:
                        d[i] = rng.choice(special)
            idx = [rng.randrange(dl) for _ in range(n)]
            add(op, "%d %d %s %s" % (n, dl, hexs(le(d, w)), hexs(le(idx, 4))), n > 0)
            # boundary: every index is the last / the first entry, dictionary of exactly that size
            add(op, "%d %d %s %s" % (n, dl, hexs(le(d, w)), hexs(le([dl - 1] * n, 4))), n > 0)
            add(op, "%d %d %s %s" % (n, 1, hexs(le(d[:1], w)), hexs(le([0] * n, 4))), n > 0)
    # byte stream split
    for op, w, N in (("bssef", 4, 67), ("bssdf", 4, 67), ("bssed", 8, 35), ("bssdd", 8, 35)):
        for n in range(N + 1):
            add(op, "%d %s" % (n, hexs(rb(rng, n * w))), n > 0)
            add(op, "%d %s" % (n, hexs(bytes((i * 7 + 1) % 251 for i in range(n * w)))), n > 0)
            add(op, "%d %s" % (n, hexs(bytes(rng.choice((0, 0xff, 0x80, 0x7f)) for _ in range(n * w)))), n > 0)
    # booleans: counts 0..4*64+3
    for n in range(0, 260):
        nb = (n + 7) // 8
        add("unpackb", "%d %s" % (n, hexs(rb(rng, nb))), n > 0)
        add("unpackb", "%d %s" % (n, hexs(b"\xff" * nb)), n > 0)
        add("unpackb", "%d %s" % (n, hexs(bytes(rng.choice((0x55, 0xaa, 0x01, 0x80)) for _ in range(nb)))), n > 0)
        add("packb", "%d %s" % (n, hexs(bytes(rng.getrandbits(1) for _ in range(n)))), n > 0)
        add("packb", "%d %s" % (n, hexs(b"\x01" * n)), n > 0)
        add("packb", "%d %s" % (n, hexs(bytes((i % 3 == 0) for i in range(n)))), n > 0)
    # run length: all equal, and a mismatch at every position
    for n in range(0, 68):
        first = rng.getrandbits(32)
        add("runlen", "%d %s" % (n, hexs(le([first] * n, 4))), n > 0)
        for k in range(1, n):
            other = first ^ (1 << rng.choice((0, 7, 8, 15, 16, 24, 31)))
            vals = [first] * k + [other] + [rng.choice((first, other)) for _ in range(n - k - 1)]
            add("runlen", "%d %s" % (n, hexs(le(vals, 4))))
    # crc32c
    for n in range(0, 68):
        add("crc32c", "%x %s" % (0, hexs(rb(rng, n))), n > 0)
        add("crc32c", "%x %s" % (rng.getrandbits(32), hexs(rb(rng, n))), n > 0)
        add("crc32c", "%x %s" % (M32, hexs(bytes(n))), n > 0)
    add("crc32c", "0 313233343536373839")
    # match copy: offsets around the case split of both implementations x lengths 0..67
    for off in (1, 2, 3, 4, 5, 7, 8, 9, 15, 16, 17, 31, 32, 33, 64):
        for n in range(0, 68):
            add("mcopy", "%d %d %s" % (n, off, hexs(rb(rng, off + rng.randrange(0, 4)))), n > 0)
    # match length: equal buffers and a first difference at every position
    for n in range(0, 68):
        a = rb(rng, n)
        add("mlen", "%s %s" % (hexs(a), hexs(a)), n > 0)
        for k in range(n):
            b = bytearray(a)
            b[k] ^= 1 << rng.randrange(8)
            for j in range(k + 1, n):
                if rng.random() < 0.3:
                    b[j] ^= 0xff
            add("mlen", "%s %s" % (hexs(a), hexs(bytes(b))))
    # definition levels: counts 0..4*8+3
    for n in range(0, 36):
        for mx in (0, 1, 3, 0x7fff, 0xffff, 0x8000):
            lv = [rng.choice((0, 1, 2, 3, mx, (mx - 1) & 0xffff, (mx + 1) & 0xffff, 0x8000, 0x7fff, 0xffff)) for _ in range(n)]
            add("nonnull", "%d %x %s" % (n, mx, hexs(le(lv, 2))), n > 0)
            add("nullbm", "%d %x %s %x" % (n, mx, hexs(le(lv, 2)), 0), n > 0)
            add("nullbm", "%d %x %s %x" % (n, mx, hexs(le(lv, 2)), rng.choice((0xff, 0xa5))), n > 0)
        for v in (0, 1, 0x7fff, 0x8000, 0xffff, rng.getrandbits(16)):
            add("filldef", "%d %x" % (n, v), n > 0)
    # fixed-width bit unpackers
    for name, nin in BU.items():
        for _ in range(30 if thorough else 12):
            add("bu", "%s %s" % (name, hexs(rb(rng, nin))))
        add("bu", "%s %s" % (name, hexs(b"\xff" * nin)))
        add("bu", "%s %s" % (name, hexs(bytes(nin))))
    # encoding-layer entry points above the dispatcher (src/encoding/byte_stream_split.c): float/double wrappers and the
    # generic FLBA transposition; capacity exact / one byte short / NULL output / negative count / type_length 0
    for kind, w in (("ef", 4), ("df", 4), ("ed", 8), ("dd", 8)):
        for n in range(0, 36):
            add("bapi_" + kind, "%d 0 %s" % (n, hexs(rb(rng, n * w))), n > 0)
        for n in (1, 4, 17):
            add("bapi_" + kind, "%d 1 %s" % (n, hexs(rb(rng, n * w))))
            add("bapi_" + kind, "%d 2 %s" % (n, hexs(rb(rng, n * w))))
    for k in (1, 2, 3, 5, 12, 16):
        for n in range(0, 10):
            add("bapi_e%d" % k, "%d 0 %s" % (n, hexs(rb(rng, n * k))), n > 0)
            add("bapi_d%d" % k, "%d 0 %s" % (n, hexs(rb(rng, n * k))), n > 0)
        add("bapi_e%d" % k, "3 1 %s" % hexs(rb(rng, 3 * k)))
        add("bapi_d%d" % k, "3 1 %s" % hexs(rb(rng, 3 * k)))
        add("bapi_d%d" % k, "3 3 %s" % hexs(rb(rng, 3 * k)))
        add("bapi_e%d" % k, "3 2 %s" % hexs(rb(rng, 3 * k)))
    add("bapi_e0", "2 0 -")
    add("bapi_d0", "2 0 -")
    # memset / memcpy helpers: every length 0..4*64+3 and beyond the 256-byte unrolled loop
    for n in list(range(0, 260)) + [300, 511, 512, 513, 600, 777]:
        add("mset", "%d %x" % (n, rng.getrandbits(8)), n > 0)
        add("mcpy", "%s" % hexs(rb(rng, n)), n > 0)
    return C


BIG_OPS = ["psum32", "psum64", "gather32", "gatherf", "gather64", "gatherd", "bssef", "bssdf", "bssed", "bssdd", "unpackb", "packb",
           "runlen", "crc32c", "mcopy", "mlen", "nonnull", "nullbm", "filldef", "mset", "mcpy"]
BIG_COUNTS = [2**15 - 1, 2**15, 2**16 - 1, 2**16, 2**16 + 1, 2**18 - 1, 2**18, 2**18 + 9, 2**19, 2**20 + 3]
BIG_PATTERNS = ["dense", "sparse", "every8"]


def gen_big_cases():
    """large-count stream: every kernel whose result or loop structure depends on count x counts around 2^15 .. 2^20 x
    dense / sparse / every-8th data (generated inside the driver from pattern + seed).  The Coq kernel theorems cover every
    count in the model; this stream is what ties large counts (lane counters, accumulators, index arithmetic) to the C code."""
    cs = [(op, "%d %s %d" % (n, pat, vlib.SEED), True, "sp") for n in BIG_COUNTS for pat in BIG_PATTERNS for op in BIG_OPS]
    # the wrappers of the encoding layer sit ABOVE the dispatcher: counts around 4096 / 32768 / 65536 (a blocked wrapper would
    # be wrong at every ISA level)
    for n in (4095, 4096, 4097, 8193, 32767, 32768, 32769, 65535, 65536, 65537, 2**18 + 9):
        for pat in BIG_PATTERNS:
            for kind in ("ef", "df", "ed", "dd", "e12", "d12"):
                cs.append(("bapi_" + kind, "%d %s %d" % (n, pat, vlib.SEED), True, "sp"))
    random.Random(vlib.SEED).shuffle(cs)        # spread the expensive counts over the shards
    return cs


def big_line(c, variants, aligns):
    return "big %s %s %s %s" % (c[0], variants, aligns, c[1])


def case_line(c, variants, aligns):
    return "%s %s %s %s" % (c[0], variants, aligns, c[1])


# ------------------------------------------------------------------------------------------- running

def run_resilient(exe, lines, env=None, rounds=40):
    """run_sharded, then re-run whatever a dying shard did not reach.  Returns (outputs, crashes) where crashes is a
    list of (line index, stderr tail)."""
    out, probs = run_sharded(exe, lines, env=env)
    crashes = []
    stderr_of = {}
    for pr in probs:
        if pr[3] is not None:
            stderr_of[pr[3]] = pr[2]
    for _ in range(rounds):
        pend = [i for i, o in enumerate(out) if o == "FAULT died"]
        if not pend:
            break
        o, rc, err = vlib.run_lines(exe, [lines[i] for i in pend], env=env)
        for k, v in enumerate(o[:len(pend)]):
            out[pend[k]] = v
        if len(o) < len(pend):
            i = pend[len(o)]
            out[i] = "FAULT crashed rc=%s" % rc
            crashes.append((i, err[-2500:]))
    # cases that printed their own FAULT line before dying
    for i, o in enumerate(out):
        if o.startswith("FAULT asan"):
            crashes.append((i, stderr_of.get(lines[i], "")[-2500:]))
    return out, crashes


def closure(caps, T):
    imp = {"sse2": ["sse"], "sse3": ["sse2"], "ssse3": ["sse3"], "sse41": ["ssse3"], "sse42": ["sse41"], "avx": ["sse42"],
           "avx2": ["avx"], "avx512f": ["avx2"], "avx512bw": ["avx512f"], "avx512vl": ["avx512f"],
           "avx512vbmi": ["avx512bw"], "avx512cd": ["avx512f"]}
    out, todo = set(), list(caps)
    while todo:
        f = todo.pop()
        if f not in out:
            out.add(f)
            todo += imp.get(f, [])
    return out


def py_select(an, caps):
    t = dict(an["dispatch"]["base"])
    for feats, asg in an["dispatch"]["blocks"]:
        if all(f in caps for f in feats):
            for s, k in asg:
                t[s] = k
    return t


_MNEMONICS = {
    "bmi2": r"\b(shlx|shrx|sarx|rorx|pdep|pext|bzhi|mulx)\b",
    "avx512bw": r"\b(kmovq|kmovd|kaddq|kaddd|ktestq|ktestd|kunpckdq|kunpckwd|kshift[lr][qd]|vmovdqu8|vmovdqu16|vptestn?m[bw]|"
                r"vpmov[bw]2m|vpmovm2[bw]|vpermw|vpblendm[bw])\b|\b(vpshufb|vpbroadcast[bw]|vpadd[bw]|vpsub[bw]|vpminu[bw]|"
                r"vpmaxu[bw]|vpcmpeq[bw]|vpcmpu?[bw]|vpunpck[lh]bw|vpunpck[lh]wd|vpack[us]swb|vpmullw|vps[lr]lw|vpabs[bw])\b.*(%zmm|%k[0-7])",
    "avx512vl": r"\b(vmovdqu(8|16|32|64)|vmovdqa(32|64)|vpternlog[dq]|valign[dq]|vpcmp\w*)\b(?!.*%zmm).*(%[xy]mm|%k[0-7])|%[xy]mm(1[6-9]|2[0-9]|3[01])|%[xy]mm\d+\{%k",
    "avx512f": r"%zmm|%k[0-7]",
    "avx2": r"\bvp\w+\b.*%ymm|\bvpgather|\bv(inserti128|extracti128|perm2i128|permd|permq|pbroadcast[bwdq])\b",
    "avx": r"%ymm|\tv[a-z]",
    "sse42": r"\b(crc32[bwlq]?|pcmp[ei]str[im]|pcmpgtq|popcnt)\b",
    "sse41": r"\b(pextr[bdq]|pinsr[bdq]|pmovzx\w+|pmovsx\w+|ptest|pblend\w+|pmulld|pminu[wd]|pmaxu[wd]|pmins[bd]|pmaxs[bd]|roundp[sd])\b",
    "ssse3": r"\b(pshufb|palignr|pabs[bwd]|phadd\w+|pmaddubsw)\b",
}


def objdump_evidence(an, symbol, feature):
    """instructions of ISA extension `feature` inside `symbol`, in the object compiled with the flags CMake uses (-O2)"""
    try:
        rel = an["inventory"][symbol]["file"]
        d = vlib.BUILD / "simd_evidence"
        d.mkdir(parents=True, exist_ok=True)
        o = d / (Path(rel).stem + ".o")
        cmd = (["gcc", "-std=gnu11", "-O2", "-DNDEBUG", "-DCARQUET_ARCH_X86", "-DCARQUET_ENABLE_SSE", "-DCARQUET_ENABLE_AVX2",
                "-DCARQUET_ENABLE_AVX512"] + an["flags"][rel] + ["-I", str(vlib.REPO / "include"), "-I", str(vlib.REPO / "src"),
               "-c", str(vlib.REPO / rel), "-o", str(o)])
        if vlib.sh(cmd).returncode != 0:
            return []
        dis = vlib.sh(["objdump", "-d", "--no-show-raw-insn", str(o)]).stdout
        m = re.search(r"^[0-9a-f]+ <%s>:\n(.*?)(?=^\s*$|\Z)" % re.escape(symbol), dis, re.S | re.M)
        if not m or feature not in _MNEMONICS:
            return []
        pat = re.compile(_MNEMONICS[feature])
        return [" ".join(l.split("\t")[1:]).strip() for l in m.group(1).splitlines() if pat.search(l)][:6]
    except Exception as e:  # evidence only
        return ["(objdump failed: %s)" % e]


def mask_env(feats):
    return {"CARQUET_VERIF_CPU_CAP": ",".join(feats) if feats else "none"}


def parse_dispatch_line(s):
    t = s.split()
    if len(t) < 3 or t[0] != "OK":
        return None, None
    caps = t[1].split("=", 1)[1]
    return caps, dict(x.split("=", 1) for x in t[2:])


def check_dispatcher(rep, tier, rng, an, summary, drv, run_):
    detected = an["detected"]
    slots = an["dispatch"]["slots"]
    knames = summary["Dispatch_kernel_names"] if summary else None
    relevant = sorted({f for feats, _ in an["dispatch"]["blocks"] for f in feats}, key=detected.index)
    masks = []
    if tier == "thorough":
        for m in range(1 << len(detected)):
            masks.append([f for i, f in enumerate(detected) if m >> i & 1])
    else:
        # every capability set a real CPU can report (closed under the nesting of the extensions) ...
        for m in range(1 << len(detected)):
            fs = [f for i, f in enumerate(detected) if m >> i & 1]
            if closure(fs, None) & set(detected) == set(fs):
                masks.append(fs)
        # ... every combination of the features the table tests, alone ...
        for m in range(1 << len(relevant)):
            fs = [f for i, f in enumerate(relevant) if m >> i & 1]
            if fs not in masks:
                masks.append(fs)
        # ... and random ones
        for _ in range(16):
            masks.append([f for f in detected if rng.random() < 0.5])
    host, _, _ = vlib.run_lines(drv, ["dispatch"])
    hostcaps, _ = parse_dispatch_line(host[0] if host else "")
    if hostcaps is None:
        rep.tie_broken("harness `dispatch` failed on the host: %r" % host[:1])
        return []
    hostset = {f for f, b in zip(detected, hostcaps) if b == "1"}
    # detection itself, against an independent reading of CPUID (libgcc's __builtin_cpu_supports) on the uncapped host
    indep = dict(x.split("=", 1) for x in host[0].split()[1:]).get("indep")
    rep.count("detect host", nontrivial=True)
    # only OVER-reporting matters for the property (a kernel of an ISA level the machine lacks would be selected);
    # reporting fewer features than the machine has merely selects a lower, equally correct level
    if indep is not None and len(indep) == len(hostcaps) and any(a == "1" and b == "0" for a, b in zip(hostcaps, indep)):
        rep.violation("carquet_get_cpu_info() claims a feature the machine does not offer: it reports %s for (%s), an independent CPUID reading gives %s"
                      % (hostcaps, ",".join(detected), indep), {"kind": "dispatch", "mask": list(detected), "detect": [hostcaps, indep]})
    rep.cov["host_features"] = sorted(hostset, key=detected.index)

    def one(feats):
        o, rc, err = vlib.run_lines(drv, ["dispatch"], env=mask_env(feats))
        return o[0] if o else "FAULT rc=%s %s" % (rc, err[-300:])

    with ThreadPoolExecutor(vlib.NCPU) as ex:
        impl = list(ex.map(one, masks))
    bits_of = lambda caps: "".join("1" if f in caps else "0" for f in detected)
    model = (run_sharded(run_, ["dispatch " + bits_of(set(m) & hostset) for m in masks])[0] if knames
             else ["SKIP"] * len(masks))
    nviol = 0
    for feats, a, b in zip(masks, impl, model):
        eff = set(feats) & hostset
        key = "dispatch mask=" + (",".join(feats) or "none")
        rep.count(key, nontrivial=bool(eff))
        caps_s, sel = parse_dispatch_line(a)
        if sel is None:
            rep.violation("dispatcher driver failed under %s: %s" % (key, a[:300]), {"kind": "dispatch", "mask": feats})
            continue
        if caps_s != bits_of(eff):
            rep.tie_broken("CPU-cap hook: asked to keep %s, detection reports %s" % (feats, caps_s), key)
        # property oracle on the implementation: what it selected must be executable on a CPU with exactly these features
        cl = closure(eff, None)
        for s in slots:
            k = sel.get(s)
            inv = an["inventory"].get(k)
            if k is None or (inv is None and not k.startswith("scalar_")):
                rep.violation("slot %s holds %s under %s" % (s, k, key), {"kind": "dispatch", "mask": feats, "slot": s})
                continue
            if inv is None:
                continue
            need = set(inv["features"])
            flags = {_translator().FLAG_FEATURE[f] for f in an["flags"][inv["file"]]}
            for what, req in (("uses intrinsics of", need), ("is compiled with -m flags for", flags)):
                miss = sorted(req - cl)
                if miss and nviol < 6:
                    nviol += 1
                    ev = {f: objdump_evidence(an, k, f) for f in miss}
                    rep.violation("dispatcher selects %s for slot %s on a CPU reporting {%s}, but it %s %s (instructions found: %s)"
                                  % (k, s, ",".join(sorted(eff, key=detected.index)), what, miss, ev),
                                  {"kind": "dispatch", "mask": feats, "slot": s, "symbol": k, "missing": miss, "evidence": ev})
        # tie: implementation == direct evaluation of the regenerated table == extracted Coq model
        want = py_select(an, eff)
        if any(sel.get(s) != want[s] for s in slots):
            rep.tie_broken("dispatch table read by the translator does not predict the implementation under %s: %s"
                           % (key, {s: (sel.get(s), want[s]) for s in slots if sel.get(s) != want[s]}), key)
        _, msel = parse_dispatch_line(b)
        if knames is None:
            pass            # Gen/*.v could not be regenerated: the extracted model is stale, not compared
        elif msel is None:
            rep.tie_broken("model runner failed on %s: %s" % (key, b[:200]), key)
        else:
            mm = {slots[int(i)]: (knames[int(k)] if k != "none" else None) for i, k in msel.items()}
            if any(mm.get(s) != sel.get(s) for s in slots):
                rep.tie_broken("DispatchModel.select differs from the implementation under %s: %s"
                               % (key, {s: (sel.get(s), mm.get(s)) for s in slots if mm.get(s) != sel.get(s)}), key)
    rep.sample({"op": "dispatch", "mask": masks[-1], "selected": impl[-1][:200]})
    rep.cov["dispatcher_masks"] = len(masks)
    return relevant


def check_kernels(rep, tier, rng, an, drv, drv_plain, run_, relevant):
    cases = gen_cases(tier, rng)
    aligns = "all" if tier == "thorough" else "s6:%d" % (vlib.SEED * 131 + 7)
    inv_cover = kernel_ops()
    for k, v in an["inventory"].items():
        if not v["static"] and k not in inv_cover:
            rep.tie_broken("kernel %s (%s) has no differential coverage in checks/C15.py / harness/h_simd.c" % (k, v["file"]), k)
    dist = {}

    def judge(flv, mask, lines, outs, crashes, cs):
        crash_at = dict(crashes)
        for i, (li, o, c) in enumerate(zip(lines, outs, cs)):
            rep.count((flv, tuple(mask) if mask is not None else None, li), nontrivial=c[2])
            dist[c[0]] = dist.get(c[0], 0) + 1
            rp = {"kind": "kernel", "flavour": flv, "mask": mask, "case": li}
            if o.startswith("OK "):
                continue
            if o.startswith("DIFF"):
                rep.violation("kernel output differs from the scalar definition: %s  [%s]" % (o[:400], li[:160]), dict(rp, impl=o[:2000]))
            elif o.startswith("FAULT"):
                rep.violation("memory-safety fault in a kernel call: %s  [%s]\n%s" % (o, li[:160], crash_at.get(i, "")[-1800:]),
                              dict(rp, impl=o, stderr=crash_at.get(i, "")[-2500:]))
            else:
                rep.tie_broken("driver could not run the case: %s" % o[:200], li)

    # 1. every variant, directly and through the dispatcher on the full host, sanitizer build
    cs = [c for c in cases if "s" in c[3]]
    lines = [case_line(c, "all", aligns) for c in cs]
    outs, crashes = run_resilient(drv, lines)
    judge("san", None, lines, outs, crashes, cs)
    # model tie on the results of this run
    mo, mp = run_sharded(run_, lines)
    for pr in mp:
        rep.tie_broken("model runner died (rc=%s): %s" % (pr[1], pr[2][-300:]), pr[3])
    modelled = {}
    for li, a, b, c in zip(lines, outs, mo, cs):
        st = modelled.setdefault(c[0], [0, 0])
        if b.startswith("UNMODELLED"):
            st[1] += 1
            continue
        st[0] += 1
        if not a.startswith("OK "):
            continue
        at, bt = a.split(), b.split()
        if bt[0] == "MDIFF":
            rep.tie_broken("extracted kernel models disagree with the extracted scalar model: %s" % b[:300], li)
        elif bt[0] == "MFAULT":
            rep.tie_broken("extracted kernel model reads/writes outside its buffers: %s" % b[:300], li)
        elif bt[:3] != at[:3]:
            rep.tie_broken("extracted model differs from the implementation: model %s / impl %s" % (b[:300], a[:300]), li)
    rep.cov["model_tie_cases"] = {k: {"modelled": v[0], "unmodelled": v[1]} for k, v in sorted(modelled.items())}
    # 2. the same plus overflow-wrapping patterns on the plain build (no UBSan: signed wrap is what the machine does)
    csp = cases if tier == "thorough" else [c for c in cases if c[3] == "p" or c[0] in ("psum32", "psum64")]
    lines = [case_line(c, "all", "s3:%d" % vlib.SEED) for c in csp]
    outs, crashes = run_resilient(drv_plain, lines)
    judge("plain", None, lines, outs, crashes, csp)
    mo, _ = run_sharded(run_, lines)
    for li, a, b in zip(lines, outs, mo):
        if a.startswith("OK ") and not b.startswith("UNMODELLED") and b.split()[:3] != a.split()[:3]:
            rep.tie_broken("extracted model differs from the implementation (plain build): model %s / impl %s" % (b[:300], a[:300]), li)
    # 3. through carquet_dispatch_* under capability masks (hook)
    dops = set(DISPATCH_OPS.values()) | {"bapi_ef", "bapi_df", "bapi_ed", "bapi_dd"}
    csd = [c for c in cs if c[0] in dops]
    det = an["detected"]
    if tier == "thorough":
        mlist = []
        for m in range(1 << len(relevant)):
            mlist.append(sorted([f for i, f in enumerate(relevant) if m >> i & 1] + [f for f in det if f not in relevant], key=det.index))
    else:
        lad = ["sse2", "sse41", "sse42", "avx", "avx2", "avx512f", "avx512bw", "avx512vl", "avx512vbmi"]
        mlist = [[], lad[:2], lad[:4], lad[:5], lad[:6], lad[:7], [f for f in lad if f != "avx512bw"], lad]
        mlist = [[f for f in m if f in det] for m in mlist]
        csd = [c for i, c in enumerate(csd) if i % 3 == vlib.SEED % 3]
    for mask in mlist:
        lines = [case_line(c, "dispatch", "s2:%d" % (vlib.SEED + len(mask))) for c in csd]
        outs, crashes = run_resilient(drv, lines, env=mask_env(mask))
        judge("san", mask, lines, outs, crashes, csd)
    # 4. large counts: all variants on both builds, then the dispatcher entry points under masks
    big = gen_big_cases()
    al = "s6:%d" % vlib.SEED if tier == "thorough" else "s1:%d" % vlib.SEED
    lines = [big_line(c, "all", al) for c in big]
    outs, crashes = run_resilient(drv, lines)
    judge("san", None, lines, outs, crashes, big)
    if tier == "thorough":
        outs, crashes = run_resilient(drv_plain, lines)
        judge("plain", None, lines, outs, crashes, big)
        bmasks, bsel = mlist, [c for c in big if c[0] in dops]
    else:
        lad = ["sse2", "sse41", "sse42", "avx", "avx2", "avx512f", "avx512bw", "avx512vl", "avx512vbmi"]
        bmasks = [[f for f in m if f in det] for m in ([], lad[:4], lad[:5])]
        bsel = [c for i, c in enumerate(big) if c[0] in dops and (i + vlib.SEED) % 2 == 0]
    for mask in bmasks:
        lines = [big_line(c, "dispatch", "s1:%d" % (vlib.SEED + 3)) for c in bsel]
        outs, crashes = run_resilient(drv, lines, env=mask_env(mask))
        judge("san", mask, lines, outs, crashes, bsel)
    rep.cov["large_count_cases"] = {"ops": len(BIG_OPS), "counts": BIG_COUNTS, "patterns": BIG_PATTERNS, "lines": len(big), "masks": len(bmasks)}
    rep.cov["dispatch_masks_differential"] = len(mlist)
    rep.cov["input_distribution"] = dist
    rep.sample({"op": cs[5][0], "case": case_line(cs[5], "all", aligns)[:300]})
    rep.sample({"op": cs[-1][0], "case": case_line(cs[-1], "all", aligns)[:300]})


INTRINSICS_2 = ["_mm_shuffle_epi8", "_mm_unpacklo_epi8", "_mm_unpackhi_epi8", "_mm_unpacklo_epi16", "_mm_unpackhi_epi16",
                "_mm_unpackhi_epi64", "_mm_and_si128", "_mm_min_epu8", "_mm_add_epi16", "_mm_add_epi32", "_mm_add_epi64",
                "_mm_cmpeq_epi8", "_mm_cmpeq_epi16", "_mm_cmpeq_epi32", "_mm_cmplt_epi16", "_mm_mullo_epi16", "_mm_packs_epi16",
                "_mm256_shuffle_epi8", "_mm256_and_si256", "_mm256_min_epu8", "_mm256_add_epi32", "_mm256_add_epi64",
                "_mm256_cmpeq_epi32", "_mm256_inserti128_si256_1", "_mm512_shuffle_epi8", "_mm512_permutexvar_epi32",
                "_mm512_add_epi32", "_mm512_add_epi64", "_mm512_test_epi8_mask", "_mm512_cmpeq_epi32_mask",
                "_mm512_maskz_loadu_epi8", "_mm_crc32_u8", "_mm_crc32_u16", "_mm_crc32_u32", "_mm_crc32_u64"]
INTRINSICS_1 = ["_mm_slli_si128_4", "_mm_slli_si128_8", "_mm_srli_si128_2", "_mm_srli_si128_4", "_mm_srli_si128_8",
                "_mm_slli_epi32_7", "_mm_srli_epi16_4", "_mm_set1_epi8", "_mm_set1_epi16", "_mm_set1_epi32", "_mm_set1_epi64x",
                "_mm_cvtsi32_si128", "_mm_cvtsi64_si128", "_mm_loadl_epi64", "_mm_movemask_epi8", "_mm_cvtsi128_si32",
                "_mm_extract_epi32_3", "_mm_extract_epi16_0", "_mm256_slli_si256_4", "_mm256_slli_si256_8", "_mm256_set1_epi8",
                "_mm256_set1_epi32", "_mm256_set1_epi64x", "_mm256_cvtepu8_epi32", "_mm256_cvtepu16_epi32",
                "_mm256_extracti128_si256_0", "_mm256_extracti128_si256_1", "_mm256_movemask_epi8", "_mm256_extract_epi32_0",
                "_mm256_extract_epi32_4", "_mm256_extract_epi32_7", "_mm512_set1_epi8", "_mm512_set1_epi32", "_mm512_set1_epi64",
                "_mm512_cvtepu8_epi32", "_mm512_cvtepu16_epi32", "_mm512_maskz_set1_epi8_1",
                "_mm512_maskz_alignr_epi32_FFFE_15", "_mm512_maskz_alignr_epi32_FFFC_14", "_mm512_maskz_alignr_epi32_FFF0_12",
                "_mm512_maskz_alignr_epi32_FF00_8", "_mm512_maskz_alignr_epi64_FE_7", "_mm512_maskz_alignr_epi64_FC_6",
                "_mm512_maskz_alignr_epi64_F0_4", "_mm512_castsi512_si128", "_mm512_extracti32x4_epi32_1",
                "_mm512_extracti32x4_epi32_2", "_mm512_extracti32x4_epi32_3"]


def check_intrinsics(rep, tier, rng, drv, run_):
    """each intrinsic whose Gallina semantics the kernel models use: hardware vs extracted X86Sem on random vectors"""
    per = 60 if tier == "thorough" else 12
    lines = []

    def vec(n=64):
        r = rng.random()
        if r < 0.15:
            return bytes(rng.choice((0, 0xff, 0x80, 0x7f, 1)) for _ in range(n))
        if r < 0.3:   # shuffle-control-like bytes: small indices and high bits
            return bytes(rng.choice((rng.randrange(16), 0x80 | rng.randrange(16), rng.randrange(256))) for _ in range(n))
        return rb(rng, n)

    for n in INTRINSICS_2 + INTRINSICS_1:
        for _ in range(per):
            a, b = vec(), vec()
            if n == "_mm512_permutexvar_epi32":
                a = le([rng.getrandbits(32) for _ in range(16)], 4)
            lines.append("intr %s %s %s 0" % (n, hexs(a), hexs(b)))
    impl, p1 = run_sharded(drv, lines)
    model, p2 = run_sharded(run_, lines)
    for pr in p1:
        rep.tie_broken("intrinsic driver died: %s" % pr[2][-300:], pr[3])
    st = {"validated": set(), "unmodelled": set()}
    for li, a, b in zip(lines, impl, model):
        n = li.split()[1]
        rep.count(li)
        if b.startswith("UNMODELLED"):
            st["unmodelled"].add(n)
            continue
        st["validated"].add(n)
        if a != b:
            rep.tie_broken("X86Sem semantics of %s differs from the hardware: model %s / hardware %s" % (n, b[:200], a[:200]), li)
    rep.cov["intrinsics_validated_against_hardware"] = sorted(st["validated"])
    rep.cov["intrinsics_not_modelled"] = sorted(st["unmodelled"] - st["validated"])


def diversify(rep):
    """Report.finish prints the first five violations: put one of each kind (operation x variant / dispatcher symbol file) first,
    and write the complete list next to the replay files."""
    def cat(v):
        what, rp, _ = v
        if rp.get("kind") == "dispatch":
            return ("dispatch", str(rp.get("missing")), (rp.get("symbol") or "")[:13])
        m = re.search(r"variant=(\w+)", rp.get("impl", ""))
        return ("kernel", (rp.get("case") or "").split(" ")[0], m.group(1) if m else "?", (rp.get("impl") or "")[:5])
    seen, first, rest = set(), [], []
    for v in rep.violations:
        c = cat(v)
        (rest if c in seen else first).append(v)
        seen.add(c)
    rep.violations = first + rest
    rep.cov["violation_kinds"] = sorted(" ".join(map(str, c)) for c in seen)
    try:
        (vlib.VERIF / "build" / "replay" / "C15_all.txt").write_text(
            "\n".join("%s | %s" % (w[:400].replace("\n", " "), json.dumps(r)[:600]) for w, r, _ in rep.violations) + "\n")
    except Exception:
        pass


KERNEL_STATUS_NOTE = {
    "legend": "(a) proved equal to scalar in Props/Properties_C15.v, (b) modelled in Coq and tied by differential execution, (c) differential run only; see design.d/C15.md",
    "a": ["byte_stream_split encode/decode float (sse, avx2, avx512)", "byte_stream_split encode/decode double (sse, avx2)",
          "unpack_bools (sse, avx2, avx512)", "pack_bools (sse, avx2: inputs 0/1; avx512)", "prefix_sum_i32/i64 (sse, avx2, avx512)",
          "gather_i32/float, gather_i64/double (sse, avx2, avx512)", "count_non_nulls (sse)", "build_null_bitmap (sse)",
          "fill_def_levels (sse)", "memset/memcpy helpers (sse, avx2, avx512)", "find_run_length_i32 (sse, avx2, avx512)",
          "match_length (sse)", "match_copy (sse)", "crc32c (sse)", "fixed-width bit unpackers (3 sse, 4 avx2, 3 avx512)"],
    "b": [],
    "c": ["not kernels: the encoding-layer wrappers of src/encoding/byte_stream_split.c (capacity check + dispatcher call, generic FLBA "
          "transposition) are covered by the differential run only"],
}


def run(tier):
    rep = Report(PID, tier)
    rng = random.Random(vlib.SEED * 7919 + 15)
    prelude(rep, PID)
    rep.cov["trusted_base"] = vlib.TRUSTED_BASE_COMMON + [
        "architectural knowledge in Simd/DispatchModel.v: the nesting of the x86 extensions (avx512bw => avx512f => avx2 => avx => sse4.2 => ... => sse), i.e. the implication order of the compiler's -m flags",
        "tools/gen.d/dispatch.py: intrinsic -> ISA feature table (cross-checked against the #pragma GCC target sections of gcc 12's intrinsic headers on every run), regular-expression reading of carquet_simd_dispatch_init and of CMakeLists.txt COMPILE_FLAGS",
        "the Gallina semantics of each intrinsic in Simd/X86Sem.v (validated against this host's hardware on random vectors on every run, not proved against a vendor specification)",
        "signed overflow in the scalar prefix sums is modelled as two's-complement wrap (what the compiled code does; undefined in ISO C) - wrap-around inputs are executed on a build without UBSan",
        "kernels not modelled in Coq are covered by the differential run only (coverage.kernel_status)",
    ]
    rep.cov["rule"] = ("every kernel x every count 0..N (N = 4 vector widths + 3 of the widest variant) x value patterns (random, boundary, "
                       "wrap-around) x variants {scalar, sse, avx2, avx512, dispatch} x src/dst misalignments (quick: (0,0), (max,max) and 6 "
                       "random pairs of 0..63; thorough: all legal pairs), plus dispatch entry points under capability masks and the "
                       "selection under masks (quick: the 12 realistic sets + all combinations of the features the table tests + 16 random; thorough: all 2^9); "
                       "plus a large-count stream (21 kernels x counts 2^15-1 .. 2^20+3 x dense/sparse/every-8th data generated in the driver, all variants, "
                       "dispatcher under masks); "
                       "one evaluation = one case line on one build/mask (each line is many kernel calls); non-trivial = count > 0")
    mod = _translator()
    summary = None
    try:
        an = mod.analyse(vlib.REPO)
        summary = mod.generate(vlib.REPO, vlib.COQ / "theories" / "Gen")
    except Exception as e:
        # tie (a) is broken (already reported by prelude); keep searching for a concrete failing input with what can still be read
        rep.tie_broken("translator failed: %s" % e)
        try:
            an = mod.analyse(vlib.REPO, strict=False)
        except Exception:
            an = {"dispatch": None, "inventory": {}, "flags": {}, "errors": [str(e)],
                  "detected": ["sse2", "sse41", "sse42", "avx", "avx2", "avx512f", "avx512bw", "avx512vl", "avx512vbmi"]}
    try:
        drv = build_driver("h_simd")
        drv_plain = build_driver("h_simd", flavour="plain")
        run_ = build_runner("simd")
    except vlib.BuildError as e:
        rep.tie_broken("harness does not build against the current tree: " + str(e)[:800])
        return rep.finish()
    if an["dispatch"] is not None:
        relevant = check_dispatcher(rep, tier, rng, an, summary, drv, run_)
    else:
        relevant = ["sse42", "avx2", "avx512f", "avx512bw", "avx512vl"]
    check_kernels(rep, tier, rng, an, drv, drv_plain, run_, relevant)
    check_intrinsics(rep, tier, rng, drv, run_)
    rep.cov["kernel_status"] = KERNEL_STATUS_NOTE
    diversify(rep)
    return rep.finish()


def replay(path):
    j = json.loads(Path(path).read_text())
    r = j.get("replay") or {}
    if not r:
        print(json.dumps(j, indent=1))
        return 1
    if r.get("kind") == "dispatch":
        mod = _translator()
        an = mod.analyse(vlib.REPO)
        drv = build_driver("h_simd")
        out, rc, err = vlib.run_lines(drv, ["dispatch"], env=mask_env(r["mask"]))
        print("mask:", r["mask"], "\nimplementation:", out)
        caps_s, sel = parse_dispatch_line(out[0] if out else "")
        if sel is None:
            return 1
        eff = {f for f, b in zip(an["detected"], caps_s) if b == "1"}
        cl, bad = closure(eff, None), 0
        for s, k in sel.items():
            inv = an["inventory"].get(k)
            if inv:
                need = set(inv["features"]) | {mod.FLAG_FEATURE[f] for f in an["flags"][inv["file"]]}
                if need - cl:
                    print("slot %s -> %s needs %s, CPU reports %s" % (s, k, sorted(need - cl), sorted(eff)))
                    for f in sorted(need - cl):
                        print("   ", f, objdump_evidence(an, k, f))
                    bad = 1
        return bad
    case = r.get("case")
    drv = build_driver("h_simd", flavour=r.get("flavour") or "san")
    env = mask_env(r["mask"]) if r.get("mask") is not None else None
    out, rc, err = vlib.run_lines(drv, [case], env=env)
    print("case:", case, "\nflavour:", r.get("flavour"), "mask:", r.get("mask"))
    print("implementation:", out, "rc", rc)
    if err:
        print(err[-3000:])
    return 0 if (rc == 0 and out and out[0].startswith("OK ")) else 1
