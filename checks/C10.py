"""C10 - built-in Snappy and LZ4 speak the standard formats.

Proof: coq/theories/Props/Properties_C10.v (models Comp/SnappyModel.v, Comp/Lz4Model.v; format relations
       Comp/SnappySpec.v, Comp/Lz4Spec.v with executable decoders proved sound and complete).
Tie:   (a) constants regenerated from snappy.c / lz4.c; (b) on the ASan build of the working tree, with
       exact-size heap buffers:
       1. carquet compress -> extracted spec decoder, independent Python decoder, libsnappy / liblz4
          must all return the input (LZ4: end-of-block rules checked on the parsed structure);
       2. valid streams built by an independent encoder with forms carquet never emits -> carquet
          decompress must return the denoted bytes (libsnappy / liblz4 cross-validate the generator);
       3. malformed mutations -> must be an error status, never a sanitizer report;
       4. the same lines through the extracted models: result class + bytes (decompressors),
          byte-exact output (compressors, reported as "model tie").
"""
import random, json, sys
from pathlib import Path
sys.path.insert(0, str(Path(__file__).resolve().parent))
import vlib
from vlib import Report, prelude, build_driver, build_runner, run_sharded, hexs, log
import comp_lib as CL

PID = "C10"
LIBS = ["-lsnappy", "-llz4"]
MODEL_MAX = 1500          # longest stream / input (bytes) sent through the extracted model


def unhex(h):
    return b"" if h == "-" else bytes.fromhex(h)


# ----------------------------------------------------------------------------- judging one case

def parse_dec_out(out):
    """'OK <hex> lib=OK <hex>' | 'ERR 53 lib=ERR' -> (cls, bytes|None, libcls, libbytes|None)"""
    t = out.split()
    if len(t) < 3 or t[0] not in ("OK", "ERR"):
        return ("FAULT", None, None, None)
    cls = t[0]
    val = unhex(t[1]) if cls == "OK" and t[1] != "OVERFLOW-REPORTED" else None
    if cls == "OK" and t[1] == "OVERFLOW-REPORTED":
        cls = "FAULT"
    lib = t[2][4:]
    lval = unhex(t[3]) if lib == "OK" and len(t) > 3 else None
    return (cls, val, lib, lval)


def expect_dec(op, cap, s):
    """-> (must, content): must in 'OK' (must return content), 'ERR', 'EITHER' (may reject, if OK then content)"""
    if op == "sdec":
        y = CL.snappy_ref_decode(s)
        if y is not None and len(y) <= cap:
            return "OK", y, True
        return "ERR", None, False
    y, kind, seqs, last = CL.lz4_ref_decode(s)
    if kind == "strict" and len(y) <= cap:
        return "OK", y, CL.lz4_end_rules_ok(seqs, last)
    if kind == "open" and len(y) <= cap:
        return "EITHER", y, False
    return "ERR", None, False


def judge_dec(line, out):
    """Property oracle on the implementation for a decompress case; returns list of messages."""
    op, cap, sh = line.split()
    cap = int(cap); s = unhex(sh)
    must, y, endok = expect_dec(op, cap, s)
    cls, val, lib, lval = parse_dec_out(out)
    name = "carquet_snappy_decompress" if op == "sdec" else "carquet_lz4_decompress"
    bad = []
    if cls == "FAULT":
        bad.append(f"{name}: memory error / crash / overflow on this input: {out[:200]}")
    elif must == "OK" and (cls != "OK" or val != y):
        bad.append(f"{name} does not return the bytes a valid stream denotes: got {out.split(' lib=')[0][:120]}, want OK {hexs(y)[:120]}")
    elif must == "ERR" and cls == "OK":
        bad.append(f"{name} accepts a stream the format defines as invalid (or whose output exceeds the destination): returned OK {hexs(val)[:120]}")
    elif must == "EITHER" and cls == "OK" and val != y:
        bad.append(f"{name} returns wrong bytes for a match-terminated sequence series: {hexs(val)[:120]} want {hexs(y)[:120]}")
    return bad, (must, y, endok), (cls, val, lib, lval)


def parse_comp_out(out):
    """'OK <hex> bound=B rt=1 lib=1' | 'ERR code bound=B'"""
    t = out.split()
    if not t or t[0] not in ("OK", "ERR"):
        return None
    d = {"cls": t[0]}
    if t[0] == "OK":
        d["c"] = None if t[1] == "OVERFLOW-REPORTED" else unhex(t[1])
    else:
        d["code"] = t[1]
    for x in t[2:]:
        if "=" in x:
            k, v = x.split("=", 1)
            d[k] = v
    return d


def judge_comp(line, out):
    """Property oracle for 'scomp 0 x' / 'lcomp 0 x' at capacity == bound."""
    op, delta, xh = line.split()
    x = unhex(xh)
    d = parse_comp_out(out)
    name = "carquet_snappy_compress" if op == "scomp" else "carquet_lz4_compress"
    bad = []
    if d is None:
        return [f"{name}: memory error / crash: {out[:200]}"], None
    if d["cls"] == "ERR":
        if int(delta) >= 0:
            bad.append(f"{name} fails with status {d['code']} although the destination has the advertised bound")
        return bad, d
    c = d["c"]
    if c is None:
        return [f"{name} reports more bytes than the destination holds: {out[:200]}"], d
    if op == "scomp":
        y = CL.snappy_ref_decode(c)
        if y != x:
            bad.append(f"{name}: output is not a valid raw Snappy block denoting the input (independent decoder: {'invalid' if y is None else 'different bytes'})")
    else:
        y, kind, seqs, last = CL.lz4_ref_decode(c)
        if kind != "strict" or y != x:
            bad.append(f"{name}: output is not a valid LZ4 block denoting the input (independent decoder: {kind})")
        elif not CL.lz4_end_rules_ok(seqs, last):
            bad.append(f"{name}: output violates the LZ4 end-of-block rules (last literals {last}, last match {seqs[-1][1] if seqs else None})")
    if d.get("lib") != "1":
        bad.append(f"{name}: the reference decoder ({'libsnappy' if op == 'scomp' else 'liblz4'}) does not recover the input")
    if d.get("rt") != "1":
        bad.append(f"{name}: carquet's own decompressor does not recover the input into a buffer of exactly len(x) bytes")
    return bad, d


def judge_slen(line, out):
    s = unhex(line.split()[1])
    want = CL.snappy_preamble_ref(s)
    t = out.split()
    if not t or t[0] not in ("OK", "ERR"):
        return [f"carquet_snappy_get_uncompressed_length: crash: {out[:100]}"]
    if want is None and t[0] == "OK":
        return [f"carquet_snappy_get_uncompressed_length accepts a malformed / overflowing / truncated preamble {s[:6].hex()}: returned {t[1]}"]
    if want is not None and (t[0] != "OK" or int(t[1]) != want):
        return [f"carquet_snappy_get_uncompressed_length returns {out} for the preamble {s[:5].hex()} of length {want}"]
    return []


# ----------------------------------------------------------------------------- decoders

def dec_cases(rng, tier):
    cases = []
    ns = 800 if tier == "quick" else 5000
    for i in range(ns):
        for fmt in ("snappy", "lz4"):
            if fmt == "snappy":
                s, x = CL.gen_snappy_stream(rng)
                op = "sdec"
            else:
                s, x, _ = CL.gen_lz4_stream(rng)
                op = "ldec"
            caps = {len(x), len(x) + rng.choice([1, 7, 100])}
            if len(x) > 0:
                caps.add(len(x) - 1)
                caps.add(rng.randrange(len(x)))
            for cap in sorted(caps):
                cases.append(f"{op} {cap} {hexs(s)}")
            nm = 14 if tier == "quick" else 40
            if fmt == "snappy" and (tier == "thorough" or i % 4 == 0):
                # elements whose length does not fit 32-bit arithmetic, spliced at every element boundary
                for m in CL.overflow_splices(rng, s, limit=None if tier == "thorough" else 3):
                    cases.append(f"{op} {len(x)} {hexs(m)}")
            for m in CL.mutations(rng, s, fmt, limit=nm):
                cap = rng.choice([len(x), len(x), len(x) + 1, len(x) + 64, max(0, len(x) - 1)])
                cases.append(f"{op} {cap} {hexs(m)}")
    # hand-written cases: the defects repaired in /repo and boundary forms
    fixed = [
        "sdec 5 05006101",                       # copy-1 tag as the last input byte (F6)
        "sdec 1 0100610062", "sdec 1 010061ff", "sdec 0 0000",        # bytes after the declared length is reached (F18)
        "sdec 0 8080808010", "sdec 1 81808080100061",                   # preamble above 2^32-1
        "sdec 1 81000061", "sdec 1 81808080000061",                     # non-canonical but valid preambles
        "sdec 5 0500610101", "sdec 5 050061090100", "sdec 5 0500610d01000000",  # overlap copies, all kinds
        "sdec 5 0500610100", "sdec 5 0500610e0000", "sdec 5 0500610f00000000",   # offset 0
        "sdec 5 0500610102", "sdec 5 05006109020000",                   # offset beyond produced
        "sdec 2 02f0006161", "sdec 2 02f40000" + "6161", "sdec 1 01f800000061", "sdec 1 01fc0000000061",  # long length forms
        "sdec 1 01fc00000080", "sdec 70000 f0a204fcffffffff61",          # huge literal length, truncated
        "sdec 2 020061fcffffffff0062", "sdec 2 02fcffffffff00610062", "sdec 2 0200610062fcffffffff", "sdec 1 01fcffffffff0061",
        "sdec 2 020061fcfeffffff0062", "sdec 2 020061f8ffffff0062", "sdec 0 00fcffffffff",   # literal of 2^32 bytes (wraps to 0 in uint32_t)
        "ldec 5 10610100", "ldec 5 1061010000", "ldec 0 -", "ldec 0 00", "ldec 1 1f61", "ldec 1 0f",
        "ldec 5 10610000", "ldec 5 10610200", "ldec 5 106101", "ldec 50 1f610100",
        "ldec 17 10610100c00102030405060708090a0b0c", "ldec 13 146101004001020304",
        "ldec 300 f0ff", "ldec 300 1f610100ff", "ldec 4 10610100",
    ]
    cases += [c for c in fixed if len(c.split()) == 3 and (len(c.split()[2]) % 2 == 0 or c.split()[2] == "-")]
    # large back-references: > 32 KiB / 64 KiB / 128 KiB already produced, copy-4 and copy-2 / LZ4 offsets that
    # carquet's compressors never emit (implementation and reference decoders only)
    for fmt, label, s, x in CL.far_reference_streams(rng, tier):
        op = "sdec" if fmt == "snappy" else "ldec"
        cases.append(f"{op} {len(x)} {hexs(s)}")
        cases.append(f"{op} {len(x) + 5} {hexs(s)}")
        cases.append(f"{op} {len(x) - 1} {hexs(s)}")
        cases.append(f"{op} {len(x)} {hexs(s[:-1])}")
    # a few large streams (implementation and reference only)
    for _ in range(3 if tier == "quick" else 20):
        s, x = CL.gen_snappy_stream(rng, nelems=rng.randrange(3, 8), big=True)
        cases.append(f"sdec {len(x)} {hexs(s)}")
        cases.append(f"sdec {len(x)} {hexs(s[:-1])}")
    return cases


def check_decoders(rep, tier, rng, drv, run):
    cases = []
    cdir = vlib.VERIF / "corpus" / PID
    if cdir.exists():
        for f in sorted(cdir.glob("*.txt")):
            cases += [l.strip() for l in f.read_text().splitlines() if l.strip() and l.split()[0] in ("sdec", "ldec")]
    cases += dec_cases(rng, tier)
    impl, deaths = CL.run_all(vlib, drv, cases)
    for case, rc, summ in deaths:
        rep.violation(f"decompressor: sanitizer report or crash (rc={rc}) on this input: {summ}", {"kind": "dec", "case": case})
    small = [i for i, c in enumerate(cases) if len(c.split()[2]) <= 2 * MODEL_MAX and int(c.split()[1]) <= 4 * MODEL_MAX]
    model, p2 = run_sharded(run, [cases[i] for i in small])
    for pr in p2:
        rep.tie_broken(f"model runner died (rc={pr[1]}): {pr[2][-300:]}", pr[3])
    mod = dict(zip(small, model))
    dist = {"sdec": {"OK": 0, "ERR": 0, "EITHER": 0}, "ldec": {"OK": 0, "ERR": 0, "EITHER": 0}}
    for i, (line, out) in enumerate(zip(cases, impl)):
        if out == "FAULT died":
            continue            # reported through p1 with the case the shard died on
        bad, (must, y, endok), (cls, val, lib, lval) = judge_dec(line, out)
        op, cap, sh = line.split()
        rep.count(line, nontrivial=len(sh) > 2)
        dist[op][must] += 1
        for b in bad:
            rep.violation(b, {"kind": "dec", "case": line, "impl": out[:300]})
        # reference library vs the Python reference (validates the generator / specification)
        if op == "sdec":
            lax = (lib == "OK" and must != "OK" and int(cap) >= len(lval) and CL.snappy_ref_decode(unhex(sh), wrap32=True) == lval
                   and CL.snappy_ref_decode(unhex(sh)) is None)       # libsnappy wraps a 2^32-byte literal length to 0
            if not lax and ((must == "OK") != (lib == "OK") or (lib == "OK" and lval != y)):
                rep.tie_broken(f"libsnappy and the independent Python decoder disagree: lib={lib} python={must}", line)
        else:
            # (liblz4 does not reject offset 0 and enforces part of the end rules: only compare where both accept)
            if lib == "OK" and must != "ERR" and lval != y:
                rep.tie_broken(f"liblz4 and the independent Python decoder decode the same block differently", line)
            if must == "OK" and endok and lib != "OK" and len(y) > 0:     # (liblz4 special-cases an empty destination)
                rep.tie_broken(f"liblz4 rejects a block the Python reference holds valid with end rules respected", line)
        # extracted model and extracted specification
        if i in mod:
            mt = mod[i].split()
            if not mt or mt[0] not in ("OK", "ERR"):
                rep.tie_broken(f"model predicts {mod[i][:80]} for the repaired code", line)
                continue
            mval = unhex(mt[1]) if mt[0] == "OK" else None
            if mt[0] != cls or (cls == "OK" and mval != val):
                rep.tie_broken(f"decompressor model and implementation differ: model {mod[i][:100]} / impl {out[:100]}", line)
            spec = [t for t in mt if t.startswith("spec=")]
            sidx = mt.index(spec[0]) if spec else -1
            if sidx >= 0:
                sp_some = spec[0] == "spec=SOME"
                sp_val = unhex(mt[sidx + 1]) if sp_some else None
                if op == "sdec":
                    py = CL.snappy_ref_decode(unhex(sh))
                else:
                    py, kind, _, _ = CL.lz4_ref_decode(unhex(sh))
                    if kind != "strict":
                        py = None
                if sp_val != py:
                    rep.tie_broken("extracted specification decoder and the Python reference decoder differ", line)
    rep.cov["decoder_case_distribution"] = dist
    rep.sample({"op": "decompress", "case": cases[len(cases) // 3][:200]})
    rep.sample({"op": "decompress", "case": cases[len(cases) // 2][:200]})


# ----------------------------------------------------------------------------- compressors

def check_compressors(rep, tier, rng, drv, run):
    lines = []
    cdir = vlib.VERIF / "corpus" / PID
    if cdir.exists():
        for f in sorted(cdir.glob("*.txt")):
            lines += [l.strip() for l in f.read_text().splitlines() if l.strip() and l.split()[0] in ("scomp", "lcomp")]
    labels = {}
    for codec, op in (("snappy", "scomp"), ("lz4", "lcomp")):
        ins, big = CL.compress_inputs(rng, tier, codec)
        for lab, x in ins + big:
            l = f"{op} 0 {hexs(x)}"
            labels[l] = lab
            lines.append(l)
    impl, deaths = CL.run_all(vlib, drv, lines, timeout=(240 if tier == "quick" else 2400))
    for case, rc, summ in deaths:
        rep.violation(f"compressor: sanitizer report or crash (rc={rc}) on this input: {summ}", {"kind": "comp", "case": case})
    small = [i for i, l in enumerate(lines) if len(l.split()[2]) <= 2 * MODEL_MAX]
    model, p2 = run_sharded(run, [lines[i] for i in small])
    for pr in p2:
        rep.tie_broken(f"model runner died (rc={pr[1]}): {pr[2][-300:]}", (pr[3] or "")[:300])
    mod = dict(zip(small, model))
    spec_lines, spec_idx = [], []
    nmodel_tie = 0
    for i, (line, out) in enumerate(zip(lines, impl)):
        if out == "FAULT died":
            continue
        bad, d = judge_comp(line, out)
        op, _, xh = line.split()
        rep.count(line[:4000], nontrivial=xh != "-")
        for b in bad:
            rep.violation(b, {"kind": "comp", "case": line if len(line) < 200000 else line[:200000], "label": labels.get(line)})
        if d and d["cls"] == "OK" and d.get("c") is not None:
            if len(d["c"]) <= MODEL_MAX:
                spec_lines.append(("sspec " if op == "scomp" else "lspec ") + hexs(d["c"]))
                spec_idx.append(i)
            if i in mod:
                nmodel_tie += 1
                mt = mod[i].split()
                if len(mt) < 2 or mt[0] != "OK" or unhex(mt[1]) != d["c"]:
                    rep.tie_broken(f"model tie: the concrete-hash compressor model does not predict {op}'s bytes: model {mod[i][:80]} / impl {out[:80]}", line[:300])
    # inputs generated in the driver: sizes around every length boundary of the preamble varint, 4 .. 10 MiB
    bl = CL.big_lines(tier)
    bout, bdeaths = CL.run_all(vlib, drv, bl, timeout=(240 if tier == "quick" else 2400))
    for case, rc, summ in bdeaths:
        rep.violation(f"compressor: sanitizer report or crash (rc={rc}) on this input: {summ}", {"kind": "big", "case": case})
    sizes = sorted({int(l.split()[3]) for l in bl})
    extra = sorted(set(sizes + [0, 1, 127, 128, 16383, 16384, (1 << 21) - 1, 1 << 21, (1 << 28) - 1, 1 << 28, (1 << 32) - 1, (1 << 28) + (1 << 21), 0x0FE03F80]))
    vout, _ = run_sharded(run, [f"svarint {n}" for n in extra])
    mv = {}
    for n, o in zip(extra, vout):
        t = o.split()
        mv[n] = unhex(t[1]) if len(t) == 2 and t[0] == "OK" else None
        if mv[n] != CL.varint(n):
            rep.tie_broken(f"model write_varint({n}) = {o} differs from the base-128 varint {CL.varint(n).hex()}", f"svarint {n}")
    for line, out in zip(bl, bout):
        if out == "FAULT died":
            continue
        rep.count(line)
        bad, head = CL.judge_big(line, out)
        for b in bad:
            rep.violation(b, {"kind": "big", "case": line, "impl": out[:200]})
        n = int(line.split()[3])
        if line.split()[1] == "snappy" and head is not None and mv.get(n) is not None and head[:len(mv[n])] != mv[n]:
            rep.tie_broken(f"snappy_write_varint: the implementation's preamble {head[:5].hex()} differs from the model's {mv[n].hex()} for n = {n}", line)
    # copy-4 back-references of 16 MiB and more
    fl = CL.sfar_lines(tier)
    fo, fdeaths = CL.run_all(vlib, drv, fl, timeout=(240 if tier == "quick" else 2400))
    for case, rc, summ in fdeaths:
        rep.violation(f"decompressor: sanitizer report or crash (rc={rc}) on this input: {summ}", {"kind": "sfar", "case": case})
    for line, out in zip(fl, fo):
        if out == "FAULT died":
            continue
        rep.count(line)
        for b in CL.judge_sfar(line, out):
            rep.violation(b, {"kind": "sfar", "case": line, "impl": out})
        if "lib=1" not in out:
            rep.tie_broken("libsnappy does not decode the driver-built far-reference block", line)
    # carquet_snappy_get_uncompressed_length: implementation vs format (Python) vs model
    sl = CL.slen_lines(rng, tier)
    so_i, sdeaths = CL.run_all(vlib, drv, sl)
    for case, rc, summ in sdeaths:
        rep.violation(f"carquet_snappy_get_uncompressed_length: sanitizer report or crash (rc={rc}): {summ}", {"kind": "slen", "case": case})
    so_m, _ = run_sharded(run, sl)
    for line, a, b in zip(sl, so_i, so_m):
        if a == "FAULT died":
            continue
        rep.count(line)
        for m in judge_slen(line, a):
            rep.violation(m, {"kind": "slen", "case": line, "impl": a})
        if a.split()[:1] != b.split()[:1] or (a.startswith("OK") and a != b):
            rep.tie_broken(f"get_uncompressed_length: model {b} / implementation {a}", line)
    # carquet's output through the extracted specification decoder (the property's own oracle)
    sout, p3 = run_sharded(run, spec_lines)
    for pr in p3:
        rep.tie_broken(f"specification runner died (rc={pr[1]}): {pr[2][-300:]}", (pr[3] or "")[:300])
    for i, sl, so in zip(spec_idx, spec_lines, sout):
        x = unhex(lines[i].split()[2])
        st = so.split()
        ok = len(st) >= 2 and st[0] == "SOME" and unhex(st[1]) == x
        if not ok:
            rep.violation(f"{lines[i].split()[0]}: the decoder extracted from the Coq format specification does not recover the input from carquet's output ({so[:60]})",
                          {"kind": "comp", "case": lines[i], "compressed": sl.split()[1]})
        elif sl.startswith("lspec") and "end=1" not in st:
            rep.violation("lcomp: carquet's LZ4 output violates the end-of-block rules (extracted check_end_rules)",
                          {"kind": "comp", "case": lines[i], "compressed": sl.split()[1]})
    rep.cov["compressor_cases"] = {"total": len(lines), "through_extracted_spec": len(spec_lines), "byte_exact_model_tie": nmodel_tie}
    rep.sample({"op": "compress", "case": lines[40][:200]})


def run(tier):
    rep = Report(PID, tier)
    rng = random.Random(vlib.SEED * 7919 + 10)
    prelude(rep, PID)
    rep.cov["trusted_base"] = vlib.TRUSTED_BASE_COMMON + [
        "Comp/SnappySpec.v and Comp/Lz4Spec.v are transcriptions of format_description.txt / lz4_Block_format.md; they are cross-validated on every run against libsnappy 1.1.9 / liblz4 1.9.4 and an independent Python decoder (validation, not proof)",
        "modelled, not verified: src/compression/snappy.c and lz4.c (64-bit size_t; memcpy fast paths modelled by the byte loop they equal when the regions do not overlap; lz4_count's 8-byte compare modelled by the byte loop; NULL-argument checks not modelled)",
        "the byte-exact compressor tie covers inputs up to %d bytes; beyond that (16-bit table aliasing) the theorems hold for every match finder and the implementation is checked against the reference decoders only" % MODEL_MAX,
    ]
    rep.cov["rule"] = ("decoders: random valid streams from an independent encoder (all literal length forms, copy-1/2/4, overlap offsets 1..3, "
                       "255-run extensions, matches ending at the buffer end, non-canonical preambles) x capacities {len-1, random smaller, len, len+k}, "
                       "mutations (every truncation, byte substitutions, zeroed offsets, trailing bytes, declared length +-1, preamble overflow), hand-written boundary cases; "
                       "compressors: empty, 1..20, all-equal, two-symbol, random, literal runs 0..271 x matches 4..275, tails 0..19, offsets around 2048/32768/65535, "
                       "> 64 KiB and > 128 KiB periodic inputs; non-trivial = non-empty stream/input; distinct by case text")
    try:
        drv = build_driver("h_comp", libs=LIBS)
        run_ = build_runner("comp")
    except vlib.BuildError as e:
        rep.tie_broken("harness does not build against the current tree: " + str(e)[:500])
        return rep.finish()
    check_decoders(rep, tier, rng, drv, run_)
    check_compressors(rep, tier, rng, drv, run_)
    if tier == "thorough":
        CL.coqchk(vlib, rep, PID)
    return rep.finish()


def replay(path):
    j = json.loads(Path(path).read_text())
    r = j.get("replay") or {}
    case = r.get("case")
    if not case:
        print(json.dumps(j, indent=1)[:4000])
        return 1
    drv = build_driver("h_comp", libs=LIBS)
    import subprocess
    try:
        out, rc, err = vlib.run_lines(drv, [case], timeout=30)
    except subprocess.TimeoutExpired:
        print("case:", case[:300])
        print("FAILS: no result within 30 s: the call does not terminate or its time is not proportional to the input size")
        return 1
    print("case:", case[:400])
    print("implementation:", (out[0][:400] if out else None), "rc", rc)
    if err:
        print(err[-2500:])
    if rc != 0 or not out:
        return 1
    if case.split()[0] == "big":
        bad = CL.judge_big(case, out[0])[0]
    elif case.split()[0] == "sfar":
        bad = CL.judge_sfar(case, out[0])
    elif case.split()[0] == "slen":
        bad = judge_slen(case, out[0])
    elif case.split()[0] in ("sdec", "ldec"):
        bad = judge_dec(case, out[0])[0]
    else:
        bad, d = judge_comp(case, out[0])
        if not bad and d and d.get("c") is not None and len(d["c"]) <= MODEL_MAX:
            run_ = build_runner("comp")
            op = "sspec " if case.startswith("scomp") else "lspec "
            so, _, _ = vlib.run_lines(run_, [op + hexs(d["c"])])
            print("extracted specification:", so[0][:200] if so else None)
            x = case.split()[2]
            if not so or so[0].split()[:2] != ["SOME", x] or (op == "lspec " and "end=1" not in so[0]):
                bad = ["extracted specification decoder does not recover the input / end rules violated"]
    for b in bad:
        print("FAILS:", b)
    return 1 if bad else 0
