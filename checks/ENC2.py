"""ENC2 - development entry of the enc2 engine (not a registered property): runs the enc2 parts of C11 and C12
(checks/c11_enc2.py) with the engine's own proof file Props/Properties_ENC2.v.

  ./check ENC2 quick | thorough | --replay <path>
"""
import random, json, sys
from pathlib import Path
import vlib
from vlib import Report, prelude
import c11_enc2

PID = "ENC2"


def run(tier):
    rep = Report(PID, tier)
    rng = random.Random(vlib.SEED * 7919 + 1112)
    prelude(rep, PID)
    rep.cov["trusted_base"] = vlib.TRUSTED_BASE_COMMON + [
        "checks/enc_ref.py: Python transcription of the Parquet Encodings document (PLAIN, DELTA_*, BYTE_STREAM_SPLIT), "
        "cross-checked against the extracted Coq specifications Enc/{Plain,Bss,Delta}Spec.v",
        "modelled, not verified: src/encoding/{plain,delta,delta_length,delta_strings,byte_stream_split,dictionary}.c; "
        "bit packing enters DeltaModel through its arithmetic definition (Enc/DeltaBits.v), the byte loops of "
        "src/core/bitpack.c are the RLE engine's; the dictionary index stream through the RLE engine's model",
    ]
    rep.cov["rule"] = ("per encoding: value sequences aimed at the case splits of the proofs (delta widths 0..64 x lengths around "
                       "mini-block/block boundaries, extremes and wrap-around, strings empty/long/shared prefixes, BSS widths 1..16 x "
                       "counts 0..70, dictionary sizes 2^k and 2^k+1, NaN/-0.0), bounded-exhaustive short sequences over small "
                       "alphabets, corpus; C11: decode(encode(v)) on the implementation; C12: both directions against independent "
                       "reference codecs incl. legal forms carquet never emits; model tie on all of them and on malformed inputs; "
                       "non-trivial = non-empty value sequence; distinct by case text")
    c11_enc2.check_enc2_c11(rep, tier, rng)
    c11_enc2.check_enc2_c12(rep, tier, rng)
    return rep.finish()


def replay(path):
    j = json.loads(Path(path).read_text())
    r = j.get("replay")
    if not r or not r.get("case"):
        print(json.dumps(j, indent=1)[:3000])
        return 1
    return c11_enc2.replay_enc2(r)
