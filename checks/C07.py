"""C07 - parallel reading is independent of thread count and scheduling.

Proof: coq/theories/Props/Properties_C07.v (12 theorems; models Conc/BatchConc.v, Conc/LazyInit.v over
       Conc/Interleave.v).  PARTIAL: sequentially consistent interleaving model (DESIGN.md section 10).
Tie:   harness/h_conc.c drives the real carquet_batch_reader_next
       (a) under FORCED schedules through the CARQUET_VERIF hook carquet_verif_io_yield (page_reader.c):
           every interleaving of the seek/read gates of 2 columns x 1..3 page loads, compared with
           num_threads = 1 (property oracle) and with the extracted BatchConc model (model tie);
       (b) num_threads 1..16 x {fread, mmap, buffer} x codecs x batch sizes, free running and (fread)
           with seeded delays injected at the hook, byte-for-byte against the one-thread run;
       (c) N independent readers of one file from N pthreads, in a warm process and as the FIRST use
           of the library in a fresh process (lazy initialisation), against the reader used alone;
       (d) thorough: ThreadSanitizer build, races on library globals reported and classified.
"""
import random, json, sys, os, re, itertools, subprocess
from pathlib import Path
from concurrent.futures import ThreadPoolExecutor
import vlib
from vlib import Report, prelude, build_driver, build_runner, run_sharded, log

PID = "C07"
CODECS = {0: "uncompressed", 1: "snappy", 2: "gzip", 5: "lz4", 6: "zstd"}
LAZY_GLOBALS = {"crc32_tables", "crc32_tables_initialized", "g_dispatch", "g_dispatch_initialized",
                "g_cpu_info", "g_initialized"}


def tmpdir():
    d = vlib.BUILD / "conc" / "tmp"
    d.mkdir(parents=True, exist_ok=True)
    return d


def san_env():
    supp = vlib.BUILD / "conc" / "lsan.supp"
    supp.parent.mkdir(parents=True, exist_ok=True)
    # zstd.c keeps one ZSTD_DCtx per thread in a __thread variable and never frees it: when libgomp
    # retires worker threads (num_threads shrinks between two calls) LeakSanitizer reports them.
    # Recorded in design.d/C07.md as an observation; not a C07 matter (content is unaffected).
    if not supp.exists() or supp.read_text() != "leak:ZSTD_createDCtx\n":
        supp.write_text("leak:ZSTD_createDCtx\n")
    return {"ASAN_OPTIONS": "detect_leaks=1:abort_on_error=0:exitcode=99:allocator_may_return_null=1:"
                            "max_malloc_fill_size=4194304:malloc_fill_byte=190",
            "LSAN_OPTIONS": f"suppressions={supp}:print_suppressions=0",
            "OMP_WAIT_POLICY": "passive"}


def fspec(codec, types, nrg, npages, rpp, seed):
    return f"{tmpdir()} {codec} {types} {nrg} {npages} {rpp} {seed}"


def san_summary(err):
    """one line out of a sanitizer report: the error kind and the first frames inside the library"""
    m = re.search(r"(ERROR: AddressSanitizer: [^\n]*|runtime error: [^\n]*|ERROR: LeakSanitizer: [^\n]*|SUMMARY: [^\n]*)", err)
    frames = re.findall(r"#\d+ 0x[0-9a-f]+ in (\S+) (\S+?/src/\S+)", err)
    fr = "; ".join(f"{f} {Path(w.split(':')[0]).name}:{w.split(':')[1] if ':' in w else ''}" for f, w in frames[:4])
    return ((m.group(1) if m else err[-300:]) + (" at " + fr if fr else ""))[:700]


def foreign_files():
    """files of the independent writer tools/pq.py with DICTIONARY pages (carquet's own writer never writes one): the
    dictionary loads are the other two seek/read gates of the fread path (hook sites 0 and 1) and the dictionary decode
    goes through the dispatched gather kernels.  -> {codec id: (path of the 2-column file, path of the 4-column file)}"""
    import struct
    import pq
    out = {}
    n = 120
    for cid, codec in ((0, "UNCOMPRESSED"), (1, "SNAPPY"), (6, "ZSTD")):
        paths = []
        for shape in ("Ib", "IbBd"):
            path = tmpdir() / f"foreign_{shape}_{codec.lower()}.parquet"
            paths.append(path)
            if path.exists() and path.stat().st_size > 12:
                continue
            defs = [0 if i % 5 == 0 else 1 for i in range(n)]
            tdefs = [0 if i % 7 == 3 else 1 for i in range(n)]

            def pages(enc):
                ps = [pq.PageSpec(40, enc) for _ in range(3)]
                for p_ in ps:
                    p_.crc = True
                return ps
            nodes = [pq.SchemaNode("c0", "OPTIONAL", "INT32", 0), pq.SchemaNode("c1", "REQUIRED", "BYTE_ARRAY", 0)]
            cols = [pq.ColumnSpec(defs, [0] * n, [struct.pack("<i", (i * 7) % 13) for i in range(n) if defs[i]], pages("RLE_DICTIONARY"), codec, dictionary="auto", dict_crc=True),
                    pq.ColumnSpec([0] * n, [0] * n, [("str%d" % (i % 11)).encode() for i in range(n)], pages("PLAIN_DICTIONARY"), codec, dictionary="auto", dict_crc=True)]
            if shape == "IbBd":
                nodes += [pq.SchemaNode("c2", "OPTIONAL", "BYTE_ARRAY", 0), pq.SchemaNode("c3", "REQUIRED", "DOUBLE", 0)]
                cols += [pq.ColumnSpec(tdefs, [0] * n, [("opt-%d" % (i % 9)).encode() for i in range(n) if tdefs[i]], pages("RLE_DICTIONARY"), codec, dictionary="auto"),
                         pq.ColumnSpec([0] * n, [0] * n, [struct.pack("<d", (i % 17) * 0.5) for i in range(n)], pages("RLE_DICTIONARY"), codec, dictionary="auto")]
            spec = pq.FileSpec(pq.SchemaNode("schema", "REQUIRED", children=nodes), [pq.RowGroupSpec(n, cols)])
            tmp = path.with_suffix(".tmp%d" % os.getpid())
            tmp.write_bytes(pq.write_file(spec, random.Random(5)))
            os.replace(tmp, path)
        out[cid] = tuple(paths)
    return out


def long_header_files():
    """pq.py files whose page headers are longer than the reader's 256-byte window (statistics with 160-byte BYTE_ARRAY
    values): in fread mode the reader has to read the header a second time -> {codec id: path}; 4 REQUIRED BYTE_ARRAY
    columns x 12 pages x 6 rows"""
    import pq
    out = {}
    for cid, codec in ((0, "UNCOMPRESSED"), (1, "SNAPPY")):
        path = tmpdir() / f"longhdr_{codec.lower()}.parquet"
        out[cid] = path
        if path.exists() and path.stat().st_size > 12:
            continue
        n = 72
        nodes, cols = [], []
        for c in range(4):
            nodes.append(pq.SchemaNode(f"c{c}", "REQUIRED", "BYTE_ARRAY", 0))
            vals = [(("col%d-row%04d-" % (c, i)) * 12)[:160].encode() for i in range(n)]
            pages = [pq.PageSpec(6, "PLAIN") for _ in range(12)]
            for p_ in pages:
                p_.stats = True
                p_.crc = True
            cols.append(pq.ColumnSpec([0] * n, [0] * n, vals, pages, codec))
        spec = pq.FileSpec(pq.SchemaNode("schema", "REQUIRED", children=nodes), [pq.RowGroupSpec(n, cols)])
        tmp = path.with_suffix(".tmp%d" % os.getpid())
        tmp.write_bytes(pq.write_file(spec, random.Random(7)))
        os.replace(tmp, path)
    return out


def fspec_at(path, codec, types, npages=3, rpp=40):
    return f"@{path} {codec} {types} 1 {npages} {rpp} 0"


def parse_kv(line):
    t = line.split()
    kv = {"_status": t[0] if t else "FAULT"}
    for x in t[1:]:
        if "=" in x:
            k, v = x.split("=", 1)
            kv[k] = v
    return kv


# ------------------------------------------------------------------------- inventory of shared state

# Every object of the library with static storage that is not const (read from the object files of
# THIS build).  The interleaving models have exactly this shared state and no other: a new entry is
# state that threads can share and that BatchConc / LazyInit know nothing about.
SHARED_STATE = {
    "crc32_tables": "LazyInit, write-once table (crc32.c)",
    "crc32_tables_initialized": "LazyInit, flag of crc32_tables",
    "g_dispatch": "LazyInit, staged table (dispatch.c)",
    "g_dispatch_initialized": "LazyInit, flag of g_dispatch",
    "g_cpu_info": "LazyInit, staged table (detect.c: memset then bits)",
    "g_initialized": "LazyInit, flag of g_cpu_info",
    ".gomp_critical_user_carquet_reader_file_io": "the lock of the omp critical section in file_read_at (page_reader.c): what makes BatchConc's a_seekread one atomic action",
    "tls_dctx": "zstd.c, __thread: one per thread, not shared",
    "unpack_functions": "bitpack.c, initialised table of function pointers, never assigned",
    "names": "detect.c, static const table inside the CARQUET_VERIF cpu-cap hook (relocated pointers)",
    "carquet_verif_io_yield": "the CARQUET_VERIF hook of this check (page_reader.c), NULL unless the driver sets it",
}


def check_shared_state(rep):
    objd = vlib.BUILD / "san" / "obj"
    found = {}
    for o in sorted(objd.glob("*.o")):
        p = vlib.sh(["nm", str(o)])
        for ln in p.stdout.splitlines():
            t = ln.split()
            if len(t) == 3 and t[1] in "bBdDsScC":
                name = t[2]
                if re.search(r"__asan|__odr_asan|\.LASAN|__ubsan|^\.L|^\*\.L|__gcov|__sancov", name):
                    continue
                base = re.sub(r"\.\d+$", "", name)       # function-local statics are name.N
                found.setdefault(base, []).append(o.name.replace("__", "/").replace(".c.o", ".c"))
    rep.cov["shared_state_inventory"] = {k: sorted(set(v)) for k, v in sorted(found.items())}
    for name, where in sorted(found.items()):
        rep.count("static " + name)
        if name not in SHARED_STATE:
            rep.tie_broken(f"the library has a mutable object with static storage that the concurrency model does not have: "
                           f"'{name}' in {sorted(set(where))[0]} (state shared by all threads and all readers)", name)
    for name in SHARED_STATE:
        if name not in found and name not in ("names", "carquet_verif_io_yield"):
            rep.tie_broken(f"shared object '{name}' that the model mirrors is gone from the library", name)


# ----------------------------------------------------------------- order of stores in the lazy initialisers

LAZY_INITS = [
    # file, initialiser, flag, what counts as a store into the table
    ("src/util/crc32.c", "crc32_init_tables", "crc32_tables_initialized", r"crc32_tables\s*\["),
    ("src/simd/dispatch.c", "carquet_simd_dispatch_init", "g_dispatch_initialized", r"g_dispatch\s*\.\s*\w+\s*="),
    ("src/simd/detect.c", "carquet_init", "g_initialized", r"g_cpu_info|detect_\w+_features\s*\("),
]


def check_flag_order(rep):
    """LazyInit.v has every initialiser store its flag LAST (l_setflag after the writes).  That order is read from
    the sources here: inside the initialiser every store to the flag (assignment, atomic store / exchange) must
    come after the last store into the table."""
    for rel, fn, flag, tab in LAZY_INITS:
        rep.count("flag-order " + rel)
        src = (vlib.REPO / rel)
        if not src.exists():
            rep.tie_broken(f"lazy initialiser: {rel} is gone")
            continue
        text = re.sub(r"/\*.*?\*/", lambda m: re.sub(r"[^\n]", " ", m.group(0)), src.read_text(), flags=re.S)
        m = re.search(r"\b" + fn + r"\s*\([^;{]*\)\s*\{", text)
        if not m:
            rep.tie_broken(f"lazy initialiser {fn} not found in {rel} (LazyInit.v mirrors it)")
            continue
        i = m.end() - 1
        depth, j = 0, i
        while j < len(text):
            depth += text[j] == "{"
            depth -= text[j] == "}"
            if depth == 0:
                break
            j += 1
        body = text[i:j]
        stores = [x.start() for x in re.finditer(
            r"(?<![=!<>])\b" + flag + r"\s*=(?!=)|__atomic_(?:store|exchange|fetch_\w+|compare_exchange)\w*\s*\(\s*&\s*" + flag +
            r"|_Interlocked\w+\s*\([^;]*&\s*" + flag, body)]
        tabs = [x.start() for x in re.finditer(tab, body)]
        if not stores:
            rep.tie_broken(f"{rel}:{fn} never stores its flag {flag} (LazyInit.v: the flag is set after the table is filled)", rel)
        elif tabs and min(stores) < max(tabs):
            line = text.count("\n", 0, i + min(stores)) + 1
            rep.tie_broken(f"{rel}:{line} {fn} publishes {flag} BEFORE the table is complete (a store to the flag precedes a store into "
                           f"the table): LazyInit.v and lazy_init_reads_final assume the flag is stored last", rel)


# ---------------------------------------------------------------------------------- forced schedules

def interleavings(counts):
    """all distinct orders of the multiset {col: count}"""
    items = []
    for c, n in enumerate(counts):
        items += [str(c)] * n
    seen = set()

    def rec(rem, acc):
        if not any(rem):
            yield "".join(acc)
            return
        for c in range(len(rem)):
            if rem[c]:
                rem[c] -= 1
                acc.append(str(c))
                yield from rec(rem, acc)
                acc.pop()
                rem[c] += 1
    yield from rec(list(counts), [])


def regions_of(g):
    """gate structure (from the `gates` op) -> list of parallel regions [(call, phase, counts)] in
    execution order; the serial prefetch of an uncompressed file is not a region."""
    ncalls = int(g["calls"])
    regs = []
    for c in range(ncalls):
        P = [int(x) for x in g[f"P{c}"].split(",")]
        M = [int(x) for x in g[f"M{c}"].split(",")]
        if any(P) and g["ppar"] == "1":
            regs.append((c, "P", P))
        if any(M):
            regs.append((c, "M", M))
    return regs


def ref_by_region(g):
    """reference (offset, length) requests per region and column, from the one-thread run"""
    ref = {}
    done3 = {}
    if g["ref"] == "-":
        return ref
    for e in g["ref"].split(","):
        call, col, site, pos, ln = (int(x) for x in e.split(":"))
        ph = "M"
        if call == 0 and not done3.get(col):
            ph = "P"
            if site == 3:
                done3[col] = True
        ref.setdefault((call, ph), {}).setdefault(col, []).append((pos, ln))
    return ref


def forced_cases(tier, rng, drv):
    """-> list of dict(line, spec, tokens_by_region, regions, gates)"""
    cases = []
    layouts = [
        # codec, npages, rpp, batch        parallel regions (gates per column)
        (0, 3, 40, 40),    # three calls, one page load each:            M (2,2) x3
        (1, 3, 40, 40),    # compressed: prefetch region P (2,2), then    M (2,2) x2
        (0, 3, 40, 120),   # one call: serial prefetch + two loads in M   (4,4)
        (6, 3, 40, 120),   # zstd: P (2,2) + M (4,4)
        (0, 4, 40, 160),   # one call, three page loads in M              (6,6)
        (1, 4, 40, 160),
        (5, 2, 40, 40, "ild"),   # three columns, three threads: P (2,2,2) and M (2,2,2): 90 orders each
    ]
    layouts = [l if len(l) == 5 else l + ("il",) for l in layouts]
    ff = foreign_files()
    specs = {}
    for l in layouts:
        specs[l] = fspec(l[0], l[4], 1, l[1], l[2], 7)
    # two dictionary-encoded columns of another writer: the dictionary header / body gates (sites 0, 1) take part
    for cid in (1, 0):
        l = (cid, 3, 40, 40, "Ib@")
        layouts.append(l)
        specs[l] = fspec_at(ff[cid][0], cid, "Ib")
    glines = [f"gates {specs[l]} fread {l[3]}" for l in layouts]
    gout, rc, err = vlib.run_lines(drv, glines, env=san_env())
    if rc != 0 or len(gout) != len(glines):
        return None, f"gate structure run failed rc={rc}: {err[-800:]}"
    for l, gl in zip(layouts, gout):
        codec, npages, rpp, batch, types = l
        types = types.rstrip("@")
        g = parse_kv(gl)
        if g["_status"] != "OK":
            return None, f"gate structure: {gl}"
        if g.get("hook") != "1":
            return None, "the library was built without the CARQUET_VERIF io-yield hook"
        regs = regions_of(g)
        spec = specs[l]
        for ri, (call, ph, counts) in enumerate(regs):
            alls = list(interleavings(counts))
            total = len(alls)
            limit = None if tier == "thorough" else 140
            if limit and total > limit:
                keep = set(rng.sample(range(total), limit))
                # always keep the two sequential orders and the strict alternations
                alls = [s for i, s in enumerate(alls) if i in keep or i in (0, total - 1)]
            for toks in alls:
                per_region = []
                for rj, (c2, p2, cnt2) in enumerate(regs):
                    if rj == ri:
                        per_region.append(toks)
                    else:
                        per_region.append("".join(str(c) * n for c, n in enumerate(cnt2)))
                line = f"batch {spec} fread {batch} {len(types)} f:{''.join(per_region)}"
                cases.append({"line": line, "regions": regs, "tokens": per_region, "gates": g, "target": ri})
    return cases, None


def model_lines_atomic(case):
    """model of the CURRENT code (seek+read atomic): one token = one seekread"""
    g = case["gates"]
    ref = ref_by_region(g)
    out = []
    for (call, ph, counts), toks in zip(case["regions"], case["tokens"]):
        cols = ref.get((call, ph), {})
        ncols = len(counts)
        cs = ";".join(",".join(f"{o}:{l}" for o, l in cols.get(c, [])) or "-" for c in range(ncols))
        out.append((f"data fread {g['fsz']} {cs} {','.join(toks)}", (call, ph)))
    return out


def unlocked_schedule(region_counts, toks, first_pos, ref_cols):
    """gate-level release order -> action-level schedule of the FreadUnlocked model: all columns
    first seek (the one whose offset the stream was at when the first gate opened seeks last), then
    every release is a read followed by that column's next seek."""
    ncols = len(region_counts)
    live = [c for c in range(ncols) if region_counts[c] > 0]
    last = None
    for c in live:
        if ref_cols.get(c) and ref_cols[c][0][0] == first_pos:
            last = c
    order = [c for c in live if c != last] + ([last] if last is not None else [])
    sched = list(order)
    left = list(region_counts)
    for t in toks:
        c = int(t)
        sched.append(c)          # the read
        left[c] -= 1
        if left[c] > 0:
            sched.append(c)      # the next seek
    return sched


def check_forced(rep, tier, rng, drv, runner):
    cases, problem = forced_cases(tier, rng, drv)
    if cases is None:
        rep.tie_broken("forced schedules: " + problem)
        return
    lines = [c["line"] for c in cases]
    out, probs = run_sharded(drv, lines, env=san_env(), timeout=1500)
    for pr in probs:
        rep.violation(f"driver died on a forced schedule (rc={pr[1]}): {san_summary(pr[2])}", {"case": pr[3]})
    # model runs (atomic model for all cases; unlocked model for the cases whose schedule was realised)
    mlines, mindex = [], []
    feasible = 0
    for ci, (c, o) in enumerate(zip(cases, out)):
        kv = parse_kv(o)
        c["res"] = kv
        if kv["_status"] != "OK":
            continue
        for ml, key in model_lines_atomic(c):
            mlines.append(ml)
            mindex.append((ci, "atomic", key))
        if kv.get("dev") == "0" and kv.get("log", "-") != "-":
            feasible += 1
            ref = ref_by_region(c["gates"])
            real = {}
            for e in kv["log"].split(","):
                call, col, site, pos = (int(x) for x in e.split(":"))
                real.setdefault(call, []).append((col, site, pos))
            for (call, ph, counts), toks in zip(c["regions"], c["tokens"]):
                cols = ref.get((call, ph), {})
                # first release of this region in the real log: position of the stream then
                evs = real.get(call, [])
                # events of the region = those after the P-phase events of the call when ph == M
                skipn = 0
                if ph == "M":
                    P = [int(x) for x in c["gates"][f"P{call}"].split(",")]
                    skipn = sum(P)
                evs = evs[skipn:skipn + sum(counts)]
                if not evs:
                    continue
                sched = unlocked_schedule(counts, toks, evs[0][2], cols)
                cs = ";".join(",".join(f"{o_}:{l}" for o_, l in cols.get(k, [])) or "-" for k in range(len(counts)))
                mlines.append(f"data fread_unlocked {c['gates']['fsz']} {cs} {','.join(map(str, sched))}")
                mindex.append((ci, "unlocked", (call, ph, tuple(evs))))
    mout, mprobs = run_sharded(runner, mlines)
    for pr in mprobs:
        rep.tie_broken(f"model runner died (rc={pr[1]}): {pr[2][-300:]}", pr[3])
    by_case = {}
    for (ci, kind, key), mo in zip(mindex, mout):
        by_case.setdefault(ci, []).append((kind, key, mo))
    n_viol = 0
    rep.cov.setdefault("input_distribution", {})["model_tie_runs_atomic"] = sum(1 for m in mindex if m[1] == "atomic")
    rep.cov["input_distribution"]["model_tie_runs_unlocked"] = sum(1 for m in mindex if m[1] == "unlocked")
    for ci, c in enumerate(cases):
        kv = c["res"]
        li = c["line"]
        rep.count(li)
        if kv["_status"] != "OK":
            rep.violation(f"forced schedule: driver reported {kv['_status']}", {"case": li})
            continue
        realised = kv.get("dev") == "0"
        # property oracle, independent of the model: same batches and statuses as num_threads = 1
        if kv.get("eq") != "1":
            n_viol += 1
            rep.violation(
                f"fread mode, {li.split()[10]} threads, schedule {'forced' if realised else 'attempted'} through the yield hook "
                f"(release order {'/'.join(c['tokens'])}): statuses {kv.get('st')} vs {kv.get('base')} single-threaded, "
                f"{kv.get('wrong')} read(s) at another column's stream position",
                {"case": li, "impl": " ".join(f"{k}={v}" for k, v in kv.items() if k != "_status")})
        # model tie
        ref = ref_by_region(c["gates"])
        for kind, key, mo in by_case.get(ci, []):
            if not mo.startswith("OK"):
                rep.tie_broken(f"model runner: {mo}", li)
                continue
            logs = [[tuple(int(x) for x in e.split(":")) for e in col.split(",")] if col != "-" else []
                    for col in mo[3:].split(";")] if mo[3:] != "-" else []
            if kind == "atomic":
                want = ref.get(key, {})
                for k, lg in enumerate(logs):
                    if [p for p, _ in lg] != [p for p, _ in want.get(k, [])]:
                        rep.tie_broken(f"BatchConc (Fread, atomic seek+read) predicts reads {lg} for column {k}, "
                                       f"the one-thread run of the code read {want.get(k)}", li)
                if not realised and kv.get("wrong") not in ("0", None):
                    rep.tie_broken("schedule not realisable (seek+read atomic) yet a read happened at a foreign position: " +
                                   str(kv.get("log")), li)
            else:
                call, ph, evs = key
                # walk the real releases; compare with the model up to the first wrong read inclusive
                kth = {}
                want = ref.get((call, ph), {})
                for col, site, pos in evs:
                    k = kth.get(col, 0)
                    kth[col] = k + 1
                    mp = logs[col][k][0] if col < len(logs) and k < len(logs[col]) else None
                    if mp != pos:
                        rep.tie_broken(f"BatchConc (FreadUnlocked) predicts column {col} read #{k} at {mp}, "
                                       f"the code read at {pos} (call {call} phase {ph})", li)
                        break
                    if k < len(want.get(col, [])) and want[col][k][0] != pos:
                        break   # first read at a foreign position: the model is exact up to here
    rep.cov.setdefault("input_distribution", {})["forced_schedules"] = len(cases)
    rep.cov["input_distribution"]["forced_schedules_realised"] = feasible
    rep.sample({"op": "forced", "case": cases[len(cases) // 2]["line"], "result": {k: v for k, v in cases[len(cases) // 2]["res"].items() if k in ("eq", "dev", "wrong", "st")}})
    log(f"   forced schedules: {len(cases)} cases, {feasible} realised, {n_viol} differ from 1 thread")


# ------------------------------------------------------------------------------------ thread sweep

def check_corpus(rep, drv):
    lines = []
    for f in sorted((vlib.VERIF / "corpus" / PID).glob("*.case")):
        for ln in f.read_text().splitlines():
            if ln.strip() and not ln.startswith("#"):
                lines.append(ln.replace("{D}", str(tmpdir())))
    if not lines:
        return
    out, probs = run_sharded(drv, lines, env=san_env(), shards=min(len(lines), vlib.NCPU))
    for pr in probs:
        rep.violation(f"corpus case crashed (driver rc={pr[1]}): {san_summary(pr[2])}", {"case": pr[3]})
    for li, o in zip(lines, out):
        rep.count("corpus " + li)
        kv = parse_kv(o)
        if kv["_status"] == "OK" and kv.get("eq") != "1":
            rep.violation(f"corpus case: statuses {kv.get('st')} vs {kv.get('base')} single-threaded (content equal: {kv.get('st') == kv.get('base')})",
                          {"case": li, "impl": o[:1200]})


def check_sweep(rep, tier, rng, drv):
    threads = list(range(2, 17)) if tier == "thorough" else [2, 3, 4, 7, 8, 16]
    lines = []
    seedbase = vlib.SEED * 100
    for codec in CODECS:
        for mode in ("fread", "mmap", "buffer"):
            for (types, nrg, npages, rpp) in [("ildfIL", 1, 4, 60), ("ilfdLIil", 2, 3, 500)]:
                spec = fspec(codec, types, nrg, npages, rpp, seedbase + 1)
                batches = [rpp, (5 * rpp) // 2, rpp * npages * nrg]
                for nt in threads:
                    b = batches[(nt + codec) % 3] if tier == "quick" else None
                    for batch in ([b] if b else batches):
                        lines.append(f"batch {spec} {mode} {batch} {nt} -")
                        if mode == "fread":
                            lines.append(f"batch {spec} {mode} {batch} {nt} jit:{rng.randrange(1 << 30)}")
            # byte arrays only with page-aligned batches (their pointers live until the next page load)
            spec = fspec(codec, "ilb", 1, 3, 50, seedbase + 2)
            for nt in threads[:: 2 if tier == "quick" else 1]:
                lines.append(f"batch {spec} {mode} 50 {nt} -")
        # many OPTIONAL columns with different null patterns, very small batches: every carquet_batch_reader_next is one
        # more chance for the per-column set-up of the parallel loop (buffers, bitmaps) to collide between threads
        spec = fspec(codec, "ILDFILDF", 1, 4, 64, seedbase + 4)
        for mode in ("fread", "mmap", "buffer"):
            for nt in ((8, 16) if tier == "quick" else (2, 4, 8, 12, 16)):
                lines.append(f"batch {spec} {mode} 16 {nt} -")
        # larger pages: decoding of different columns overlaps in time
        spec = fspec(codec, "ildfli", 1, 3, 4000, seedbase + 3)
        for mode in ("fread", "mmap", "buffer"):
            for nt in ([4, 16] if tier == "quick" else [2, 4, 6, 8, 12, 16]):
                lines.append(f"batch {spec} {mode} 12000 {nt} -")
    # dictionary-encoded files of another writer (dictionary loads = gates 0/1, gather kernels), projections by index and
    # by name, num_threads = 0 (auto), a FIXED_LEN_BYTE_ARRAY column
    ff = foreign_files()
    for cid, (p2, p4) in ff.items():
        for mode in ("fread", "mmap", "buffer"):
            for nt in ((2, 16) if tier == "quick" else (2, 3, 4, 8, 16)):
                for batch in (40, 100):
                    lines.append(f"batch {fspec_at(p4, cid, 'IbBd')} {mode} {batch} {nt} -")
                if mode == "fread":
                    lines.append(f"batch {fspec_at(p4, cid, 'IbBd')} {mode} 120 {nt} jit:{rng.randrange(1 << 30)}")
    # page headers longer than the 256-byte header window (second read of the header in fread mode), many small pages
    for cid, path in long_header_files().items():
        for mode in ("fread", "mmap"):
            for nt in ((2, 4, 16) if tier == "quick" else (2, 3, 4, 8, 12, 16)):
                for rep_ in range(3 if mode == "fread" else 1):
                    lines.append(f"batch {fspec_at(path, cid, 'bbbb', 12, 6)} {mode} {(6, 18, 72)[rep_]} {nt} -")
                if mode == "fread":
                    lines.append(f"batch {fspec_at(path, cid, 'bbbb', 12, 6)} {mode} 6 {nt} jit:{rng.randrange(1 << 30)}")
    # one page of more than 2^20 values per column (kernels that split very large inputs), batch not a multiple of anything
    big = fspec(0, "IL", 1, 1, 1600000, seedbase + 6)
    for nt in ((1, 2, 16) if tier == "quick" else (1, 2, 3, 5, 16)):
        lines.append(f"batch {big} mmap 1299709 {nt} -")
    if tier == "thorough":
        # the same for the dictionary gather kernels: one dictionary-encoded page of 1.1 M values per column (pq.py, ~25 s once)
        import struct
        import pq
        path = tmpdir() / "bigdict.parquet"
        if not (path.exists() and path.stat().st_size > 12):
            n = 1100000
            cols = [pq.ColumnSpec([0] * n, [0] * n, [struct.pack("<i", (i * 7) % 13) for i in range(n)], [pq.PageSpec(n, "RLE_DICTIONARY")], "UNCOMPRESSED", dictionary="auto"),
                    pq.ColumnSpec([0] * n, [0] * n, [struct.pack("<d", (i % 11) * 0.25) for i in range(n)], [pq.PageSpec(n, "RLE_DICTIONARY")], "UNCOMPRESSED", dictionary="auto")]
            spec = pq.FileSpec(pq.SchemaNode("schema", "REQUIRED", children=[pq.SchemaNode("c0", "REQUIRED", "INT32", 0), pq.SchemaNode("c1", "REQUIRED", "DOUBLE", 0)]),
                               [pq.RowGroupSpec(n, cols)])
            tmp = path.with_suffix(".tmp%d" % os.getpid())
            tmp.write_bytes(pq.write_file(spec, random.Random(3)))
            os.replace(tmp, path)
        for nt in (1, 2, 16):
            lines.append(f"batch {fspec_at(path, 0, 'id', 1, 1100000)} mmap 1048583 {nt} -")
            lines.append(f"batch {fspec_at(path, 0, 'id', 1, 1100000)} fread 1048583 {nt} -")
    for codec in (0, 6):
        spec = fspec(codec, "ildfIL", 1, 4, 60, seedbase + 1)
        for mode in ("fread", "mmap"):
            for nt in (0, 2, 8):
                lines.append(f"batch {spec} {mode} 150 {nt} - proj=1")
                lines.append(f"batch {spec} {mode} 60 {nt} - proj=2")
            lines.append(f"batch {spec} {mode} 150 4 - proj=3")      # projection arrays given with count 0: all columns
        spec = fspec(codec, "xiLx", 1, 3, 50, seedbase + 5)
        for mode in ("fread", "mmap", "buffer"):
            for nt in (0, 4):
                lines.append(f"batch {spec} {mode} 70 {nt} -")
    # files are created by the first case that needs them; make them up front to avoid 16 shards racing
    specs = sorted({" ".join(l.split()[1:8]) for l in lines})
    mk, rc, err = vlib.run_lines(drv, ["mk " + s for s in specs], env=san_env())
    if rc != 0 or any(not m.startswith("OK") for m in mk):
        rep.tie_broken(f"could not write the test files through the writer API: {mk[:3]} {err[-500:]}")
        return
    # an INVALID file (one page body damaged -> CRC mismatch in one column): the statuses, and the batches before the
    # error, must still be the same for every thread count (the read_error protocol of the model)
    for codec in (0, 1):
        src = tmpdir() / f"c{codec}_ildfIL_1_4_60_{seedbase + 1}.parquet"
        if src.exists():
            data = bytearray(src.read_bytes())
            for frac in (0.35, 0.8):
                cor = tmpdir() / f"corrupt_{codec}_{int(frac * 100)}_{seedbase + 1}.parquet"
                if not cor.exists():
                    d2 = bytearray(data)
                    d2[int(len(d2) * frac * 0.9)] ^= 0x5A
                    cor.write_bytes(d2)
                for mode in ("fread", "mmap"):
                    for nt in (2, 8):
                        lines.append(f"batch {fspec_at(cor, codec, 'ildfIL', 4, 60)} {mode} 60 {nt} -")
    out, probs = run_sharded(drv, lines, env=san_env(), timeout=1500)
    for pr in probs:
        rep.violation(f"multi-threaded batch read crashed (driver rc={pr[1]}): {san_summary(pr[2])}", {"case": pr[3]})
    dist = {}
    for li, o in zip(lines, out):
        rep.count(li)
        t = li.split()
        dist[f"{CODECS[int(t[2])]}/{t[8]}"] = dist.get(f"{CODECS[int(t[2])]}/{t[8]}", 0) + 1
        kv = parse_kv(o)
        if kv["_status"] != "OK":
            if o.startswith("FAULT"):
                continue
            rep.violation(f"thread sweep: driver reported {o[:200]}", {"case": li})
            continue
        base_st = kv.get("base", "").split(",")
        if "corrupt_" not in li and not (base_st and base_st[-1] == "63" and all(x == "0" for x in base_st[:-1]) and len(base_st) >= 2):
            rep.violation(f"{t[8]} mode, codec {CODECS[int(t[2])]}: the single-threaded reference read of a valid file does not end with "
                          f"OK batches and END_OF_DATA (statuses {kv.get('base')}) - nothing to compare the threaded runs with",
                          {"case": li, "impl": o[:800]})
        # ... and must deliver every row of the file (row groups x pages x rows per page of the file spec)
        want_rows = int(t[4]) * int(t[5]) * int(t[6])
        base_rows = kv.get("rows", "0/0").split("/")[-1]
        if "corrupt_" not in li and base_rows.isdigit() and int(base_rows) != want_rows:
            rep.violation(f"{t[8]} mode, codec {CODECS[int(t[2])]}: the single-threaded reference read delivers {base_rows} rows, the file "
                          f"holds {want_rows}", {"case": li, "impl": o[:800]})
        if kv.get("unstable", "0/0") != "0/0":
            rep.violation(f"{t[8]} mode, codec {CODECS[int(t[2])]}, num_threads={t[10]}: a batch that the caller still holds changed while the "
                          f"next batch was read (batches changed: {kv.get('unstable')} in the num_threads run / the single-threaded run)",
                          {"case": li, "impl": o[:1500]})
        if kv.get("eq") != "1":
            rep.violation(f"{t[8]} mode, codec {CODECS[int(t[2])]}, num_threads={t[10]}"
                          f"{' with delays injected at the yield hook' if t[11].startswith('jit') else ''}: "
                          + (f"statuses {kv.get('st')} differ from the single-threaded run {kv.get('base')}" if kv.get('st') != kv.get('base')
                             else f"same statuses ({kv.get('st')}) but the content of the batches differs from the single-threaded run (rows {kv.get('rows')})"),
                          {"case": li, "impl": o[:1500]})
    rep.cov.setdefault("input_distribution", {}).update(dist)
    rep.sample({"op": "sweep", "case": lines[3], "result": out[3][:120]})


# ------------------------------------------------------------------------------- independent readers

def check_indep(rep, tier, rng, drv):
    seedbase = vlib.SEED * 100 + 50
    warm, fresh = [], []
    Ns = [2, 4, 8] if tier == "quick" else [2, 3, 4, 8, 16]
    for codec in ([0, 1, 6] if tier == "quick" else list(CODECS)):
        spec = fspec(codec, "ildfIL", 2, 3, 200, seedbase)
        for mode in ("fread", "mmap", "buffer"):
            for N in Ns:
                for inner in (1, 2):
                    warm.append(f"indep {spec} {mode} 250 {N} {inner}")
            for N in ([4, 8] if tier == "quick" else [2, 4, 8, 16]):
                fresh.append(f"indep {spec} {mode} 250 {N} 1 premade")
            # the handles driven from the CALLER's OpenMP threads: the batch reader's regions are nested (team of one)
            for N, inner in (((3, 2), (4, 5)) if tier == "quick" else ((2, 2), (3, 2), (4, 5), (8, 3), (16, 16))):
                warm.append(f"indep {spec} {mode} 250 {N} {inner} omp")
    specs = sorted({" ".join(l.split()[1:8]) for l in warm + fresh})
    mk, rc, err = vlib.run_lines(drv, ["mk " + s for s in specs], env=san_env())
    if rc != 0 or any(not m.startswith("OK") for m in mk):
        rep.tie_broken(f"could not write the test files: {mk[:3]} {err[-500:]}")
        return
    out, probs = run_sharded(drv, warm, env=san_env(), timeout=1500)
    for pr in probs:
        rep.violation(f"independent readers crashed (driver rc={pr[1]}): {san_summary(pr[2])}", {"case": pr[3]})
    reps = 1 if tier == "quick" else 4

    def one(line):
        try:
            o, rc, err = vlib.run_lines(drv, [line], timeout=300, env=san_env())
        except subprocess.TimeoutExpired:
            return "FAULT timeout", -9, ""
        return (o[0] if o else "FAULT died"), rc, err
    fresh = fresh * reps
    with ThreadPoolExecutor(vlib.NCPU) as ex:
        fres = list(ex.map(one, fresh))
    for li, o in list(zip(warm, out)) + [(l, r[0]) for l, r in zip(fresh, fres)]:
        rep.count(li + (" #fresh" if li.endswith("premade") else ""))
        kv = parse_kv(o)
        t = li.split()
        if kv["_status"] != "OK":
            if o.startswith("FAULT") and not li.endswith("premade"):
                continue
            rep.violation(f"independent readers: driver reported {o[:300]}", {"case": li, "fresh_process": li.endswith("premade")})
            continue
        if kv.get("eq") != "1":
            rep.violation(f"{t[10]} independent readers ({t[8]} mode, codec {CODECS[int(t[2])]}"
                          f"{', first use of the library in this process' if li.endswith('premade') else ''}): "
                          f"{kv.get('bad')} reader(s) returned content different from the reader used alone",
                          {"case": li, "impl": o[:1500], "fresh_process": li.endswith("premade")})
    for (l, (o, rc, err)) in zip(fresh, fres):
        if rc != 0:
            rep.violation(f"fresh-process concurrent first use: driver exited {rc}: {err[-700:]}", {"case": l, "fresh_process": True})
    rep.cov.setdefault("input_distribution", {})["independent_readers_warm"] = len(warm)
    rep.cov["input_distribution"]["independent_readers_first_use_processes"] = len(fresh)
    rep.sample({"op": "indep", "case": fresh[0], "result": fres[0][0][:100]})


# --------------------------------------------------------------------------- OpenMP runtime settings

def check_omp_env(rep, tier, rng, drv):
    """the team the runtime really grants can be smaller than num_threads (OMP_THREAD_LIMIT, OMP_DYNAMIC, nested regions):
    the same batches must come back"""
    seedbase = vlib.SEED * 100
    envs = [{"OMP_THREAD_LIMIT": "1"}, {"OMP_THREAD_LIMIT": "2"}, {"OMP_THREAD_LIMIT": "3"},
            {"OMP_DYNAMIC": "true", "OMP_NUM_THREADS": "3"}, {"OMP_NUM_THREADS": "1"}, {"OMP_MAX_ACTIVE_LEVELS": "2", "OMP_NUM_THREADS": "2"}]
    lines = []
    for codec in (0, 6):
        spec = fspec(codec, "ildfIL", 1, 4, 60, seedbase + 1)
        for mode in ("fread", "mmap"):
            for nt in ((0, 2, 5, 16) if tier == "quick" else (0, 2, 3, 4, 5, 7, 8, 16)):
                lines.append(f"batch {spec} {mode} 150 {nt} -")
        lines.append(f"indep {spec} mmap 250 3 4 omp")

    def one(env):
        e = san_env()
        e.update(env)
        try:
            o, rc, err = vlib.run_lines(drv, lines, timeout=600, env=e)
        except subprocess.TimeoutExpired:
            return [], -9, "timeout"
        return o, rc, err
    with ThreadPoolExecutor(len(envs)) as ex:
        res = list(ex.map(one, envs))
    for env, (o, rc, err) in zip(envs, res):
        tag = ",".join(f"{k}={v}" for k, v in env.items())
        if rc != 0 or len(o) != len(lines):
            rep.violation(f"batch reads under {tag}: driver failed (rc={rc}): {san_summary(err)}", {"case": lines[min(len(o), len(lines) - 1)], "env": env})
            continue
        for li, out in zip(lines, o):
            rep.count(li + " " + tag)
            kv = parse_kv(out)
            if kv["_status"] != "OK" or kv.get("eq") != "1":
                t = li.split()
                rep.violation(f"{t[0]} under {tag} ({t[8]} mode, num_threads={t[10]}): statuses {kv.get('st')} / content differ from the "
                              f"single-threaded run {kv.get('base', '')}", {"case": li, "env": env, "impl": out[:1200]})


# ------------------------------------------------------------------------ concurrent first use, fresh forks

def check_firstuse(rep, tier, rng, drv):
    """N threads with one reader handle each (opened before a spin barrier) are released together into their FIRST
    page load in a process that has never used the library: every trial is a fresh fork of a driver process that is
    fed nothing but firstuse lines.  The column-reader API reports the first failed load directly (the batch reader
    retries a swallowed prefetch error, which can hide a short-lived inconsistency)."""
    seedbase = vlib.SEED * 100 + 70
    trials = 12 if tier == "quick" else 40
    lines = []
    for codec in ((0, 6) if tier == "quick" else CODECS):
        for mode in ("fread", "mmap", "buffer"):
            for api in ("col", "batch"):
                for N in ((8,) if tier == "quick" else (2, 8, 16)):
                    types = "il" if api == "col" else "ilDf"
                    lines.append(f"firstuse {fspec(codec, types, 1, 1, 64, seedbase)} {mode} {N} {trials} {api}")

    def one(line):
        try:
            o, rc, err = vlib.run_lines(drv, [line], timeout=900, env=san_env())
        except subprocess.TimeoutExpired:
            return "FAULT timeout", -9, ""
        return (o[0] if o else "FAULT died"), rc, err
    # few processes at a time: the threads of a trial spin at a barrier and must really run simultaneously
    with ThreadPoolExecutor(max(2, vlib.NCPU // 6)) as ex:
        res = list(ex.map(one, lines))
    total = 0
    for li, (o, rc, err) in zip(lines, res):
        rep.count(li)
        kv = parse_kv(o)
        t = li.split()
        if kv["_status"] != "OK" or rc != 0:
            rep.violation(f"concurrent first use: driver failed ({o[:200]}): {san_summary(err)}", {"case": li, "fresh_process": True})
            continue
        total += int(kv.get("trials", 0))
        if kv.get("eq") != "1":
            rep.violation(f"concurrent FIRST use of the library in a fresh process ({t[9]} threads, one reader handle each, {t[8]} mode, "
                          f"codec {CODECS[int(t[2])]}, {'column readers' if t[11] == 'col' else 'batch readers'}): in {kv.get('differ')} of "
                          f"{kv.get('trials')} trials a reader returned other statuses/values than the same reader used alone "
                          f"({kv.get('crashed')} crashed)", {"case": li, "fresh_process": True})
    rep.cov.setdefault("input_distribution", {})["first_use_fresh_fork_trials"] = total
    rep.sample({"op": "firstuse", "case": lines[0], "result": res[0][0]})


# ------------------------------------------------------------------------------ model self-consistency

def check_model(rep, runner):
    """the extracted models on the witnesses of the refuted theorems (the Coq side proves these by
    vm_compute; here the extracted code is checked to agree - it is what the tie runs)"""
    lines = ["full fread_unlocked 4 0:2;2:2 0,0,1,1,0,0,1,1", "full fread 4 0:2;2:2 0,0,1,1,0,0,1,1",
             "full mmap 4 0:2;2:2 0,0,1,1,0,0,1,1", "full fread_unlocked 4 0:2;2:2 0,0,0,0,1,1,1,1",
             "lazy 0 0:0,0:7 0;-;0 1,0,0,0,0,2,1,2,2,2,2,1,1,0",
             "lazy 0,0,0 0:11,1:22,2:33 0,2;1;2,2,0 0,1,0,1,1,0,2,0,1,1,0,0,2,2,1,2,2,0,2,2,2"]
    want = ["OK none", "OK some 0:2;2:2", "OK some 0:2;2:2", "OK some 0:2;2:2", "OK 1 7 7;-;0", "OK 1 11,22,33 11,33;22;33,33,11"]
    out, rc, err = vlib.run_lines(runner, lines)
    for li, o, w in zip(lines, out, want):
        rep.count("model " + li)
        if o != w:
            rep.tie_broken(f"extracted model disagrees with the Coq examples: {li} -> {o}, expected {w}", li)


# ---------------------------------------------------------------------------------- ThreadSanitizer

TSAN_FLAGS = ["-std=gnu11", "-O1", "-g", "-fno-omit-frame-pointer", "-fsanitize=thread", "-fopenmp",
              "-D" + vlib.GUARD, "-DCARQUET_ARCH_X86", "-DCARQUET_ENABLE_SSE", "-DCARQUET_ENABLE_AVX2",
              "-DCARQUET_ENABLE_AVX512"]


def build_tsan():
    out = vlib.BUILD / "tsan"
    objd = out / "obj"
    objd.mkdir(parents=True, exist_ok=True)
    with vlib.Lock(out / ".lock"):
        jobs = []
        objs = []
        for rel in vlib.repo_sources():
            o = objd / (rel.replace("/", "__") + ".o")
            objs.append(o)
            jobs.append((rel, o, TSAN_FLAGS + vlib.PER_FILE.get(rel, [])))

        def cc(job):
            rel, o, fl = job
            return rel, vlib.sh(["gcc"] + fl + ["-I", str(vlib.REPO / "include"), "-I", str(vlib.REPO / "src"),
                                 "-c", str(vlib.REPO / rel), "-o", str(o)])
        with ThreadPoolExecutor(vlib.NCPU) as ex:
            for rel, p in ex.map(cc, jobs):
                if p.returncode != 0:
                    raise vlib.BuildError(f"TSan build of {rel} failed: {p.stderr[-1500:]}")
        exe = out / "h_conc"
        p = vlib.sh(["gcc"] + TSAN_FLAGS + ["-I", str(vlib.REPO / "include"), "-I", str(vlib.REPO / "src"),
                     "-I", str(vlib.VERIF / "harness"), str(vlib.VERIF / "harness" / "h_conc.c")] +
                    [str(o) for o in objs] + vlib.LINK_LIBS + ["-lpthread", "-o", str(exe)])
        if p.returncode != 0:
            raise vlib.BuildError("TSan driver does not link: " + p.stderr[-1500:])
        return exe


def check_tsan(rep, rng):
    try:
        exe = build_tsan()
    except vlib.BuildError as e:
        rep.tie_broken("ThreadSanitizer build failed: " + str(e)[:600])
        return
    seedbase = vlib.SEED * 100 + 50
    runs = []
    for codec in (0, 1, 6):
        spec = fspec(codec, "ildfIL", 2, 3, 200, seedbase)
        for mode in ("fread", "mmap", "buffer"):
            runs.append(("pthread", f"indep {spec} {mode} 250 6 1 premade"))
            runs.append(("openmp", f"batch {spec} {mode} 250 6 -"))
    env = {"TSAN_OPTIONS": "halt_on_error=0:exitcode=0:report_signal_unsafe=0:history_size=4", "HCONC_SKIP_NULLDATA": "1",
           "OMP_WAIT_POLICY": "passive"}

    def one(r):
        kind, line = r
        try:
            p = vlib.sh([str(exe)], input=line + "\n", env=env, timeout=600)
        except subprocess.TimeoutExpired:
            return kind, line, "FAULT timeout", ""
        return kind, line, p.stdout.strip(), p.stderr
    with ThreadPoolExecutor(6) as ex:
        res = list(ex.map(one, runs))
    summary = {}
    for kind, line, o, err in res:
        rep.count("tsan " + line)
        kv = parse_kv(o.splitlines()[-1] if o else "FAULT")
        if kv["_status"] != "OK" or kv.get("eq") != "1":
            rep.violation(f"TSan build: content differs or driver failed: {o[:300]}", {"case": line, "tsan": True})
        for blk in err.split("WARNING: ThreadSanitizer: ")[1:]:
            what = blk.splitlines()[0]
            m = re.search(r"Location is global '([^']+)'.*?\(([^+)]+)\+", blk, re.S)
            loc = f"global {m.group(1)}" if m else ("heap" if "Location is heap block" in blk else
                                                    "stack" if "Location is stack" in blk else "other")
            fn = re.search(r"#0 (\S+) (/\S+?):(\d+)", blk)
            where = f"{fn.group(1)} {Path(fn.group(2)).name}" if fn else "?"
            key = f"{kind}: {what.split('(')[0].strip()} on {loc}"
            summary.setdefault(key, set()).add(where)
            if kind == "pthread" and m and m.group(1) not in LAZY_GLOBALS and "data race" in what:
                rep.tie_broken(f"ThreadSanitizer: data race between independent readers on library global '{m.group(1)}' "
                               f"(at {where}) - shared mutable state that the model does not have", line)
            if kind == "pthread" and not m and "data race" in what and fn and "/src/" in fn.group(2):
                rep.tie_broken(f"ThreadSanitizer: data race between independent readers on {loc} memory at {where}", line)
    rep.cov["tsan"] = {k: sorted(v)[:6] for k, v in sorted(summary.items())}
    log("   TSan: " + json.dumps(rep.cov["tsan"])[:600])


# ------------------------------------------------------------------------------------------- driver

def run(tier):
    rep = Report(PID, tier)
    rng = random.Random(vlib.SEED * 7919 + 7)
    prelude(rep, PID)
    rep.cov["trusted_base"] = vlib.TRUSTED_BASE_COMMON + [
        "PARTIAL: the interleaving model is sequentially consistent and its atomic actions (fseek, fread, the omp critical section of file_read_at, one load/store of a global, one read of read_error) are chosen by hand; OpenMP's scheduler, the hardware memory model, C11 data-race semantics and TSan verdicts are runtime observations, not theorems",
        "glibc: fseek/fread/ftell on one FILE* are each atomic (internal FILE lock); libgomp: omp critical is a mutex; OpenMP barrier at the end of a parallel for",
        "the CARQUET_VERIF hook carquet_verif_io_yield (page_reader.c, /repo 510fd7e) and the gate controller in harness/h_conc.c: a schedule is forced only at the seek/read gates of the fread path; mmap/buffer mode has no gate and is explored by thread counts, repetition and TSan only",
        "modelled, not verified: batch_reader.c:301-495 (parallel regions, read_error), page_reader.c file_read_at / load_*_fread / load_*_mmap (what a column reads), crc32.c / dispatch.c / detect.c lazy initialisers (order of stores and flag)",
    ]
    rep.cov["rule"] = ("forced: every release order of the seek/read gates of 2 column threads for 1, 2 and 3 page loads per "
                       "parallel region (quick: all of C(4,2), C(8,4) and 140 sampled of C(12,6); thorough: all), 6 file layouts; "
                       "sweep: codecs x {fread,mmap,buffer} x num_threads (quick 2,3,4,7,8,16; thorough 2..16) x batch sizes, "
                       "free running + seeded delays at the hook in fread mode; independent readers N in 2..16 warm and as first "
                       "use in a fresh process; every case compared with the num_threads=1 / alone run of the same file and mode; "
                       "distinct by full case text")
    try:
        drv = build_driver("h_conc", libs=["-lpthread"])
        runner = build_runner("conc")
    except vlib.BuildError as e:
        rep.tie_broken("harness does not build against the current tree: " + str(e)[:700])
        return rep.finish()
    check_shared_state(rep)
    check_flag_order(rep)
    check_corpus(rep, drv)
    check_model(rep, runner)
    check_forced(rep, tier, rng, drv, runner)
    check_sweep(rep, tier, rng, drv)
    check_indep(rep, tier, rng, drv)
    check_omp_env(rep, tier, rng, drv)
    check_firstuse(rep, tier, rng, drv)
    if tier == "thorough":
        check_tsan(rep, rng)
    return rep.finish()


def replay(path):
    j = json.loads(Path(path).read_text())
    r = j.get("replay", {})
    case = r.get("case")
    if not case:
        print(json.dumps(j, indent=1))
        return 1
    drv = build_driver("h_conc", libs=["-lpthread"])
    print("case:", case, "env:", r.get("env"))
    if r.get("env"):
        _base = san_env

        def _env_with():
            e = _base()
            e.update(r["env"])
            return e
        globals()["san_env"] = _env_with
    bad = 0
    if case.startswith("firstuse"):
        t = case.split()
        t[10] = "60"
        out, rc, err = vlib.run_lines(drv, [" ".join(t)], env=san_env(), timeout=900)
        print("implementation:", out, "rc", rc, err[-800:])
        kv = parse_kv(out[0] if out else "FAULT")
        return 0 if (rc == 0 and kv.get("eq") == "1") else 1
    n = 40 if not case.split()[-1].startswith("f:") else 1   # free-running cases depend on timing: repeat
    for i in range(n):   # free-running cases depend on timing: repeat
        out, rc, err = vlib.run_lines(drv, ["mk " + " ".join(case.split()[1:8]), case][(1 if case.endswith("premade") and i else 0):], env=san_env())
        o = out[-1] if out else "FAULT"
        print("implementation:", o[:1500], "rc", rc)
        if err.strip():
            print(err[-1500:])
        kv = parse_kv(o)
        if rc != 0 or kv["_status"] != "OK" or kv.get("eq") != "1":
            bad += 1
    print(f"{bad} of {n} run(s) differ from the single-threaded / alone run")
    return 1 if bad else 0
