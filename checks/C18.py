"""C18 - truncated files are rejected and failed writes are never reported OK.

Proof: coq/theories/Props/Properties_C18.v (models Reader/FooterModel.v, Writer/Stdio.v, Writer/CloseModel.v;
       proofs Reader/FooterProofs.v, Writer/SinkProofs.v).
Tie:   (a) tools/gen.d/robust.py regenerates from the sources which checks the three open paths make and
           which stdio results carquet_writer_close looks at (Gen/Robust_gen.v);
       (b) harness/h_robust.c vs the extracted models (ocaml/run_robust.ml):
           - EVERY cut position of files written by carquet x {fread, mmap, buffer}: the property's oracle is
             "error, unless an independent structural validator (checks/robust_pq.py) accepts the prefix; never
             a crash"; the status code is compared with the stage the extracted FooterModel predicts
             (size / magic / footer length / parse, the parse verdict coming from a direct call of the parser);
           - sink failure at every stream call (link-time wrappers of fwrite/fflush/fclose/ferror), at every
             byte offset and every request of a fopencookie sink under several buffer sizes, and by
             RLIMIT_FSIZE for path-based writers: some call must return non-OK, OK from close implies the
             sink holds the bytes of the fault-free run; statuses compared with the extracted CloseModel;
           - carquet_writer_abort at every point of the history: no file left, no leak.
"""
import os, sys, json, random, re, shutil
from pathlib import Path
import vlib
from vlib import Report, prelude, build_driver, build_runner, run_sharded, log

sys.path.insert(0, str(Path(__file__).resolve().parent))
import robust_pq as pq

PID = "C18"
WRAP = ["-Wl,--wrap=fwrite,--wrap=fflush,--wrap=fclose,--wrap=ferror"]
NCOLS = {"a": 2, "b": 2, "c": 3, "d": 4}
CODECS = [0, 1, 2, 5, 6, 7]       # UNCOMPRESSED SNAPPY GZIP LZ4 ZSTD LZ4_RAW
INVALID_MAGIC, INVALID_FOOTER, INVALID_ARGUMENT = 20, 21, 1


def tmpdir():
    d = vlib.VERIF / "build" / "tmp" / "robust" / f"c18_{os.getpid()}"
    shutil.rmtree(d, ignore_errors=True)
    d.mkdir(parents=True)
    return d


def file_specs(tier, rng):
    if tier == "quick":
        return ["a:0:20:1:%d" % rng.randrange(1, 1000), "b:1:24:2:%d" % rng.randrange(1, 1000),
                "c:2:10:1:%d" % rng.randrange(1, 1000), "d:6:15:3:%d" % rng.randrange(1, 1000)]
    specs = []
    for i in range(40):
        sc = "abcd"[i % 4]
        codec = CODECS[(i // 4) % len(CODECS)]
        rows = rng.choice([1, 2, 7, 8, 9, 30, 64, 100, 257])
        rgs = rng.choice([1, 1, 2, 3, 5])
        specs.append(f"{sc}:{codec}:{rows}:{rgs}:{rng.randrange(1, 100000)}")
    specs.append("a:0:0:1:5")        # a table without rows
    return specs


def sink_specs(tier, rng):
    s = ["a:0:6:1:%d" % rng.randrange(1, 1000), "b:1:5:2:%d" % rng.randrange(1, 1000)]
    if tier == "thorough":
        s += ["c:2:9:1:%d" % rng.randrange(1, 1000), "d:0:4:3:%d" % rng.randrange(1, 1000),
              "d:6:12:2:%d" % rng.randrange(1, 1000), "a:5:40:2:%d" % rng.randrange(1, 1000)]
    return s


def kv(line):
    return dict(t.split("=", 1) for t in line.split() if "=" in t)


# ----------------------------------------------------------------------------- truncation

def check_cuts(rep, tier, rng, drv, run, tmp):
    specs = file_specs(tier, rng)
    paths = [tmp / f"f{i}.parquet" for i in range(len(specs))]
    out, probs = run_sharded(drv, [f"gen {s} {p}" for s, p in zip(specs, paths)])
    files = []
    for s, p, o in zip(specs, paths, out):
        if not o.startswith("OK"):
            rep.tie_broken(f"the writer history of spec {s} did not complete: {o}", s)
            continue
        files.append((s, p, p.read_bytes()))
    # a table whose string values contain byte sequences that look like the tail of a Parquet file: a length
    # that fits / does not fit followed by PAR1, and one value that IS a complete small file.  The prefixes
    # that end right after such a value reach the footer-length check and the parser, and the last one is
    # the legitimate exception of the property (the prefix is itself a complete Parquet file).
    if files:
        import struct as _st
        small = min(files, key=lambda f: len(f[2]))[2]
        vals = [b"abc" + _st.pack("<I", 0) + b"PAR1", b"q" * 9 + _st.pack("<I", 5) + b"PAR1",
                _st.pack("<I", 0xFFFFFFF0) + b"PAR1", b"zz" + _st.pack("<I", 1000000) + b"PAR1",
                _st.pack("<I", 0x7FFFFFFF) + b"PAR1", b"xPAR1", small, b"tail"]
        # data that makes a prefix look like a complete file at the cut: <minimal Thrift struct> <its length> PAR1
        # (STOP byte alone; version only; version + num_rows; an unterminated field) and length words whose
        # 32-bit arithmetic can wrap (0xFFFFFFF0 .. 0xFFFFFFFF)
        for st_ in (b"\x00", b"\x15\x02\x00", b"\x15\x02\x26\x00\x00", b"\x15\x00", b"\x19\x0c\x00",
                    b"\x15\x02\x19\x0c\x16\x00\x19\x0c\x00"):
            vals.append(b"~" + st_ + _st.pack("<I", len(st_)) + b"PAR1")
        for w in range(0xFFFFFFF1, 0x100000000):
            vals.append(_st.pack("<I", w) + b"PAR1")
        # declared footer lengths at the boundary of the PREFIX size (size-16 .. size+8): the length word is
        # patched in a second pass, once the position of each value in the written file is known
        nb = 25
        vals += [bytes([0xF5, i]) + _st.pack("<I", 0) + b"PAR1" for i in range(nb)]
        rng.shuffle(vals)
        for codec in ([0] if tier == "quick" else [0, 0, 1]):
            bp = tmp / f"blob{len(files)}.parquet"
            o, _ = run_sharded(drv, [f"genblob {codec} {bp} " + " ".join(v.hex() for v in vals)])
            if o and o[0].startswith("OK") and codec == 0:
                first = bp.read_bytes()
                v2 = list(vals)
                for k, v in enumerate(v2):
                    if len(v) == 10 and v[0] == 0xF5 and v[6:] == b"PAR1":
                        at = first.find(v)
                        if at >= 0:
                            size = at + 10                      # the prefix that ends right after this value
                            v2[k] = v[:2] + _st.pack("<I", max(0, size - 16 + v[1])) + b"PAR1"
                o, _ = run_sharded(drv, [f"genblob {codec} {bp} " + " ".join(v.hex() for v in v2)])
            if o and o[0].startswith("OK"):
                files.append((f"blob:{codec}", bp, bp.read_bytes()))
            else:
                rep.tie_broken(f"genblob failed: {o}", "genblob")
            rng.shuffle(vals)
        # synthetic images (model tie of the open decision, all three paths, exact-size buffers): valid magics and
        # every declared footer length around the image size
        for size in (12, 13, 16, 24, 40):
            for ln in sorted(set([max(0, size - 16 + d) for d in range(25)] + [0xFFFFFFFF - d for d in range(16)])):
                ip = tmp / f"img{len(files)}.bin"
                ip.write_bytes(b"PAR1" + bytes(size - 12) + _st.pack("<I", ln) + b"PAR1")
                files.append((f"image:{size}:{ln}", ip, ip.read_bytes()))
        # images without the leading magic: the rejection branch of the mapped paths that no prefix of a written file
        # can reach (the stdio path does not look at the leading magic - a C03 matter - so only the model tie applies)
        for size in (12, 16, 40):
            for lead in (b"PAR0", b"\x00AR1", b"par1"):
                ip = tmp / f"img{len(files)}.bin"
                ip.write_bytes(lead + bytes(size - 12) + _st.pack("<I", 0) + b"PAR1")
                files.append((f"leadimg:{size}:{lead.hex()}", ip, ip.read_bytes()))
    chunk = 200 if tier == "quick" else 400
    cases = []
    for fi, (s, p, data) in enumerate(files):
        n = len(data)
        if s.startswith("image:") or s.startswith("leadimg:"):
            cases.append((fi, n, n + 1))
            continue
        for a in range(0, n + 1, chunk):
            cases.append((fi, a, min(n + 1, a + chunk)))
    lines_c = [f"cuts {files[fi][1]} {tmp}/cut{k} {a} {b}" for k, (fi, a, b) in enumerate(cases)]
    lines_m = [f"opencuts {a} {b} {files[fi][2].hex()}" for (fi, a, b) in cases]
    impl, p1 = run_sharded(drv, lines_c, timeout=1800)
    model, p2 = run_sharded(run, lines_m, timeout=1800)
    for pr in p1:
        rep.violation(f"driver died on a truncation case (rc={pr[1]}): {pr[2][-400:]}", {"op": "cuts", "case": pr[3]})
    for pr in p2:
        rep.tie_broken(f"model runner died (rc={pr[1]}): {pr[2][-300:]}", pr[3])
    need_parse = {}          # (fi, off, len) -> region hex
    results = []
    accepted = 0
    stage_hist = {}
    for (fi, a, b), li, lo, mo in zip(cases, lines_c, impl, model):
        spec, path, data = files[fi]
        if lo.startswith("FAULT"):
            m = re.search(r"prog=(-?\d+),(-?\d+)", lo)
            cut, mode = (int(m.group(1)), int(m.group(2))) if m else (-1, -1)
            rep.violation(f"opening a prefix of a written file crashed: {lo[:300]}",
                          {"op": "cut", "spec": spec, "cut": cut, "mode": mode, "file_hex": data[:max(cut, 0)].hex()})
            continue
        if not lo.startswith("OK") or not mo.startswith("OK"):
            rep.tie_broken(f"unexpected output: impl {lo[:200]} / model {mo[:200]}", li)
            continue
        it = {int(t.split(":")[0]): t.split(":")[1].split(",") for t in lo.split()[2:] if ":" in t and t[0].isdigit()}
        mt = {int(t.split(":")[0]): t.split(":", 1)[1].split(",") for t in mo.split()[1:]}
        for cut in range(a, b):
            if cut not in it or cut not in mt:
                rep.tie_broken(f"cut {cut} missing in the output of {li}", li)
                continue
            results.append((fi, cut, [int(x) for x in it[cut]], mt[cut]))
            for st in mt[cut]:
                if st.startswith("parse/"):
                    _, off, ln = st.split("/")
                    need_parse[(fi, int(off), int(ln))] = data[int(off):int(off) + int(ln)].hex() or "-"
    keys = sorted(need_parse)
    pout, p3 = run_sharded(drv, [f"parse {need_parse[k]}" for k in keys])
    parse_code = {k: (int(o.split()[1]) if o.startswith("OK") else None) for k, o in zip(keys, pout)}
    for pr in p3:
        rep.violation(f"the footer parser crashed on a region of a truncated file (rc={pr[1]}): {pr[2][-400:]}",
                      {"op": "parse", "case": pr[3]})
    modes = ["fread", "mmap", "buffer"]
    for fi, cut, codes, stages in results:
        spec, path, data = files[fi]
        n = len(data)
        prefix = data[:cut]
        rep.count(f"{spec}:{cut}", nontrivial=cut >= 12)
        valid = None
        for mi in range(3):
            code, st = codes[mi], stages[mi]
            stage_hist[st.split("/")[0]] = stage_hist.get(st.split("/")[0], 0) + 1
            # --- the property's own oracle (independent of the model)
            if code == -1:
                rep.violation(f"open ({modes[mi]}) failed on a prefix without a non-OK code / terminated message",
                              {"op": "cut", "spec": spec, "cut": cut, "mode": mi, "file_hex": prefix.hex()})
            if code == -2:
                rep.violation(f"open ({modes[mi]}) of a prefix gives a different verdict without an error record (error == NULL) than with one",
                              {"op": "cut", "spec": spec, "cut": cut, "mode": mi, "file_hex": prefix.hex()})
            if code == 0 and cut < n:
                if valid is None:
                    valid = pq.validate(prefix, pages=False)
                accepted += 1
                if not valid[0]:
                    rep.violation(f"a proper prefix ({cut} of {n} bytes, spec {spec}) was opened by the {modes[mi]} path "
                                  f"although it is not a complete Parquet file ({valid[1]})",
                                  {"op": "cut", "spec": spec, "cut": cut, "mode": mi, "file_hex": prefix.hex()})
            if spec.startswith("image:"):
                if code == 0 or (mi > 0 and code != codes[0]):
                    rep.violation(f"an image with valid magics but no usable footer ({spec}) is not rejected alike: "
                                  f"fread/mmap/buffer = {codes}", {"op": "cut", "spec": spec, "cut": cut, "mode": mi, "file_hex": prefix.hex()})
            elif spec.startswith("leadimg:"):
                if mi > 0 and code == 0:
                    rep.violation(f"an image without the leading magic ({spec}) is opened by the {modes[mi]} path",
                                  {"op": "cut", "spec": spec, "cut": cut, "mode": mi, "file_hex": prefix.hex()})
            elif code != 0 and cut == n:
                rep.tie_broken(f"the complete file of spec {spec} is rejected by the {modes[mi]} path with {code}", spec)
            # --- the model's prediction
            kind = st.split("/")[0]
            if kind == "fault":
                rep.tie_broken(f"FooterModel predicts an out-of-bounds read for cut {cut} ({modes[mi]}), the code returned {code}",
                               f"{spec} cut={cut}")
            elif kind == "parse":
                _, off, ln = st.split("/")
                want = parse_code.get((fi, int(off), int(ln)))
                if want is not None and want != code:
                    rep.tie_broken(f"cut {cut} ({modes[mi]}): model hands region [{off},+{ln}) to the parser whose verdict is {want}, "
                                   f"open returned {code}", f"{spec} cut={cut}")
            else:
                want = int(st.split("/")[1])
                if want != code:
                    rep.tie_broken(f"cut {cut} ({modes[mi]}): model stage {st}, open returned {code}", f"{spec} cut={cut}")
    rep.cov["cut_stage_distribution"] = stage_hist
    rep.cov["proper_prefixes_accepted_and_validated"] = accepted
    if files:
        s, p, d = files[0]
        rep.sample({"op": "cuts", "spec": s, "file_bytes": len(d), "positions": len(d), "modes": 3})


# ----------------------------------------------------------------------------- failing sinks

def history_of(spec):
    sc, codec, rows, rgs, seed = spec.split(":")
    kinds = []
    for g in range(int(rgs)):
        kinds += ["b"] * NCOLS[sc]
        if g + 1 < int(rgs):
            kinds.append("n")
    kinds.append("c")
    return kinds


def model_history(spec, logstr, ref):
    """The wcall list of the model from the call log of the fault-free run and the bytes it produced."""
    segs = logstr.split("|")[1:]
    kinds = history_of(spec)
    if len(segs) != len(kinds):
        return None
    pos = 0
    calls = []
    first = True
    for kind, seg in zip(kinds, segs):
        sizes = [int(x) for x in re.findall(r"w(\d+)\.", seg)]
        if first:
            if not sizes or sizes[0] != 4:
                return None
            sizes = sizes[1:]
            pos += 4
            first = False
        if kind == "b":
            if sizes:
                return None
            calls.append("b")
        elif kind == "n":
            if len(sizes) > 1:
                return None
            rg = ref[pos:pos + sizes[0]] if sizes else b""
            pos += len(rg)
            calls.append("n:" + (rg.hex() or "-"))
        else:
            if len(sizes) == 4:
                rg = ref[pos:pos + sizes[0]]
                pos += len(rg)
                sizes = sizes[1:]
            elif len(sizes) == 3:
                rg = b""
            else:
                return None
            ft = ref[pos:pos + sizes[0]]
            pos += len(ft) + 8
            calls.append("c:" + (rg.hex() or "-") + ":" + (ft.hex() or "-"))
    if pos != len(ref):
        return None
    return ";".join(calls)


def check_sinks(rep, tier, rng, drv, run, tmp):
    specs = sink_specs(tier, rng)
    # reference (fault-free) runs
    refs = {}
    lines = []
    keys = []
    for s in specs:
        for owns in (0, 1):
            for buf in (["d"] if owns else ["d", "n", "f16", "f64"]):
                keys.append((s, owns, buf))
                lines.append(f"sink {s} {owns} {buf} none {tmp}/ref{len(lines)} 0")
    out, probs = run_sharded(drv, lines)
    for pr in probs:
        rep.violation(f"driver died in a fault-free write (rc={pr[1]}): {pr[2][-300:]}", {"op": "sink", "case": pr[3]})
    ref_file = {}
    for k, li, o in zip(keys, lines, out):
        d = kv(o)
        if not o.startswith("OK") or set(d.get("st", "1").split(",")) != {"0"} or d.get("leak") != "0":
            rep.tie_broken(f"fault-free write does not complete cleanly: {o[:300]}", li)
            continue
        refs[k] = d
    # the bytes of the fault-free run (path-based run leaves them in a file: regenerate through `gen`)
    gout, _ = run_sharded(drv, [f"gen {s} {tmp}/sref{i}.parquet" for i, s in enumerate(specs)])
    for i, (s, o) in enumerate(zip(specs, gout)):
        if o.startswith("OK"):
            ref_file[s] = (tmp / f"sref{i}.parquet").read_bytes()
    cases = []           # (line, spec, owns, buf, plan, stop_on_error, model_line or None)
    for (s, owns, buf), d in refs.items():
        n, calls, wops = int(d["n"]), int(d["calls"]), int(d["wops"])
        ref = ref_file.get(s)
        hist = model_history(s, d["log"], ref) if ref is not None else None
        if hist is None:
            rep.tie_broken(f"the stream-call log of the fault-free run no longer has the modelled shape: {d['log']}", s)
        calls_kinds = re.findall(r"w(?=\d)|f|c", d["log"])
        if buf == "d":
            # every stream call of the history fails in turn (call-level injection)
            for k in range(calls):
                for soe in (0, 1):
                    ml = None
                    if hist and soe == 0:
                        kind = calls_kinds[k] if k < len(calls_kinds) else "?"
                        if kind == "w":
                            wi = sum(1 for x in calls_kinds[:k] if x == "w")
                            ml = f"sinkrun {owns} 0 ophalf:{wi} cur {hist}"
                        elif kind == "f":
                            ml = f"sinkrun {owns} 50000 opp:0:0 cur {hist}"
                        elif kind == "c":
                            ml = f"sinkrun {owns} 0 closefail cur {hist}"
                    cases.append((s, owns, buf, f"call:{k}", soe, ml))
        if owns == 0:
            # a sink that accepts L bytes in total, for every L (quick: every L for the small tables)
            step = 1 if (tier == "thorough" or n <= 900) else 3
            for L in list(range(0, n, step)) + [n - 1]:
                cases.append((s, owns, buf, f"byte:{L}", 0, None))
            # the k-th request to the sink is cut short (transient and persistent)
            for k in range(wops):
                for a in (0, 1, 7):
                    cases.append((s, owns, buf, f"op:{k}:{a}", 0, None))
                    cases.append((s, owns, buf, f"op:{k}:{a}:p", rng.randrange(2), None))
        else:
            step = 1 if tier == "thorough" else 5
            for L in sorted(set(list(range(0, n, step)) + [n - 1, 0, 3, 4, 5])):
                cases.append((s, owns, buf, f"byte:{L}", 0, None))
    lines = [f"sink {s} {owns} {buf} {plan} {tmp}/s{i} {soe}" for i, (s, owns, buf, plan, soe, ml) in enumerate(cases)]
    out, probs = run_sharded(drv, lines, timeout=1800)
    for pr in probs:
        rep.violation(f"driver died while a sink failure was injected (rc={pr[1]}): {pr[2][-300:]}", {"op": "sink", "case": pr[3]})
    mlines = [c[5] for c in cases if c[5]]
    mout, mp = run_sharded(run, mlines, timeout=1800) if mlines else ([], [])
    for pr in mp:
        rep.tie_broken(f"model runner died (rc={pr[1]}): {pr[2][-300:]}", pr[3])
    mres = dict(zip(mlines, mout))
    dist = {}
    for (s, owns, buf, plan, soe, ml), li, o in zip(cases, lines, out):
        rep.count(li)
        dist[plan.split(":")[0]] = dist.get(plan.split(":")[0], 0) + 1
        if o.startswith("FAULT"):
            rep.violation(f"writer crashed / leaked while the sink failed: {o[:300]}", {"op": "sink", "case": li})
            continue
        d = kv(o)
        if not o.startswith("OK") or "st" not in d:
            rep.tie_broken(f"unexpected driver output {o[:200]}", li)
            continue
        st = [int(x) for x in d["st"].split(",")]
        ref = refs[(s, owns, buf)]
        same = d["n"] == ref["n"] and d["fnv"] == ref["fnv"]
        closed = d["closed"] == "1"
        if plan.startswith("byte:") and owns == 1:
            sink_failed = int(plan[5:]) < int(ref["n"])       # the file system refused bytes beyond the limit
        else:
            sink_failed = d["sinkfail"] == "1"
        if d.get("leak") != "0":
            rep.violation(f"leak after a sink failure: {o[:200]}", {"op": "sink", "case": li})
        # --- property oracle
        if sink_failed and all(x == 0 for x in st):
            rep.violation(f"the sink failed ({plan}, buffer {buf}, owns={owns}) but every writer call returned CARQUET_OK: {o[:200]}",
                          {"op": "sink", "case": li}, key="C18:close:fflush-fclose-result-discarded")
        passthrough = plan.startswith("call:") and sink_failed and False
        if closed and st[-1] == 0 and not same:
            rep.violation(f"carquet_writer_close returned OK but the sink holds {d['n']} bytes (fault-free run: {ref['n']}): {o[:200]}",
                          {"op": "sink", "case": li}, key="C18:close:fflush-fclose-result-discarded")
        if soe == 1 and owns == 1 and d.get("exists") == "1" and not closed:
            rep.violation("carquet_writer_abort after a failed call left the file behind", {"op": "sink", "case": li})
        # --- model
        if ml:
            mo = mres.get(ml, "")
            md = kv(mo)
            if not mo.startswith("OK"):
                rep.tie_broken(f"model runner: {mo[:200]}", ml[:200])
            else:
                mst = [int(x) for x in md["st"].split(",")]
                if mst != st:
                    rep.tie_broken(f"statuses differ for {plan} (owns={owns}): CloseModel {mst}, implementation {st}", li)
    rep.cov["sink_case_distribution"] = dist
    if cases:
        rep.sample({"op": "sink", "case": lines[0]})
        rep.sample({"op": "sink", "case": lines[-1]})
    # --- writer entry states the histories do not reach
    wout, wprobs = run_sharded(drv, [f"wmisc {tmp}/wmisc.parquet"])
    rep.count("wmisc")
    for pr in wprobs:
        rep.violation(f"driver died in the writer entry-state case (rc={pr[1]}): {pr[2][-300:]}", {"op": "wmisc", "case": pr[3]})
    if wout and not wout[0].startswith("OK"):
        rep.violation(f"writer entry states (unopenable path / options == NULL / column index out of range): {wout[0][:200]}",
                      {"op": "wmisc", "case": f"wmisc {tmp}/wmisc.parquet"})
    # --- abort at every point
    acases = []
    for s in specs:
        nst = len(history_of(s))
        for owns in (0, 1):
            for step in range(nst + 1):
                acases.append(f"abort {s} {owns} {step} {tmp}/a{len(acases)}")
    out, probs = run_sharded(drv, acases)
    for pr in probs:
        rep.violation(f"driver died in an abort case (rc={pr[1]}): {pr[2][-300:]}", {"op": "abort", "case": pr[3]})
    for li, o in zip(acases, out):
        rep.count(li)
        d = kv(o)
        if o.startswith("FAULT"):
            rep.violation(f"carquet_writer_abort: {o[:300]}", {"op": "abort", "case": li})
        elif not o.startswith("OK"):
            rep.tie_broken(f"unexpected driver output {o[:200]}", li)
        elif d.get("exists") != "0":
            rep.violation("carquet_writer_abort left the file behind", {"op": "abort", "case": li})
        elif d.get("leak") != "0":
            rep.violation("carquet_writer_abort leaked", {"op": "abort", "case": li})


def run(tier):
    rep = Report(PID, tier)
    rng = random.Random(vlib.SEED * 7919 + 18)
    prelude(rep, PID)
    rep.cov["trusted_base"] = vlib.TRUSTED_BASE_COMMON + [
        "tools/gen.d/robust.py: regular-expression reading of which checks the open paths make and which stdio results carquet_writer_close looks at",
        "Writer/Stdio.v: the ISO C contract of a buffered output stream (full count when no error, sticky error indicator, fflush/fclose report a failed push) - modelled, with sink, buffering policy and reported counts universally quantified; glibc is observed against it through fopencookie and link-time wrappers",
        "the Thrift parse of the footer region is an arbitrary function in the C18 theorems (no assumption); its verdict in the correspondence run comes from a direct call of parquet_parse_file_metadata",
        "checks/robust_pq.py: independent structural validator (magics, footer length, Thrift decode of the footer, page walk) as the oracle for 'the prefix is itself a complete Parquet file'",
        "observed, not proved: carquet_writer_abort removes the file and frees everything (file system + LeakSanitizer)",
    ]
    rep.cov["rule"] = ("truncation: every cut position 0..len of every generated file (quick 4 files, thorough 41: 4 schemas x 6 codecs, "
                       "1..5 row groups) x 3 open paths, non-trivial = cut >= 12; sinks: every stream call of the history failing in turn, "
                       "every byte offset / every request of a fopencookie sink under 4 buffer sizes, RLIMIT_FSIZE for path-based writers, "
                       "abort before every call; distinct by case text")
    try:
        drv = build_driver("h_robust", extra=WRAP)
        run_ = build_runner("robust")
    except vlib.BuildError as e:
        rep.tie_broken("harness does not build against the current tree: " + str(e)[:500])
        return rep.finish()
    tmp = tmpdir()
    try:
        check_cuts(rep, tier, rng, drv, run_, tmp)
        check_sinks(rep, tier, rng, drv, run_, tmp)
    finally:
        shutil.rmtree(tmp, ignore_errors=True)
    return rep.finish()


def replay(path):
    j = json.loads(Path(path).read_text())
    r = j.get("replay", {})
    drv = build_driver("h_robust", extra=WRAP)
    tmp = tmpdir()
    try:
        if r.get("op") == "cut":
            f = tmp / "prefix.bin"
            f.write_bytes(bytes.fromhex(r["file_hex"]))
            out, rc, err = vlib.run_lines(drv, [f"cuts {f} {tmp}/t {len(bytes.fromhex(r['file_hex']))} {len(bytes.fromhex(r['file_hex'])) + 1}"])
            print("prefix of", len(bytes.fromhex(r["file_hex"])), "bytes, spec", r.get("spec"))
            print("implementation:", out)
            ok, why = pq.validate(bytes.fromhex(r["file_hex"]))
            print("independent validator:", ok, why)
            bad = (not out) or out[0].startswith("FAULT") or (",0" in out[0] or ":0," in out[0]) and not ok
            return 1 if bad else 0
        case = r.get("case")
        if not case:
            print(json.dumps(j, indent=1)[:3000])
            return 1
        toks = case.split()
        if toks[0] == "wmisc":
            out, rc, err = vlib.run_lines(drv, [f"wmisc {tmp}/r.parquet"])
            print("implementation:", out)
            return 0 if out and out[0].startswith("OK") else 1
        if toks[0] in ("sink", "abort"):
            toks[-2 if toks[0] == "sink" else -1] = str(tmp / "r")
        out, rc, err = vlib.run_lines(drv, [" ".join(toks)])
        print("case:", " ".join(toks))
        print("implementation:", out, "rc", rc)
        if not out or out[0].startswith("FAULT"):
            return 1
        d = kv(out[0])
        if toks[0] == "sink":
            ref_toks = list(toks)
            ref_toks[4] = "none"
            rout, _, _ = vlib.run_lines(drv, [" ".join(ref_toks)])
            rd = kv(rout[0]) if rout else {}
            print("fault-free run:  ", rout)
            st = [int(x) for x in d["st"].split(",")]
            failed = d["sinkfail"] == "1" or (toks[4].startswith("byte:") and int(toks[4][5:]) < int(rd.get("n", 0)))
            unreported = failed and all(x == 0 for x in st)
            ok_but_short = d["closed"] == "1" and st[-1] == 0 and (d["n"], d["fnv"]) != (rd.get("n"), rd.get("fnv"))
            print("sink failed:", failed, " every call OK:", all(x == 0 for x in st), " close OK with other bytes than the fault-free run:", ok_but_short)
            return 1 if (unreported or ok_but_short or d.get("leak") != "0") else 0
        return 1 if d.get("exists") != "0" or d.get("leak") != "0" else 0
    finally:
        shutil.rmtree(tmp, ignore_errors=True)
