"""Independent Thrift compact-protocol encoder and decoder, written from the protocol specification
(thrift/doc/specs/thrift-compact-protocol.md) - it shares no code with carquet, with the Coq model or with
the Coq specification.  Used by checks/C13.py as the conformance oracle.

Values:  ('bool', b) ('byte', z) ('i16', z) ('i32', z) ('i64', z) ('double', bits) ('binary', bytes)
         ('list', elem_code, [v..]) ('set', elem_code, [v..]) ('map', [(k, v)..]) ('struct', [(id, v)..])
         ('uuid', bytes16)
Type codes (field type / element type): 1 true|bool, 2 false|bool, 3 byte, 4 i16, 5 i32, 6 i64, 7 double,
8 binary, 9 list, 10 set, 11 map, 12 struct, 13 uuid.
"""

CODE = {'bool': 1, 'byte': 3, 'i16': 4, 'i32': 5, 'i64': 6, 'double': 7, 'binary': 8, 'list': 9, 'set': 10,
        'map': 11, 'struct': 12, 'uuid': 13}
KIND = {1: 'bool', 2: 'bool', 3: 'byte', 4: 'i16', 5: 'i32', 6: 'i64', 7: 'double', 8: 'binary', 9: 'list',
        10: 'set', 11: 'map', 12: 'struct', 13: 'uuid'}
BITS = {'byte': 8, 'i16': 16, 'i32': 32, 'i64': 64}


class DecodeError(Exception):
    pass


def zigzag(z):
    return 2 * z if z >= 0 else -2 * z - 1


def unzigzag(n):
    return n // 2 if n % 2 == 0 else -(n // 2) - 1


def uleb(n, pad=0):
    """ULEB128; pad > 0 appends that many redundant zero groups (legal, non-minimal)."""
    out = []
    while n >= 0x80:
        out.append((n & 0x7F) | 0x80)
        n >>= 7
    out.append(n)
    for _ in range(pad):
        out[-1] |= 0x80
        out.append(0)
    return bytes(out)


# ------------------------------------------------------------------------------------------- decoder
class Reader:
    def __init__(self, data, strict=True, max_depth=200):
        self.b = bytes(data)
        self.p = 0
        self.strict = strict
        self.max_depth = max_depth

    def byte(self):
        if self.p >= len(self.b):
            raise DecodeError("truncated")
        v = self.b[self.p]
        self.p += 1
        return v

    def take(self, n):
        if self.p + n > len(self.b):
            raise DecodeError("truncated")
        v = self.b[self.p:self.p + n]
        self.p += n
        return v

    def varint(self):
        n, shift, k = 0, 0, 0
        while True:
            b = self.byte()
            k += 1
            n |= (b & 0x7F) << shift
            if not (b & 0x80):
                break
            shift += 7
            if k >= 10:
                raise DecodeError("varint longer than 10 bytes")
        if n >= 1 << 64:
            raise DecodeError("varint does not fit 64 bits")
        return n

    def integer(self, bits):
        z = unzigzag(self.varint())
        if not (-(1 << (bits - 1)) <= z < (1 << (bits - 1))):
            raise DecodeError("integer out of range for i%d" % bits)
        return z

    def value(self, kind, depth=0):
        """value in element position (or the payload after a non-boolean field header)"""
        if depth > self.max_depth:
            raise DecodeError("too deep")
        if kind == 'bool':
            b = self.byte()
            if b == 1:
                return ('bool', True)
            if b in (0, 2):
                return ('bool', False)
            raise DecodeError("bad boolean element %d" % b)
        if kind == 'byte':
            b = self.byte()
            return ('byte', b - 256 if b >= 128 else b)
        if kind in ('i16', 'i32', 'i64'):
            return (kind, self.integer(BITS[kind]))
        if kind == 'double':
            return ('double', int.from_bytes(self.take(8), 'little'))
        if kind == 'binary':
            n = self.varint()
            if n >= 1 << 31:
                raise DecodeError("binary length")
            return ('binary', self.take(n))
        if kind in ('list', 'set'):
            h = self.byte()
            et = h & 15
            if et not in KIND:
                raise DecodeError("bad element type %d" % et)
            n = h >> 4
            if n == 15:
                n = self.varint()
                if n >= 1 << 31:
                    raise DecodeError("list size")
            if n > len(self.b) - self.p:
                raise DecodeError("list size exceeds data")
            return (kind, CODE[KIND[et]], [self.value(KIND[et], depth + 1) for _ in range(n)])
        if kind == 'map':
            n = self.varint()
            if n == 0:
                return ('map', [])
            if n >= 1 << 31 or n > len(self.b) - self.p:
                raise DecodeError("map size")
            t = self.byte()
            kt, vt = t >> 4, t & 15
            if kt not in KIND or vt not in KIND:
                raise DecodeError("bad map types")
            out = []
            for _ in range(n):
                k = self.value(KIND[kt], depth + 1)
                v = self.value(KIND[vt], depth + 1)
                out.append((k, v))
            return ('map', out)
        if kind == 'struct':
            return self.struct(depth)
        if kind == 'uuid':
            return ('uuid', self.take(16))
        raise DecodeError("kind")

    def struct(self, depth=0):
        last = 0
        fields = []
        while True:
            h = self.byte()
            if h == 0:
                return ('struct', fields)
            ty, delta = h & 15, h >> 4
            if delta == 0:
                fid = self.integer(16)
            else:
                fid = last + delta
                if fid >= 1 << 15:
                    raise DecodeError("field id out of range")
            last = fid
            if ty == 1:
                fields.append((fid, ('bool', True)))
            elif ty == 2:
                fields.append((fid, ('bool', False)))
            elif ty in KIND:
                fields.append((fid, self.value(KIND[ty], depth + 1)))
            else:
                raise DecodeError("bad field type %d" % ty)


def decode_struct(data, max_depth=200):
    """-> (value, bytes consumed); raises DecodeError"""
    r = Reader(data, max_depth=max_depth)
    v = r.struct()
    return v, r.p


# ------------------------------------------------------------------------------------------- encoder
class Style:
    """Which of the legal encodings to produce.  rng=None: canonical (shortest forms)."""

    def __init__(self, rng=None, p_long_field=0.0, p_pad=0.0, p_long_list=0.0, p_alt_bool=0.0):
        self.rng = rng
        self.p_long_field, self.p_pad, self.p_long_list, self.p_alt_bool = p_long_field, p_pad, p_long_list, p_alt_bool

    def flip(self, p):
        return self.rng is not None and self.rng.random() < p

    def pad(self):
        return self.rng.randrange(1, 4) if self.flip(self.p_pad) else 0


CANON = Style()


def enc_varint(n, st):
    b = uleb(n)
    pad = st.pad()
    if pad and len(b) + pad <= 10:
        return uleb(n, pad)
    return b


def kind_of(v):
    return v[0]


def enc_value(v, st=CANON):
    k = v[0]
    if k == 'bool':
        return bytes([1]) if v[1] else bytes([2 if st.flip(st.p_alt_bool) else 0])
    if k == 'byte':
        return bytes([v[1] & 0xFF])
    if k in ('i16', 'i32', 'i64'):
        return enc_varint(zigzag(v[1]), st)
    if k == 'double':
        return int(v[1]).to_bytes(8, 'little')
    if k == 'binary':
        return enc_varint(len(v[1]), st) + bytes(v[1])
    if k in ('list', 'set'):
        et, items = v[1], v[2]
        if et == 1 and st.flip(st.p_alt_bool):
            et = 2
        n = len(items)
        if n <= 14 and not st.flip(st.p_long_list):
            out = bytes([(n << 4) | et])
        else:
            out = bytes([0xF0 | et]) + enc_varint(n, st)
        return out + b"".join(enc_value(x, st) for x in items)
    if k == 'map':
        items = v[1]
        if not items:
            return b"\x00"
        kc, vc = CODE[items[0][0][0]], CODE[items[0][1][0]]
        return enc_varint(len(items), st) + bytes([(kc << 4) | vc]) + b"".join(
            enc_value(a, st) + enc_value(b, st) for a, b in items)
    if k == 'struct':
        return enc_struct(v, st)
    if k == 'uuid':
        return bytes(v[1])
    raise ValueError(k)


def enc_struct(v, st=CANON):
    out = bytearray()
    last = 0
    for fid, x in v[1]:
        ty = (1 if x[1] else 2) if x[0] == 'bool' else CODE[x[0]]
        delta = fid - last
        if 1 <= delta <= 15 and not st.flip(st.p_long_field):
            out.append((delta << 4) | ty)
        else:
            out.append(ty)
            out += enc_varint(zigzag(fid), st)
        last = fid
        if x[0] != 'bool':
            out += enc_value(x, st)
    out.append(0)
    return bytes(out)


# ------------------------------------------------------------------------------------------- text
def shex(z):
    return ("-%x" % -z) if z < 0 else ("%x" % z)


def hexs(b):
    return bytes(b).hex() if len(b) else "-"


def to_text(v):
    """same rendering as ocaml/run_thrift.ml tval_to_string (cross-check with the Coq specification)"""
    k = v[0]
    if k == 'bool':
        return 't' if v[1] else 'f'
    if k == 'byte':
        return 'y' + shex(v[1])
    if k == 'i16':
        return 'h' + shex(v[1])
    if k == 'i32':
        return 'i' + shex(v[1])
    if k == 'i64':
        return 'l' + shex(v[1])
    if k == 'double':
        return 'd%x' % v[1]
    if k == 'binary':
        return 'b' + hexs(v[1])
    if k == 'list':
        return 'L%d(%s)' % (v[1], ",".join(to_text(x) for x in v[2]))
    if k == 'set':
        return 'S%d(%s)' % (v[1], ",".join(to_text(x) for x in v[2]))
    if k == 'map':
        return 'M(%s)' % ",".join(to_text(a) + ":" + to_text(b) for a, b in v[1])
    if k == 'struct':
        return '{%s}' % ",".join("%d:%s" % (fid, to_text(x)) for fid, x in v[1])
    if k == 'uuid':
        return 'u' + hexs(v[1])
    raise ValueError(k)


def depth(v):
    k = v[0]
    if k in ('list', 'set'):
        return 1 + max([depth(x) for x in v[2]] + [0])
    if k == 'map':
        return 1 + max([max(depth(a), depth(b)) for a, b in v[1]] + [0])
    if k == 'struct':
        return 1 + max([depth(x) for _, x in v[1]] + [0])
    return 1
