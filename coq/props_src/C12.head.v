(** C12 - encoded bytes follow the Parquet encoding specifications (both directions).
    Only restatements.  Specifications: Enc/BitpackSpec.v (positional-numeral reading of the bit-packing
    layout), Enc/RleSpec.v (run grammar [Denotes] + executable decoder [spec_decode_all] written from
    the Encodings document); neither imports a model. *)
From Coq Require Import NArith List.
From Carquet Require Import Base.Res Enc.BitpackSpec Enc.BitpackModel Enc.BitpackProofs
  Enc.RleSpec Enc.RleModel Enc.RleProofs Enc.RleSpecProofs.
Import ListNotations.
Local Open Scope N_scope.

(** raw bit packing: the packer writes the specified layout ... *)
Theorem bitpack_encode_conforms : forall w vs, length vs = 8%nat -> pack8 w vs = pack_spec w vs.
Proof. exact pack8_spec. Qed.
Print Assumptions bitpack_encode_conforms.

(** ... and the unpacker reads any w bytes as the specification does *)
Theorem bitpack_decode_conforms : forall w input, (w <= length input)%nat ->
  unpack8 w input = Ok (unpack_spec w (firstn w input)).
Proof. exact unpack8_spec. Qed.
Print Assumptions bitpack_decode_conforms.

(** RLE hybrid, carquet-encode -> specification: the encoder's bytes are a legal stream of the run
    grammar carrying the input followed by fewer than 8 padding zeros (the final group's padding) ... *)
Theorem rle_encode_conforms : forall w vs, fits w vs -> 2 * N.of_nat (length vs) < 2 ^ 32 ->
  exists k, (k < 8)%nat /\ Denotes w (encode_all w vs) (vs ++ repeat 0 k).
Proof. exact rle_encode_denotes. Qed.
Print Assumptions rle_encode_conforms.

(** ... and the independent decoder written from the specification recovers exactly that. *)
Theorem rle_spec_decoder_reads_encoder : forall w vs, fits w vs -> 2 * N.of_nat (length vs) < 2 ^ 32 ->
  exists k, (k < 8)%nat /\ spec_decode_all w (encode_all w vs) = Some (vs ++ repeat 0 k).
Proof. exact spec_decodes_encoder. Qed.
Print Assumptions rle_spec_decoder_reads_encoder.

(** RLE hybrid, specification -> carquet-decode: EVERY legal stream - RLE runs of any count including
    zero-length runs, bit-packed runs of any number of groups, padded final groups, any mix - is decoded
    to the values it denotes (the first n of them when n are requested). *)
Theorem rle_decode_accepts : forall w bytes vals n, (w <= 32)%nat -> Denotes w bytes vals ->
  decode_all w bytes n = firstn n vals.
Proof. exact rle_decode_denotes. Qed.
Print Assumptions rle_decode_accepts.

(** the executable specification decoder is sound for the grammar (ties [spec_decode_all] to [Denotes]) *)
Theorem rle_spec_decoder_sound : forall w rs, Forall (wf_run w) rs ->
  spec_decode_all w (bytes_of_runs w rs) = Some (runs_vals rs).
Proof. exact spec_decode_all_runs. Qed.
Print Assumptions rle_spec_decoder_sound.
