(** C11 - every encoding decodes its own output back to the original sequence.
    Only restatements; proofs live in Enc/*Proofs.v.  Models: Enc/BitpackModel.v (src/core/bitpack.c),
    Enc/RleModel.v (src/encoding/rle.c).  The other encodings are restated from the enc2 engine below. *)
From Coq Require Import NArith List.
From Carquet Require Import Base.Res Enc.BitpackSpec Enc.BitpackModel Enc.BitpackProofs Enc.BitpackNProofs
  Enc.BitpackLoopModel Enc.BitpackLoopProofs
  Enc.RleSpec Enc.RleModel Enc.RleDecProofs Enc.RleProofs File.ForeignModel Enc.RleLevelsRoundtrip.
Import ListNotations.
Local Open Scope N_scope.

(** Raw bit packing, one group of 8 values at any width (not only 0..32): unpacking the packed group
    (followed by anything) gives back the values, masked to the width. *)
Theorem bitpack8_roundtrip : forall w vs rest, length vs = 8%nat ->
  unpack8 w (pack8 w vs ++ rest) = Ok (map (fun v => v mod 2 ^ N.of_nat w) vs).
Proof. exact unpack8_pack8. Qed.
Print Assumptions bitpack8_roundtrip.

(** ... hence exactly the values when they fit the width; the group occupies exactly w bytes. *)
Theorem bitpack8_roundtrip_exact : forall w vs rest, length vs = 8%nat ->
  Forall (fun v => v < 2 ^ N.of_nat w) vs -> unpack8 w (pack8 w vs ++ rest) = Ok vs.
Proof. exact unpack8_pack8_small. Qed.
Print Assumptions bitpack8_roundtrip_exact.

Theorem bitpack8_size : forall w vs, length (pack8 w vs) = w.
Proof. exact pack8_length. Qed.
Print Assumptions bitpack8_size.

(** The C loops themselves (src/core/bitpack.c mirrored statement by statement in Enc/BitpackLoopModel.v: the
    eight specialised unpackers, the dispatch switch, the general 9..32-bit gather loop, the memset + scatter
    loop of the packer, with checked reads/writes/shifts and explicit 8/16/32/64-bit wraps) compute exactly the
    closed forms [unpack8] / [pack8] used above, faults included, at every width 0..32 and for every input:
    so the theorems of this file are theorems about the loops. *)
Theorem bitunpack8_loops_refine : forall w input, (w <= 32)%nat -> Forall (fun b => b < 256) input ->
  unpack8_c w input = unpack8 w input.
Proof. exact unpack8_c_eq_total. Qed.
Print Assumptions bitunpack8_loops_refine.

Theorem bitpack8_loops_refine : forall w vs, (w <= 32)%nat -> length vs = 8%nat ->
  pack8_c w vs = Ok (pack8 w vs).
Proof. exact pack8_c_eq_total. Qed.
Print Assumptions bitpack8_loops_refine.

(** Raw bit packing of any number of values (carquet_bitpack_32 / carquet_bitunpack_32, widths 1..32;
    at width 0 nothing is written and zeros come back): the unpacker returns the values and reports
    exactly the number of bytes the packer wrote. *)
Theorem bitpack32_any_count_roundtrip : forall w vs, (1 <= w <= 32)%nat ->
  bitunpack_32 w (bitpack_32 w vs) (length vs)
  = Ok (map (fun v => v mod 2 ^ N.of_nat w) vs, length (bitpack_32 w vs)).
Proof. exact bitpack32_roundtrip. Qed.
Print Assumptions bitpack32_any_count_roundtrip.

(** RLE / bit-packed hybrid at every bit width 0..32: for every value sequence (any length, any run
    structure) whose values fit the width, decode_all (encode_all vs) asked for |vs| values returns vs.
    (2 * |vs| < 2^32 is the domain of the C encoder's 32-bit run header.) *)
Theorem rle_roundtrip : forall w vs, (w <= 32)%nat -> fits w vs -> 2 * N.of_nat (length vs) < 2 ^ 32 ->
  decode_all w (encode_all w vs) (length vs) = vs.
Proof. exact rle_roundtrip_lemma. Qed.
Print Assumptions rle_roundtrip.

(** ... and the int16 level decoder (carquet_rle_decode_levels, a separate implementation in rle.c) reads
    back what the level encoder wrote, at every level bit width 1..32. *)
Theorem rle_levels_roundtrip : forall w vs, (1 <= w <= 32)%nat -> fits w vs -> 2 * N.of_nat (length vs) < 2 ^ 32 ->
  rle_decode_levels w (encode_all w vs) (length vs) = vs.
Proof. exact rle_levels_roundtrip_lemma. Qed.
Print Assumptions rle_levels_roundtrip.

(** The streaming decoder agrees with the one-shot content under any chunking and skipping: every
    history of get / get_batch k / skip k on any legal stream observes exactly what a cursor over the
    denoted value list observes (values delivered, counts skipped). *)
Theorem rle_stream_refines : forall w bytes vals ops, (w <= 32)%nat -> Denotes w bytes vals ->
  run_ops w (dec_init bytes) ops = cursor_ops vals ops.
Proof. exact rle_stream_refines_lemma. Qed.
Print Assumptions rle_stream_refines.

(** ... in particular on the encoder's own output (the stream carries the input then < 8 zeros). *)
Theorem rle_stream_refines_own_output : forall w vs ops, (w <= 32)%nat -> fits w vs ->
  2 * N.of_nat (length vs) < 2 ^ 32 ->
  exists k, (k < 8)%nat /\ run_ops w (dec_init (encode_all w vs)) ops = cursor_ops (vs ++ repeat 0 k) ops.
Proof.
  intros w vs ops Hw Hf Hb. destruct (rle_encode_denotes w vs Hf Hb) as (k & Hk & HD).
  exists k. split; [exact Hk|]. exact (rle_stream_refines_lemma w _ _ ops Hw HD).
Qed.
Print Assumptions rle_stream_refines_own_output.
