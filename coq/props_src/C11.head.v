(** C11 - every encoding decodes its own output back to the original sequence.
    Only restatements; proofs live in Enc/*Proofs.v.  Models: Enc/BitpackModel.v (src/core/bitpack.c),
    Enc/RleModel.v (src/encoding/rle.c).  The other encodings are restated from the enc2 engine below. *)
From Coq Require Import NArith List.
From Carquet Require Import Base.Res Enc.BitpackSpec Enc.BitpackModel Enc.BitpackProofs Enc.BitpackNProofs
  Enc.BitpackLoopModel Enc.BitpackLoopProofs
  Enc.RleSpec Enc.RleModel Enc.RleDecProofs Enc.RleProofs File.ForeignModel Enc.RleLevelsRoundtrip
  Enc.BitRwSpec Enc.BitRwModel Enc.BitRwProofs.
Import ListNotations.
Local Open Scope N_scope.

(** Raw bit packing, one group of 8 values at any width (not only 0..32): unpacking the packed group
    (followed by anything) gives back the values, masked to the width. *)
Theorem bitpack8_roundtrip : forall w vs rest, length vs = 8%nat ->
  unpack8 w (pack8 w vs ++ rest) = Ok (map (fun v => v mod 2 ^ N.of_nat w) vs).
Proof. exact unpack8_pack8. Qed.
Print Assumptions bitpack8_roundtrip.

(** ... hence exactly the values when they fit the width; the group occupies exactly w bytes. *)
Theorem bitpack8_roundtrip_exact : forall w vs rest, length vs = 8%nat ->
  Forall (fun v => v < 2 ^ N.of_nat w) vs -> unpack8 w (pack8 w vs ++ rest) = Ok vs.
Proof. exact unpack8_pack8_small. Qed.
Print Assumptions bitpack8_roundtrip_exact.

Theorem bitpack8_size : forall w vs, length (pack8 w vs) = w.
Proof. exact pack8_length. Qed.
Print Assumptions bitpack8_size.

(** Raw bit packing through the bit writer / bit reader pair of core/bitpack.c (fields of ANY widths, mixed):
    for every sequence of write_bit / write_bits / write_bits64 calls (any values; widths above the type's are
    clamped as the code clamps them, zero widths write nothing) into a buffer that holds the bits, the bytes written
    are the LSB-first layout of BitRwSpec - exactly ceil(bits/8) of them - and reading the same sequence back returns
    every value masked to its width, consuming exactly the bits written. *)
Theorem bit_rw_roundtrip : forall cap gs, stream_bits (all_fields gs) <= 8 * cap ->
  let out := w_out (write_all cap gs) in
  out = stream_bytes (all_fields gs) /\
  exists s', read_all (br_init out) gs = Some (map seg_value gs, s') /\
             remaining_bits s' = 8 * N.of_nat (length out) - stream_bits (all_fields gs).
Proof. exact bit_rw_roundtrip_lemma. Qed.
Print Assumptions bit_rw_roundtrip.

(** The two loops of that code (drain / refill the 64-bit accumulator) never exhaust the fuel of the model. *)
Theorem bit_rw_loops_terminate : forall s r, WInv s -> w_bits s <= 79 -> RInv r ->
  flush_step (flush_buffer s) = flush_buffer s /\ refill_step (refill_buffer r) = refill_buffer r.
Proof. intros s r H1 H2 H3. split; [exact (flush_done s H1 H2)|exact (refill_done r H3)]. Qed.
Print Assumptions bit_rw_loops_terminate.

(** The writer before /repo 22baf41 (no drain in front of the OR into the accumulator) does NOT have the property:
    eight 11-bit values are enough (found by the coverage audit, no case had reached the bit writer). *)
Theorem bit_writer_before_22baf41_refuted :
  exists vs, let fs := map (fun v => (v, 11)) vs in
    w_out (bw_flush (fold_left (fun s v => write_bits_old s v 11) vs (bw_init 11))) <> stream_bytes fs.
Proof. exact bit_writer_old_refuted. Qed.
Print Assumptions bit_writer_before_22baf41_refuted.

(** The C loops themselves (src/core/bitpack.c mirrored statement by statement in Enc/BitpackLoopModel.v: the
    eight specialised unpackers, the dispatch switch, the general 9..32-bit gather loop, the memset + scatter
    loop of the packer, with checked reads/writes/shifts and explicit 8/16/32/64-bit wraps) compute exactly the
    closed forms [unpack8] / [pack8] used above, faults included, at every width 0..32 and for every input:
    so the theorems of this file are theorems about the loops. *)
Theorem bitunpack8_loops_refine : forall w input, (w <= 32)%nat -> Forall (fun b => b < 256) input ->
  unpack8_c w input = unpack8 w input.
Proof. exact unpack8_c_eq_total. Qed.
Print Assumptions bitunpack8_loops_refine.

Theorem bitpack8_loops_refine : forall w vs, (w <= 32)%nat -> length vs = 8%nat ->
  pack8_c w vs = Ok (pack8 w vs).
Proof. exact pack8_c_eq_total. Qed.
Print Assumptions bitpack8_loops_refine.

(** Raw bit packing of any number of values (carquet_bitpack_32 / carquet_bitunpack_32, widths 1..32;
    at width 0 nothing is written and zeros come back): the unpacker returns the values and reports
    exactly the number of bytes the packer wrote. *)
Theorem bitpack32_any_count_roundtrip : forall w vs, (1 <= w <= 32)%nat ->
  bitunpack_32 w (bitpack_32 w vs) (length vs)
  = Ok (map (fun v => v mod 2 ^ N.of_nat w) vs, length (bitpack_32 w vs)).
Proof. exact bitpack32_roundtrip. Qed.
Print Assumptions bitpack32_any_count_roundtrip.

(** RLE / bit-packed hybrid at every bit width 0..32: for every value sequence (any length, any run
    structure) whose values fit the width, decode_all (encode_all vs) asked for |vs| values returns vs.
    (2 * |vs| < 2^32 is the domain of the C encoder's 32-bit run header.) *)
Theorem rle_roundtrip : forall w vs, (w <= 32)%nat -> fits w vs -> 2 * N.of_nat (length vs) < 2 ^ 32 ->
  decode_all w (encode_all w vs) (length vs) = vs.
Proof. exact rle_roundtrip_lemma. Qed.
Print Assumptions rle_roundtrip.

(** ... and the int16 level decoder (carquet_rle_decode_levels, a separate implementation in rle.c) reads
    back what the level encoder wrote, at every level bit width 1..32. *)
Theorem rle_levels_roundtrip : forall w vs, (1 <= w <= 32)%nat -> fits w vs -> 2 * N.of_nat (length vs) < 2 ^ 32 ->
  rle_decode_levels w (encode_all w vs) (length vs) = vs.
Proof. exact rle_levels_roundtrip_lemma. Qed.
Print Assumptions rle_levels_roundtrip.

(** The streaming decoder agrees with the one-shot content under any chunking and skipping: every
    history of get / get_batch k / skip k on any legal stream observes exactly what a cursor over the
    denoted value list observes (values delivered, counts skipped). *)
Theorem rle_stream_refines : forall w bytes vals ops, (w <= 32)%nat -> Denotes w bytes vals ->
  run_ops w (dec_init bytes) ops = cursor_ops vals ops.
Proof. exact rle_stream_refines_lemma. Qed.
Print Assumptions rle_stream_refines.

(** ... in particular on the encoder's own output (the stream carries the input then < 8 zeros). *)
Theorem rle_stream_refines_own_output : forall w vs ops, (w <= 32)%nat -> fits w vs ->
  2 * N.of_nat (length vs) < 2 ^ 32 ->
  exists k, (k < 8)%nat /\ run_ops w (dec_init (encode_all w vs)) ops = cursor_ops (vs ++ repeat 0 k) ops.
Proof.
  intros w vs ops Hw Hf Hb. destruct (rle_encode_denotes w vs Hf Hb) as (k & Hk & HD).
  exists k. split; [exact Hk|]. exact (rle_stream_refines_lemma w _ _ ops Hw HD).
Qed.
Print Assumptions rle_stream_refines_own_output.
