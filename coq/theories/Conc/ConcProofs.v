(** Proofs about the concurrency models of C07 (BatchConc.v, LazyInit.v over Interleave.v). *)
From Coq Require Import List NArith Arith Bool Lia Permutation.
From Carquet Require Import Conc.Interleave Conc.BatchConc.
Import ListNotations.
Local Open Scope N_scope.

(** * Forall2 at an index *)
Section F2.
  Context {A B : Type}.
  Lemma Forall2_nth_r (R : A -> B -> Prop) l1 l2 i b :
    Forall2 R l1 l2 -> nth_error l2 i = Some b -> exists a, nth_error l1 i = Some a /\ R a b.
  Proof.
    intros H; revert i; induction H as [|x y l l' Hxy H IH]; intros [|i] Hi; simpl in *; try discriminate.
    - inversion Hi; subst; eauto.
    - apply IH; assumption.
  Qed.
  Lemma Forall2_nth_l (R : A -> B -> Prop) l1 l2 i a :
    Forall2 R l1 l2 -> nth_error l1 i = Some a -> exists b, nth_error l2 i = Some b /\ R a b.
  Proof.
    intros H; revert i; induction H as [|x y l l' Hxy H IH]; intros [|i] Hi; simpl in *; try discriminate.
    - inversion Hi; subst; eauto.
    - apply IH; assumption.
  Qed.
  Lemma Forall2_set_nth (R R' : A -> B -> Prop) l1 l2 i a b' :
    Forall2 R l1 l2 -> (forall a b, R a b -> R' a b) ->
    nth_error l1 i = Some a -> R' a b' -> Forall2 R' l1 (set_nth i b' l2).
  Proof.
    intros H Hm; revert i; induction H as [|x y l l' Hxy H IH]; intros [|i] Hi Hb; simpl in *; try discriminate.
    - inversion Hi; subst. constructor; auto.
      clear -H Hm. induction H; constructor; auto.
    - constructor; auto.
  Qed.
  Lemma Forall2_len (R : A -> B -> Prop) l1 l2 : Forall2 R l1 l2 -> length l1 = length l2.
  Proof. induction 1; simpl; auto. Qed.
  Lemma Forall2_impl (R R' : A -> B -> Prop) l1 l2 :
    (forall a b, R a b -> R' a b) -> Forall2 R l1 l2 -> Forall2 R' l1 l2.
  Proof. intros Hm H; induction H; constructor; auto. Qed.
End F2.

(** * The batch reader: modes in which a column's reads do not depend on shared state *)
Section Batch.
  Variable fsz : N.
  Variable valid : col -> list (N * N) -> bool.

  Notation bact := (action shared priv).

  Definition ent (r : N * N) : N * N := (fst r, clip fsz (fst r) (snd r)).

  (** An oblivious action: changes the shared state by [g] (which leaves [err] alone) and appends a
      fixed entry to the private log - unless the column was skipped. *)
  Definition obl (g : shared -> shared) (e : N * N) : bact :=
    fun s p => if skip p then (s, p) else (g s, add_log p e).

  Definition gfun (m : mode) (r : N * N) : shared -> shared :=
    match m with
    | Fread => fun s => set_pos s (fst r + clip fsz (fst r) (snd r))
    | _ => fun s => s
    end.

  Definition good_mode (m : mode) : Prop := m <> FreadUnlocked.

  Lemma body_obl m c : good_mode m ->
    body fsz m c = map (fun r => obl (gfun m r) (ent r)) c.
  Proof.
    intros G. destruct m; try (exfalso; apply G; reflexivity); reflexivity.
  Qed.

  Lemma gfun_err m r s : err (gfun m r s) = err s.
  Proof. destruct m; reflexivity. Qed.

  Lemma alone_log_ent c : alone_log fsz c = map ent c.
  Proof. reflexivity. Qed.

  (** the column fails when run alone *)
  Definition fails (c : col) : bool := negb (valid c (alone_log fsz c)).

  (** every action of a task leaves a skipped column and the shared state alone *)
  Definition skippable (a : bact) : Prop := forall s p, skip p = true -> err s = true -> a s p = (s, p).

  Lemma priv_eta p : mkPriv (skip p) (failed p) (rlog p) = p.
  Proof. destruct p; reflexivity. Qed.

  Lemma skippable_check : skippable a_check.
  Proof. intros s p Hs He. unfold a_check. rewrite He. rewrite <- Hs. rewrite priv_eta. reflexivity. Qed.
  Lemma skippable_obl g e : skippable (obl g e).
  Proof. intros s p Hs _. unfold obl. rewrite Hs. reflexivity. Qed.
  Lemma skippable_finish c : skippable (a_finish valid c).
  Proof. intros s p Hs _. unfold a_finish. rewrite Hs. reflexivity. Qed.

  Section Mode.
    Variable m : mode.
    Hypothesis Hm : good_mode m.

    Definition act (r : N * N) : bact := obl (gfun m r) (ent r).

    (** State of the thread of column [c], given the shared state [s]. *)
    Definition tinv (s : shared) (c : col) (t : thread shared priv) : Prop :=
      (fst t = p0 /\ snd t = a_check :: map act c ++ [a_finish valid c])
      \/ (exists done todo, c = done ++ todo /\ skip (fst t) = false /\ failed (fst t) = false /\
            rlog (fst t) = map ent done /\ snd t = map act todo ++ [a_finish valid c])
      \/ (snd t = [] /\ skip (fst t) = false /\ rlog (fst t) = alone_log fsz c /\
            failed (fst t) = fails c /\ (fails c = true -> err s = true))
      \/ (skip (fst t) = true /\ failed (fst t) = false /\ rlog (fst t) = [] /\ err s = true /\
            Forall skippable (snd t)).

    Lemma tinv_mono s s' c t : (err s = true -> err s' = true) -> tinv s c t -> tinv s' c t.
    Proof.
      intros H [A|[B|[C|D]]].
      - left; exact A.
      - right; left; exact B.
      - right; right; left. destruct C as (C1 & C2 & C3 & C4 & C5). repeat split; auto.
      - right; right; right. destruct D as (D1 & D2 & D3 & D4 & D5). repeat split; auto.
    Qed.

    Definition Inv (cols : list col) (c : config shared priv) : Prop :=
      Forall2 (tinv (fst c)) cols (snd c) /\
      (err (fst c) = true -> exists k, In k cols /\ fails k = true).

    Lemma Forall_skippable_tail c :
      Forall skippable (map act c ++ [a_finish valid c]).
    Proof.
      apply Forall_app; split.
      - apply Forall_forall. intros a Ha. apply in_map_iff in Ha. destruct Ha as [r [<- _]].
        apply skippable_obl.
      - constructor; [apply skippable_finish | constructor].
    Qed.

    Lemma Inv_step cols i c : Inv cols c -> Inv cols (step i c).
    Proof.
      intros [HF HG]. unfold step.
      destruct (nth_error (snd c) i) as [[p [|a rest]]|] eqn:E; try (split; assumption).
      destruct (Forall2_nth_r _ _ _ _ _ HF E) as [k [Ek Hk]].
      assert (Kin : In k cols) by (eapply nth_error_In; eauto).
      destruct Hk as [A|[B|[C|D]]]; simpl in *.
      - (* not started: the action is the flag check *)
        destruct A as [A1 A2]. subst p. inversion A2; subst a rest. clear A2.
        unfold a_check. simpl fst; simpl snd.
        split; [|exact HG].
        eapply Forall2_set_nth; [exact HF | intros; eassumption | exact Ek |].
        destruct (err (fst c)) eqn:Ee.
        + right; right; right. simpl. repeat split; auto. apply Forall_skippable_tail.
        + right; left. exists [], k. simpl. repeat split; auto.
      - destruct B as (done & todo & B1 & B2 & B3 & B4 & B5).
        destruct todo as [|r todo]; simpl in B5; inversion B5; subst a rest; clear B5.
        + (* decode / set the flag *)
          rewrite app_nil_r in B1. subst done.
          unfold a_finish. rewrite B2. simpl.
          assert (Ef : negb (valid k (rlog p)) = fails k)
            by (unfold fails; rewrite B4, alone_log_ent; reflexivity).
          rewrite Ef.
          split.
          * eapply Forall2_set_nth; [exact HF | | exact Ek |].
            { intros x y Hxy. eapply tinv_mono; [|exact Hxy].
              destruct (fails k); simpl; auto. }
            right; right; left. simpl. repeat split; auto.
            { intros Hf. rewrite Hf. reflexivity. }
          * destruct (fails k) eqn:Fk; simpl; [intros _; exists k; auto | exact HG].
        + (* a read *)
          assert (Ea : act r (fst c) p = (gfun m r (fst c), add_log p (ent r)))
            by (unfold act, obl; rewrite B2; reflexivity).
          rewrite Ea. unfold Inv. cbn [fst snd].
          split.
          * eapply Forall2_set_nth; [exact HF | | exact Ek |].
            { intros x y Hxy. eapply tinv_mono; [|exact Hxy]. rewrite gfun_err. auto. }
            right; left. exists (done ++ [r]), todo. simpl.
            rewrite <- app_assoc. simpl. repeat split; auto.
            rewrite map_app, B4. reflexivity.
          * rewrite gfun_err. exact HG.
      - destruct C as [C1 _]. discriminate.
      - destruct D as (D1 & D2 & D3 & D4 & D5).
        inversion D5 as [|x l Hx Hl]; subst x l.
        rewrite (Hx (fst c) p D1 D4). simpl.
        split; [|exact HG].
        eapply Forall2_set_nth; [exact HF | intros; eassumption | exact Ek |].
        right; right; right. simpl. repeat split; auto.
    Qed.

    Lemma Inv_init cols : Inv cols (s0, map (fun c => (p0, a_check :: map act c ++ [a_finish valid c])) cols).
    Proof.
      split; simpl; [|discriminate].
      induction cols; simpl; constructor; auto.
      left. simpl. auto.
    Qed.

    Lemma tasks_eq cols :
      tasks fsz valid m cols = (s0, map (fun c => (p0, a_check :: map act c ++ [a_finish valid c])) cols).
    Proof.
      unfold tasks, task. f_equal. apply map_ext. intros c. rewrite (body_obl m c Hm). reflexivity.
    Qed.

    (** What the caller sees after ANY complete schedule, in closed form. *)
    Definition expected (cols : list col) : option (list (list (N * N))) :=
      if existsb fails cols then None else Some (map (alone_log fsz) cols).

    Lemma logs_of_finished s cols ts :
      Forall2 (tinv s) cols ts -> err s = false ->
      (forall i t, nth_error ts i = Some t -> snd t = []) ->
      map (fun t => rlog (fst t)) ts = map (alone_log fsz) cols.
    Proof.
      intros HF Ee. induction HF as [|k t cols' ts' Hkt HF IH]; intros H; simpl; auto.
      f_equal.
      - destruct Hkt as [A|[B|[C|D]]].
        + destruct A as [_ A2]. rewrite (H 0%nat t eq_refl) in A2. discriminate.
        + destruct B as (d & td & _ & _ & _ & _ & B5). rewrite (H 0%nat t eq_refl) in B5.
          destruct (map act td); discriminate.
        + destruct C as (_ & _ & C3 & _). exact C3.
        + destruct D as (_ & _ & _ & D4 & _). congruence.
      - apply IH. intros i u Hu. apply (H (S i) u Hu).
    Qed.

    Lemma finished_obs cols c : Inv cols c -> finished c -> obs c = expected cols.
    Proof.
      intros [HF HG] Fin. unfold obs, expected.
      destruct (err (fst c)) eqn:Ee.
      - destruct (HG eq_refl) as [k [Kin Kf]].
        assert (X : existsb fails cols = true) by (apply existsb_exists; eauto).
        rewrite X. reflexivity.
      - assert (NF : forall k, In k cols -> fails k = false).
        { intros k Kin. destruct (In_nth_error _ _ Kin) as [i Ei].
          destruct (Forall2_nth_l _ _ _ _ _ HF Ei) as [t [Et Ht]].
          destruct Ht as [A|[B|[C|D]]].
          - destruct A as [_ A2]. rewrite (Fin i t Et) in A2. discriminate.
          - destruct B as (d & td & _ & _ & _ & _ & B5). rewrite (Fin i t Et) in B5.
            destruct (map act td); discriminate.
          - destruct C as (_ & _ & _ & _ & C5). destruct (fails k); auto.
            specialize (C5 eq_refl). congruence.
          - destruct D as (_ & _ & _ & D4 & _). congruence. }
        assert (X : existsb fails cols = false).
        { destruct (existsb fails cols) eqn:X; auto. apply existsb_exists in X.
          destruct X as [k [Kin Kf]]. rewrite (NF k Kin) in Kf. discriminate. }
        rewrite X. f_equal. apply (logs_of_finished (fst c)); assumption.
    Qed.

    Theorem batch_obs_closed_form cols sched :
      complete sched (tasks fsz valid m cols) ->
      obs (run sched (tasks fsz valid m cols)) = expected cols.
    Proof.
      intros HC. apply finished_obs.
      - apply (run_invariant shared priv (Inv cols)).
        + intros i c. apply Inv_step.
        + rewrite tasks_eq. apply Inv_init.
      - apply complete_finished. exact HC.
    Qed.

    (** The statement of C07 for one call, in the model: whatever the interleaving of the column
        threads, the call returns what the sequential execution (num_threads = 1) returns. *)
    Theorem batch_schedule_irrelevant cols sched :
      complete sched (tasks fsz valid m cols) ->
      obs (run sched (tasks fsz valid m cols)) =
      obs (run (seq_sched (tasks fsz valid m cols)) (tasks fsz valid m cols)).
    Proof.
      intros HC. rewrite (batch_obs_closed_form cols sched HC).
      symmetry. apply batch_obs_closed_form. apply seq_sched_complete.
    Qed.
  End Mode.
End Batch.

(** ** The three I/O modes of the current code *)
Theorem batch_fread_schedule_irrelevant fsz valid cols sched :
  complete sched (tasks fsz valid Fread cols) ->
  obs (run sched (tasks fsz valid Fread cols)) =
  obs (run (seq_sched (tasks fsz valid Fread cols)) (tasks fsz valid Fread cols)).
Proof. apply batch_schedule_irrelevant. discriminate. Qed.

Theorem batch_mmap_schedule_irrelevant fsz valid cols sched :
  complete sched (tasks fsz valid Mmap cols) ->
  obs (run sched (tasks fsz valid Mmap cols)) =
  obs (run (seq_sched (tasks fsz valid Mmap cols)) (tasks fsz valid Mmap cols)).
Proof. apply batch_schedule_irrelevant. discriminate. Qed.

Theorem batch_buffer_schedule_irrelevant fsz valid cols sched :
  complete sched (tasks fsz valid Buffer cols) ->
  obs (run sched (tasks fsz valid Buffer cols)) =
  obs (run (seq_sched (tasks fsz valid Buffer cols)) (tasks fsz valid Buffer cols)).
Proof. apply batch_schedule_irrelevant. discriminate. Qed.

(** Same content in every mode and for every schedule: the closed form does not mention the mode. *)
Theorem batch_modes_agree fsz valid cols m m' sched sched' :
  m <> FreadUnlocked -> m' <> FreadUnlocked ->
  complete sched (tasks fsz valid m cols) -> complete sched' (tasks fsz valid m' cols) ->
  obs (run sched (tasks fsz valid m cols)) = obs (run sched' (tasks fsz valid m' cols)).
Proof.
  intros G G' H H'.
  rewrite (batch_obs_closed_form fsz valid m G cols sched H).
  rewrite (batch_obs_closed_form fsz valid m' G' cols sched' H'). reflexivity.
Qed.

(** The hypotheses are satisfiable by a non-trivial value: two columns of two requests each, a
    schedule that alternates between them (and stutters once), in fread mode. *)
Example batch_example :
  let cols := [[(4, 256); (45, 200)]; [(727, 256); (776, 400)]] in
  let sched := [0; 1; 1; 0; 1; 0; 7; 0; 1]%nat in
  complete sched (tasks 2000 (valid_exact 2000) Fread cols) /\
  obs (run sched (tasks 2000 (valid_exact 2000) Fread cols)) =
    Some [[(4, 256); (45, 200)]; [(727, 256); (776, 400)]].
Proof.
  split.
  - intros i t Ht. destruct i as [|[|i]]; simpl in Ht; inversion Ht; subst; simpl; try lia.
    destruct i; discriminate.
  - vm_compute. reflexivity.
Qed.

(** ** The code before the repair: seek and read are separate steps - REFUTED (finding F27).
    Witness: two columns with one request each, schedule
    check_A seek_A check_B seek_B read_A ...  : column A reads at B's offset. *)
Definition f27_cols : list col := [[(0, 2)]; [(2, 2)]].
Definition f27_sched : list nat := [0; 0; 1; 1; 0; 0; 1; 1]%nat.

Theorem batch_fread_unlocked_schedule_irrelevant_refuted :
  exists fsz valid cols sched,
    complete sched (tasks fsz valid FreadUnlocked cols) /\
    obs (run sched (tasks fsz valid FreadUnlocked cols)) <>
    obs (run (seq_sched (tasks fsz valid FreadUnlocked cols)) (tasks fsz valid FreadUnlocked cols)).
Proof.
  exists 4, (valid_exact 4), f27_cols, f27_sched. split.
  - intros i t Ht. destruct i as [|[|i]]; simpl in Ht; inversion Ht; subst; simpl; try lia.
    destruct i; discriminate.
  - vm_compute. discriminate.
Qed.

(** what the witness does, for the record: the sequential run returns both columns' own bytes,
    the witness schedule sets [read_error] (column A decoded column B's bytes) *)
Example f27_witness_values :
  obs (run (seq_sched (tasks 4 (valid_exact 4) FreadUnlocked f27_cols)) (tasks 4 (valid_exact 4) FreadUnlocked f27_cols))
    = Some [[(0, 2)]; [(2, 2)]] /\
  obs (run f27_sched (tasks 4 (valid_exact 4) FreadUnlocked f27_cols)) = None /\
  logs (run f27_sched (tasks 4 (valid_exact 4) FreadUnlocked f27_cols)) = [[(2, 2)]; [(4, 0)]].
Proof. vm_compute. auto. Qed.

(** ** The general commuting theorem applied to the batch model (valid files).
    When decoding cannot fail, every action of a task preserves [err] and its private effect
    depends on the shared state only through [err]; such actions commute up to the stream
    position.  [commuting_schedule_irrelevant] then gives more than [obs]: the complete final
    configurations (flag, every private state) coincide. *)
Section Nice.
  Variable fsz : N.
  Definition eq_err (s t : shared) : Prop := err s = err t.

  Definition nice (a : action shared priv) : Prop :=
    (forall s p, err (fst (a s p)) = err s) /\
    (forall s t p, err s = err t -> snd (a s p) = snd (a t p)).

  Lemma nice_proper a : nice a -> proper eq_err a.
  Proof.
    intros [N1 N2] s t p E. unfold eq_err in *. split; [rewrite !N1; exact E | apply N2; exact E].
  Qed.
  Lemma nice_commute a b : nice a -> nice b -> commute eq_err a b.
  Proof.
    intros [A1 A2] [B1 B2] s p q. unfold eq_err. repeat split.
    - rewrite B1, A1, A1, B1. reflexivity.
    - apply A2. rewrite B1. reflexivity.
    - apply B2. rewrite A1. reflexivity.
  Qed.

  Lemma nice_check : nice a_check.
  Proof.
    split; intros; unfold a_check; simpl; auto. rewrite H. reflexivity.
  Qed.
  Lemma nice_obl g e : (forall s, err (g s) = err s) -> nice (obl g e).
  Proof.
    intros Hg. split; intros; unfold obl; destruct (skip p); simpl; auto.
  Qed.
  Lemma nice_finish_true c : nice (a_finish (fun _ _ => true) c).
  Proof.
    split; intros; unfold a_finish; destruct (skip p); simpl; auto.
  Qed.

  Lemma tasks_nice m cols : m <> FreadUnlocked ->
    forall i t a, nth_error (snd (tasks fsz (fun _ _ => true) m cols)) i = Some t -> In a (snd t) -> nice a.
  Proof.
    intros G i t a Ht Ha. simpl in Ht.
    apply nth_error_In in Ht. apply in_map_iff in Ht. destruct Ht as [c [<- _]].
    unfold task in Ha. simpl in Ha. destruct Ha as [<-|Ha]; [apply nice_check|].
    apply in_app_or in Ha. destruct Ha as [Ha|[<-|[]]]; [|apply nice_finish_true].
    rewrite (body_obl fsz m c G) in Ha. apply in_map_iff in Ha. destruct Ha as [r [<- _]].
    apply nice_obl. intros s. apply gfun_err.
  Qed.

  Theorem batch_valid_file_configurations_agree m cols sched :
    m <> FreadUnlocked ->
    complete sched (tasks fsz (fun _ _ => true) m cols) ->
    cfg_eq eq_err (run sched (tasks fsz (fun _ _ => true) m cols))
                  (run (seq_sched (tasks fsz (fun _ _ => true) m cols)) (tasks fsz (fun _ _ => true) m cols)).
  Proof.
    intros G HC.
    apply commuting_schedule_irrelevant; try assumption; unfold eq_err; try congruence.
    split.
    - intros i t a Ht Ha. apply nice_proper. exact (tasks_nice m cols G i t a Ht Ha).
    - intros i j ti tj a b _ Hi Hj Ha Hb.
      apply nice_commute; [exact (tasks_nice m cols G i ti a Hi Ha) | exact (tasks_nice m cols G j tj b Hj Hb)].
  Qed.
End Nice.

(** ** Independent readers: N reader handles on the same (immutable) file, each with its own
    FILE* / mapping / buffers, driven from N threads.  A reader's actions touch only its own state
    (its own stream position included), so any interleaving of any number of readers gives every
    reader the configuration it reaches alone.  The only state the readers share is the lazily
    initialised tables of LazyInit.v. *)
Section Readers.
  Variable fsz : N.
  (** private state of a reader: its own stream position and what it has read *)
  Definition rpriv := (N * list (N * N))%type.
  Definition r_seek (o : N) : action unit rpriv := fun u p => (u, (o, snd p)).
  Definition r_read (n : N) : action unit rpriv := fun u p =>
    let n' := clip fsz (fst p) n in (u, (fst p + n', snd p ++ [(fst p, n')])).
  Definition reader_task (reqs : list (N * N)) : thread unit rpriv :=
    ((0, []), flat_map (fun r => [r_seek (fst r); r_read (snd r)]) reqs).
  Definition readers (rs : list (list (N * N))) : config unit rpriv := (tt, map reader_task rs).

  Theorem independent_readers_irrelevant rs sched :
    complete sched (readers rs) -> run sched (readers rs) = run (seq_sched (readers rs)) (readers rs).
  Proof.
    apply private_schedule_irrelevant.
    intros i t a Ht Ha. simpl in Ht. apply nth_error_In in Ht. apply in_map_iff in Ht.
    destruct Ht as [reqs [<- _]]. simpl in Ha. apply in_flat_map in Ha.
    destruct Ha as [r [_ [<-|[<-|[]]]]].
    - exists (fun p => (fst r, snd p)). reflexivity.
    - exists (fun p => (fst p + clip fsz (fst p) (snd r), snd p ++ [(fst p, clip fsz (fst p) (snd r))])).
      reflexivity.
  Qed.

End Readers.

Example independent_readers_example :
  let rs := [[(4, 256); (45, 200)]; [(4, 256); (45, 200)]; [(727, 256)]] in
  complete [2; 0; 1; 1; 0; 2; 0; 1; 1; 0]%nat (readers 2000 rs) /\
  map (fun t => snd (fst t)) (snd (run [2; 0; 1; 1; 0; 2; 0; 1; 1; 0]%nat (readers 2000 rs)))
    = [[(4, 256); (45, 200)]; [(4, 256); (45, 200)]; [(727, 256)]].
Proof.
  split.
  - intros i t Ht. destruct i as [|[|[|i]]]; simpl in Ht; inversion Ht; subst; simpl; try lia.
    destruct i; discriminate.
  - vm_compute. reflexivity.
Qed.


(** * Lazy initialisation *)
From Carquet Require Import Conc.LazyInit.

Section NthSet.
  Context {A : Type}.
  Lemma nth_set_nth_eq i (x d : A) l : (i < length l)%nat -> nth i (set_nth i x l) d = x.
  Proof.
    revert i; induction l as [|h t IH]; intros [|i] H; simpl in *; try lia; auto. apply IH; lia.
  Qed.
  Lemma nth_set_nth_neq i j (x d : A) l : i <> j -> nth j (set_nth i x l) d = nth j l d.
  Proof.
    revert i j; induction l as [|h t IH]; intros [|i] [|j] H; simpl; auto; try congruence.
  Qed.
  Lemma set_nth_oob i (x : A) l : (length l <= i)%nat -> set_nth i x l = l.
  Proof.
    revert i; induction l as [|h t IH]; intros [|i] H; simpl in *; auto; try lia.
    f_equal. apply IH. lia.
  Qed.
End NthSet.

Section Lazy.
  Variable init : list N.
  Variable ws : list (nat * N).
  (** [cellok k x]: x is an acceptable content for cell k once it is initialised *)
  Variable cellok : nat -> N -> Prop.
  Hypothesis ws_ok : forall w, In w ws -> cellok (fst w) (snd w).
  Hypothesis ws_in : forall w, In w ws -> (fst w < length init)%nat.
  Hypothesis covers : forall k, (k < length init)%nat -> exists v, In (k, v) ws.

  Definition W (l : list (nat * N)) : list lact := map (fun w => l_write (fst w) (snd w)) l.
  Definition R (l : list nat) : list lact := map l_read l.

  Definition cell_ok (s : lz) (k : nat) : Prop := cellok k (nth k (table s) 0).
  Definition all_ok (s : lz) : Prop := forall k, (k < length init)%nat -> cell_ok s k.

  (** how the shared state may evolve *)
  Definition adv (s s' : lz) : Prop :=
    length (table s') = length (table s) /\
    (forall k, cell_ok s k -> cell_ok s' k) /\
    (flag s = true -> flag s' = true).

  Lemma adv_refl s : adv s s.
  Proof. repeat split; auto. Qed.

  Lemma adv_write s k v : cellok k v -> adv s (mkLz (flag s) (set_nth k v (table s))).
  Proof.
    intros Hv. repeat split; simpl; auto.
    - apply set_nth_length.
    - intros j Hj. unfold cell_ok in *. simpl.
      destruct (Nat.eq_dec k j) as [->|N].
      + destruct (Nat.lt_ge_cases j (length (table s))) as [L|L].
        * rewrite nth_set_nth_eq by assumption. exact Hv.
        * rewrite set_nth_oob by assumption. exact Hj.
      + rewrite nth_set_nth_neq by assumption. exact Hj.
  Qed.

  Lemma adv_setflag s : adv s (mkLz true (table s)).
  Proof. repeat split; simpl; auto. Qed.

  Definition linv (s : lz) (ks : list nat) (t : thread lz lpriv) : Prop :=
    (fst t = mkLp false [] /\ snd t = l_check :: W ws ++ l_setflag :: R ks)
    \/ (saw (fst t) = false /\ reads (fst t) = [] /\ exists ws1 ws2, ws = ws1 ++ ws2 /\
          snd t = W ws2 ++ l_setflag :: R ks /\ forall w, In w ws1 -> cell_ok s (fst w))
    \/ (saw (fst t) = true /\ reads (fst t) = [] /\ all_ok s /\ flag s = true /\
          exists ws2, snd t = W ws2 ++ l_setflag :: R ks)
    \/ (all_ok s /\ flag s = true /\ exists ks1 ks2, ks = ks1 ++ ks2 /\ snd t = R ks2 /\
          Forall2 cellok ks1 (reads (fst t))).

  Lemma linv_mono s s' ks t : adv s s' -> linv s ks t -> linv s' ks t.
  Proof.
    intros (A1 & A2 & A3) [A|[B|[D|C]]].
    - left; exact A.
    - right; left. destruct B as (B1 & B2 & w1 & w2 & B3 & B4 & B5).
      repeat split; auto. exists w1, w2. repeat split; auto.
    - right; right; left. destruct D as (D1 & D2 & D3 & D4 & D5).
      repeat split; auto. intros k Hk. apply A2, D3, Hk.
    - right; right; right. destruct C as (C1 & C2 & C3).
      repeat split; auto. intros k Hk. apply A2, C1, Hk.
  Qed.

  Definition LInv (kss : list (list nat)) (c : config lz lpriv) : Prop :=
    Forall2 (linv (fst c)) kss (snd c) /\
    (flag (fst c) = true -> all_ok (fst c)) /\
    (forall ks, In ks kss -> forall k, In k ks -> (k < length init)%nat) /\
    length (table (fst c)) = length init.

  Lemma lpriv_eta p : mkLp (saw p) (reads p) = p.
  Proof. destruct p; reflexivity. Qed.

  Lemma LInv_step kss i c : LInv kss c -> LInv kss (step i c).
  Proof.
    intros (HF & HG & HK & HL). unfold step.
    destruct (nth_error (snd c) i) as [[p [|a rest]]|] eqn:E; try (repeat split; assumption).
    destruct (Forall2_nth_r _ _ _ _ _ HF E) as [ks [Eks Hks]].
    assert (Kin : In ks kss) by (eapply nth_error_In; eauto).
    destruct Hks as [A|[B|[D|C]]]; simpl in *.
    - destruct A as [A1 A2]. subst p. inversion A2; subst a rest; clear A2.
      unfold l_check; simpl. unfold LInv; cbn [fst snd].
      split; [|repeat split; assumption].
      eapply Forall2_set_nth; [exact HF | intros; eassumption | exact Eks |].
      destruct (flag (fst c)) eqn:Fl.
      + right; right; left. simpl. repeat split; auto. exists ws. reflexivity.
      + right; left. simpl. repeat split; auto. exists [], ws. repeat split; auto.
        intros w [].
    - destruct B as (B1 & B2 & ws1 & ws2 & B3 & B4 & B5).
      destruct ws2 as [|w ws2]; simpl in B4; inversion B4; subst a rest; clear B4.
      + (* set the flag: every cell has been written by this thread *)
        assert (Ea : l_setflag (fst c) p = (mkLz true (table (fst c)), p)) by (unfold l_setflag; rewrite B1; reflexivity).
        rewrite Ea. unfold LInv; cbn [fst snd].
        rewrite app_nil_r in B3. subst ws1.
        assert (AO : all_ok (fst c)).
        { intros k Hk. destruct (covers k Hk) as [v Hv]. exact (B5 (k, v) Hv). }
        split; [|split; [intros _; exact AO | split; [exact HK | exact HL]]].
        eapply Forall2_set_nth; [exact HF | | exact Eks |].
        { intros x y Hxy. eapply linv_mono; [apply adv_setflag | exact Hxy]. }
        right; right; right. simpl. repeat split; auto.
        exists [], ks. repeat split; auto. rewrite B2. constructor.
      + (* one store *)
        assert (Ea : l_write (fst w) (snd w) (fst c) p = (mkLz (flag (fst c)) (set_nth (fst w) (snd w) (table (fst c))), p))
          by (unfold l_write; rewrite B1; reflexivity).
        rewrite Ea. unfold LInv; cbn [fst snd].
        assert (Wok : cellok (fst w) (snd w)) by (apply ws_ok; rewrite B3; apply in_or_app; right; left; reflexivity).
        pose proof (adv_write (fst c) (fst w) (snd w) Wok) as ADV.
        split.
        * eapply Forall2_set_nth; [exact HF | | exact Eks |].
          { intros x y Hxy. eapply linv_mono; [exact ADV | exact Hxy]. }
          right; left. simpl. repeat split; auto.
          exists (ws1 ++ [w]), ws2. rewrite <- app_assoc. simpl. repeat split; auto.
          intros u Hu. apply in_app_or in Hu. destruct Hu as [Hu|[<-|[]]].
          -- destruct ADV as (_ & A2 & _). apply A2, B5, Hu.
          -- unfold cell_ok. simpl.
             destruct (Nat.lt_ge_cases (fst w) (length (table (fst c)))) as [L|L].
             ++ rewrite nth_set_nth_eq by assumption. exact Wok.
             ++ exfalso. assert (X : (fst w < length init)%nat)
                  by (apply ws_in; rewrite B3; apply in_or_app; right; left; reflexivity). lia.
        * simpl. split; [|split; [exact HK | rewrite set_nth_length; exact HL]].
          intros Fl. intros k Hk. destruct ADV as (_ & A2 & _). apply A2. apply HG; assumption.
    - destruct D as (D1 & D2 & D3 & D4 & ws2 & D5).
      destruct ws2 as [|w ws2]; simpl in D5; inversion D5; subst a rest; clear D5.
      + assert (Ea : l_setflag (fst c) p = (fst c, p)) by (unfold l_setflag; rewrite D1; reflexivity).
        rewrite Ea. unfold LInv; cbn [fst snd].
        split; [|repeat split; assumption].
        eapply Forall2_set_nth; [exact HF | intros; eassumption | exact Eks |].
        right; right; right. simpl. repeat split; auto. exists [], ks. rewrite D2. repeat split; auto.
      + assert (Ea : l_write (fst w) (snd w) (fst c) p = (fst c, p)) by (unfold l_write; rewrite D1; reflexivity).
        rewrite Ea. unfold LInv; cbn [fst snd].
        split; [|repeat split; assumption].
        eapply Forall2_set_nth; [exact HF | intros; eassumption | exact Eks |].
        right; right; left. simpl. repeat split; auto. exists ws2. reflexivity.
    - destruct C as (C1 & C2 & ks1 & ks2 & C3 & C4 & C5).
      destruct ks2 as [|k ks2]; simpl in C4; inversion C4; subst a rest; clear C4.
      unfold l_read. unfold LInv; cbn [fst snd].
      split; [|repeat split; assumption].
      eapply Forall2_set_nth; [exact HF | intros; eassumption | exact Eks |].
      right; right; right. simpl. repeat split; auto.
      exists (ks1 ++ [k]), ks2. rewrite <- app_assoc. simpl. repeat split; auto.
      apply Forall2_app; [exact C5|]. constructor; [|constructor].
      apply C1. apply (HK ks Kin). rewrite C3. apply in_or_app. right. left. reflexivity.
  Qed.

  Lemma LInv_init kss :
    (forall ks, In ks kss -> forall k, In k ks -> (k < length init)%nat) ->
    LInv kss (users init ws kss).
  Proof.
    intros HK. repeat split; simpl; auto; try discriminate.
    induction kss as [|ks r IH]; simpl; constructor.
    - left. simpl. auto.
    - apply IH. intros ks' Hin. apply HK. right. exact Hin.
  Qed.

  (** Whatever the interleaving (complete or not) and the number of threads: every value a thread
      has read from cell [k] is acceptable for [k]. *)
  Theorem lazy_reads_ok kss sched i t ks :
    (forall ks, In ks kss -> forall k, In k ks -> (k < length init)%nat) ->
    nth_error (snd (run sched (users init ws kss))) i = Some t -> nth_error kss i = Some ks ->
    Forall2 cellok (firstn (length (reads (fst t))) ks) (reads (fst t)).
  Proof.
    intros HK Ht Hks.
    assert (I : LInv kss (run sched (users init ws kss))).
    { apply (run_invariant lz lpriv (LInv kss)); [intros j c; apply LInv_step | apply LInv_init; exact HK]. }
    destruct I as (HF & _).
    destruct (Forall2_nth_r _ _ _ _ _ HF Ht) as [ks' [Eks' H]].
    rewrite Hks in Eks'. inversion Eks'; subst ks'. clear Eks'.
    destruct H as [A|[B|[D|C]]].
    - destruct A as [A1 _]. rewrite A1. simpl. constructor.
    - destruct B as (_ & B2 & _). rewrite B2. simpl. constructor.
    - destruct D as (_ & D2 & _). rewrite D2. simpl. constructor.
    - destruct C as (_ & _ & ks1 & ks2 & C3 & _ & C5).
      rewrite <- (Forall2_len _ _ _ C5). rewrite C3.
      rewrite firstn_app, firstn_all, Nat.sub_diag. simpl. rewrite app_nil_r. exact C5.
  Qed.

  Lemma linv_finished s kss ts :
    Forall2 (linv s) kss ts -> (forall i t, nth_error ts i = Some t -> snd t = []) ->
    Forall2 (fun ks t => flag s = true /\ all_ok s /\ Forall2 cellok ks (reads (fst t))) kss ts.
  Proof.
    intros HF. induction HF as [|ks t kss' ts' H HF IH]; intros Fin; constructor.
    - pose proof (Fin 0%nat t eq_refl) as E.
      destruct H as [A|[B|[D|C]]].
      + destruct A as [_ A2]. rewrite E in A2. discriminate.
      + destruct B as (_ & _ & w1 & w2 & _ & B4 & _). rewrite E in B4. destruct (W w2); discriminate.
      + destruct D as (_ & _ & _ & _ & w2 & D5). rewrite E in D5. destruct (W w2); discriminate.
      + destruct C as (C1 & C2 & ks1 & ks2 & C3 & C4 & C5). rewrite E in C4.
        destruct ks2; [|discriminate]. rewrite app_nil_r in C3. subst ks1. auto.
    - apply IH. intros i u Hu. apply (Fin (S i) u Hu).
  Qed.

  (** After a complete schedule of at least one thread: the flag is set, every cell is acceptable and
      every thread has read all its cells. *)
  Theorem lazy_final kss sched :
    (forall ks, In ks kss -> forall k, In k ks -> (k < length init)%nat) ->
    kss <> [] -> complete sched (users init ws kss) ->
    let c := run sched (users init ws kss) in
    flag (fst c) = true /\ all_ok (fst c) /\ length (table (fst c)) = length init /\
    Forall2 (fun ks t => Forall2 cellok ks (reads (fst t))) kss (snd c).
  Proof.
    intros HK NE HC c.
    assert (I : LInv kss c).
    { apply (run_invariant lz lpriv (LInv kss)); [intros j d; apply LInv_step | apply LInv_init; exact HK]. }
    assert (Fin : finished c) by (apply complete_finished; exact HC).
    destruct I as (HF & HG & _ & HL).
    pose proof (linv_finished (fst c) kss (snd c) HF Fin) as Each.
    assert (Final : Forall2 (fun ks t => Forall2 cellok ks (reads (fst t))) kss (snd c))
      by (eapply Forall2_impl; [|exact Each]; intros a b (_ & _ & H); exact H).
    destruct kss as [|ks0 kss']; [congruence|].
    inversion Each as [|? t0 ? ts' (E1 & E2 & E3) Rest].
    split; [exact E1|]. split; [exact E2|]. split; [exact HL|]. rewrite H1. exact Final.
  Qed.
End Lazy.

(** ** Write-once tables (src/util/crc32.c): every cell is stored once per initialiser, with a value
    that depends only on the cell.  Then concurrent first use is invisible: *)
Section WriteOnce.
  Variable init : list N.
  Variable ws : list (nat * N).
  Hypothesis ws_nodup : NoDup (map fst ws).
  Hypothesis ws_in : forall w, In w ws -> (fst w < length init)%nat.
  Hypothesis covers : forall k, (k < length init)%nat -> exists v, In (k, v) ws.

  Lemma apply_writes_length l t : length (apply_writes l t) = length t.
  Proof.
    revert t; induction l as [|w l IH]; intros t; simpl; auto.
    unfold apply_writes in *. simpl. rewrite IH. apply set_nth_length.
  Qed.

  Lemma apply_writes_other (l : list (nat * N)) t k : ~ In k (map fst l) -> nth k (apply_writes l t) 0 = nth k t 0.
  Proof.
    revert t; induction l as [|w l IH]; intros t H; simpl; auto.
    unfold apply_writes in *. simpl. rewrite IH.
    - apply nth_set_nth_neq. intros E. apply H. left. exact E.
    - intros E. apply H. right. exact E.
  Qed.

  Lemma apply_writes_value (l : list (nat * N)) t k v :
    NoDup (map fst l) -> In (k, v) l -> (k < length t)%nat -> nth k (apply_writes l t) 0 = v.
  Proof.
    revert t; induction l as [|w l IH]; intros t ND Hin Hk; simpl in *; [contradiction|].
    inversion ND as [|x xs Hx ND']; subst.
    unfold apply_writes in *. simpl.
    destruct Hin as [->|Hin].
    - simpl in *. rewrite apply_writes_other by exact Hx. apply nth_set_nth_eq. exact Hk.
    - apply IH; auto. rewrite set_nth_length. exact Hk.
  Qed.

  Lemma fst_unique (l : list (nat * N)) k x y : NoDup (map fst l) -> In (k, x) l -> In (k, y) l -> x = y.
  Proof.
    induction l as [|w l IH]; intros ND Hx Hy; simpl in *; [contradiction|].
    inversion ND as [|a b Ha ND']; subst.
    destruct Hx as [->|Hx], Hy as [Ey|Hy].
    - inversion Ey; reflexivity.
    - exfalso. apply Ha. simpl. apply (in_map fst) in Hy. exact Hy.
    - exfalso. apply Ha. subst w. simpl. apply (in_map fst) in Hx. exact Hx.
    - apply IH; auto.
  Qed.

  Lemma in_pair (w : nat * N) : In w ws -> In (fst w, snd w) ws.
  Proof. destruct w; auto. Qed.

  Definition target : list N := apply_writes ws init.

  Lemma cell_value k x : (k < length init)%nat -> In (k, x) ws -> x = nth k target 0.
  Proof.
    intros Hk Hx. symmetry. apply apply_writes_value; auto.
  Qed.

  Lemma reads_determined l xs :
    Forall2 (fun k x => In (k, x) ws) l xs -> (forall k, In k l -> (k < length init)%nat) ->
    xs = map (fun k => nth k target 0) l.
  Proof.
    induction 1 as [|k x ks' xs' Hkx H IH]; intros HKs; simpl; auto.
    f_equal; [apply cell_value; [apply HKs; left; reflexivity | exact Hkx]|].
    apply IH. intros j Hj. apply HKs. right. exact Hj.
  Qed.

  (** [lazy_init_idempotent]: any number of threads, any complete interleaving of their
      check / initialise / set-flag / use steps - the table ends up equal to the one a single
      sequential initialisation produces, the flag is set, and every thread has read exactly the
      values it reads from a fully initialised table. *)
  Theorem lazy_init_idempotent kss sched :
    (forall ks, In ks kss -> forall k, In k ks -> (k < length init)%nat) ->
    kss <> [] -> complete sched (users init ws kss) ->
    let c := run sched (users init ws kss) in
    table (fst c) = target /\ flag (fst c) = true /\
    map (fun t => reads (fst t)) (snd c) = map (map (fun k => nth k target 0)) kss.
  Proof.
    intros HK NE HC c.
    destruct (lazy_final init ws (fun k x => In (k, x) ws)
                in_pair
                ws_in covers kss sched HK NE HC)
      as (F1 & F2 & F3 & F4).
    fold c in F1, F2, F3, F4.
    split; [|split; [exact F1|]].
    - apply (nth_ext _ _ 0 0).
      + unfold target. rewrite apply_writes_length. exact F3.
      + intros k Hk. rewrite F3 in Hk. apply cell_value; [exact Hk|]. apply (F2 k Hk).
    - clear -F4 HK ws_nodup ws_in. revert HK. induction F4 as [|ks t kss' ts' H F IH]; intros HK; simpl; auto.
      f_equal.
      + apply reads_determined; [exact H | apply HK; left; reflexivity].
      + apply IH. intros ks' Hin. apply HK. right. exact Hin.
  Qed.

  (** ... and also before the end: whatever a thread has read so far from cell k is the final value
      of cell k (no torn or stale table is ever observed under sequential consistency). *)
  Theorem lazy_init_reads_final kss sched i t ks :
    (forall ks, In ks kss -> forall k, In k ks -> (k < length init)%nat) ->
    nth_error (snd (run sched (users init ws kss))) i = Some t -> nth_error kss i = Some ks ->
    reads (fst t) = map (fun k => nth k target 0) (firstn (length (reads (fst t))) ks).
  Proof.
    intros HK Ht Hks.
    pose proof (lazy_reads_ok init ws (fun k x => In (k, x) ws)
                  in_pair
                  ws_in covers kss sched i t ks HK Ht Hks) as H.
    assert (HKs : forall k, In k (firstn (length (reads (fst t))) ks) -> (k < length init)%nat).
    { intros k Hk. apply (HK ks); [eapply nth_error_In; eauto|].
      rewrite <- (firstn_skipn (length (reads (fst t))) ks). apply in_or_app. left. exact Hk. }
    apply reads_determined; assumption.
  Qed.
End WriteOnce.

Example lazy_init_example :
  let init := [0; 0; 0] in let ws := [(0%nat, 11); (1%nat, 22); (2%nat, 33)] in
  let kss := [[0; 2]; [1]; [2; 2; 0]]%nat in
  let sched := [0; 1; 0; 1; 1; 0; 2; 0; 1; 1; 0; 0; 2; 2; 1; 2; 2; 0; 2; 2; 2]%nat in
  complete sched (users init ws kss) /\
  lazy_run init ws kss sched = ((true, [11; 22; 33]), [[11; 33]; [22]; [33; 33; 11]]).
Proof.
  split.
  - intros i t Ht. destruct i as [|[|[|i]]]; simpl in Ht; inversion Ht; subst; simpl; try lia.
    destruct i; discriminate.
  - vm_compute. reflexivity.
Qed.

(** ** Staged tables (src/simd/dispatch.c, src/simd/detect.c): a cell is stored several times per
    initialiser with DIFFERENT values (scalar kernel first, SIMD kernel later; memset 0 first,
    detected bit later).  A second initialiser that found the flag clear re-runs the stores after the
    first one has published the flag, so a thread that saw the flag set can still read an earlier
    stage.  "Readers that see the flag see the final table" is REFUTED for these two globals, even
    under sequential consistency: *)
Definition staged_init : list N := [0].
Definition staged_ws : list (nat * N) := [(0%nat, 0); (0%nat, 7)].   (* memset 0, then the detected value 7 *)
Definition staged_kss : list (list nat) := [[0]; []; [0]]%nat.
(** T0: check, store 0, store 7, set flag | T1: check (clear) | T2: check (set) | T1: store 0 |
    T2: (skips its initialiser) reads cell 0 = 0 | T1: store 7, set flag | T0: reads 7 *)
Definition staged_sched : list nat := [1; 0; 0; 0; 0; 2; 1; 2; 2; 2; 2; 1; 1; 0]%nat.

Theorem lazy_init_staged_refuted :
  exists init ws kss sched,
    complete sched (users init ws kss) /\
    table (fst (run sched (users init ws kss))) = apply_writes ws init /\
    map (fun t => reads (fst t)) (snd (run sched (users init ws kss))) <>
    map (fun t => reads (fst t)) (snd (run (seq_sched (users init ws kss)) (users init ws kss))).
Proof.
  exists staged_init, staged_ws, staged_kss, staged_sched. split; [|split].
  - intros i t Ht. destruct i as [|[|[|i]]]; simpl in Ht; inversion Ht; subst; simpl; try lia.
    destruct i; discriminate.
  - vm_compute. reflexivity.
  - vm_compute. discriminate.
Qed.

Example staged_witness_values :
  lazy_run staged_init staged_ws staged_kss staged_sched = ((true, [7]), [[7]; []; [0]]) /\
  lazy_run staged_init staged_ws staged_kss (seq_sched (users staged_init staged_ws staged_kss))
    = ((true, [7]), [[7]; []; [7]]).
Proof. vm_compute. auto. Qed.

(** What does hold for staged tables: a thread only ever reads a value that SOME stage stores into
    that cell (never the uninitialised content), and the final table is the sequential one.
    For dispatch.c every stage of a slot is a kernel computing the same function (property C15),
    for detect.c the early stage is "feature absent", which selects a slower kernel computing the
    same function; under that reading the content returned to the caller is unaffected. *)
Theorem lazy_init_staged_values init ws kss sched i t ks :
  (forall w, In w ws -> (fst w < length init)%nat) ->
  (forall k, (k < length init)%nat -> exists v, In (k, v) ws) ->
  (forall ks, In ks kss -> forall k, In k ks -> (k < length init)%nat) ->
  nth_error (snd (run sched (users init ws kss))) i = Some t -> nth_error kss i = Some ks ->
  Forall2 (fun k x => In (k, x) ws) (firstn (length (reads (fst t))) ks) (reads (fst t)).
Proof.
  intros Hin Hcov HK Ht Hks.
  apply (lazy_reads_ok init ws (fun k x => In (k, x) ws)
           (fun w Hw => match w return In w ws -> In (fst w, snd w) ws with (a, b) => fun H => H end Hw)
           Hin Hcov kss sched i t ks HK Ht Hks).
Qed.

(** ** Any table filled cell by cell (each cell once): instance of the write-once theorem.
    [tgt] is the table a sequential initialisation produces, e.g. the 8 x 256 CRC-32 tables of
    Util/Crc32Model.v flattened; the initialiser stores cell k := nth k tgt for k = 0, 1, ... *)
Section AnyTable.
  Variable tgt : list N.
  Definition tbl_init : list N := repeat 0 (length tgt).
  Definition tbl_ws : list (nat * N) := combine (seq 0 (length tgt)) tgt.

  Lemma map_fst_combine {A B} (l1 : list A) (l2 : list B) :
    length l1 = length l2 -> map fst (combine l1 l2) = l1.
  Proof.
    revert l2; induction l1 as [|a r IH]; intros [|b t] H; simpl in *; try discriminate; auto.
    f_equal. apply IH. lia.
  Qed.

  Lemma tbl_nodup : NoDup (map fst tbl_ws).
  Proof. unfold tbl_ws. rewrite map_fst_combine by (apply seq_length). apply seq_NoDup. Qed.

  Lemma tbl_in w : In w tbl_ws -> (fst w < length tbl_init)%nat.
  Proof.
    intros H. unfold tbl_init. rewrite repeat_length.
    destruct w as [k v]. apply in_combine_l in H. apply in_seq in H. simpl. lia.
  Qed.

  Lemma tbl_covers k : (k < length tbl_init)%nat -> exists v, In (k, v) tbl_ws.
  Proof.
    unfold tbl_init. rewrite repeat_length. intros H. exists (nth k tgt 0).
    unfold tbl_ws.
    assert (E : nth k (combine (seq 0 (length tgt)) tgt) (O, 0) = (k, nth k tgt 0)).
    { rewrite combine_nth by (apply seq_length). rewrite seq_nth by exact H. reflexivity. }
    rewrite <- E. apply nth_In. rewrite combine_length, seq_length. lia.
  Qed.

  Lemma tbl_target : apply_writes tbl_ws tbl_init = tgt.
  Proof.
    apply (nth_ext _ _ 0 0).
    - rewrite apply_writes_length. unfold tbl_init. apply repeat_length.
    - intros k Hk. rewrite apply_writes_length in Hk.
      destruct (tbl_covers k Hk) as [v Hv].
      rewrite (apply_writes_value tbl_ws tbl_init k v tbl_nodup Hv Hk).
      unfold tbl_ws in Hv.
      assert (Hk' : (k < length tgt)%nat) by (unfold tbl_init in Hk; rewrite repeat_length in Hk; exact Hk).
      destruct (In_nth _ _ (O, 0) Hv) as [j [Hj Ej]].
      rewrite combine_length, seq_length, Nat.min_id in Hj.
      rewrite combine_nth in Ej by (apply seq_length). rewrite seq_nth in Ej by exact Hj.
      inversion Ej; subst. reflexivity.
  Qed.

  Theorem lazy_init_any_table kss sched :
    (forall ks, In ks kss -> forall k, In k ks -> (k < length tgt)%nat) ->
    kss <> [] -> complete sched (users tbl_init tbl_ws kss) ->
    let c := run sched (users tbl_init tbl_ws kss) in
    table (fst c) = tgt /\ flag (fst c) = true /\
    map (fun t => reads (fst t)) (snd c) = map (map (fun k => nth k tgt 0)) kss.
  Proof.
    intros HK NE HC.
    assert (HK' : forall ks, In ks kss -> forall k, In k ks -> (k < length tbl_init)%nat).
    { intros ks Hks k Hk. unfold tbl_init. rewrite repeat_length. apply (HK ks Hks k Hk). }
    pose proof (lazy_init_idempotent tbl_init tbl_ws tbl_nodup tbl_in tbl_covers kss sched HK' NE HC) as H.
    unfold target in H. rewrite tbl_target in H. exact H.
  Qed.
End AnyTable.
