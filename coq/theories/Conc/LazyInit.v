(** Lazily initialised global tables (C07, "concurrent first use of the library").

    The C code has four lazily initialised globals, all with the same shape
    [if (!initialised) { fill the table; initialised = 1; }  use the table]:

      src/util/crc32.c     crc32_tables[8][256]      + volatile int crc32_tables_initialized
      src/simd/dispatch.c  g_dispatch (fn pointers)  + int g_dispatch_initialized
      src/simd/detect.c    g_cpu_info                + volatile int g_initialized (release store)
      src/compression/zstd.c  tls_dctx is [__thread]: one per thread, not shared - nothing to model

    In all three shared cases the flag is written AFTER the table writes and nothing prevents two
    threads from both finding the flag clear and both running the initialiser.

    - crc32.c writes every cell exactly once per initialiser, with a value that depends only on the
      cell ("write-once" below): [ws] lists each cell once, with its final value.
    - dispatch.c first stores the scalar kernel in every slot and then overwrites slots with SSE,
      AVX2, AVX-512 kernels; detect.c first [memset]s g_cpu_info to 0 and then sets the detected
      bits ("staged"): [ws] writes a cell several times with different values.

    Model: shared state = (flag, table); a user thread checks the flag, runs the initialiser unless
    it saw the flag set, then reads the cells it needs.  Every load and store is one atomic action
    and memory is sequentially consistent - see design.d/C07.md for what that leaves out (no barrier
    between the table stores and the flag store in crc32.c / dispatch.c; plain [int] flag in
    dispatch.c). *)
From Coq Require Import List NArith Bool.
From Carquet Require Import Conc.Interleave.
Import ListNotations.
Local Open Scope N_scope.

Record lz := mkLz { flag : bool; table : list N }.
Record lpriv := mkLp { saw : bool; reads : list N }.

Definition lact := action lz lpriv.

Definition l_check : lact := fun s p => (s, mkLp (flag s) (reads p)).
Definition l_write (k : nat) (v : N) : lact := fun s p =>
  if saw p then (s, p) else (mkLz (flag s) (set_nth k v (table s)), p).
Definition l_setflag : lact := fun s p =>
  if saw p then (s, p) else (mkLz true (table s), p).
Definition l_read (k : nat) : lact := fun s p =>
  (s, mkLp (saw p) (reads p ++ [nth k (table s) 0])).

(** a thread that uses cells [ks] of a table whose initialiser performs the writes [ws] *)
Definition user (ws : list (nat * N)) (ks : list nat) : thread lz lpriv :=
  (mkLp false [],
   l_check :: map (fun w => l_write (fst w) (snd w)) ws ++ l_setflag :: map l_read ks).

Definition users (init : list N) (ws : list (nat * N)) (kss : list (list nat)) : config lz lpriv :=
  (mkLz false init, map (user ws) kss).

(** the table after one sequential initialisation *)
Definition apply_writes (ws : list (nat * N)) (t : list N) : list N :=
  fold_left (fun t w => set_nth (fst w) (snd w) t) ws t.

(** executable view for the tie / examples *)
Definition lazy_run (init : list N) (ws : list (nat * N)) (kss : list (list nat)) (sched : list nat)
  : (bool * list N) * list (list N) :=
  let c := run sched (users init ws kss) in
  ((flag (fst c), table (fst c)), map (fun t => reads (fst t)) (snd c)).
