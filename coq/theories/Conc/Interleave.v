(** Interleaving semantics of threads that share a state (C07).

    A thread is a private state together with the list of atomic actions it still has to perform;
    an action transforms (shared state, private state of its own thread).  A schedule is a list of
    thread identifiers: each occurrence of [i] makes thread [i] perform its next action (a stutter if
    it has none left).  Program order inside a thread is therefore respected by every schedule, and
    any permutation of a schedule is again a schedule of the same threads.

    The sequentially consistent memory model is built in: an action is atomic and sees the shared
    state left by the previous step.  What is atomic is chosen by the model that instantiates this
    file (BatchConc.v, LazyInit.v) and is justified there against the C code. *)
From Coq Require Import List Arith Lia Permutation PeanoNat.
Import ListNotations.

Section SetNth.
  Context {A : Type}.
  Fixpoint set_nth (i : nat) (x : A) (l : list A) : list A :=
    match l, i with
    | [], _ => []
    | _ :: t, O => x :: t
    | h :: t, S k => h :: set_nth k x t
    end.

  Lemma set_nth_length i x l : length (set_nth i x l) = length l.
  Proof. revert i; induction l as [|h t IH]; intros [|i]; simpl; auto. Qed.

  Lemma nth_error_set_nth_eq i x l : i < length l -> nth_error (set_nth i x l) i = Some x.
  Proof.
    revert i; induction l as [|h t IH]; intros [|i] H; simpl in *; try lia; auto.
    apply IH; lia.
  Qed.

  Lemma nth_error_set_nth_neq i j x l : i <> j -> nth_error (set_nth i x l) j = nth_error l j.
  Proof.
    revert i j; induction l as [|h t IH]; intros [|i] [|j] H; simpl; auto; try congruence.
  Qed.

  Lemma set_nth_comm i j x y l : i <> j ->
    set_nth i x (set_nth j y l) = set_nth j y (set_nth i x l).
  Proof.
    revert i j; induction l as [|h t IH]; intros [|i] [|j] H; simpl; auto; try congruence.
    f_equal; apply IH; congruence.
  Qed.

  Lemma nth_error_Some_lt i (l : list A) x : nth_error l i = Some x -> i < length l.
  Proof. intros H; apply nth_error_Some; congruence. Qed.
End SetNth.

Section Interleave.
  Variables Sh Pr : Type.

  Definition action := Sh -> Pr -> Sh * Pr.
  Definition thread := (Pr * list action)%type.
  Definition config := (Sh * list thread)%type.

  Definition step (i : nat) (c : config) : config :=
    match nth_error (snd c) i with
    | Some (p, a :: rest) => (fst (a (fst c) p), set_nth i (snd (a (fst c) p), rest) (snd c))
    | _ => c
    end.

  Fixpoint run (sched : list nat) (c : config) : config :=
    match sched with
    | [] => c
    | i :: r => run r (step i c)
    end.

  Lemma run_app s1 s2 c : run (s1 ++ s2) c = run s2 (run s1 c).
  Proof. revert c; induction s1; simpl; auto. Qed.

  (** The sequential schedule: thread 0 to completion, then thread 1, ... *)
  Fixpoint seq_from (k : nat) (ts : list thread) : list nat :=
    match ts with
    | [] => []
    | t :: r => repeat k (length (snd t)) ++ seq_from (S k) r
    end.
  Definition seq_sched (c : config) : list nat := seq_from 0 (snd c).

  (** A schedule is complete (fair to the end) when every thread is scheduled at least as often as
      it has actions.  Surplus occurrences and unknown thread ids are stutters. *)
  Definition complete (sched : list nat) (c : config) : Prop :=
    forall i t, nth_error (snd c) i = Some t -> length (snd t) <= count_occ Nat.eq_dec sched i.

  Definition finished (c : config) : Prop :=
    forall i t, nth_error (snd c) i = Some t -> snd t = [].

  (** Shared states are compared up to [eqS] (e.g. ignoring a stream position that is always
      overwritten before it is read); private states and remaining actions exactly. *)
  Variable eqS : Sh -> Sh -> Prop.
  Hypothesis eqS_refl : forall s, eqS s s.
  Hypothesis eqS_sym : forall s t, eqS s t -> eqS t s.
  Hypothesis eqS_trans : forall s t u, eqS s t -> eqS t u -> eqS s u.

  Definition cfg_eq (c d : config) : Prop := eqS (fst c) (fst d) /\ snd c = snd d.

  Lemma cfg_eq_refl c : cfg_eq c c.
  Proof. split; auto. Qed.
  Lemma cfg_eq_trans c d e : cfg_eq c d -> cfg_eq d e -> cfg_eq c e.
  Proof. intros [H1 H2] [H3 H4]; split; [eauto | congruence]. Qed.
  Lemma cfg_eq_sym c d : cfg_eq c d -> cfg_eq d c.
  Proof. intros [H1 H2]; split; auto. Qed.

  (** An action respects [eqS] ... *)
  Definition proper (a : action) : Prop :=
    forall s t p, eqS s t -> eqS (fst (a s p)) (fst (a t p)) /\ snd (a s p) = snd (a t p).

  (** ... and two actions of different threads commute: in either order they leave equivalent
      shared states and the same private states. *)
  Definition commute (a b : action) : Prop :=
    forall s p q,
      eqS (fst (b (fst (a s p)) q)) (fst (a (fst (b s q)) p)) /\
      snd (a s p) = snd (a (fst (b s q)) p) /\
      snd (b (fst (a s p)) q) = snd (b s q).

  Definition good (ts : list thread) : Prop :=
    (forall i t a, nth_error ts i = Some t -> In a (snd t) -> proper a) /\
    (forall i j ti tj a b, i <> j -> nth_error ts i = Some ti -> nth_error ts j = Some tj ->
        In a (snd ti) -> In b (snd tj) -> commute a b).

  Lemma good_step i c : good (snd c) -> good (snd (step i c)).
  Proof.
    intros [Hp Hc]. unfold step.
    destruct (nth_error (snd c) i) as [[p [|a rest]]|] eqn:E; try (split; assumption).
    simpl. split.
    - intros j t b Hj Hb. destruct (Nat.eq_dec i j) as [->|N].
      + rewrite nth_error_set_nth_eq in Hj by (eapply nth_error_Some_lt; eauto).
        inversion Hj; subst t. simpl in Hb. eapply Hp; [exact E| simpl; auto].
      + rewrite nth_error_set_nth_neq in Hj by assumption. eapply Hp; eauto.
    - intros j k tj tk b d Njk Hj Hk Hb Hd.
      assert (Li : i < length (snd c)) by (eapply nth_error_Some_lt; eauto).
      destruct (Nat.eq_dec i j) as [->|Nij].
      + rewrite nth_error_set_nth_eq in Hj by assumption. inversion Hj; subst tj. simpl in Hb.
        rewrite nth_error_set_nth_neq in Hk by assumption.
        eapply (Hc j k); eauto. simpl; auto.
      + rewrite nth_error_set_nth_neq in Hj by assumption.
        destruct (Nat.eq_dec i k) as [->|Nik].
        * rewrite nth_error_set_nth_eq in Hk by assumption. inversion Hk; subst tk. simpl in Hd.
          eapply (Hc j k); eauto. simpl; auto.
        * rewrite nth_error_set_nth_neq in Hk by assumption. eapply (Hc j k); eauto.
  Qed.

  Lemma step_proper i c d : good (snd c) -> cfg_eq c d -> cfg_eq (step i c) (step i d).
  Proof.
    intros [Hp _] [H1 H2]. unfold step. rewrite <- H2.
    destruct (nth_error (snd c) i) as [[p [|a rest]]|] eqn:E; try (split; assumption).
    destruct (Hp i _ a E (or_introl eq_refl) (fst c) (fst d) p H1) as [Ha Hb].
    split; simpl; [assumption | rewrite Hb; reflexivity].
  Qed.

  Lemma run_proper s : forall c d, good (snd c) -> cfg_eq c d -> cfg_eq (run s c) (run s d).
  Proof.
    induction s as [|i r IH]; intros c d G E; simpl; auto.
    apply IH; [apply good_step; assumption | apply step_proper; assumption].
  Qed.

  Lemma step_swap i j c : i <> j -> good (snd c) -> cfg_eq (step j (step i c)) (step i (step j c)).
  Proof.
    intros N [Hp Hc].
    destruct (nth_error (snd c) i) as [[p [|a ri]]|] eqn:Ei.
    - (* thread i has nothing to do *)
      assert (Si : forall d : config, nth_error (snd d) i = Some (p, []) -> step i d = d)
        by (intros d Hd; unfold step; rewrite Hd; reflexivity).
      rewrite (Si c Ei). rewrite Si; [apply cfg_eq_refl|].
      unfold step. destruct (nth_error (snd c) j) as [[q [|b rj]]|]; try assumption.
      simpl. rewrite nth_error_set_nth_neq by congruence. assumption.
    - destruct (nth_error (snd c) j) as [[q [|b rj]]|] eqn:Ej.
      + assert (Sj : forall d : config, nth_error (snd d) j = Some (q, []) -> step j d = d)
          by (intros d Hd; unfold step; rewrite Hd; reflexivity).
        rewrite (Sj c Ej). rewrite Sj; [apply cfg_eq_refl|].
        unfold step. rewrite Ei. simpl. rewrite nth_error_set_nth_neq by congruence. assumption.
      + (* both have an action: they commute *)
        assert (Li : i < length (snd c)) by (eapply nth_error_Some_lt; eauto).
        assert (Lj : j < length (snd c)) by (eapply nth_error_Some_lt; eauto).
        destruct (Hc i j _ _ a b N Ei Ej (or_introl eq_refl) (or_introl eq_refl) (fst c) p q)
          as [C1 [C2 C3]].
        unfold step at 2 4. rewrite Ei, Ej.
        unfold step. simpl.
        rewrite nth_error_set_nth_neq by congruence. rewrite Ej.
        rewrite nth_error_set_nth_neq by congruence. rewrite Ei.
        simpl. split; [exact C1|].
        rewrite C3, <- C2. apply set_nth_comm. congruence.
      + assert (Sj : forall d : config, nth_error (snd d) j = None -> step j d = d)
          by (intros d Hd; unfold step; rewrite Hd; reflexivity).
        rewrite (Sj c Ej). rewrite Sj; [apply cfg_eq_refl|].
        unfold step. rewrite Ei. simpl. rewrite nth_error_set_nth_neq by congruence. assumption.
    - assert (Si : forall d : config, nth_error (snd d) i = None -> step i d = d)
        by (intros d Hd; unfold step; rewrite Hd; reflexivity).
      rewrite (Si c Ei). rewrite Si; [apply cfg_eq_refl|].
      unfold step. destruct (nth_error (snd c) j) as [[q [|b rj]]|]; try assumption.
      simpl. rewrite nth_error_set_nth_neq by congruence. assumption.
  Qed.

  (** Permuting a schedule does not change the outcome when actions of different threads commute. *)
  Theorem run_perm s s' : Permutation s s' ->
    forall c, good (snd c) -> cfg_eq (run s c) (run s' c).
  Proof.
    induction 1 as [|x l l' HP IH|x y l|l l' l'' H1 IH1 H2 IH2]; intros c G; simpl.
    - apply cfg_eq_refl.
    - apply IH. apply good_step; assumption.
    - destruct (Nat.eq_dec x y) as [->|N]; [apply cfg_eq_refl|].
      apply run_proper; [do 2 apply good_step; assumption|].
      apply step_swap; [congruence | assumption].
    - eapply cfg_eq_trans; [apply IH1 | apply IH2]; assumption.
  Qed.

  Lemma seq_from_step k ts i p a rest x :
    nth_error ts i = Some (p, a :: rest) ->
    Permutation (seq_from k ts) ((k + i) :: seq_from k (set_nth i (x, rest) ts)).
  Proof.
    revert k i; induction ts as [|t r IH]; intros k [|i] H; simpl in *; try discriminate.
    - inversion H; subst t. simpl. rewrite Nat.add_0_r. apply Permutation_refl.
    - specialize (IH (S k) i H).
      replace (k + S i) with (S k + i) by lia.
      eapply Permutation_trans; [apply Permutation_app_head; exact IH|].
      apply Permutation_sym, Permutation_middle.
  Qed.

  Lemma seq_from_finished k ts :
    (forall i t, nth_error ts i = Some t -> snd t = []) -> seq_from k ts = [].
  Proof.
    revert k; induction ts as [|t r IH]; intros k H; simpl; auto.
    rewrite (H 0 t eq_refl). simpl. apply IH. intros i u Hu. apply (H (S i) u Hu).
  Qed.

  (** ** Main theorem: every complete schedule yields the sequential result. *)
  Theorem commuting_schedule_irrelevant :
    forall sched c, good (snd c) -> complete sched c ->
      cfg_eq (run sched c) (run (seq_sched c) c).
  Proof.
    induction sched as [|i s IH]; intros c G HC.
    - assert (F : forall i t, nth_error (snd c) i = Some t -> snd t = []).
      { intros i t Ht. specialize (HC i t Ht). simpl in HC.
        destruct (snd t); [reflexivity | simpl in HC; lia]. }
      unfold seq_sched. rewrite (seq_from_finished 0 _ F). apply cfg_eq_refl.
    - simpl.
      destruct (nth_error (snd c) i) as [[p [|a rest]]|] eqn:E.
      + (* stutter: thread i is finished *)
        assert (Sc : step i c = c) by (unfold step; rewrite E; reflexivity).
        rewrite Sc. apply IH; [assumption|].
        intros j t Ht. specialize (HC j t Ht). simpl in HC.
        destruct (Nat.eq_dec i j) as [->|N]; [|exact HC].
        rewrite E in Ht. inversion Ht; subst t. simpl. lia.
      + (* a real step *)
        assert (Li : i < length (snd c)) by (eapply nth_error_Some_lt; eauto).
        assert (Sc : step i c = (fst (a (fst c) p), set_nth i (snd (a (fst c) p), rest) (snd c)))
          by (unfold step; rewrite E; reflexivity).
        assert (HC' : complete s (step i c)).
        { intros j t Ht. rewrite Sc in Ht. simpl in Ht.
          destruct (Nat.eq_dec i j) as [->|N].
          - rewrite nth_error_set_nth_eq in Ht by assumption. inversion Ht; subst t. simpl.
            specialize (HC j _ E). simpl in HC. destruct (Nat.eq_dec j j); [lia | congruence].
          - rewrite nth_error_set_nth_neq in Ht by assumption.
            specialize (HC j t Ht). simpl in HC. destruct (Nat.eq_dec i j); [congruence | exact HC]. }
        eapply cfg_eq_trans; [apply IH; [apply good_step; assumption | exact HC']|].
        apply cfg_eq_sym.
        eapply cfg_eq_trans.
        * apply (run_perm (seq_sched c) (i :: seq_sched (step i c))); [|assumption].
          unfold seq_sched. rewrite Sc. simpl snd.
          apply (seq_from_step 0 (snd c) i p a rest). exact E.
        * simpl. apply cfg_eq_refl.
      + assert (Sc : step i c = c) by (unfold step; rewrite E; reflexivity).
        rewrite Sc. apply IH; [assumption|].
        intros j t Ht. specialize (HC j t Ht). simpl in HC.
        destruct (Nat.eq_dec i j) as [->|N]; [congruence | exact HC].
  Qed.

  (** Two complete schedules agree with each other. *)
  Corollary complete_schedules_agree s s' c :
    good (snd c) -> complete s c -> complete s' c -> cfg_eq (run s c) (run s' c).
  Proof.
    intros G H1 H2. eapply cfg_eq_trans; [apply commuting_schedule_irrelevant; assumption|].
    apply cfg_eq_sym. apply commuting_schedule_irrelevant; assumption.
  Qed.

  (** The sequential schedule is itself complete. *)
  Lemma count_occ_repeat_eq k n : count_occ Nat.eq_dec (repeat k n) k = n.
  Proof. induction n; simpl; auto. destruct (Nat.eq_dec k k); [lia | congruence]. Qed.

  Lemma seq_from_count k ts i t :
    nth_error ts i = Some t -> length (snd t) <= count_occ Nat.eq_dec (seq_from k ts) (k + i).
  Proof.
    revert k i; induction ts as [|u r IH]; intros k [|i] H; simpl in *; try discriminate.
    - inversion H; subst u. rewrite count_occ_app, Nat.add_0_r, count_occ_repeat_eq. lia.
    - rewrite count_occ_app. specialize (IH (S k) i H).
      replace (k + S i) with (S k + i) by lia. lia.
  Qed.

  Lemma seq_sched_complete c : complete (seq_sched c) c.
  Proof. intros i t Ht. apply (seq_from_count 0 (snd c) i t Ht). Qed.
End Interleave.

Arguments step {Sh Pr} i c.
Arguments run {Sh Pr} sched c.
Arguments seq_sched {Sh Pr} c.
Arguments seq_from {Sh Pr} k ts.
Arguments complete {Sh Pr} sched c.
Arguments cfg_eq {Sh Pr} eqS c d.
Arguments good {Sh Pr} eqS ts.
Arguments proper {Sh Pr} eqS a.
Arguments commute {Sh Pr} eqS a b.

(** Further general facts used by the instances. *)
Section More.
  Variables Sh Pr : Type.

  Lemma complete_step (i : nat) s (c : config Sh Pr) : complete (i :: s) c -> complete s (step i c).
  Proof.
    intros HC j t Ht. unfold step in Ht.
    destruct (nth_error (snd c) i) as [[p [|a rest]]|] eqn:E.
    - specialize (HC j t Ht). simpl in HC.
      destruct (Nat.eq_dec i j) as [->|N]; [|exact HC].
      rewrite E in Ht. inversion Ht; subst t. simpl. lia.
    - simpl in Ht.
      assert (Li : i < length (snd c)) by (eapply nth_error_Some_lt; eauto).
      destruct (Nat.eq_dec i j) as [->|N].
      + rewrite nth_error_set_nth_eq in Ht by assumption. inversion Ht; subst t. simpl.
        specialize (HC j _ E). simpl in HC. destruct (Nat.eq_dec j j); [lia | congruence].
      + rewrite nth_error_set_nth_neq in Ht by assumption.
        specialize (HC j t Ht). simpl in HC. destruct (Nat.eq_dec i j); [congruence | exact HC].
    - specialize (HC j t Ht). simpl in HC.
      destruct (Nat.eq_dec i j) as [->|N]; [congruence | exact HC].
  Qed.

  (** After a complete schedule no thread has anything left to do. *)
  Lemma complete_finished s : forall c : config Sh Pr, complete s c -> finished Sh Pr (run s c).
  Proof.
    induction s as [|i s IH]; intros c HC; simpl.
    - intros i t Ht. specialize (HC i t Ht). simpl in HC.
      destruct (snd t); [reflexivity | simpl in HC; lia].
    - apply IH. apply complete_step. exact HC.
  Qed.

  (** An invariant of single steps is an invariant of runs. *)
  Lemma run_invariant (I : config Sh Pr -> Prop) :
    (forall i c, I c -> I (step i c)) -> forall s c, I c -> I (run s c).
  Proof. intros H s; induction s; intros c Hc; simpl; auto. Qed.

  (** Threads that touch only their private state: any two complete schedules agree exactly. *)
  Definition private_only (a : action Sh Pr) : Prop := exists f, forall s p, a s p = (s, f p).

  Lemma private_only_good (ts : list (thread Sh Pr)) :
    (forall i t a, nth_error ts i = Some t -> In a (snd t) -> private_only a) -> good eq ts.
  Proof.
    intros H; split.
    - intros i t a Ht Ha s u p ->. auto.
    - intros i j ti tj a b _ Hi Hj Ha Hb s p q.
      destruct (H i ti a Hi Ha) as [f Hf]. destruct (H j tj b Hj Hb) as [g Hg].
      rewrite !Hf, !Hg. simpl. rewrite ?Hf, ?Hg. simpl. auto.
  Qed.

  Theorem private_schedule_irrelevant sched (c : config Sh Pr) :
    (forall i t a, nth_error (snd c) i = Some t -> In a (snd t) -> private_only a) ->
    complete sched c -> run sched c = run (seq_sched c) c.
  Proof.
    intros H HC.
    destruct (commuting_schedule_irrelevant Sh Pr eq (@eq_refl Sh) (@eq_sym Sh) (@eq_trans Sh)
                sched c (private_only_good _ H) HC) as [E1 E2].
    destruct (run sched c), (run (seq_sched c) c); simpl in *; congruence.
  Qed.
End More.
Arguments private_only {Sh Pr} a.
Arguments finished {Sh Pr} c.
