(** Model of the parallel region of [carquet_batch_reader_next] (src/reader/batch_reader.c) for C07.

    One thread per projected column (OpenMP [parallel for], [schedule(dynamic)], any number of
    worker threads: a worker that takes several columns in turn is a particular schedule of this
    model).  What a column does to state shared with the other columns:

    - [read_error] (batch_reader.c:302): read once at the start of the iteration ([if (read_error)
      continue;]), written [true] when the column fails.  The call returns CARQUET_ERROR_DECODE and
      frees the batch iff the flag is set at the end.
    - in fread mode the stream position of [reader->file], ONE [FILE*] shared by all column readers
      of the file (page_reader.c, load_dictionary_page_fread / load_next_page_fread):
        * [FreadUnlocked] - the code before /repo commit 438c541: [fseek] and [fread] are separate
          steps, another column's seek can fall between them;
        * [Fread] - the code since 438c541: seek+read sit in one [omp critical] section
          (file_read_at), i.e. they are ONE atomic action.
    - in mmap / buffer mode nothing: pages are addressed as [mmap_data + offset]
      (load_next_page_mmap), every buffer written belongs to the column reader.

    What a column READS is recorded as the list of (position, length) of its reads - the bytes it
    decodes are a function of these and of the (immutable) file.  Whether decoding then succeeds is
    an arbitrary function [valid] of the column and of that list.

    Atomicity assumptions (justified in design.d/C07.md): fseek and fread are each atomic (glibc
    locks the FILE), the critical section is atomic, reads of [read_error] are atomic, memory is
    sequentially consistent.  A column's list of requests is fixed (it is what the column asks for
    when it reads its own pages); after a read at a wrong position the real code may ask for
    something else - the model is exact up to and including the first wrong read. *)
From Coq Require Import List NArith Bool.
From Carquet Require Import Conc.Interleave.
Import ListNotations.
Local Open Scope N_scope.

Inductive mode := FreadUnlocked | Fread | Mmap | Buffer.

Record shared := mkShared { pos : N; err : bool }.
Record priv := mkPriv { skip : bool; failed : bool; rlog : list (N * N) }.

(** A column = the (offset, length) requests of its dictionary / page header / page body loads. *)
Definition col := list (N * N).

Definition p0 : priv := mkPriv false false [].
Definition s0 : shared := mkShared 0 false.

Definition set_pos (s : shared) (o : N) := mkShared o (err s).
Definition set_err (s : shared) := mkShared (pos s) true.
Definition add_log (p : priv) (e : N * N) := mkPriv (skip p) (failed p) (rlog p ++ [e]).

(** bytes actually delivered by a read of [n] bytes at [o] in a file of [fsz] bytes *)
Definition clip (fsz o n : N) : N := if fsz <=? o then 0 else N.min n (fsz - o).

Section Tasks.
  Variable fsz : N.
  Variable valid : col -> list (N * N) -> bool.

  Definition bact := action shared priv.

  (** [if (read_error) continue;] *)
  Definition a_check : bact := fun s p =>
    (s, if err s then mkPriv true (failed p) (rlog p) else p).

  Definition a_seek (o : N) : bact := fun s p =>
    if skip p then (s, p) else (set_pos s o, p).
  Definition a_read (n : N) : bact := fun s p =>
    if skip p then (s, p) else
      let n' := clip fsz (pos s) n in (set_pos s (pos s + n'), add_log p (pos s, n')).
  (** file_read_at: seek + read in one critical section *)
  Definition a_seekread (o n : N) : bact := fun s p =>
    if skip p then (s, p) else
      let n' := clip fsz o n in (set_pos s (o + n'), add_log p (o, n')).
  (** mmap / buffer: a view at [mmap_data + o] *)
  Definition a_view (o n : N) : bact := fun s p =>
    if skip p then (s, p) else (s, add_log p (o, clip fsz o n)).
  (** decode what was read; on failure [read_error = true] *)
  Definition a_finish (c : col) : bact := fun s p =>
    if skip p then (s, p) else
      let f := negb (valid c (rlog p)) in
      (if f then set_err s else s, mkPriv (skip p) f (rlog p)).

  Definition body (m : mode) (c : col) : list bact :=
    match m with
    | FreadUnlocked => flat_map (fun r => [a_seek (fst r); a_read (snd r)]) c
    | Fread => map (fun r => a_seekread (fst r) (snd r)) c
    | Mmap | Buffer => map (fun r => a_view (fst r) (snd r)) c
    end.

  Definition task (m : mode) (c : col) : thread shared priv :=
    (p0, a_check :: body m c ++ [a_finish c]).

  Definition tasks (m : mode) (cols : list col) : config shared priv :=
    (s0, map (task m) cols).

  (** Data path only (one parallel region without the flag protocol, e.g. the prefetch loop). *)
  Definition tasks_data (m : mode) (cols : list col) : config shared priv :=
    (s0, map (fun c => (p0, body m c)) cols).
End Tasks.

(** What the caller observes of the call: CARQUET_ERROR_DECODE and no batch when [read_error] is
    set, otherwise what every column read. *)
Definition obs (c : config shared priv) : option (list (list (N * N))) :=
  if err (fst c) then None else Some (map (fun t => rlog (fst t)) (snd c)).

(** What a column reads when it runs alone. *)
Definition alone_log (fsz : N) (c : col) : list (N * N) :=
  map (fun r => (fst r, clip fsz (fst r) (snd r))) c.

(** Logs of a finished run, for the executable tie. *)
Definition logs (c : config shared priv) : list (list (N * N)) := map (fun t => rlog (fst t)) (snd c).
Definition run_data (m : mode) (fsz : N) (cols : list col) (sched : list nat) : list (list (N * N)) :=
  logs (run sched (tasks_data fsz m cols)).
Fixpoint log_eqb (l1 l2 : list (N * N)) : bool :=
  match l1, l2 with
  | [], [] => true
  | a :: r1, b :: r2 => (fst a =? fst b) && (snd a =? snd b) && log_eqb r1 r2
  | _, _ => false
  end.
(** a column decodes correctly iff it read exactly what it reads when alone *)
Definition valid_exact (fsz : N) (c : col) (l : list (N * N)) : bool := log_eqb l (alone_log fsz c).
Definition run_full (m : mode) (fsz : N) (cols : list col) (sched : list nat)
  : option (list (list (N * N))) :=
  obs (run sched (tasks fsz (valid_exact fsz) m cols)).
