(** C15: pack_bools kernels equal the scalar definition.

    Output byte g is [pack_val] of the (up to 8) input bytes of group g: bit j is set iff input[8g + j] != 0.
    The scalar loop, the SSE / AVX2 8-at-a-time loops and the AVX-512 64-at-a-time loop with its masked
    remainder all establish "byte g = pack_val (group g)" for every g.
    Domain: for the SSE and AVX2 variants the input bytes must be 0 or 1 (as their documentation says:
    the SSE code takes bit 0 of each byte, the AVX2 code multiplies the byte by its bit weight); the AVX-512
    variant, like the scalar definition, accepts any non-zero byte as true. *)
From Coq Require Import NArith ZArith List Arith Lia Bool ZifyBool ZifyNat ZifyN.
From Carquet Require Import Base.Res Base.Bits Simd.Vec Simd.X86Sem Simd.ScalarKernels Simd.SseKernels Simd.Avx2Kernels
  Simd.Avx512Kernels Simd.BitLemmas.
Import ListNotations.
Local Open Scope nat_scope.
Ltac Zify.zify_post_hook ::= Z.div_mod_to_equations.

(* ------------------------------------------------------------------ the value of one group *)

(** `for j: if (input[i + j]) byte |= (1 << j)` over the bytes of one group, starting at bit j with accumulator acc *)
Fixpoint pack_acc (l : list N) (j : nat) (acc : N) : N :=
  match l with
  | [] => acc
  | x :: tl => pack_acc tl (j + 1) (if (x =? 0)%N then acc else N.lor acc (N.shiftl 1 (N.of_nat j)))
  end.
Definition pack_val (l : list N) : N := pack_acc l 0 0%N.

Lemma pack_group_spec inp i : forall n j acc,
  i + j + n <= length inp ->
  iter_blocks n 1 j (fun j acc => bind (load1 inp (i + j)) (fun x =>
      Ok (if (x =? 0)%N then acc else N.lor acc (N.shiftl 1 (N.of_nat j))))) acc
  = Ok (pack_acc (sub inp (i + j) n) j acc).
Proof.
  induction n as [|n IH]; intros j acc H; [reflexivity|].
  cbn [iter_blocks]. rewrite load1_ok by lia. cbn [bind]. rewrite IH by lia.
  f_equal. unfold sub. rewrite (skipn_nth_cons inp (i + j) 0%N) by lia. cbn [firstn pack_acc].
  replace (S (i + j)) with (i + (j + 1)) by lia. reflexivity.
Qed.

Definition nz (x : N) : bool := negb (x =? 0)%N.

Lemma bits_to_N_lt l : (bits_to_N l < 2 ^ N.of_nat (length l))%N.
Proof.
  induction l as [|b l IH]; [reflexivity|]. cbn [bits_to_N length].
  rewrite Nat2N.inj_succ, N.pow_succ_r by apply N.le_0_l. destruct b; lia.
Qed.

(** the accumulated OR is the binary number of the non-zero flags *)
Lemma pack_acc_bits : forall l j acc,
  (acc < 2 ^ N.of_nat j)%N -> pack_acc l j acc = (acc + 2 ^ N.of_nat j * bits_to_N (map nz l))%N.
Proof.
  induction l as [|x l IH]; intros j acc Ha; [cbn; lia|].
  cbn [pack_acc map bits_to_N]. unfold nz at 1.
  assert (P2 : (2 ^ N.of_nat (j + 1) = 2 * 2 ^ N.of_nat j)%N).
  { replace (N.of_nat (j + 1)) with (N.succ (N.of_nat j)) by lia. apply N.pow_succ_r. apply N.le_0_l. }
  destruct (x =? 0)%N; cbn [negb].
  - rewrite IH by lia. lia.
  - rewrite N.shiftl_1_l. replace (2 ^ N.of_nat j)%N with (1 * 2 ^ N.of_nat j)%N at 1 by lia.
    rewrite lor_shift_add by exact Ha. rewrite IH by lia. lia.
Qed.

Lemma pack_val_bits l : pack_val l = bits_to_N (map nz l).
Proof. unfold pack_val. rewrite pack_acc_bits by reflexivity. change (2 ^ N.of_nat 0)%N with 1%N. lia. Qed.

Lemma bits_to_N_app l1 l2 : bits_to_N (l1 ++ l2) = (bits_to_N l1 + 2 ^ N.of_nat (length l1) * bits_to_N l2)%N.
Proof.
  induction l1 as [|b l1 IH]; [cbn [app bits_to_N length]; change (N.of_nat 0) with 0%N; rewrite N.pow_0_r; lia|]. cbn [app bits_to_N length]. rewrite IH.
  rewrite Nat2N.inj_succ, N.pow_succ_r by apply N.le_0_l. lia.
Qed.

Lemma bits_to_N_zeros k : bits_to_N (repeat false k) = 0%N.
Proof. induction k as [|k IH]; [reflexivity|]. cbn. rewrite IH. reflexivity. Qed.

(** the little-endian bytes of a bit list are the numbers of its groups of 8 *)
Lemma le_bytes_bits : forall n l, length l = 8 * n ->
  le_bytes n (bits_to_N l) = map (fun t => bits_to_N (sub l (8 * t) 8)) (seq 0 n).
Proof.
  induction n as [|n IH]; intros l H; [reflexivity|].
  rewrite <- (firstn_skipn 8 l) at 1. rewrite bits_to_N_app.
  assert (L8 : length (firstn 8 l) = 8) by (rewrite firstn_length; lia).
  rewrite L8. change (2 ^ N.of_nat 8)%N with 256%N.
  pose proof (bits_to_N_lt (firstn 8 l)) as Lt. rewrite L8 in Lt. change (2 ^ N.of_nat 8)%N with 256%N in Lt.
  cbn [le_bytes seq map].
  replace ((bits_to_N (firstn 8 l) + 256 * bits_to_N (skipn 8 l)) mod 256)%N with (bits_to_N (firstn 8 l)) by lia.
  replace ((bits_to_N (firstn 8 l) + 256 * bits_to_N (skipn 8 l)) / 256)%N with (bits_to_N (skipn 8 l)) by lia.
  f_equal.
  rewrite IH by (rewrite skipn_length; lia).
  rewrite <- seq_shift, map_map. apply map_ext. intros t. f_equal. unfold sub. rewrite skipn_add. f_equal. f_equal. lia.
Qed.

(* ------------------------------------------------------------------ invariant *)

Section Pack.
Variables (count : nat) (inp : list N).
Hypothesis Hinp : length inp = count.

Definition nbytes : nat := (count + 7) / 8.
Definition group (g : nat) : list N := sub inp (g * 8) (Nat.min 8 (count - g * 8)).

Definition Ppack (i : nat) (out : list N) : Prop :=
  length out = nbytes /\ forall g, g * 8 < i -> g < nbytes -> nth g out 0%N = pack_val (group g).

Lemma Ppack_final i o1 o2 : count <= i -> Ppack i o1 -> Ppack i o2 -> o1 = o2.
Proof.
  intros Hi [L1 H1] [L2 H2]. apply (list_eq_nth _ _ 0%N); [lia|]. intros g Hg. rewrite L1 in Hg.
  unfold nbytes in *. rewrite H1, H2 by lia. reflexivity.
Qed.

(** storing pack_val of consecutive groups starting at group i/8 *)
Lemma Ppack_store i k out vals :
  i mod 8 = 0 -> i / 8 + k <= nbytes -> length vals = k ->
  (forall t, t < k -> nth t vals 0%N = pack_val (group (i / 8 + t))) ->
  Ppack i out -> Ppack (i + 8 * k) (upd out (i / 8) vals).
Proof.
  intros Hm Hk Lv Hv [L H]. split; [rewrite length_upd by lia; exact L|].
  intros g Hg Hn. rewrite nth_upd by lia. rewrite Lv.
  destruct (Nat.leb_spec (i / 8) g); destruct (Nat.ltb_spec g (i / 8 + k)); cbn [andb]; try (apply H; lia).
  rewrite Hv by lia. f_equal. f_equal. lia.
Qed.

Lemma pack_tail_inv i out :
  i mod 8 = 0 -> i < count -> Ppack i out ->
  exists o, pack_tail count inp i out = Ok o /\ Ppack (i + 8) o.
Proof.
  intros Hm Hi HP. pose proof HP as [L _]. unfold pack_tail, pack_group.
  rewrite (pack_group_spec inp i (Nat.min 8 (count - i)) 0 0%N) by lia. cbn [bind].
  unfold nbytes in *. rewrite store1_ok by lia. eexists. split; [reflexivity|].
  replace (i + 8) with (i + 8 * 1) by lia. apply Ppack_store; try assumption; try reflexivity; unfold nbytes; try lia.
  intros t Ht. assert (t = 0) by lia. subst t. cbn [nth]. unfold pack_val, group. f_equal.
  replace ((i / 8 + 0) * 8) with i by lia. rewrite Nat.add_0_r. reflexivity.
Qed.

Lemma scalar_pack_bools_spec out0 :
  length out0 = nbytes -> exists o, scalar_pack_bools count inp out0 = Ok o /\ Ppack (nbytes * 8) o.
Proof.
  intros L. unfold scalar_pack_bools. fold nbytes.
  destruct (iter_blocks_inv (fun j o => Ppack j o /\ j mod 8 = 0) (pack_tail count inp) 8 nbytes 0 out0) as [o [E [P _]]].
  - split; [split; [exact L|intros; lia]|reflexivity].
  - intros j s0 _ Hj [HP Hm]. unfold nbytes in Hj. destruct (pack_tail_inv j s0 Hm ltac:(lia) HP) as [o [E P]].
    exists o. split; [exact E|]. split; [exact P|lia].
  - exists o. split; [exact E|exact P].
Qed.

(** the 8-at-a-time main loops of the SSE / AVX2 variants followed by the shared scalar tail *)
Lemma pack8_kernel_eq (block : nat -> list N -> res (list N)) out0 :
  length out0 = nbytes ->
  (forall i out, i mod 8 = 0 -> i + 8 <= count -> length out = nbytes ->
                 block i out = Ok (upd out (i / 8) [pack_val (sub inp i 8)])) ->
  exists out,
    bind (iter_blocks (count / 8) 8 0 block out0)
         (fun o => if 8 * (count / 8) <? count then pack_tail count inp (8 * (count / 8)) o else Ok o) = Ok out /\
    scalar_pack_bools count inp out0 = Ok out.
Proof.
  intros L Hb.
  destruct (iter_blocks_inv (fun j o => Ppack j o /\ j mod 8 = 0) block 8 (count / 8) 0 out0) as [o1 [E1 [P1 _]]].
  - split; [split; [exact L|intros; lia]|reflexivity].
  - intros j s0 _ Hj [HP Hm]. pose proof HP as [L' _]. rewrite Hb by (try assumption; lia).
    eexists. split; [reflexivity|]. split; [|lia].
    replace (j + 8) with (j + 8 * 1) by lia. apply Ppack_store; try assumption; try reflexivity; unfold nbytes; try lia.
    intros t Ht. assert (t = 0) by lia. subst t. cbn [nth]. unfold group. f_equal.
    replace ((j / 8 + 0) * 8) with j by lia. f_equal. lia.
  - rewrite E1. cbn [bind]. replace (0 + count / 8 * 8) with (8 * (count / 8)) in P1 by lia.
    destruct (scalar_pack_bools_spec out0 L) as [o2 [E2 P2]].
    destruct (Nat.ltb_spec (8 * (count / 8)) count) as [Lt|Ge].
    + destruct (pack_tail_inv (8 * (count / 8)) o1 ltac:(lia) Lt P1) as [o3 [E3 P3]].
      exists o3. split; [exact E3|]. rewrite E2. f_equal.
      assert (nbytes * 8 = 8 * (count / 8) + 8) by (unfold nbytes; lia).
      rewrite H in P2. apply (Ppack_final (8 * (count / 8) + 8)); try assumption. lia.
    + exists o1. split; [reflexivity|]. rewrite E2. f_equal.
      assert (nbytes * 8 = 8 * (count / 8)) by (unfold nbytes; lia).
      rewrite H in P2. apply (Ppack_final (8 * (count / 8))); try assumption.
Qed.
End Pack.

(* ------------------------------------------------------------------ SSE and AVX2 *)

Definition bools01 (l : list N) : Prop := Forall (fun x => x = 0%N \/ x = 1%N) l.

Tactic Notation "dlist" ident(v) hyp(H) integer(n) :=
  do n (destruct v as [|? v]; [simpl in H; discriminate H|]); destruct v; [|simpl in H; discriminate H]; clear H.

Ltac split01 H :=
  repeat match type of H with
         | Forall _ (_ :: _) => let A := fresh in let B := fresh in
                                 apply Forall_cons_iff in H; destruct H as [A B]; destruct A; subst; rename B into H
         end.

Lemma sse_pack8 l :
  length l = 8 -> bools01 l ->
  (movemask_epi8 (mm_slli_epi32 (mm_loadl_epi64 l) 7) mod 256)%N = pack_val l.
Proof. intros L H. dlist l L 8. unfold bools01 in H. split01 H; reflexivity. Qed.

Lemma avx2_pack8 l :
  length l = 8 -> bools01 l ->
  let bools := mm_loadl_epi64 l in
  let mult := [1; 2; 4; 8; 16; 32; 64; 128; 0; 0; 0; 0; 0; 0; 0; 0]%N in
  let zero := zeros 16 in
  let words := mm_unpacklo_epi8 bools zero in
  let mwords := mm_unpacklo_epi8 mult zero in
  let prod := mullo_lanes 2 words mwords in
  let prod := add_lanes 2 prod (mm_srli_si128 prod 2) in
  let prod := add_lanes 2 prod (mm_srli_si128 prod 4) in
  let prod := add_lanes 2 prod (mm_srli_si128 prod 8) in
  (le_num (mm_extract_epi16 prod 0) mod 256)%N = pack_val l.
Proof. intros L H. dlist l L 8. unfold bools01 in H. split01 H; reflexivity. Qed.

Lemma bools01_sub l a n : bools01 l -> bools01 (sub l a n).
Proof. intros H. apply Forall_firstn, Forall_skipn, H. Qed.

Theorem sse_pack_bools_eq_scalar count inp out0 :
  length inp = count -> bools01 inp -> length out0 = (count + 7) / 8 ->
  exists out, sse_pack_bools count inp out0 = Ok out /\ scalar_pack_bools count inp out0 = Ok out.
Proof.
  intros Hi H01 L. unfold sse_pack_bools. cbv zeta.
  apply (pack8_kernel_eq count inp Hi); [exact L|].
  intros i out Hm Hlt Lo. unfold sse_pack_bools_block. rewrite load_ok by lia. cbn [bind].
  rewrite sse_pack8 by (try (apply length_sub; lia); apply bools01_sub; exact H01).
  apply store1_ok. unfold nbytes in Lo. lia.
Qed.

Theorem avx2_pack_bools_eq_scalar count inp out0 :
  length inp = count -> bools01 inp -> length out0 = (count + 7) / 8 ->
  exists out, avx2_pack_bools count inp out0 = Ok out /\ scalar_pack_bools count inp out0 = Ok out.
Proof.
  intros Hi H01 L. unfold avx2_pack_bools. cbv zeta.
  apply (pack8_kernel_eq count inp Hi); [exact L|].
  intros i out Hm Hlt Lo. unfold avx2_pack_bools_block. rewrite load_ok by lia. cbn [bind].
  pose proof (avx2_pack8 (sub inp i 8) ltac:(apply length_sub; lia) (bools01_sub inp i 8 H01)) as E. cbv zeta in E.
  rewrite E. apply store1_ok. unfold nbytes in Lo. lia.
Qed.

(* ------------------------------------------------------------------ AVX-512 *)

Lemma map2_diag {A B} (f : A -> A -> B) l : map2 f l l = map (fun x => f x x) l.
Proof. induction l as [|x l IH]; [reflexivity|]. cbn. rewrite IH. reflexivity. Qed.

Lemma test_mask_nz a : mm512_test_epi8_mask a a = bits_to_N (map nz a).
Proof.
  unfold mm512_test_epi8_mask. rewrite map2_diag. f_equal. apply map_ext. intros x. unfold nz. rewrite N.land_diag. reflexivity.
Qed.

Lemma sub_map {A B} (f : A -> B) l a n : sub (map f l) a n = map f (sub l a n).
Proof. unfold sub. rewrite skipn_map, firstn_map. reflexivity. Qed.

(** the bytes of the mask of a 64-byte block are pack_val of its eight groups *)
Lemma mask_bytes bools :
  length bools = 64 ->
  le_bytes 8 (mm512_test_epi8_mask bools bools) = map (fun t => pack_val (sub bools (8 * t) 8)) (seq 0 8).
Proof.
  intros L. rewrite test_mask_nz. rewrite le_bytes_bits by (rewrite map_length; lia).
  apply map_ext. intros t. rewrite sub_map. symmetry. apply pack_val_bits.
Qed.

Lemma map_nz_zeros k : map nz (zeros k) = repeat false k.
Proof. unfold zeros. induction k as [|k IH]; [reflexivity|]. cbn. rewrite IH. reflexivity. Qed.

Lemma pack_val_pad l k : pack_val (l ++ zeros k) = pack_val l.
Proof. rewrite !pack_val_bits, map_app, map_nz_zeros, bits_to_N_app, bits_to_N_zeros. lia. Qed.

Lemma firstn_repeat {A} (a : A) m k : firstn m (repeat a k) = repeat a (Nat.min m k).
Proof.
  revert k. induction m as [|m IH]; intro k; [reflexivity|]. destruct k as [|k]; [reflexivity|]. cbn. rewrite IH. reflexivity.
Qed.

(** a group of 8 taken from data padded with zeros is the (possibly shorter) group of the data *)
Lemma sub_padded (x : list N) k a :
  a <= length x ->
  pack_val (sub (x ++ zeros k) a 8) = pack_val (sub x a (Nat.min 8 (length x - a))).
Proof.
  intros Ha. unfold sub. rewrite skipn_app. replace (a - length x) with 0 by lia. cbn [skipn].
  rewrite firstn_app. rewrite skipn_length.
  assert (E : firstn (Nat.min 8 (length x - a)) (skipn a x) = firstn 8 (skipn a x)).
  { destruct (Nat.le_ge_cases 8 (length x - a)) as [H|H]; [rewrite Nat.min_l by exact H; reflexivity|].
    rewrite Nat.min_r by exact H. rewrite !firstn_all2 by (rewrite skipn_length; lia). reflexivity. }
  rewrite E. unfold zeros. rewrite firstn_repeat. apply pack_val_pad.
Qed.

Theorem avx512_pack_bools_eq_scalar count inp out0 :
  length inp = count -> length out0 = (count + 7) / 8 ->
  exists out, avx512_pack_bools count inp out0 = Ok out /\ scalar_pack_bools count inp out0 = Ok out.
Proof.
  intros Hi L. unfold avx512_pack_bools. cbv zeta.
  destruct (iter_blocks_inv (fun j o => Ppack count inp j o /\ j mod 64 = 0) (avx512_pack_bools_block inp) 64 (count / 64) 0 out0)
    as [o1 [E1 [P1 _]]].
  - split; [split; [exact L|intros; lia]|reflexivity].
  - intros j s0 _ Hj [HP Hm]. pose proof HP as [L' _]. unfold nbytes in L'.
    unfold avx512_pack_bools_block. rewrite load_ok by lia. cbn [bind].
    assert (L64 : length (sub inp j 64) = 64) by (apply length_sub; lia).
    rewrite mask_bytes by exact L64.
    rewrite store_ok by (rewrite map_length, seq_length; lia).
    eexists. split; [reflexivity|]. split; [|lia].
    replace (j + 64) with (j + 8 * 8) by lia. apply Ppack_store; try assumption; unfold nbytes; try lia.
    + rewrite map_length, seq_length. reflexivity.
    + intros t Ht. rewrite (nth_indep _ 0%N (pack_val (sub (sub inp j 64) (8 * 0) 8))) by (rewrite map_length, seq_length; lia).
      rewrite (map_nth (fun t => pack_val (sub (sub inp j 64) (8 * t) 8)) (seq 0 8) 0 t). rewrite seq_nth by lia.
      rewrite sub_sub by lia. unfold group. f_equal. f_equal; lia.
  - rewrite E1. cbn [bind]. replace (0 + count / 64 * 64) with (64 * (count / 64)) in P1 by lia.
    destruct (scalar_pack_bools_spec count inp Hi out0 L) as [o2 [E2 P2]].
    set (i := 64 * (count / 64)) in *.
    destruct (Nat.ltb_spec i count) as [Lt|Ge].
    + pose proof P1 as [L1 _]. unfold nbytes in L1.
      rewrite load_ok by lia. cbn [bind].
      set (remaining := count - i) in *. set (x := sub inp i remaining).
      assert (Lx : length x = remaining) by (apply length_sub; lia).
      assert (L64 : length (x ++ zeros (64 - remaining)) = 64) by (rewrite app_length, Lx; unfold zeros; rewrite repeat_length; lia).
      rewrite mask_bytes by exact L64.
      rewrite store_ok by (rewrite firstn_length, map_length, seq_length; lia).
      eexists. split; [reflexivity|]. rewrite E2. f_equal.
      assert (Hn : nbytes count * 8 = i + 8 * ((remaining + 7) / 8)) by (unfold nbytes; lia).
      rewrite Hn in P2. apply (Ppack_final count inp Hi (i + 8 * ((remaining + 7) / 8))); try assumption; try lia.
      apply Ppack_store; try assumption; unfold nbytes; try lia.
      * rewrite firstn_length, map_length, seq_length. lia.
      * intros t Ht. rewrite nth_firstn by exact Ht.
        rewrite (nth_indep _ 0%N (pack_val (sub (x ++ zeros (64 - remaining)) (8 * 0) 8))) by (rewrite map_length, seq_length; lia).
        rewrite (map_nth (fun t => pack_val (sub (x ++ zeros (64 - remaining)) (8 * t) 8)) (seq 0 8) 0 t). rewrite seq_nth by lia.
        rewrite sub_padded by lia. rewrite Lx. unfold x. rewrite sub_sub by lia.
        unfold group. f_equal. f_equal; lia.
    + exists o1. split; [reflexivity|]. rewrite E2. f_equal.
      assert (Hn : nbytes count * 8 = i) by (unfold nbytes; lia).
      rewrite Hn in P2. apply (Ppack_final count inp Hi i); try assumption.
Qed.

(** Outside the documented domain (a "true" byte other than 1) the SSE and AVX2 variants do NOT compute what
    the scalar definition and the AVX-512 variant compute - recorded, not claimed as a defect
    (sse_ops.c: "Input bytes should be 0 or 1"). *)
Example pack_bools_outside_domain :
  scalar_pack_bools 8 [2; 0; 0; 0; 0; 0; 0; 0]%N [0%N] = Ok [1%N] /\
  avx512_pack_bools 8 [2; 0; 0; 0; 0; 0; 0; 0]%N [0%N] = Ok [1%N] /\
  sse_pack_bools 8 [2; 0; 0; 0; 0; 0; 0; 0]%N [0%N] = Ok [0%N] /\
  avx2_pack_bools 8 [2; 0; 0; 0; 0; 0; 0; 0]%N [0%N] = Ok [2%N].
Proof. vm_compute. repeat split; reflexivity. Qed.
