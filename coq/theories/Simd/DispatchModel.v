(** Model of carquet_simd_dispatch_init (src/simd/dispatch.c): the table is data regenerated from the
    source on every run (Gen/Dispatch_gen.v); this file only says how the table is applied - scalar
    assignments first, then every `if (cpu->has_X && ...)` block whose condition holds, in source order,
    later assignments overriding earlier ones - and what a capability set guarantees.
    [requires] (which ISA features a kernel needs to execute) comes from Gen/Intrinsics_gen.v. *)
From Coq Require Import List Bool String.
From Carquet Require Import Gen.Dispatch_gen Gen.Intrinsics_gen.
Import ListNotations.

(** A capability set is the list of features detection reported (cpu->has_X is true iff F_X is in it). *)
Definition caps := list feature.
Definition has (c : caps) (f : feature) : bool := existsb (feature_beq f) c.

(** the last assignment to [s] in an assignment list, if any *)
Fixpoint last_assign (l : list (slot * kernel)) (s : slot) (acc : option kernel) : option kernel :=
  match l with
  | [] => acc
  | (s', k) :: tl => last_assign tl s (if slot_beq s' s then Some k else acc)
  end.

Definition cond_holds (c : caps) (cond : list feature) : bool := forallb (has c) cond.

(** the blocks are run in source order; a block whose condition fails leaves the table unchanged *)
Fixpoint run_blocks (bl : list (list feature * list (slot * kernel))) (c : caps) (s : slot)
         (acc : option kernel) : option kernel :=
  match bl with
  | [] => acc
  | (cond, asg) :: tl => run_blocks tl c s (if cond_holds c cond then last_assign asg s acc else acc)
  end.

(** g_dispatch.<slot> after carquet_simd_dispatch_init, for a table given as data *)
Definition select_with (base : list (slot * kernel)) (bl : list (list feature * list (slot * kernel)))
           (c : caps) (s : slot) : option kernel :=
  run_blocks bl c s (last_assign base s None).

(** ... and for the table of the current source tree *)
Definition select (c : caps) (s : slot) : option kernel := select_with base_table override_blocks c s.

(** What the hardware guarantees beyond the reported bits: the x86 extensions are nested (this is the
    implication order the compiler's -m flags use; it is architectural knowledge, part of the trusted base). *)
Definition implied_directly (f : feature) : list feature :=
  match f with
  | F_sse => [] | F_sse2 => [F_sse] | F_sse3 => [F_sse2] | F_ssse3 => [F_sse3] | F_sse41 => [F_ssse3]
  | F_sse42 => [F_sse41] | F_avx => [F_sse42] | F_avx2 => [F_avx] | F_avx512f => [F_avx2]
  | F_avx512bw => [F_avx512f] | F_avx512vl => [F_avx512f] | F_avx512vbmi => [F_avx512bw]
  | F_avx512cd => [F_avx512f] | F_bmi2 => []
  end.

Fixpoint implied (fuel : nat) (f : feature) : list feature :=
  match fuel with
  | O => [f]
  | S n => f :: flat_map (implied n) (implied_directly f)
  end.

(** [provides c f]: a CPU reporting [c] can execute instructions of extension [f] *)
Definition provides (c : caps) (f : feature) : bool :=
  existsb (fun g => has c g && existsb (feature_beq f) (implied 14 g)) all_features.

Definition supported (c : caps) (k : kernel) : bool := forallb (provides c) (requires k).

(** features needed according to the intrinsic inventory alone (cross-check of the generated [requires]) *)
Fixpoint feature_of (tbl : list (string * feature)) (i : string) : option feature :=
  match tbl with
  | [] => None
  | (n, f) :: tl => if String.eqb n i then Some f else feature_of tl i
  end.

Definition requires_from_intrinsics (k : kernel) : option (list feature) :=
  fold_right (fun i acc => match feature_of intrinsic_feature i, acc with
                           | Some f, Some l => Some (f :: l) | _, _ => None end)
             (Some []) (intrinsics_of k).

(** all capability sets, as sub-lists of [all_features] *)
Fixpoint powerset {A} (l : list A) : list (list A) :=
  match l with
  | [] => [[]]
  | x :: tl => let p := powerset tl in map (cons x) p ++ p
  end.

(** the table as it was in the pinned tree (commit 06cdad3), for the record of finding F28: the same blocks
    with the condition of every block that mentions avx512f reduced to avx512f alone *)
Definition pinned_blocks : list (list feature * list (slot * kernel)) :=
  map (fun b => if existsb (feature_beq F_avx512f) (fst b) then ([F_avx512f], snd b) else b) override_blocks.

(** name of the selected symbol, for the comparison with the implementation under the CPU-cap hook *)
Definition selected_name (c : caps) (s : slot) : string :=
  match select c s with Some k => kernel_name k | None => "none"%string end.

(** capability set from the has_* bits in the order of [detected_features] (the order of the struct fields) *)
Definition caps_of_bits (bits : list bool) : caps :=
  map snd (filter fst (combine bits detected_features)).

Definition dispatch_names (bits : list bool) : list (string * string) :=
  map (fun s => (slot_name s, selected_name (caps_of_bits bits) s)) all_slots.

(** the same as indices into [all_slots] / [all_kernels] (what the extracted runner prints; [None] never occurs) *)
Definition dispatch_indices (bits : list bool) : list (nat * option nat) :=
  map (fun s => (slot_index s, option_map kernel_index (select (caps_of_bits bits) s))) all_slots.
