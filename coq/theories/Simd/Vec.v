(** Vectors and memory for the SIMD kernel models (C15).

    A vector register is the list of its byte lanes, least significant first (16 / 32 / 64 bytes for
    __m128i / __m256i / __m512i); wider lanes are little-endian views ([lanes] / [unlanes]).  A caller's
    array is a byte list; every load / store of a model names its index range explicitly and is a
    [Fault] when the range leaves the array ([load] / [store]).  Loops are [iter_blocks]: a fixed number
    of iterations, index advancing by the block width. *)
From Coq Require Import NArith List Arith Lia Bool.
From Carquet Require Import Base.Res.
Import ListNotations.
Local Open Scope nat_scope.

(* ------------------------------------------------------------------ sub-ranges of a list *)

Definition sub {A} (l : list A) (off n : nat) : list A := firstn n (skipn off l).
Definition upd {A} (l : list A) (off : nat) (v : list A) : list A :=
  firstn off l ++ v ++ skipn (off + length v) l.

Lemma length_sub {A} (l : list A) off n : off + n <= length l -> length (sub l off n) = n.
Proof. intros H. unfold sub. rewrite firstn_length, skipn_length. lia. Qed.

Lemma nth_skipn {A} (l : list A) off k d : nth k (skipn off l) d = nth (off + k) l d.
Proof.
  revert l. induction off as [|off IH]; intro l; [reflexivity|].
  destruct l as [|x tl]; [destruct k; reflexivity|]. cbn [skipn plus nth]. apply IH.
Qed.

Lemma nth_firstn {A} (l : list A) n k d : k < n -> nth k (firstn n l) d = nth k l d.
Proof.
  revert l k. induction n as [|n IH]; intros l k H; [lia|].
  destruct l as [|x tl]; [destruct k; reflexivity|].
  destruct k as [|k]; [reflexivity|]. cbn [firstn nth]. apply IH. lia.
Qed.

Lemma nth_sub {A} (l : list A) off n k d : k < n -> nth k (sub l off n) d = nth (off + k) l d.
Proof. intros H. unfold sub. rewrite nth_firstn by exact H. apply nth_skipn. Qed.

Lemma length_upd {A} (l v : list A) off : off + length v <= length l -> length (upd l off v) = length l.
Proof. intros H. unfold upd. rewrite !app_length, firstn_length, skipn_length. lia. Qed.

Lemma nth_upd {A} (l v : list A) off k d :
  off + length v <= length l ->
  nth k (upd l off v) d = if (off <=? k) && (k <? off + length v) then nth (k - off) v d else nth k l d.
Proof.
  intros H. unfold upd.
  destruct (Nat.leb_spec off k) as [L|L]; cbn [andb].
  - rewrite app_nth2 by (rewrite firstn_length; lia). rewrite firstn_length, Nat.min_l by lia.
    destruct (Nat.ltb_spec k (off + length v)) as [L2|L2].
    + apply app_nth1. lia.
    + rewrite app_nth2 by lia. rewrite nth_skipn. f_equal. lia.
  - rewrite app_nth1 by (rewrite firstn_length; lia). apply nth_firstn. exact L.
Qed.

Lemma nth_upd_in {A} (l v : list A) off k d :
  off + length v <= length l -> off <= k < off + length v -> nth k (upd l off v) d = nth (k - off) v d.
Proof.
  intros H [H1 H2]. rewrite nth_upd by exact H.
  destruct (Nat.leb_spec off k); [|lia]. destruct (Nat.ltb_spec k (off + length v)); [reflexivity|lia].
Qed.

Lemma nth_upd_out {A} (l v : list A) off k d :
  off + length v <= length l -> k < off \/ off + length v <= k -> nth k (upd l off v) d = nth k l d.
Proof.
  intros H H1. rewrite nth_upd by exact H.
  destruct (Nat.leb_spec off k); cbn [andb]; [|reflexivity].
  destruct (Nat.ltb_spec k (off + length v)); [lia|reflexivity].
Qed.


Lemma list_eq_nth {A} (l1 l2 : list A) d :
  length l1 = length l2 -> (forall k, k < length l1 -> nth k l1 d = nth k l2 d) -> l1 = l2.
Proof. intros Hl H. apply (nth_ext l1 l2 d d Hl H). Qed.

(** two adjacent updates are one update of the concatenation *)
Lemma upd_app {A} (l v1 v2 : list A) off :
  off + length v1 + length v2 <= length l ->
  upd (upd l off v1) (off + length v1) v2 = upd l off (v1 ++ v2).
Proof.
  intros H.
  assert (L1 : length (upd l off v1) = length l) by (apply length_upd; lia).
  destruct l as [|d l'] eqn:El; [cbn in H; assert (length v1 = 0) by lia; assert (length v2 = 0) by lia;
    destruct v1; [|discriminate]; destruct v2; [|discriminate]; destruct off; reflexivity|].
  rewrite <- El in *. clear El l'.
  apply (list_eq_nth _ _ d).
  - rewrite !length_upd; rewrite ?app_length, ?L1; lia.
  - intros k Hk. rewrite (nth_upd (upd l off v1)) by (rewrite L1; lia).
    rewrite (nth_upd l (v1 ++ v2)) by (rewrite app_length; lia). rewrite app_length.
    rewrite (nth_upd l v1) by lia.
    destruct (Nat.leb_spec (off + length v1) k); destruct (Nat.ltb_spec k (off + length v1 + length v2));
      destruct (Nat.leb_spec off k); destruct (Nat.ltb_spec k (off + length v1));
      destruct (Nat.ltb_spec k (off + (length v1 + length v2))); cbn [andb]; try lia; try reflexivity.
    + rewrite app_nth2 by lia. f_equal. lia.
    + rewrite app_nth1 by lia. reflexivity.
Qed.

Lemma nth_map_seq {A} (f : nat -> A) n k d : k < n -> nth k (map f (seq 0 n)) d = f k.
Proof.
  intros H. rewrite (nth_indep _ d (f 0)) by (rewrite map_length, seq_length; exact H).
  change (f 0) with (f (0 : nat)). rewrite map_nth with (d := 0). rewrite seq_nth by exact H. reflexivity.
Qed.

(* ------------------------------------------------------------------ small list facts *)

Lemma flat_map_shift {A} (f : nat -> list A) i n : flat_map f (seq i n) = flat_map (fun k => f (i + k)) (seq 0 n).
Proof.
  revert f i. induction n as [|n IH]; intros f i; [reflexivity|].
  cbn [seq flat_map]. rewrite Nat.add_0_r. f_equal. rewrite (IH f (S i)). rewrite (IH (fun k => f (i + k)) 1).
  apply flat_map_ext. intros k. f_equal. lia.
Qed.

Lemma flat_map_singleton {A B} (g : A -> B) l : flat_map (fun k => [g k]) l = map g l.
Proof. induction l as [|x l IH]; [reflexivity|]. cbn. rewrite IH. reflexivity. Qed.

Lemma skipn_add {A} (l : list A) a b : skipn b (skipn a l) = skipn (a + b) l.
Proof.
  revert l. induction a as [|a IH]; intro l; [reflexivity|].
  destruct l as [|x l]; [destruct b; reflexivity|]. cbn [skipn plus]. apply IH.
Qed.

Lemma skipn_nth_cons {A} (l : list A) k d : k < length l -> skipn k l = nth k l d :: skipn (S k) l.
Proof.
  revert l. induction k as [|k IH]; intros l H.
  - destruct l; [cbn in H; lia|reflexivity].
  - destruct l as [|x l]; [cbn in H; lia|]. cbn [skipn nth]. apply IH. cbn in H. lia.
Qed.

Lemma sub_sub {A} (l : list A) a n b m : b + m <= n -> sub (sub l a n) b m = sub l (a + b) m.
Proof.
  intros H. unfold sub. rewrite skipn_firstn_comm, firstn_firstn, Nat.min_l by lia.
  rewrite skipn_add. reflexivity.
Qed.

(* ------------------------------------------------------------------ checked memory access *)

Definition load (buf : list N) (off n : nat) : res (list N) :=
  if off + n <=? length buf then Ok (sub buf off n) else Fault OobRead.

Definition store (buf : list N) (off : nat) (v : list N) : res (list N) :=
  if off + length v <=? length buf then Ok (upd buf off v) else Fault OobWrite.

Definition load1 (buf : list N) (i : nat) : res N :=
  match nth_error buf i with Some x => Ok x | None => Fault OobRead end.

Definition store1 (buf : list N) (i : nat) (x : N) : res (list N) := store buf i [x].

Lemma load_ok buf off n : off + n <= length buf -> load buf off n = Ok (sub buf off n).
Proof. intros H. unfold load. destruct (Nat.leb_spec (off + n) (length buf)); [reflexivity|lia]. Qed.

Lemma store_ok buf off v : off + length v <= length buf -> store buf off v = Ok (upd buf off v).
Proof. intros H. unfold store. destruct (Nat.leb_spec (off + length v) (length buf)); [reflexivity|lia]. Qed.

Lemma load1_ok buf i : i < length buf -> load1 buf i = Ok (nth i buf 0%N).
Proof.
  intros H. unfold load1. destruct (nth_error buf i) eqn:E.
  - rewrite (nth_error_nth _ _ _ E). reflexivity.
  - apply nth_error_None in E. lia.
Qed.

Lemma store1_ok buf i x : i < length buf -> store1 buf i x = Ok (upd buf i [x]).
Proof. intros H. unfold store1. apply store_ok. cbn. lia. Qed.

Lemma nth_upd1 {A} (l : list A) off x k d :
  off < length l -> nth k (upd l off [x]) d = if k =? off then x else nth k l d.
Proof.
  intros H. rewrite nth_upd by (cbn; lia). cbn [length].
  destruct (Nat.eqb_spec k off) as [E|E].
  - subst. destruct (Nat.leb_spec off off); [|lia]. destruct (Nat.ltb_spec off (off + 1)); [|lia].
    cbn [andb]. rewrite Nat.sub_diag. reflexivity.
  - destruct (Nat.leb_spec off k); destruct (Nat.ltb_spec k (off + 1)); cbn [andb]; try reflexivity. lia.
Qed.

(* ------------------------------------------------------------------ sequences of stores *)

(** `store; store; ...; store` as written in a block (the last one is the block's result) *)
Fixpoint store_seq (ops : list (nat * list N)) (out : list N) : res (list N) :=
  match ops with
  | [] => Ok out
  | (off, v) :: tl => match tl with [] => store out off v | _ => bind (store out off v) (store_seq tl) end
  end.

Fixpoint upd_seq (ops : list (nat * list N)) (out : list N) : list N :=
  match ops with [] => out | (off, v) :: tl => upd_seq tl (upd out off v) end.

Lemma store_seq_ok ops : forall out,
  Forall (fun ov => fst ov + length (snd ov) <= length out) ops ->
  store_seq ops out = Ok (upd_seq ops out) /\ length (upd_seq ops out) = length out.
Proof.
  induction ops as [|[off v] tl IH]; intros out H; [split; reflexivity|].
  inversion H as [|x l H1 H2]; subst. cbn [fst snd] in H1.
  assert (L : length (upd out off v) = length out) by (apply length_upd; exact H1).
  assert (H2' : Forall (fun ov => fst ov + length (snd ov) <= length (upd out off v)) tl) by (rewrite L; exact H2).
  destruct (IH (upd out off v) H2') as [E1 E2].
  cbn [store_seq upd_seq]. rewrite store_ok by exact H1. split; [|lia].
  destruct tl as [|p tl']; [reflexivity|]. cbn [bind]. exact E1.
Qed.

(** two adjacent stores are one store of the concatenation *)
Lemma upd_seq_merge off n a b tl out :
  length a = n -> off + n + length b <= length out ->
  upd_seq ((off, a) :: (off + n, b) :: tl) out = upd_seq ((off, a ++ b) :: tl) out.
Proof. intros Hn H. subst n. cbn [upd_seq]. rewrite upd_app by exact H. reflexivity. Qed.

Lemma upd_seq_cons off v tl out : upd_seq ((off, v) :: tl) out = upd_seq tl (upd out off v).
Proof. reflexivity. Qed.

(* ------------------------------------------------------------------ loops *)

(** [n] iterations of [f], the index starting at [i] and advancing by [W]:
    `for (k = 0; k < n; k++, i += W) s = f(i, s)`.  The C loops `for (; i + W <= count; i += W)` from i = 0
    run count / W times; the remainder loops `for (; i < count; i++)` run count - i times. *)
Fixpoint iter_blocks {St} (n W i : nat) (f : nat -> St -> res St) (s : St) : res St :=
  match n with
  | O => Ok s
  | S m => bind (f i s) (fun s' => iter_blocks m W (i + W) f s')
  end.

Lemma iter_blocks_inv {St} (P : nat -> St -> Prop) (f : nat -> St -> res St) W :
  forall n i s,
    P i s ->
    (forall j s0, i <= j -> j + W <= i + n * W -> P j s0 -> exists s1, f j s0 = Ok s1 /\ P (j + W) s1) ->
    exists s', iter_blocks n W i f s = Ok s' /\ P (i + n * W) s'.
Proof.
  induction n as [|n IH]; intros i s HP Hf.
  - exists s. split; [reflexivity|]. cbn. rewrite Nat.add_0_r. exact HP.
  - cbn [iter_blocks]. destruct (Hf i s (le_n _)) as [s1 [E1 P1]]; [cbn; lia|exact HP|].
    rewrite E1. cbn [bind]. destruct (IH (i + W) s1 P1) as [s' [E' P']].
    + intros j s0 H1 H2 H3. apply Hf; [lia|cbn; lia|exact H3].
    + exists s'. split; [exact E'|]. replace (i + S n * W) with (i + W + n * W) by (cbn; lia). exact P'.
Qed.

(** vector main loop followed by the scalar remainder loop *)
Definition simd_loop {St} (W count : nat) (block step : nat -> St -> res St) (s : St) : res St :=
  bind (iter_blocks (count / W) W 0 block s)
       (fun s' => iter_blocks (count - W * (count / W)) 1 (W * (count / W)) step s').

Definition scalar_loop {St} (count : nat) (step : nat -> St -> res St) (s : St) : res St :=
  iter_blocks count 1 0 step s.

Lemma simd_loop_inv {St} (P : nat -> St -> Prop) W count (block step : nat -> St -> res St) s :
  0 < W -> P 0 s ->
  (forall j s0, j + W <= count -> P j s0 -> exists s1, block j s0 = Ok s1 /\ P (j + W) s1) ->
  (forall j s0, j < count -> P j s0 -> exists s1, step j s0 = Ok s1 /\ P (j + 1) s1) ->
  exists s', simd_loop W count block step s = Ok s' /\ P count s'.
Proof.
  intros HW H0 Hb Hs. unfold simd_loop.
  pose proof (Nat.mul_div_le count W ltac:(lia)) as Hle.
  destruct (iter_blocks_inv P block W (count / W) 0 s H0) as [s1 [E1 P1]].
  { intros j s0 _ H2 H3. apply Hb; [|exact H3]. cbn in H2. rewrite (Nat.mul_comm (count / W) W) in H2. lia. }
  rewrite E1. cbn [bind].
  cbn [plus] in P1. rewrite (Nat.mul_comm (count / W) W) in P1.
  destruct (iter_blocks_inv P step 1 (count - W * (count / W)) (W * (count / W)) s1 P1) as [s2 [E2 P2]].
  { intros j s0 H1 H2 H3. apply Hs; [lia|exact H3]. }
  exists s2. split; [exact E2|]. replace (W * (count / W) + (count - W * (count / W)) * 1) with count in P2 by lia. exact P2.
Qed.

(** the same, the block obligation only at indices that are multiples of the block width *)
Lemma simd_loop_inv_div {St} (P : nat -> St -> Prop) W count (block step : nat -> St -> res St) s :
  0 < W -> P 0 s ->
  (forall j s0, j mod W = 0 -> j + W <= count -> P j s0 -> exists s1, block j s0 = Ok s1 /\ P (j + W) s1) ->
  (forall j s0, j < count -> P j s0 -> exists s1, step j s0 = Ok s1 /\ P (j + 1) s1) ->
  exists s', simd_loop W count block step s = Ok s' /\ P count s'.
Proof.
  intros HW H0 Hb Hs. unfold simd_loop.
  pose proof (Nat.mul_div_le count W ltac:(lia)) as Hle.
  destruct (iter_blocks_inv (fun j s => P j s /\ j mod W = 0) block W (count / W) 0 s) as [s1 [E1 [P1 _]]].
  { split; [exact H0|]. apply Nat.mod_0_l. lia. }
  { intros j s0 _ H2 [H3 H4]. cbn in H2. rewrite (Nat.mul_comm (count / W) W) in H2.
    destruct (Hb j s0 H4 ltac:(lia) H3) as [s1 [E1 P1]]. exists s1. split; [exact E1|]. split; [exact P1|].
    rewrite <- Nat.add_mod_idemp_l by lia. rewrite H4. cbn [plus]. apply Nat.mod_same. lia. }
  rewrite E1. cbn [bind].
  cbn [plus] in P1. rewrite (Nat.mul_comm (count / W) W) in P1.
  destruct (iter_blocks_inv P step 1 (count - W * (count / W)) (W * (count / W)) s1 P1) as [s2 [E2 P2]].
  { intros j s0 H1 H2 H3. apply Hs; [lia|exact H3]. }
  exists s2. split; [exact E2|]. replace (W * (count / W) + (count - W * (count / W)) * 1) with count in P2 by lia. exact P2.
Qed.

Lemma scalar_loop_inv {St} (P : nat -> St -> Prop) count (step : nat -> St -> res St) s :
  P 0 s ->
  (forall j s0, j < count -> P j s0 -> exists s1, step j s0 = Ok s1 /\ P (j + 1) s1) ->
  exists s', scalar_loop count step s = Ok s' /\ P count s'.
Proof.
  intros H0 Hs. unfold scalar_loop.
  destruct (iter_blocks_inv P step 1 count 0 s H0) as [s1 [E1 P1]].
  { intros j s0 _ H2 H3. apply Hs; [lia|exact H3]. }
  exists s1. split; [exact E1|]. replace (0 + count * 1) with count in P1 by lia. exact P1.
Qed.

(* ------------------------------------------------------------------ lane views *)

Local Open Scope N_scope.

Fixpoint le_num (bs : list N) : N :=
  match bs with [] => 0 | b :: tl => b + 256 * le_num tl end.

Fixpoint le_bytes (n : nat) (x : N) : list N :=
  match n with O => [] | S k => x mod 256 :: le_bytes k (x / 256) end.

Fixpoint chunks {A} (w : nat) (n : nat) (l : list A) : list (list A) :=
  match n with O => [] | S k => firstn w l :: chunks w k (skipn w l) end.

(** the [w]-byte lanes of a vector, as numbers *)
Definition lanes (w : nat) (v : list N) : list N := map le_num (chunks w (length v / w) v).
Definition unlanes (w : nat) (l : list N) : list N := flat_map (le_bytes w) l.

Definition bytes_ok (l : list N) : Prop := Forall (fun b => b < 256) l.
Definition bytes_okb (l : list N) : bool := forallb (fun b => b <? 256) l.

Lemma le_bytes_length n x : length (le_bytes n x) = n.
Proof. revert x. induction n as [|n IH]; intro x; [reflexivity|]. cbn. rewrite IH. reflexivity. Qed.
