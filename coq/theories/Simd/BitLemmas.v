(** Arithmetic facts shared by the kernel proofs (C15): single-bit masks, little-endian numbers and their bits. *)
From Coq Require Import NArith ZArith List Arith Lia Bool ZifyBool ZifyNat ZifyN.
From Carquet Require Import Base.Bits Simd.Vec Simd.X86Sem Simd.ScalarKernels.
Import ListNotations.
Local Open Scope N_scope.

Lemma land_pow2 p k : N.land p (2 ^ k) = if N.testbit p k then 2 ^ k else 0.
Proof.
  apply N.bits_inj_iff. intro m. rewrite N.land_spec, N.pow2_bits_eqb.
  destruct (N.eqb_spec k m) as [E|E].
  - subst. rewrite andb_true_r. destruct (N.testbit p m) eqn:T; [rewrite N.pow2_bits_true; reflexivity|rewrite N.bits_0; reflexivity].
  - rewrite andb_false_r. destruct (N.testbit p k); [rewrite N.pow2_bits_false by exact E; reflexivity|rewrite N.bits_0; reflexivity].
Qed.

Lemma land_shiftr_1 p k : N.land (N.shiftr p k) 1 = if N.testbit p k then 1 else 0.
Proof.
  change 1 with (N.ones 1) at 1. rewrite N.land_ones. change (2 ^ 1) with 2.
  rewrite <- N.bit0_mod. rewrite N.shiftr_spec by apply N.le_0_l. rewrite N.add_0_l.
  destruct (N.testbit p k); reflexivity.
Qed.

Lemma bit_of_testbit p k : bit_of p k = if N.testbit p (N.of_nat k) then 1 else 0.
Proof. unfold bit_of. apply land_shiftr_1. Qed.

Lemma min_land_pow2 p k : N.min (N.land p (2 ^ k)) 1 = if N.testbit p k then 1 else 0.
Proof.
  rewrite land_pow2. destruct (N.testbit p k); [|reflexivity].
  apply N.min_r. change 1 with (2 ^ 0) at 1. apply N.pow_le_mono_r; [discriminate|apply N.le_0_l].
Qed.

(* ------------------------------------------------------------------ little-endian numbers *)

Lemma bytes_ok_cons b l : bytes_ok (b :: l) <-> b < 256 /\ bytes_ok l.
Proof. unfold bytes_ok. split; [intro H; inversion H; auto|intros [H1 H2]; constructor; assumption]. Qed.


Lemma Forall_firstn {A} (P : A -> Prop) n l : Forall P l -> Forall P (firstn n l).
Proof.
  revert l. induction n as [|n IH]; intros l H; [constructor|].
  destruct l as [|x l]; [constructor|]. inversion H; subst. cbn. constructor; [assumption|apply IH; assumption].
Qed.
Lemma Forall_skipn {A} (P : A -> Prop) n l : Forall P l -> Forall P (skipn n l).
Proof.
  revert l. induction n as [|n IH]; intros l H; [exact H|].
  destruct l as [|x l]; [constructor|]. inversion H; subst. cbn. apply IH; assumption.
Qed.
Lemma bytes_ok_sub l a n : bytes_ok l -> bytes_ok (sub l a n).
Proof. intros H. apply Forall_firstn, Forall_skipn, H. Qed.

Lemma bytes_ok_nth l k : bytes_ok l -> nth k l 0 < 256.
Proof.
  intros H. destruct (Nat.lt_ge_cases k (length l)) as [L|G].
  - unfold bytes_ok in H. rewrite Forall_forall in H. apply H. apply nth_In. exact L.
  - rewrite nth_overflow by exact G. reflexivity.
Qed.

Lemma le_num_lt l : bytes_ok l -> le_num l < 256 ^ N.of_nat (length l).
Proof.
  induction l as [|b l IH]; intro H; [reflexivity|].
  apply bytes_ok_cons in H. destruct H as [Hb Hl]. specialize (IH Hl).
  cbn [le_num length]. rewrite Nat2N.inj_succ, N.pow_succ_r by apply N.le_0_l. lia.
Qed.

Lemma le_bytes_le_num l : bytes_ok l -> le_bytes (length l) (le_num l) = l.
Proof.
  induction l as [|b l IH]; intro H; [reflexivity|].
  apply bytes_ok_cons in H. destruct H as [Hb Hl]. cbn [le_num length le_bytes].
  replace ((b + 256 * le_num l) mod 256) with b by (rewrite N.add_mod, N.mul_comm, N.mod_mul, N.add_0_r, N.mod_mod, N.mod_small by lia; reflexivity).
  replace ((b + 256 * le_num l) / 256) with (le_num l) by (rewrite N.mul_comm, N.div_add, N.div_small by lia; reflexivity).
  rewrite IH by exact Hl. reflexivity.
Qed.

Lemma le_num_le_bytes n x : le_num (le_bytes n x) = x mod 256 ^ N.of_nat n.
Proof.
  revert x. induction n as [|n IH]; intro x.
  - cbn. rewrite N.mod_1_r. reflexivity.
  - cbn [le_bytes le_num]. rewrite IH. rewrite Nat2N.inj_succ, N.pow_succ_r by apply N.le_0_l.
    rewrite N.mod_mul_r by (try discriminate; apply N.pow_nonzero; discriminate). reflexivity.
Qed.

(** bit k of a little-endian number is bit (k mod 8) of byte k / 8 *)
Lemma testbit_le_num l : bytes_ok l -> forall k,
  N.testbit (le_num l) k = N.testbit (nth (N.to_nat (k / 8)) l 0) (k mod 8).
Proof.
  induction l as [|b l IH]; intros H k.
  - cbn. destruct (N.to_nat (k / 8)); rewrite !N.bits_0; reflexivity.
  - apply bytes_ok_cons in H. destruct H as [Hb Hl]. cbn [le_num].
    change 256 with (2 ^ 8). rewrite add_shift_lxor by exact Hb. rewrite N.lxor_spec.
    destruct (N.lt_ge_cases k 8) as [L|G].
    + rewrite N.mul_comm, N.mul_pow2_bits_low by exact L. rewrite xorb_false_r.
      rewrite N.div_small, N.mod_small by exact L. reflexivity.
    + rewrite (testbit_high_lt b 8 k Hb G). rewrite xorb_false_l.
      rewrite N.mul_comm, N.mul_pow2_bits_high by exact G. rewrite IH by exact Hl.
      assert (E1 : N.to_nat (k / 8) = S (N.to_nat ((k - 8) / 8))) by lia.
      rewrite E1. cbn [nth]. f_equal. lia.
Qed.

(* ------------------------------------------------------------------ lanes <-> bytes *)
Local Open Scope nat_scope.

Lemma unlanes_length w l : length (unlanes w l) = w * length l.
Proof.
  unfold unlanes. induction l as [|x l IH]; [cbn; lia|]. cbn [flat_map length]. rewrite app_length, le_bytes_length, IH. lia.
Qed.

Lemma chunks_app {A} w n (a b : list A) : length a = w -> chunks w (S n) (a ++ b) = a :: chunks w n b.
Proof.
  intros H. cbn [chunks]. rewrite firstn_app, skipn_app, H, Nat.sub_diag. cbn [firstn skipn].
  rewrite app_nil_r. subst w. rewrite firstn_all, skipn_all. reflexivity.
Qed.

Lemma lanes_app w a b : 0 < w -> length a = w -> lanes w (a ++ b) = le_num a :: lanes w b.
Proof.
  intros Hw H. unfold lanes. rewrite app_length, H.
  assert (E : (w + length b) / w = S (length b / w))
    by (replace (w + length b) with (1 * w + length b) by lia; rewrite Nat.div_add_l by lia; lia).
  rewrite E.
  rewrite chunks_app by exact H. reflexivity.
Qed.

Lemma lanes_unlanes w l : 0 < w -> lanes w (unlanes w l) = map (fun x => (x mod 256 ^ N.of_nat w)%N) l.
Proof.
  intros Hw. induction l as [|x l IH]; [unfold lanes; cbn; rewrite Nat.div_0_l by lia; reflexivity|].
  change (unlanes w (x :: l)) with (le_bytes w x ++ unlanes w l).
  rewrite lanes_app by (try apply le_bytes_length; lia). rewrite IH, le_num_le_bytes. reflexivity.
Qed.

Lemma unlanes_lanes w : 0 < w -> forall n v, length v = w * n -> bytes_ok v -> unlanes w (lanes w v) = v.
Proof.
  intros Hw. induction n as [|n IH]; intros v L B.
  - destruct v; [|cbn in L; lia]. unfold lanes. cbn. rewrite Nat.div_0_l by lia. reflexivity.
  - rewrite <- (firstn_skipn w v) at 1.
    assert (Lf : length (firstn w v) = w) by (rewrite firstn_length; lia).
    rewrite lanes_app by (try exact Lf; lia).
    change (unlanes w (le_num (firstn w v) :: lanes w (skipn w v)))
      with (le_bytes w (le_num (firstn w v)) ++ unlanes w (lanes w (skipn w v))).
    rewrite IH by (try (rewrite skipn_length; lia); apply Forall_skipn; exact B).
    rewrite <- Lf at 1. rewrite le_bytes_le_num by (apply Forall_firstn; exact B). apply firstn_skipn.
Qed.

Lemma map2_length {A B C} (f : A -> B -> C) a b : length a = length b -> length (map2 f a b) = length a.
Proof. revert b. induction a as [|x a IH]; intros [|y b] H; cbn in *; try lia. rewrite IH by lia. reflexivity. Qed.

(** lane-level form of a lanewise addition of two registers given in lane form *)
Lemma add_lanes_unlanes w L1 L2 :
  0 < w ->
  add_lanes w (unlanes w L1) (unlanes w L2) =
  unlanes w (map2 (fun x y => ((x + y) mod 2 ^ (8 * N.of_nat w))%N)
                  (map (fun x => (x mod 256 ^ N.of_nat w)%N) L1) (map (fun x => (x mod 256 ^ N.of_nat w)%N) L2)).
Proof. intros Hw. unfold add_lanes. rewrite !lanes_unlanes by exact Hw. reflexivity. Qed.

