(** C15: the memset / memcpy helpers (carquet_sse_memset_small, carquet_avx2_memset, carquet_avx512_memset and
    the memcpy counterparts) equal byte-wise memset / memcpy for every length, and stay inside [0, n). *)
From Coq Require Import NArith ZArith List Arith Lia Bool ZifyBool ZifyNat ZifyN.
From Carquet Require Import Base.Res Simd.Vec Simd.X86Sem Simd.ScalarKernels Simd.SseKernels Simd.Avx2Kernels
  Simd.Avx512Kernels.
Import ListNotations.
Local Open Scope nat_scope.
Ltac Zify.zify_post_hook ::= Z.div_mod_to_equations.

Section SetSec.
Variables (n : nat) (x : N).

Definition Pset (d : nat) (o : list N) : Prop := length o = n /\ forall k, k < d -> nth k o 0%N = x.

Lemma nth_repeat (a : N) m k : k < m -> nth k (repeat a m) 0%N = a.
Proof. revert k. induction m as [|m IH]; intros k H; [lia|]. destruct k; [reflexivity|]. cbn. apply IH. lia. Qed.

Lemma set_chunks_inv W : forall k out d,
  Pset d out -> d + k * W <= n ->
  exists o, set_chunks k W (repeat x W) out d = Ok o /\ Pset (d + k * W) o.
Proof.
  induction k as [|k IH]; intros out d HP Hd.
  - exists out. split; [reflexivity|]. replace (d + 0 * W) with d by lia. exact HP.
  - destruct HP as [L H]. cbn [set_chunks].
    rewrite store_ok by (rewrite repeat_length; lia). cbn [bind].
    destruct (IH (upd out d (repeat x W)) (d + W)) as [o [E P]].
    + split; [rewrite length_upd by (rewrite repeat_length; lia); exact L|].
      intros j Hj. rewrite nth_upd by (rewrite repeat_length; lia). rewrite repeat_length.
      destruct (Nat.leb_spec d j); destruct (Nat.ltb_spec j (d + W)); cbn [andb]; try (apply H; lia).
      apply nth_repeat. lia.
    + lia.
    + exists o. split; [exact E|]. replace (d + S k * W) with (d + W + k * W) by lia. exact P.
Qed.

Lemma Pset_final o1 o2 : Pset n o1 -> Pset n o2 -> o1 = o2.
Proof.
  intros [L1 H1] [L2 H2]. apply (list_eq_nth _ _ 0%N); [lia|]. intros k Hk. rewrite H1, H2 by lia. reflexivity.
Qed.

Lemma scalar_memset_spec v out0 :
  x = (v mod 256)%N -> length out0 = n -> exists o, scalar_memset n v out0 = Ok o /\ Pset n o.
Proof.
  intros Hx L. unfold scalar_memset. apply scalar_loop_inv.
  - split; [exact L|]. intros; lia.
  - intros j s0 Hj [L0 H0]. rewrite store1_ok by lia. eexists. split; [reflexivity|].
    split; [rewrite length_upd by (cbn; lia); exact L0|].
    intros k Hk. rewrite nth_upd1 by lia. destruct (Nat.eqb_spec k j); [symmetry; exact Hx|]. apply H0. lia.
Qed.
End SetSec.

(** the value stored is the low byte of the argument (uint8_t) *)
Lemma set1_repeat m v : set1_epi8 m v = repeat (v mod 256)%N m.
Proof. reflexivity. Qed.

Ltac set_level HP :=
  match goal with
  | |- exists o, bind (set_chunks ?k ?W (repeat ?x ?W) ?out ?d) _ = Ok o /\ _ =>
      let o1 := fresh "o" in let E := fresh "E" in let P := fresh "P" in
      destruct (set_chunks_inv _ x W k out d HP ltac:(lia)) as [o1 [E P]]; rewrite E; cbn [bind]; clear E
  end.

Theorem sse_memset_small_eq_scalar n v out0 :
  length out0 = n ->
  exists out, sse_memset_small n v out0 = Ok out /\ scalar_memset n v out0 = Ok out.
Proof.
  intros L. unfold sse_memset_small. rewrite set1_repeat.
  change [(v mod 256)%N] with (repeat (v mod 256)%N 1).
  assert (P0 : Pset n (v mod 256)%N 0 out0) by (split; [exact L|intros; lia]).
  destruct (set_chunks_inv n (v mod 256)%N 16 (4 * (n / 64)) out0 0 P0 ltac:(lia)) as [o1 [E1 P1]]. rewrite E1. cbn [bind].
  replace (0 + 4 * (n / 64) * 16) with (64 * (n / 64)) in P1 by lia.
  destruct (set_chunks_inv n (v mod 256)%N 16 ((n - 64 * (n / 64)) / 16) o1 _ P1 ltac:(lia)) as [o2 [E2 P2]]. rewrite E2. cbn [bind].
  replace (64 * (n / 64) + (n - 64 * (n / 64)) / 16 * 16) with (64 * (n / 64) + 16 * ((n - 64 * (n / 64)) / 16)) in P2 by lia.
  destruct (set_chunks_inv n (v mod 256)%N 1 (n - (64 * (n / 64) + 16 * ((n - 64 * (n / 64)) / 16))) o2 _ P2 ltac:(lia)) as [o3 [E3 P3]].
  rewrite E3. replace (64 * (n / 64) + 16 * ((n - 64 * (n / 64)) / 16) + (n - (64 * (n / 64) + 16 * ((n - 64 * (n / 64)) / 16))) * 1) with n in P3 by lia.
  destruct (scalar_memset_spec n (v mod 256)%N v out0 eq_refl L) as [o4 [E4 P4]].
  exists o3. split; [reflexivity|]. rewrite E4. f_equal. apply (Pset_final n (v mod 256)%N); assumption.
Qed.

(** one level of a chunked memset: consumes the invariant for the current buffer, produces the next *)
Ltac set_lvl :=
  match goal with
  | P : Pset ?n ?x ?d0 ?out |- context [set_chunks ?k ?W (repeat ?x ?W) ?out ?d] =>
      replace d0 with d in P by lia;
      let o := fresh "o" in let E := fresh "E" in let P' := fresh "P" in
      destruct (set_chunks_inv n x W k out d P ltac:(lia)) as [o [E P']]; rewrite E; cbn [bind]; clear E P
  end.

Ltac set_finish v L :=
  match goal with
  | P : Pset ?n ?x ?d0 ?out |- exists o, Ok ?out = Ok o /\ _ =>
      replace d0 with n in P by lia;
      let o4 := fresh "o" in let E4 := fresh "E" in let P4 := fresh "P" in
      destruct (scalar_memset_spec n x v _ eq_refl L) as [o4 [E4 P4]];
      exists out; split; [reflexivity|]; rewrite E4; f_equal; apply (Pset_final n x); assumption
  end.

Theorem avx2_memset_eq_scalar n v out0 :
  length out0 = n ->
  exists out, avx2_memset n v out0 = Ok out /\ scalar_memset n v out0 = Ok out.
Proof.
  intros L. unfold avx2_memset. cbv zeta. rewrite !set1_repeat.
  change [(v mod 256)%N] with (repeat (v mod 256)%N 1).
  assert (P0 : Pset n (v mod 256)%N 0 out0) by (split; [exact L|intros; lia]).
  set_lvl. set_lvl. set_lvl. set_lvl. set_finish v L.
Qed.

Theorem avx512_memset_eq_scalar n v out0 :
  length out0 = n ->
  exists out, avx512_memset n v out0 = Ok out /\ scalar_memset n v out0 = Ok out.
Proof.
  intros L. unfold avx512_memset. cbv zeta. rewrite !set1_repeat.
  change [(v mod 256)%N] with (repeat (v mod 256)%N 1).
  assert (P0 : Pset n (v mod 256)%N 0 out0) by (split; [exact L|intros; lia]).
  set_lvl. set_lvl. set_lvl. set_lvl. set_lvl. set_finish v L.
Qed.

(* ------------------------------------------------------------------ memcpy *)

Section Cpy.
Variables (n : nat) (src : list N).
Hypothesis Hsrc : length src = n.

Definition Pcpy (d : nat) (o : list N) : Prop := length o = n /\ forall k, k < d -> nth k o 0%N = nth k src 0%N.

Lemma copy_chunks2_inv W : forall k out d,
  Pcpy d out -> d + k * W <= n ->
  exists o, copy_chunks2 k W src out d = Ok o /\ Pcpy (d + k * W) o.
Proof.
  induction k as [|k IH]; intros out d HP Hd.
  - exists out. split; [reflexivity|]. replace (d + 0 * W) with d by lia. exact HP.
  - destruct HP as [L H]. cbn [copy_chunks2].
    rewrite load_ok by lia. cbn [bind].
    rewrite store_ok by (rewrite length_sub by lia; lia). cbn [bind].
    destruct (IH (upd out d (sub src d W)) (d + W)) as [o [E P]].
    + split; [rewrite length_upd by (rewrite length_sub by lia; lia); exact L|].
      intros j Hj. rewrite nth_upd by (rewrite length_sub by lia; lia). rewrite length_sub by lia.
      destruct (Nat.leb_spec d j); destruct (Nat.ltb_spec j (d + W)); cbn [andb]; try (apply H; lia).
      rewrite nth_sub by lia. f_equal. lia.
    + lia.
    + exists o. split; [exact E|]. replace (d + S k * W) with (d + W + k * W) by lia. exact P.
Qed.

Lemma Pcpy_final o1 o2 : Pcpy n o1 -> Pcpy n o2 -> o1 = o2.
Proof.
  intros [L1 H1] [L2 H2]. apply (list_eq_nth _ _ 0%N); [lia|]. intros k Hk. rewrite H1, H2 by lia. reflexivity.
Qed.

Lemma scalar_memcpy_spec out0 :
  length out0 = n -> exists o, scalar_memcpy n src out0 = Ok o /\ Pcpy n o.
Proof.
  intros L. unfold scalar_memcpy. apply scalar_loop_inv.
  - split; [exact L|]. intros; lia.
  - intros j s0 Hj [L0 H0]. rewrite load1_ok by lia. cbn [bind]. rewrite store1_ok by lia. eexists. split; [reflexivity|].
    split; [rewrite length_upd by (cbn; lia); exact L0|].
    intros k Hk. rewrite nth_upd1 by lia. destruct (Nat.eqb_spec k j); [subst; reflexivity|]. apply H0. lia.
Qed.
End Cpy.

Ltac cpy_lvl Hs :=
  match goal with
  | P : Pcpy ?n ?src ?d0 ?out |- context [copy_chunks2 ?k ?W ?src ?out ?d] =>
      replace d0 with d in P by lia;
      let o := fresh "o" in let E := fresh "E" in let P' := fresh "P" in
      destruct (copy_chunks2_inv n src Hs W k out d P ltac:(lia)) as [o [E P']]; rewrite E; cbn [bind]; clear E P
  end.

Ltac cpy_finish Hs L :=
  match goal with
  | P : Pcpy ?n ?src ?d0 ?out |- exists o, Ok ?out = Ok o /\ _ =>
      replace d0 with n in P by lia;
      let o4 := fresh "o" in let E4 := fresh "E" in let P4 := fresh "P" in
      destruct (scalar_memcpy_spec n src Hs _ L) as [o4 [E4 P4]];
      exists out; split; [reflexivity|]; rewrite E4; f_equal; apply (Pcpy_final n src); assumption
  end.

Theorem sse_memcpy_small_eq_scalar n src out0 :
  length src = n -> length out0 = n ->
  exists out, sse_memcpy_small n src out0 = Ok out /\ scalar_memcpy n src out0 = Ok out.
Proof.
  intros Hs L. unfold sse_memcpy_small. cbv zeta.
  assert (P0 : Pcpy n src 0 out0) by (split; [exact L|intros; lia]).
  cpy_lvl Hs. cpy_lvl Hs. cpy_lvl Hs. cpy_finish Hs L.
Qed.

Theorem avx2_memcpy_eq_scalar n src out0 :
  length src = n -> length out0 = n ->
  exists out, avx2_memcpy n src out0 = Ok out /\ scalar_memcpy n src out0 = Ok out.
Proof.
  intros Hs L. unfold avx2_memcpy. cbv zeta.
  assert (P0 : Pcpy n src 0 out0) by (split; [exact L|intros; lia]).
  cpy_lvl Hs. cpy_lvl Hs. cpy_lvl Hs. cpy_lvl Hs. cpy_finish Hs L.
Qed.

Theorem avx512_memcpy_eq_scalar n src out0 :
  length src = n -> length out0 = n ->
  exists out, avx512_memcpy n src out0 = Ok out /\ scalar_memcpy n src out0 = Ok out.
Proof.
  intros Hs L. unfold avx512_memcpy. cbv zeta.
  assert (P0 : Pcpy n src 0 out0) by (split; [exact L|intros; lia]).
  cpy_lvl Hs. cpy_lvl Hs. cpy_lvl Hs. cpy_lvl Hs. cpy_lvl Hs. cpy_finish Hs L.
Qed.
