(** src/simd/x86/sse_ops.c: the SSE4.2 kernels, transcribed (vector main loop + scalar remainder), every
    load / store with its explicit index range.  The constant shuffle tables are copied from the source. *)
From Coq Require Import NArith List Arith Bool.
From Carquet Require Import Base.Res Simd.Vec Simd.X86Sem Simd.ScalarKernels.
Import ListNotations.
Local Open Scope nat_scope.
Local Open Scope res_scope.

(* ------------------------------------------------------------------ byte stream split *)

(** static const int8_t shuf_b<k>[16] = {k, 4+k, 8+k, 12+k, -1 x 12} *)
Definition shuf_b (k : N) : list N := [k; 4 + k; 8 + k; 12 + k]%N ++ repeat 255%N 12.

(** carquet_sse_byte_stream_split_encode_float, body of `for (; i + 4 <= count; i += 4)` *)
Definition sse_bss_encode_float_block (count : nat) (src : list N) (i : nat) (out : list N) : res (list N) :=
  let* v := load src (i * 4) 16 in
  let t0 := mm_cvtsi128_si32 (mm_shuffle_epi8 v (shuf_b 0)) in
  let t1 := mm_cvtsi128_si32 (mm_shuffle_epi8 v (shuf_b 1)) in
  let t2 := mm_cvtsi128_si32 (mm_shuffle_epi8 v (shuf_b 2)) in
  let t3 := mm_cvtsi128_si32 (mm_shuffle_epi8 v (shuf_b 3)) in
  let* out := store out (0 * count + i) t0 in
  let* out := store out (1 * count + i) t1 in
  let* out := store out (2 * count + i) t2 in
  store out (3 * count + i) t3.

Definition sse_bss_encode_float (count : nat) (src out : list N) : res (list N) :=
  simd_loop 4 count (sse_bss_encode_float_block count src) (bss_enc_step 4 count src) out.

(** carquet_sse_byte_stream_split_decode_float, body of `for (; i + 4 <= count; i += 4)` *)
Definition sse_bss_decode_float_block (count : nat) (src : list N) (i : nat) (out : list N) : res (list N) :=
  let* b0 := load src (0 * count + i) 4 in
  let* b1 := load src (1 * count + i) 4 in
  let* b2 := load src (2 * count + i) 4 in
  let* b3 := load src (3 * count + i) 4 in
  let v0 := mm_cvtsi32_si128 b0 in
  let v1 := mm_cvtsi32_si128 b1 in
  let v2 := mm_cvtsi32_si128 b2 in
  let v3 := mm_cvtsi32_si128 b3 in
  let lo01 := mm_unpacklo_epi8 v0 v1 in
  let lo23 := mm_unpacklo_epi8 v2 v3 in
  let result := mm_unpacklo_epi16 lo01 lo23 in
  store out (i * 4) result.

Definition sse_bss_decode_float (count : nat) (src out : list N) : res (list N) :=
  simd_loop 4 count (sse_bss_decode_float_block count src) (bss_dec_step 4 count src) out.

(** carquet_sse_byte_stream_split_encode_double: two values per iteration, scalar byte moves
    `output[b*count + i + 0] = src[i*8 + 0 + b]; output[b*count + i + 1] = src[i*8 + 8 + b];` *)
Definition sse_bss_encode_double_block (count : nat) (src : list N) (i : nat) (out : list N) : res (list N) :=
  iter_blocks 8 1 0 (fun b o =>
    let* x := load1 src (i * 8 + 0 + b) in
    let* o := store1 o (b * count + i + 0) x in
    let* y := load1 src (i * 8 + 8 + b) in
    store1 o (b * count + i + 1) y) out.

Definition sse_bss_encode_double (count : nat) (src out : list N) : res (list N) :=
  simd_loop 2 count (sse_bss_encode_double_block count src) (bss_enc_step 8 count src) out.

(** carquet_sse_byte_stream_split_decode_double has no vector loop: it is the scalar loop *)
Definition sse_bss_decode_double (count : nat) (src out : list N) : res (list N) :=
  scalar_loop count (bss_dec_step 8 count src) out.
