(** src/simd/x86/sse_ops.c: the SSE4.2 kernels, transcribed (vector main loop + scalar remainder), every
    load / store with its explicit index range.  The constant shuffle tables are copied from the source. *)
From Coq Require Import NArith List Arith Bool.
From Carquet Require Import Base.Res Simd.Vec Simd.X86Sem Simd.ScalarKernels.
Import ListNotations.
Local Open Scope nat_scope.
Local Open Scope res_scope.

(* ------------------------------------------------------------------ byte stream split *)

(** static const int8_t shuf_b<k>[16] = {k, 4+k, 8+k, 12+k, -1 x 12} *)
Definition shuf_b (k : N) : list N := [k; 4 + k; 8 + k; 12 + k]%N ++ repeat 255%N 12.

(** carquet_sse_byte_stream_split_encode_float, body of `for (; i + 4 <= count; i += 4)` *)
Definition sse_bss_encode_float_block (count : nat) (src : list N) (i : nat) (out : list N) : res (list N) :=
  let* v := load src (i * 4) 16 in
  let t0 := mm_cvtsi128_si32 (mm_shuffle_epi8 v (shuf_b 0)) in
  let t1 := mm_cvtsi128_si32 (mm_shuffle_epi8 v (shuf_b 1)) in
  let t2 := mm_cvtsi128_si32 (mm_shuffle_epi8 v (shuf_b 2)) in
  let t3 := mm_cvtsi128_si32 (mm_shuffle_epi8 v (shuf_b 3)) in
  let* out := store out (0 * count + i) t0 in
  let* out := store out (1 * count + i) t1 in
  let* out := store out (2 * count + i) t2 in
  store out (3 * count + i) t3.

Definition sse_bss_encode_float (count : nat) (src out : list N) : res (list N) :=
  simd_loop 4 count (sse_bss_encode_float_block count src) (bss_enc_step 4 count src) out.

(** carquet_sse_byte_stream_split_decode_float, body of `for (; i + 4 <= count; i += 4)` *)
Definition sse_bss_decode_float_block (count : nat) (src : list N) (i : nat) (out : list N) : res (list N) :=
  let* b0 := load src (0 * count + i) 4 in
  let* b1 := load src (1 * count + i) 4 in
  let* b2 := load src (2 * count + i) 4 in
  let* b3 := load src (3 * count + i) 4 in
  let v0 := mm_cvtsi32_si128 b0 in
  let v1 := mm_cvtsi32_si128 b1 in
  let v2 := mm_cvtsi32_si128 b2 in
  let v3 := mm_cvtsi32_si128 b3 in
  let lo01 := mm_unpacklo_epi8 v0 v1 in
  let lo23 := mm_unpacklo_epi8 v2 v3 in
  let result := mm_unpacklo_epi16 lo01 lo23 in
  store out (i * 4) result.

Definition sse_bss_decode_float (count : nat) (src out : list N) : res (list N) :=
  simd_loop 4 count (sse_bss_decode_float_block count src) (bss_dec_step 4 count src) out.

(** carquet_sse_byte_stream_split_encode_double: two values per iteration, scalar byte moves
    `output[b*count + i + 0] = src[i*8 + 0 + b]; output[b*count + i + 1] = src[i*8 + 8 + b];` *)
Definition sse_bss_encode_double_block (count : nat) (src : list N) (i : nat) (out : list N) : res (list N) :=
  iter_blocks 8 1 0 (fun b o =>
    let* x := load1 src (i * 8 + 0 + b) in
    let* o := store1 o (b * count + i + 0) x in
    let* y := load1 src (i * 8 + 8 + b) in
    store1 o (b * count + i + 1) y) out.

Definition sse_bss_encode_double (count : nat) (src out : list N) : res (list N) :=
  simd_loop 2 count (sse_bss_encode_double_block count src) (bss_enc_step 8 count src) out.

(** carquet_sse_byte_stream_split_decode_double has no vector loop: it is the scalar loop *)
Definition sse_bss_decode_double (count : nat) (src out : list N) : res (list N) :=
  scalar_loop count (bss_dec_step 8 count src) out.

(* ------------------------------------------------------------------ prefix sums (state = array, running sum) *)
Local Open Scope N_scope.

(** carquet_sse_prefix_sum_i32, body of `for (; i + 4 <= count; i += 4)` *)
Definition sse_psum32_block (i : nat) (st : list N * N) : res (list N * N) :=
  let '(buf, sum) := st in
  let* v := load buf (i * 4)%nat 16 in
  let v := add_lanes 4 v (mm_slli_si128 v 4) in
  let v := add_lanes 4 v (mm_slli_si128 v 8) in
  let v := add_lanes 4 v (mm_set1_epi32 sum) in
  let* buf := store buf (i * 4)%nat v in
  Ok (buf, le_num (mm_extract_epi32 v 3)).

Definition sse_prefix_sum_i32 (count : nat) (buf : list N) (initial : N) : res (list N) :=
  rmap fst (simd_loop 4 count sse_psum32_block (psum_step 4) (buf, initial mod 2 ^ 32)).

(** carquet_sse_prefix_sum_i64, body of `for (; i + 2 <= count; i += 2)` *)
Definition sse_psum64_block (i : nat) (st : list N * N) : res (list N * N) :=
  let '(buf, sum) := st in
  let* v := load buf (i * 8)%nat 16 in
  let v := add_lanes 8 v (mm_slli_si128 v 8) in
  let v := add_lanes 8 v (mm_set1_epi64x sum) in
  let* buf := store buf (i * 8)%nat v in
  Ok (buf, le_num (sub v 8 8)).

Definition sse_prefix_sum_i64 (count : nat) (buf : list N) (initial : N) : res (list N) :=
  rmap fst (simd_loop 2 count sse_psum64_block (psum_step 8) (buf, initial mod 2 ^ 64)).

(* ------------------------------------------------------------------ dictionary gather *)
(** __builtin_prefetch is a hint: it never faults and moves no data, so it is not modelled; the index reads
    that compute its address (indices[i], [i+2], [i+4], [i+6]) are inside the block's own range. *)

(** `v_k = dict[indices[i + k]]` for k < n, concatenated (what _mm_set_epi32(v3, v2, v1, v0) etc. assemble) *)
Definition gather_n (w n : nat) (dict idxs : list N) (i : nat) : res (list N) :=
  iter_blocks n 1 0 (fun k acc =>
    let* ix := load idxs ((i + k) * 4)%nat 4 in
    let* x := load dict (N.to_nat (le_num ix) * w)%nat w in Ok (acc ++ x)) [].

(** carquet_sse_gather_i32 / _float: 8 per iteration (two 16-byte stores), then 4 per iteration, then one *)
Definition sse_gather32_block8 (dict idxs : list N) (i : nat) (out : list N) : res (list N) :=
  let* r0 := gather_n 4 4 dict idxs i in
  let* out := store out (i * 4)%nat r0 in
  let* r1 := gather_n 4 4 dict idxs (i + 4) in
  store out ((i + 4) * 4)%nat r1.
Definition sse_gather32_block4 (dict idxs : list N) (i : nat) (out : list N) : res (list N) :=
  let* r := gather_n 4 4 dict idxs i in store out (i * 4)%nat r.

Definition sse_gather_i32 (count : nat) (dict idxs out : list N) : res (list N) :=
  let n8 := (count / 8)%nat in
  let* out := iter_blocks n8 8 0 (sse_gather32_block8 dict idxs) out in
  let i := (8 * n8)%nat in
  let n4 := ((count - i) / 4)%nat in
  let* out := iter_blocks n4 4 i (sse_gather32_block4 dict idxs) out in
  let i := (i + 4 * n4)%nat in
  iter_blocks (count - i) 1 i (gather_step 4 dict idxs) out.
(** carquet_sse_gather_float is the same code with float temporaries (_mm_set_ps / _mm_storeu_ps): bytes are moved *)
Definition sse_gather_float := sse_gather_i32.

(** carquet_sse_gather_i64 / _double: 4 per iteration (two 16-byte stores), then one *)
Definition sse_gather64_block4 (dict idxs : list N) (i : nat) (out : list N) : res (list N) :=
  let* r := gather_n 8 4 dict idxs i in
  let* out := store out (i * 8)%nat (sub r 0 16) in
  store out ((i + 2) * 8)%nat (sub r 16 16).
Definition sse_gather_i64 (count : nat) (dict idxs out : list N) : res (list N) :=
  simd_loop 4 count (sse_gather64_block4 dict idxs) (gather_step 8 dict idxs) out.
Definition sse_gather_double := sse_gather_i64.

(* ------------------------------------------------------------------ CRC32C *)

(** carquet_sse_crc32c (as repaired: complement in, complement out): 8, 4, 2, 1 bytes at a time *)
Fixpoint crc_chunks (n w : nat) (data : list N) (i : nat) (crc : N) : res N :=
  match n with
  | O => Ok crc
  | S m => let* x := load data i w in crc_chunks m w data (i + w) (crc32c_bytes crc x)
  end.
Definition sse_crc32c (crc : N) (data : list N) : res N :=
  let len := length data in
  let crc := N.lxor (crc mod 2 ^ 32) 0xFFFFFFFF in
  let n8 := (len / 8)%nat in
  let* crc := crc_chunks n8 8 data 0 crc in
  let i := (8 * n8)%nat in
  let n4 := ((len - i) / 4)%nat in
  let* crc := crc_chunks n4 4 data i crc in
  let i := (i + 4 * n4)%nat in
  let* ci := (if (i + 2 <=? len)%nat then let* x := load data i 2 in Ok (crc32c_bytes crc x, (i + 2)%nat) else Ok (crc, i)) in
  let '(crc, i) := ci in
  let* crc := (if (i <? len)%nat then let* x := load1 data i in Ok (crc32c_u8 crc x) else Ok crc) in
  Ok (N.lxor crc 0xFFFFFFFF).

(* ------------------------------------------------------------------ memset / memcpy *)

Fixpoint set_chunks (n W : nat) (v : list N) (out : list N) (d : nat) : res (list N) :=
  match n with
  | O => Ok out
  | S m => let* out := store out d v in set_chunks m W v out (d + W)
  end.
Fixpoint copy_chunks2 (n W : nat) (src out : list N) (i : nat) : res (list N) :=
  match n with
  | O => Ok out
  | S m => let* x := load src i W in let* out := store out i x in copy_chunks2 m W src out (i + W)
  end.

(** carquet_sse_memset_small: 64-byte unrolled (4 stores of 16), then 16, then bytes *)
Definition sse_memset_small (n : nat) (value : N) (out : list N) : res (list N) :=
  let v := set1_epi8 16 value in
  let n64 := (n / 64)%nat in
  let* out := set_chunks (4 * n64) 16 v out 0 in
  let d := (64 * n64)%nat in
  let n16 := ((n - d) / 16)%nat in
  let* out := set_chunks n16 16 v out d in
  let d := (d + 16 * n16)%nat in
  set_chunks (n - d) 1 [value mod 256] out d.

(** carquet_sse_memcpy_small *)
Definition sse_memcpy_small (n : nat) (src out : list N) : res (list N) :=
  let n64 := (n / 64)%nat in
  let* out := copy_chunks2 n64 64 src out 0 in
  let d := (64 * n64)%nat in
  let n16 := ((n - d) / 16)%nat in
  let* out := copy_chunks2 n16 16 src out d in
  let d := (d + 16 * n16)%nat in
  copy_chunks2 (n - d) 1 src out d.

(* ------------------------------------------------------------------ booleans *)

(** _mm_set_epi8(0x80, 0x40, ..., 0x01, 0x80, ..., 0x01): least significant byte first *)
Definition bit_mask16 : list N := [1; 2; 4; 8; 16; 32; 64; 128; 1; 2; 4; 8; 16; 32; 64; 128].
Definition shuf_bytes01 : list N := [0; 0; 0; 0; 0; 0; 0; 0; 1; 1; 1; 1; 1; 1; 1; 1].

(** carquet_sse_unpack_bools, body of `for (; i + 16 <= count; i += 16)` *)
Definition sse_unpack_bools_block (inp : list N) (i : nat) (out : list N) : res (list N) :=
  let* packed := load inp (i / 8)%nat 2 in
  let bits := mm_set1_epi16 (le_num packed) in
  let shuffled := mm_shuffle_epi8 bits shuf_bytes01 in
  let masked := mm_and shuffled bit_mask16 in
  let result := mm_min_epu8 masked (set1_epi8 16 1) in
  store out i result.
Definition sse_unpack_bools (count : nat) (inp out : list N) : res (list N) :=
  simd_loop 16 count (sse_unpack_bools_block inp) (unpack_step inp) out.

(** carquet_sse_pack_bools, body of `for (; i + 8 <= count; i += 8)` *)
Definition sse_pack_bools_block (inp : list N) (i : nat) (out : list N) : res (list N) :=
  let* x := load inp i 8 in
  let bools := mm_loadl_epi64 x in
  let shifted := mm_slli_epi32 bools 7 in
  store1 out (i / 8)%nat (movemask_epi8 shifted mod 256).
Definition sse_pack_bools (count : nat) (inp out : list N) : res (list N) :=
  let n8 := (count / 8)%nat in
  let* out := iter_blocks n8 8 0 (sse_pack_bools_block inp) out in
  let i := (8 * n8)%nat in
  if (i <? count)%nat then pack_tail count inp i out else Ok out.

(* ------------------------------------------------------------------ match copy / match length *)

Fixpoint fill_pattern (n W : nat) (v : list N) (buf : list N) (d : nat) : res (list N) :=
  match n with
  | O => Ok buf
  | S m => let* buf := store buf d v in fill_pattern m W v buf (d + W)
  end.

(** carquet_sse_match_copy(dst, src, len, offset) with dst = buf + d, src = buf + d - offset *)
Definition sse_match_copy (buf : list N) (d len offset : nat) : res (list N) :=
  let s := (d - offset)%nat in
  if (16 <=? offset)%nat then
    let k := (len / 16)%nat in
    let* buf := copy_chunks k 16 buf s d in
    let s := (s + 16 * k)%nat in let d := (d + 16 * k)%nat in let len := (len - 16 * k)%nat in
    let* t := (if (8 <=? len)%nat then
                 let* x := load buf s 8 in let* buf := store buf d x in Ok (buf, (s + 8)%nat, (d + 8)%nat, (len - 8)%nat)
               else Ok (buf, s, d, len)) in
    let '(buf, s, d, len) := t in
    copy_bytes len buf s d
  else if (offset =? 1)%nat then
    let* val := load1 buf s in
    let k := (len / 16)%nat in
    let* buf := fill_pattern k 16 (set1_epi8 16 val) buf d in
    fill_pattern (len - 16 * k) 1 [val] buf (d + 16 * k)
  else if (offset =? 2)%nat then
    let* v0 := load1 buf s in
    let* v1 := load1 buf (s + 1) in
    let k := (len / 2)%nat in
    let* buf := fill_pattern k 2 [v0; v1] buf d in
    if (0 <? len - 2 * k)%nat then store1 buf (d + 2 * k) v0 else Ok buf
  else if (offset =? 4)%nat then
    let* pattern := load buf s 4 in
    let k := (len / 16)%nat in
    let* buf := fill_pattern k 16 (pattern ++ pattern ++ pattern ++ pattern) buf d in
    let d := (d + 16 * k)%nat in let len := (len - 16 * k)%nat in
    let k4 := (len / 4)%nat in
    let* buf := fill_pattern k4 4 pattern buf d in
    let d := (d + 4 * k4)%nat in let len := (len - 4 * k4)%nat in
    (* `for (i = 0; i < len; i++) dst[i] = src[i];` with the ORIGINAL src *)
    iter_blocks len 1 0 (fun i b => let* x := load1 b (s + i) in store1 b (d + i) x) buf
  else copy_bytes len buf s d.

(** carquet_sse_match_length(p, match, limit) with limit - p = n *)
Fixpoint sse_match_blocks (nb : nat) (p m : list N) (k : nat) : res (nat * bool) :=
  match nb with
  | O => Ok (k, false)
  | S nb' =>
      let* a := load p k 16 in
      let* b := load m k 16 in
      let mask := movemask_epi8 (cmpeq_lanes 1 a b) in
      if mask =? 0xFFFF then sse_match_blocks nb' p m (k + 16)
      else Ok ((k + N.to_nat (ctz32 (N.lxor mask 0xFFFFFFFF)))%nat, true)
  end.
Definition sse_match_length (n : nat) (p m : list N) : res nat :=
  let* r := sse_match_blocks (n / 16) p m 0 in
  let '(k, done) := r in
  if done then Ok k else match_scan (n - k) p m k.

(* ------------------------------------------------------------------ definition levels *)

(** carquet_sse_count_non_nulls, body of `for (; i + 8 <= count; i += 8)` *)
Definition sse_nonnull_block (lv : list N) (mx : N) (i : nat) (acc : N) : res N :=
  let* levels := load lv (i * 2)%nat 16 in
  let cmp := cmpeq_lanes 2 levels (mm_set1_epi16 mx) in
  let mask := movemask_epi8 cmp in
  Ok (acc + N.shiftr (popcount32 mask) 1).
Definition sse_count_non_nulls (count : nat) (lv : list N) (mx : N) : res N :=
  simd_loop 8 count (sse_nonnull_block lv mx) (nonnull_step lv mx) 0.

(** carquet_sse_build_null_bitmap *)
Definition sse_nullbm_block (lv : list N) (mx : N) (b : nat) (out : list N) : res (list N) :=
  let* levels := load lv (b * 8 * 2)%nat 16 in
  let cmp := mm_cmplt_epi16 levels (mm_set1_epi16 mx) in
  let packed := mm_packs_epi16 cmp (zeros 16) in
  store1 out b (movemask_epi8 packed mod 256).
Definition sse_build_null_bitmap (count : nat) (lv : list N) (mx : N) (out : list N) : res (list N) :=
  let full := (count / 8)%nat in
  let* out := iter_blocks full 1 0 (sse_nullbm_block lv mx) out in
  let i := (full * 8)%nat in
  if (i <? count)%nat then
    let* bits := null_bits lv mx i (Nat.min (count - i) 8) in store1 out full bits
  else Ok out.

(** carquet_sse_fill_def_levels *)
Definition sse_fill_block (v : N) (i : nat) (out : list N) : res (list N) := store out (i * 2)%nat (mm_set1_epi16 v).
Definition sse_fill_def_levels (count : nat) (v : N) (out : list N) : res (list N) :=
  simd_loop 8 count (sse_fill_block v) (fill_step v) out.

(** carquet_sse_find_run_length_i32 *)
Fixpoint sse_run_blocks (nb : nat) (vals first : list N) (i : nat) : res (nat * bool) :=
  match nb with
  | O => Ok (i, false)
  | S nb' =>
      let* v := load vals (i * 4)%nat 16 in
      let mask := movemask_epi8 (cmpeq_lanes 4 v (first ++ first ++ first ++ first)) in
      if mask =? 0xFFFF then sse_run_blocks nb' vals first (i + 4)
      else Ok ((i + N.to_nat (N.shiftr (ctz32 (N.lxor mask 0xFFFFFFFF)) 2))%nat, true)
  end.
Definition sse_find_run_length (count : nat) (vals : list N) : res nat :=
  match count with
  | O => Ok O
  | _ => let* first := load vals 0 4 in
         let* r := sse_run_blocks (count / 4) vals first 0 in
         let '(i, done) := r in
         if done then Ok i else run_scan (count - i) vals first i count
  end.

(* ------------------------------------------------------------------ fixed-width bit unpackers *)

Definition expand_u8_u32_lo (v : list N) : list N * list N :=
  let zero := zeros 16 in
  let words := mm_unpacklo_epi8 v zero in
  (mm_unpacklo_epi16 words zero, mm_unpackhi_epi16 words zero).

(** carquet_sse_bitunpack8_8bit: 8 bytes in, 8 x uint32 out *)
Definition sse_bitunpack8_8bit (inp : list N) : res (list N) :=
  let* x := load inp 0 8 in
  let '(v0, v1) := expand_u8_u32_lo (mm_loadl_epi64 x) in Ok (v0 ++ v1).

(** carquet_sse_bitunpack8_4bit: 4 bytes in, 8 x uint32 out *)
Definition sse_bitunpack8_4bit (inp : list N) : res (list N) :=
  let* x := load inp 0 4 in
  let bytes := mm_cvtsi32_si128 x in
  let lo_nibbles := mm_and bytes (set1_epi8 16 0x0F) in
  let hi_nibbles := mm_and (mm_srli_epi16 bytes 4) (set1_epi8 16 0x0F) in
  let interleaved := mm_unpacklo_epi8 lo_nibbles hi_nibbles in
  let '(v0, v1) := expand_u8_u32_lo interleaved in Ok (v0 ++ v1).

(** carquet_sse_bitunpack32_1bit: 4 bytes in, 32 x uint32 out *)
Definition sse_bitunpack32_1bit (inp : list N) : res (list N) :=
  let* x := load inp 0 4 in
  let bytes := mm_cvtsi32_si128 x in
  let half (shuf : list N) :=
    let expanded := mm_shuffle_epi8 bytes shuf in
    let masked := mm_and expanded bit_mask16 in
    let result := mm_min_epu8 masked (set1_epi8 16 1) in
    let zero := zeros 16 in
    let lo8 := mm_unpacklo_epi8 result zero in
    let hi8 := mm_unpackhi_epi8 result zero in
    mm_unpacklo_epi16 lo8 zero ++ mm_unpackhi_epi16 lo8 zero ++ mm_unpacklo_epi16 hi8 zero ++ mm_unpackhi_epi16 hi8 zero in
  Ok (half shuf_bytes01 ++ half [2; 2; 2; 2; 2; 2; 2; 2; 3; 3; 3; 3; 3; 3; 3; 3]).
