(** C15: early-exit scans - find_run_length_i32 (SSE / AVX2 / AVX-512) and match_length (SSE) return what the scalar
    loops return.  A scan is "the first index in [i, i+n) where the equality test fails, else the limit"; scanning
    a+b elements is scanning a, then b; a vector block answers the scan of its W elements through the position of the
    first zero bit of a comparison mask. *)
From Coq Require Import NArith ZArith List Arith Lia Bool ZifyBool ZifyNat ZifyN.
From Carquet Require Import Base.Res Base.Bits Simd.Vec Simd.X86Sem Simd.ScalarKernels Simd.SseKernels Simd.Avx2Kernels
  Simd.Avx512Kernels Simd.BitLemmas.
Import ListNotations.
Local Open Scope nat_scope.
Ltac Zify.zify_post_hook ::= Z.div_mod_to_equations.

(* ------------------------------------------------------------------ pure scans *)

Section Scan.
Variable eqat : nat -> bool.

Fixpoint scan (n i cnt : nat) : nat :=
  match n with O => cnt | S m => if eqat i then scan m (i + 1) cnt else i end.

Lemma scan_range n : forall i cnt, i + n <= cnt -> i <= scan n i cnt <= cnt.
Proof.
  induction n as [|n IH]; intros i cnt H; cbn [scan]; [lia|].
  destruct (eqat i); [|lia]. specialize (IH (i + 1) cnt ltac:(lia)). lia.
Qed.

(** the scan stops before its limit iff it found a mismatch; the position does not depend on the limit *)
Lemma scan_lt_indep n : forall i c1 c2, i + n <= c1 -> i + n <= c2 ->
  (scan n i c1 < i + n -> scan n i c2 = scan n i c1) /\ (scan n i c1 >= i + n -> scan n i c1 = c1 /\ scan n i c2 = c2).
Proof.
  induction n as [|n IH]; intros i c1 c2 H1 H2; cbn [scan]; [lia|].
  destruct (eqat i); [|lia].
  destruct (IH (i + 1) c1 c2 ltac:(lia) ltac:(lia)) as [A B]. split; intro H.
  - apply A. lia.
  - apply B. lia.
Qed.

Lemma scan_split a b i cnt :
  i + a + b <= cnt ->
  scan (a + b) i cnt = (let r := scan a i (i + a) in if r <? i + a then r else scan b (i + a) cnt).
Proof.
  revert i. induction a as [|a IH]; intros i H; cbn [scan plus].
  - cbv zeta. replace (i + 0) with i by lia. destruct (Nat.ltb_spec i i); [lia|reflexivity].
  - destruct (eqat i).
    + rewrite IH by lia. cbv zeta. replace (i + 1 + a) with (i + S a) by lia. reflexivity.
    + cbv zeta. destruct (Nat.ltb_spec i (i + S a)); [reflexivity|lia].
Qed.

(** all W elements of a block match iff the scan of the block reaches its limit *)
Lemma scan_all n : forall i, (forall k, k < n -> eqat (i + k) = true) -> scan n i (i + n) = i + n.
Proof.
  induction n as [|n IH]; intros i H; cbn [scan]; [lia|].
  assert (E : eqat i = true) by (rewrite <- (Nat.add_0_r i); apply H; lia). rewrite E.
  replace (i + S n) with (i + 1 + n) by lia. apply IH. intros k Hk. replace (i + 1 + k) with (i + S k) by lia. apply H. lia.
Qed.

Lemma scan_first n : forall i j, j < n -> (forall k, k < j -> eqat (i + k) = true) -> eqat (i + j) = false ->
  scan n i (i + n) = i + j.
Proof.
  induction n as [|n IH]; intros i j Hj Hall Hf; [lia|]. cbn [scan].
  destruct j as [|j].
  - rewrite Nat.add_0_r in Hf. rewrite Hf. lia.
  - assert (E : eqat i = true) by (rewrite <- (Nat.add_0_r i); apply Hall; lia). rewrite E.
    replace (i + S n) with (i + 1 + n) by lia. rewrite (IH (i + 1) j); [lia|lia| |].
    + intros k Hk. replace (i + 1 + k) with (i + S k) by lia. apply Hall. lia.
    + replace (i + 1 + j) with (i + S j) by lia. exact Hf.
Qed.
End Scan.

(* ------------------------------------------------------------------ first zero bit of a mask *)

Fixpoint first_false (l : list bool) : nat :=
  match l with [] => 0 | b :: t => if b then S (first_false t) else 0 end.

Lemma shiftr1_ones W : N.shiftr (N.ones (N.succ W)) 1 = N.ones W.
Proof.
  apply N.bits_inj_iff. intro k. rewrite N.shiftr_spec by apply N.le_0_l.
  destruct (N.lt_ge_cases k W) as [L|G].
  - rewrite !N.ones_spec_low by lia. reflexivity.
  - rewrite !N.ones_spec_high by lia. reflexivity.
Qed.

(** ctz of the complemented mask (within W bits) is the position of the first false, when there is one *)
Lemma ctz_first_false : forall l fuel W,
  length l <= N.to_nat W -> first_false l < length l -> first_false l < fuel ->
  N.to_nat (ctz_fuel fuel (N.lxor (bits_to_N l) (N.ones W))) = first_false l.
Proof.
  induction l as [|b t IH]; intros fuel W HW Hf Hfu; [cbn in Hf; lia|].
  destruct fuel as [|fuel]; [lia|].
  destruct W as [|W'] using N.peano_ind; [cbn in HW; lia|]. clear IHW'.
  cbn [ctz_fuel bits_to_N first_false].
  assert (T0 : N.testbit (N.lxor ((if b then 1 else 0) + 2 * bits_to_N t) (N.ones (N.succ W'))) 0 = negb b).
  { rewrite N.lxor_spec. rewrite N.ones_spec_low by lia.
    destruct b; [replace (1 + 2 * bits_to_N t)%N with (2 * bits_to_N t + 1)%N by lia; rewrite N.testbit_odd_0|rewrite N.add_0_l, N.testbit_even_0]; reflexivity. }
  rewrite T0. destruct b; cbn [negb]; [|reflexivity].
  cbn [first_false length] in *.
  rewrite N.shiftr_lxor, shiftr1_ones.
  replace (N.shiftr (1 + 2 * bits_to_N t) 1) with (bits_to_N t)
    by (rewrite N.shiftr_div_pow2; change (2 ^ 1)%N with 2%N; lia).
  rewrite N2Nat.inj_add. rewrite IH by lia. reflexivity.
Qed.


Lemma ones_succ n : N.ones (N.succ n) = (1 + 2 * N.ones n)%N.
Proof.
  rewrite !N.ones_equiv, N.pow_succ_r by apply N.le_0_l.
  assert (0 < 2 ^ n)%N by (apply N.neq_0_lt_0, N.pow_nonzero; discriminate). lia.
Qed.

Lemma bits_to_N_le l : (bits_to_N l <= N.ones (N.of_nat (length l)))%N.
Proof.
  induction l as [|b t IH]; [cbn; lia|]. cbn [bits_to_N length].
  rewrite Nat2N.inj_succ, ones_succ. destruct b; lia.
Qed.

Lemma bits_eq_ones l : (bits_to_N l =? N.ones (N.of_nat (length l)))%N = forallb (fun b => b) l.
Proof.
  induction l as [|b t IH]; [reflexivity|]. cbn [bits_to_N length forallb].
  pose proof (bits_to_N_le t) as Le. rewrite Nat2N.inj_succ, ones_succ.
  destruct b; cbn [andb].
  - rewrite <- IH. destruct (N.eqb_spec (bits_to_N t) (N.ones (N.of_nat (length t))));
      destruct (N.eqb_spec (1 + 2 * bits_to_N t) (1 + 2 * N.ones (N.of_nat (length t)))); try reflexivity; lia.
  - destruct (N.eqb_spec (0 + 2 * bits_to_N t) (1 + 2 * N.ones (N.of_nat (length t)))); [lia|reflexivity].
Qed.

Lemma first_false_spec l :
  forallb (fun b => b) l = false ->
  first_false l < length l /\ nth (first_false l) l true = false /\ forall k, k < first_false l -> nth k l false = true.
Proof.
  induction l as [|b t IH]; intro H; [discriminate H|]. cbn [forallb first_false length] in *.
  destruct b; cbn [andb] in H.
  - destruct (IH H) as [A [B C]]. split; [lia|]. split; [exact B|]. intros k Hk. destruct k; [reflexivity|]. cbn [nth]. apply C. lia.
  - split; [lia|]. split; [reflexivity|]. intros; lia.
Qed.

Section ScanBlocks.
Variable eqat : nat -> bool.

(** what a block must deliver for the W elements from i: continue iff all match, else the first mismatch *)
Definition block_result (W i : nat) : nat * bool :=
  let s := scan eqat W i (i + W) in if s <? i + W then (s, true) else (i + W, false).

(** from the list of the W equality tests of a block *)
Lemma block_from_tests W i :
  let cs := map (fun k => eqat (i + k)) (seq 0 W) in
  (forallb (fun b => b) cs = true -> scan eqat W i (i + W) = i + W) /\
  (forallb (fun b => b) cs = false -> scan eqat W i (i + W) = i + first_false cs /\ first_false cs < W).
Proof.
  cbv zeta. split; intro H.
  - apply scan_all. intros k Hk. rewrite forallb_forall in H. apply H. apply in_map_iff. exists k. split; [reflexivity|apply in_seq; lia].
  - destruct (first_false_spec _ H) as [A [B C]]. rewrite map_length, seq_length in A. split; [|exact A].
    apply scan_first; [exact A| |].
    + intros k Hk. specialize (C k Hk). rewrite (nth_indep _ false (eqat (i + 0))) in C by (rewrite map_length, seq_length; lia).
      rewrite (map_nth (fun k => eqat (i + k)) (seq 0 W) 0 k) in C. rewrite seq_nth in C by lia. exact C.
    + rewrite (nth_indep _ true (eqat (i + 0))) in B by (rewrite map_length, seq_length; lia).
      rewrite (map_nth (fun k => eqat (i + k)) (seq 0 W) 0 _) in B. rewrite seq_nth in B by lia. exact B.
Qed.

(** a sequence of blocks that each deliver [block_result] implements the scan of all their elements *)
Lemma blocks_scan W nb : forall i, 0 < W ->
  (let s := scan eqat (W * nb) i (i + W * nb) in if s <? i + W * nb then (s, true) else (i + W * nb, false))
  = (let '(j, done) := block_result W i in
     match nb with
     | O => (i, false)
     | S nb' => if done then (j, true)
                else (let s := scan eqat (W * nb') (i + W) (i + W + W * nb') in
                      if s <? i + W + W * nb' then (s, true) else (i + W + W * nb', false))
     end).
Proof.
  intros i HW. unfold block_result. cbv zeta. destruct nb as [|nb'].
  - rewrite Nat.mul_0_r. cbn [scan]. destruct (scan eqat W i (i + W) <? i + W); destruct (Nat.ltb_spec (i + 0) (i + 0)); try lia; f_equal; lia.
  - replace (W * S nb') with (W + W * nb') by lia. rewrite scan_split by lia. cbv zeta.
    pose proof (scan_range eqat W i (i + W) ltac:(lia)) as R.
    destruct (Nat.ltb_spec (scan eqat W i (i + W)) (i + W)) as [Lt|Ge].
    + destruct (Nat.ltb_spec (scan eqat W i (i + W)) (i + (W + W * nb'))); [reflexivity|lia].
    + replace (i + (W + W * nb')) with (i + W + W * nb') by lia. reflexivity.
Qed.

End ScanBlocks.

(** byte-list equality of equal-length byte lists is equality of their little-endian numbers *)
Lemma le_num_eqb (a b : list N) :
  bytes_ok a -> bytes_ok b -> length a = length b ->
  (le_num a =? le_num b)%N = if list_eq_dec N.eq_dec a b then true else false.
Proof.
  intros Ba Bb L. destruct (list_eq_dec N.eq_dec a b) as [E|NE].
  - subst. apply N.eqb_refl.
  - apply N.eqb_neq. intro H. apply NE.
    rewrite <- (le_bytes_le_num a Ba), <- (le_bytes_le_num b Bb), H, L. reflexivity.
Qed.

(* ------------------------------------------------------------------ find_run_length_i32 *)

Section Run.
Variables (count : nat) (vals : list N).
Hypothesis Hlen : length vals = 4 * count.
Hypothesis Hbytes : bytes_ok vals.
Hypothesis Hpos : 0 < count.

Definition elem (k : nat) : list N := sub vals (k * 4) 4.
Definition first : list N := sub vals 0 4.
Definition eqat (k : nat) : bool := if list_eq_dec N.eq_dec (elem k) first then true else false.

Lemma run_scan_pure : forall n i cnt, i + n <= count -> run_scan n vals first i cnt = Ok (scan eqat n i cnt).
Proof.
  induction n as [|n IH]; intros i cnt H; [reflexivity|].
  cbn [run_scan scan]. rewrite load_ok by lia. cbn [bind]. fold (elem i). unfold eqat at 1.
  destruct (list_eq_dec N.eq_dec (elem i) first); [apply IH; lia|reflexivity].
Qed.

Lemma eqat_0 : eqat 0 = true.
Proof. unfold eqat, elem, first. cbn [Nat.mul]. destruct (list_eq_dec N.eq_dec (sub vals 0 4) (sub vals 0 4)); [reflexivity|congruence]. Qed.

(** the value every variant must return *)
Definition run_length : nat := scan eqat count 0 count.

Lemma scalar_find_run_length_spec : scalar_find_run_length count vals = Ok run_length.
Proof.
  unfold scalar_find_run_length. destruct count as [|c] eqn:E; [lia|]. rewrite <- E in *.
  rewrite load_ok by lia. cbn [bind]. fold first. rewrite run_scan_pure by lia.
  unfold run_length. f_equal.
  replace (scan eqat count 0 count) with (scan eqat (S (count - 1)) 0 count) by (f_equal; lia).
  cbn [scan]. rewrite eqat_0. reflexivity.
Qed.

(** a compare against the broadcast first value, lane by lane *)
Lemma lane_eq k : k < count -> (le_num (elem k) =? le_num first)%N = eqat k.
Proof.
  intros Hk. unfold eqat. apply le_num_eqb; try (apply bytes_ok_sub; exact Hbytes).
  unfold elem, first. rewrite !length_sub by lia. reflexivity.
Qed.

(** generic conclusion: blocks that implement the scan of their W elements, then the scalar tail *)
Lemma blocks_then_tail W nb (r : nat * bool) :
  W * nb <= count ->
  r = (let s := scan eqat (W * nb) 0 (W * nb) in if s <? W * nb then (s, true) else (W * nb, false)) ->
  (let '(i, done) := r in if done then Ok i else run_scan (count - i) vals first i count) = Ok run_length.
Proof.
  intros Hn Hr. subst r. cbv zeta.
  unfold run_length.
  assert (E : scan eqat count 0 count = scan eqat (W * nb + (count - W * nb)) 0 count) by (f_equal; lia).
  rewrite E, scan_split by lia. cbv zeta. cbn [plus].
  destruct (Nat.ltb_spec (scan eqat (W * nb) 0 (W * nb)) (W * nb)) as [Lt|Ge].
  - reflexivity.
  - rewrite run_scan_pure by lia. reflexivity.
Qed.
End Run.

Tactic Notation "dlist" ident(v) hyp(H) integer(n) :=
  do n (destruct v as [|? v]; [simpl in H; discriminate H|]); destruct v; [|simpl in H; discriminate H]; clear H.

(** four 32-bit compare results -> movemask -> (all equal?, lane of the first mismatch) *)
Lemma sse_mask4 (c0 c1 c2 c3 : bool) :
  let mask := movemask_epi8 (unlanes 4 (map (fun c : bool => if c then 4294967295%N else 0%N) [c0; c1; c2; c3])) in
  (mask =? 0xFFFF)%N = forallb (fun b => b) [c0; c1; c2; c3] /\
  (forallb (fun b => b) [c0; c1; c2; c3] = false ->
   N.to_nat (N.shiftr (ctz32 (N.lxor mask 0xFFFFFFFF)) 2) = first_false [c0; c1; c2; c3]).
Proof. destruct c0, c1, c2, c3; vm_compute; split; try reflexivity; intro; try reflexivity; discriminate. Qed.

Lemma lanes4_16 v : length v = 16 ->
  lanes 4 v = [le_num (sub v 0 4); le_num (sub v 4 4); le_num (sub v 8 4); le_num (sub v 12 4)].
Proof. intros L. dlist v L 16. reflexivity. Qed.

Section RunSse.
Variables (count : nat) (vals : list N).
Hypothesis Hlen : length vals = 4 * count.
Hypothesis Hbytes : bytes_ok vals.
Hypothesis Hpos : 0 < count.
Notation eqat := (eqat vals).
Notation first := (first vals).

Lemma first_length : length first = 4.
Proof. change (length (sub vals 0 4) = 4). apply length_sub. lia. Qed.

(** the compare of a block of W lanes against the broadcast first value, as the list of the W equality tests *)
Lemma cmp_lanes W i :
  i + W <= count ->
  map2 N.eqb (lanes 4 (sub vals (i * 4) (W * 4))) (lanes 4 (flat_map (fun _ => first) (seq 0 W)))
  = map (fun k => eqat (i + k)) (seq 0 W).
Proof.
  revert i. induction W as [|W IH]; intros i H.
  - cbn. unfold lanes. cbn. reflexivity.
  - replace (sub vals (i * 4) (S W * 4)) with (sub vals (i * 4) 4 ++ sub vals ((i + 1) * 4) (W * 4)).
    + cbn [seq flat_map]. rewrite !lanes_app by (try apply first_length; try (apply length_sub; lia); lia).
      rewrite (flat_map_shift (fun _ : nat => first) 1 W). cbn [map2 map]. rewrite IH by lia.
      fold (elem vals i). rewrite (lane_eq count vals Hlen Hbytes Hpos i) by lia. rewrite Nat.add_0_r. f_equal.
      rewrite <- seq_shift, map_map. apply map_ext. intros k. f_equal. lia.
    + apply (list_eq_nth _ _ 0%N).
      * rewrite app_length, !length_sub by lia. lia.
      * intros k Hk. rewrite app_length, !length_sub in Hk by lia.
        destruct (Nat.lt_ge_cases k 4).
        -- rewrite app_nth1 by (rewrite length_sub by lia; lia). rewrite !nth_sub by lia. reflexivity.
        -- rewrite app_nth2 by (rewrite length_sub by lia; lia). rewrite length_sub by lia. rewrite !nth_sub by lia. f_equal. lia.
Qed.
End RunSse.

Lemma map2_map {A B C D} (f : A -> B -> C) (g : C -> D) a b : map2 (fun x y => g (f x y)) a b = map g (map2 f a b).
Proof. revert b. induction a as [|x a IH]; intros [|y b]; cbn; try reflexivity. rewrite IH. reflexivity. Qed.

Lemma cmpeq4_as_map v F :
  cmpeq_lanes 4 v F = unlanes 4 (map (fun c : bool => if c then 4294967295%N else 0%N) (map2 N.eqb (lanes 4 v) (lanes 4 F))).
Proof. unfold cmpeq_lanes. rewrite <- map2_map. reflexivity. Qed.

Section RunKernels.
Variables (count : nat) (vals : list N).
Hypothesis Hlen : length vals = 4 * count.
Hypothesis Hbytes : bytes_ok vals.
Hypothesis Hpos : 0 < count.
Notation eqat := (eqat vals).
Notation first := (first vals).

Lemma sse_run_blocks_spec : forall nb i, i + 4 * nb <= count ->
  sse_run_blocks nb vals first i =
  Ok (let s := scan eqat (4 * nb) i (i + 4 * nb) in if s <? i + 4 * nb then (s, true) else (i + 4 * nb, false)).
Proof.
  induction nb as [|nb IH]; intros i H.
  - cbn [sse_run_blocks]. rewrite Nat.mul_0_r. cbn [scan]. destruct (Nat.ltb_spec (i + 0) (i + 0)); [lia|]. f_equal. f_equal. lia.
  - rewrite (blocks_scan eqat 4 (S nb) i) by lia. unfold block_result. cbv zeta.
    cbn [sse_run_blocks]. rewrite load_ok by lia. cbn [bind].
    change 16 with (4 * 4).
    replace (first ++ first ++ first ++ first) with (flat_map (fun _ : nat => first) (seq 0 4)) by (cbn; rewrite app_nil_r; reflexivity).
    rewrite cmpeq4_as_map. rewrite (cmp_lanes count vals Hlen Hbytes Hpos 4 i) by lia.
    cbn [seq map].
    destruct (sse_mask4 (eqat (i + 0)) (eqat (i + 1)) (eqat (i + 2)) (eqat (i + 3))) as [M1 M2]. cbv zeta in M1, M2. cbn [map] in M1, M2.
    destruct (block_from_tests eqat 4 i) as [T1 T2]. cbv zeta in T1, T2. cbn [seq map] in T1, T2.
    rewrite M1. destruct (forallb (fun b => b) [eqat (i + 0); eqat (i + 1); eqat (i + 2); eqat (i + 3)]) eqn:EA.
    + rewrite (T1 eq_refl). destruct (Nat.ltb_spec (i + 4) (i + 4)); [lia|]. apply IH. lia.
    + destruct (T2 eq_refl) as [T3 T4]. rewrite T3. destruct (Nat.ltb_spec (i + first_false [eqat (i + 0); eqat (i + 1); eqat (i + 2); eqat (i + 3)]) (i + 4)); [|lia].
      rewrite (M2 eq_refl). reflexivity.
Qed.

Theorem sse_find_run_length_eq_scalar_ :
  sse_find_run_length count vals = Ok (run_length count vals) /\ scalar_find_run_length count vals = Ok (run_length count vals).
Proof.
  split; [|apply scalar_find_run_length_spec; assumption].
  unfold sse_find_run_length. destruct count as [|c] eqn:E; [lia|]. rewrite <- E in *.
  rewrite load_ok by lia. cbn [bind]. fold first.
  rewrite sse_run_blocks_spec by lia. cbn [bind].
  apply (blocks_then_tail count vals Hlen Hpos 4 (count / 4)); [lia|]. cbn [plus]. reflexivity.
Qed.
(** AVX-512: the compare mask is the list of the 16 equality tests *)
Lemma avx512_run_blocks_spec : forall nb i, i + 16 * nb <= count ->
  avx512_run_blocks nb vals first i =
  Ok (let s := scan eqat (16 * nb) i (i + 16 * nb) in if s <? i + 16 * nb then (s, true) else (i + 16 * nb, false)).
Proof.
  induction nb as [|nb IH]; intros i H.
  - cbn [avx512_run_blocks]. rewrite Nat.mul_0_r. cbn [scan]. destruct (Nat.ltb_spec (i + 0) (i + 0)); [lia|]. f_equal. f_equal. lia.
  - rewrite (blocks_scan eqat 16 (S nb) i) by lia. unfold block_result. cbv zeta.
    cbn [avx512_run_blocks]. rewrite load_ok by lia. cbn [bind].
    change 64 with (16 * 4). unfold mm512_cmpeq_epi32_mask.
    rewrite (cmp_lanes count vals Hlen Hbytes Hpos 16 i) by lia.
    set (cs := map (fun k => eqat (i + k)) (seq 0 16)).
    assert (Lc : length cs = 16) by (unfold cs; rewrite map_length, seq_length; reflexivity).
    destruct (block_from_tests eqat 16 i) as [T1 T2]. cbv zeta in T1, T2. fold cs in T1, T2.
    change 65535%N with (N.ones (N.of_nat 16)). rewrite <- Lc at 1. rewrite bits_eq_ones.
    destruct (forallb (fun b => b) cs) eqn:EA.
    + rewrite (T1 eq_refl). destruct (Nat.ltb_spec (i + 16) (i + 16)); [lia|]. apply IH. lia.
    + destruct (T2 eq_refl) as [T3 T4]. rewrite T3. destruct (Nat.ltb_spec (i + first_false cs) (i + 16)); [|lia].
      unfold ctz32. change 4294967295%N with (N.ones 32).
      rewrite ctz_first_false by (rewrite ?Lc; lia). reflexivity.
Qed.

Theorem avx512_find_run_length_eq_scalar_ :
  avx512_find_run_length count vals = Ok (run_length count vals) /\ scalar_find_run_length count vals = Ok (run_length count vals).
Proof.
  split; [|apply scalar_find_run_length_spec; assumption].
  unfold avx512_find_run_length. destruct count as [|c] eqn:E; [lia|]. rewrite <- E in *.
  rewrite load_ok by lia. cbn [bind]. fold first.
  rewrite avx512_run_blocks_spec by lia. cbn [bind].
  apply (blocks_then_tail count vals Hlen Hpos 16 (count / 16)); [lia|]. cbn [plus]. reflexivity.
Qed.

(** AVX2: eight 32-bit compare results -> movemask == -1 iff all equal *)
Lemma avx2_mask8 (c0 c1 c2 c3 c4 c5 c6 c7 : bool) :
  (movemask_epi8 (unlanes 4 (map (fun c : bool => if c then 4294967295%N else 0%N) [c0; c1; c2; c3; c4; c5; c6; c7])) =? 0xFFFFFFFF)%N
  = forallb (fun b => b) [c0; c1; c2; c3; c4; c5; c6; c7].
Proof. destruct c0, c1, c2, c3, c4, c5, c6, c7; vm_compute; reflexivity. Qed.

Lemma avx2_run_blocks_spec : forall nb i, i + 8 * nb <= count ->
  avx2_run_blocks nb vals first i count =
  Ok (let s := scan eqat (8 * nb) i (i + 8 * nb) in if s <? i + 8 * nb then (s, true) else (i + 8 * nb, false)).
Proof.
  induction nb as [|nb IH]; intros i H.
  - cbn [avx2_run_blocks]. rewrite Nat.mul_0_r. cbn [scan]. destruct (Nat.ltb_spec (i + 0) (i + 0)); [lia|]. f_equal. f_equal. lia.
  - rewrite (blocks_scan eqat 8 (S nb) i) by lia. unfold block_result. cbv zeta.
    cbn [avx2_run_blocks]. rewrite load_ok by lia. cbn [bind].
    change 32 with (8 * 4).
    rewrite cmpeq4_as_map. rewrite (cmp_lanes count vals Hlen Hbytes Hpos 8 i) by lia.
    cbn [seq map].
    pose proof (avx2_mask8 (eqat (i + 0)) (eqat (i + 1)) (eqat (i + 2)) (eqat (i + 3)) (eqat (i + 4)) (eqat (i + 5)) (eqat (i + 6)) (eqat (i + 7))) as M8.
    cbn [map] in M8. rewrite M8. clear M8.
    destruct (block_from_tests eqat 8 i) as [T1 T2]. cbv zeta in T1, T2. cbn [seq map] in T1, T2.
    replace (Nat.min 8 (count - i)) with 8 by lia.
    rewrite (run_scan_pure count vals Hlen Hpos 8 i (i + 8)) by lia. cbn [bind].
    destruct (forallb (fun b => b) [eqat (i + 0); eqat (i + 1); eqat (i + 2); eqat (i + 3); eqat (i + 4); eqat (i + 5); eqat (i + 6); eqat (i + 7)]) eqn:EA.
    + rewrite (T1 eq_refl). destruct (Nat.ltb_spec (i + 8) (i + 8)); [lia|]. apply IH. lia.
    + destruct (T2 eq_refl) as [T3 T4]. rewrite T3.
      destruct (Nat.ltb_spec (i + first_false [eqat (i + 0); eqat (i + 1); eqat (i + 2); eqat (i + 3); eqat (i + 4); eqat (i + 5); eqat (i + 6); eqat (i + 7)]) (i + 8)); [|lia].
      reflexivity.
Qed.

Theorem avx2_find_run_length_eq_scalar_ :
  avx2_find_run_length count vals = Ok (run_length count vals) /\ scalar_find_run_length count vals = Ok (run_length count vals).
Proof.
  split; [|apply scalar_find_run_length_spec; assumption].
  unfold avx2_find_run_length. destruct count as [|c] eqn:E; [lia|]. rewrite <- E in *.
  rewrite load_ok by lia. cbn [bind]. fold first.
  rewrite avx2_run_blocks_spec by lia. cbn [bind].
  apply (blocks_then_tail count vals Hlen Hpos 8 (count / 8)); [lia|]. cbn [plus]. reflexivity.
Qed.
End RunKernels.

(** the statements without the count > 0 section hypothesis (count = 0 returns 0 without any access) *)
Theorem sse_find_run_length_eq_scalar count vals :
  length vals = 4 * count -> bytes_ok vals ->
  exists r, sse_find_run_length count vals = Ok r /\ scalar_find_run_length count vals = Ok r.
Proof.
  intros L B. destruct count as [|c]; [exists 0; split; reflexivity|].
  destruct (sse_find_run_length_eq_scalar_ (S c) vals L B ltac:(lia)) as [E1 E2]. eexists. split; eassumption.
Qed.
Theorem avx2_find_run_length_eq_scalar count vals :
  length vals = 4 * count -> bytes_ok vals ->
  exists r, avx2_find_run_length count vals = Ok r /\ scalar_find_run_length count vals = Ok r.
Proof.
  intros L B. destruct count as [|c]; [exists 0; split; reflexivity|].
  destruct (avx2_find_run_length_eq_scalar_ (S c) vals L B ltac:(lia)) as [E1 E2]. eexists. split; eassumption.
Qed.
Theorem avx512_find_run_length_eq_scalar count vals :
  length vals = 4 * count -> bytes_ok vals ->
  exists r, avx512_find_run_length count vals = Ok r /\ scalar_find_run_length count vals = Ok r.
Proof.
  intros L B. destruct count as [|c]; [exists 0; split; reflexivity|].
  destruct (avx512_find_run_length_eq_scalar_ (S c) vals L B ltac:(lia)) as [E1 E2]. eexists. split; eassumption.
Qed.

(* ------------------------------------------------------------------ match_length *)

Lemma lanes1 a : lanes 1 a = map (fun x => (x + 256 * 0)%N) a.
Proof.
  induction a as [|x a IH]; [reflexivity|].
  change (x :: a) with ([x] ++ a). rewrite lanes_app by (try reflexivity; lia). rewrite IH. reflexivity.
Qed.

(** movemask of a bytewise compare = the list of the byte equality tests, as a number *)
Lemma mask_bytes_eq : forall a b, movemask_epi8 (cmpeq_lanes 1 a b) = bits_to_N (map2 N.eqb a b).
Proof.
  intros a b. unfold cmpeq_lanes, movemask_epi8. rewrite !lanes1.
  revert b. induction a as [|x a IH]; intros [|y b]; try reflexivity.
  cbn [map map2 unlanes flat_map le_bytes app bits_to_N]. rewrite !N.mul_0_r, !N.add_0_r.
  f_equal; [|f_equal; apply IH].
  destruct (x =? y)%N; reflexivity.
Qed.

Section Match.
Variables (n : nat) (p m : list N).
Hypothesis Hp : length p = n.
Hypothesis Hm : length m = n.

Definition meq (k : nat) : bool := (nth k p 0 =? nth k m 0)%N.

Lemma match_scan_pure : forall c k, k + c <= n -> match_scan c p m k = Ok (scan meq c k (k + c)).
Proof.
  induction c as [|c IH]; intros k H; [cbn; f_equal; lia|].
  cbn [match_scan scan]. rewrite !load1_ok by lia. cbn [bind]. fold (meq k).
  destruct (meq k); [|reflexivity]. rewrite IH by lia. f_equal. f_equal. lia.
Qed.

Lemma cmp_bytes W k : k + W <= n -> map2 N.eqb (sub p k W) (sub m k W) = map (fun j => meq (k + j)) (seq 0 W).
Proof.
  intros H. apply (list_eq_nth _ _ false).
  - rewrite map2_length, map_length, seq_length by (rewrite !length_sub by lia; reflexivity). apply length_sub. lia.
  - intros j Hj. rewrite map2_length, length_sub in Hj by (rewrite ?length_sub by lia; lia).
    rewrite (nth_indep (map (fun j0 => meq (k + j0)) (seq 0 W)) false (meq (k + 0))) by (rewrite map_length, seq_length; lia).
    rewrite (map_nth (fun j => meq (k + j)) (seq 0 W) 0 j). rewrite seq_nth by lia. cbn [plus].
    unfold meq. rewrite <- (nth_sub p k W j 0%N), <- (nth_sub m k W j 0%N) by lia.
    assert (L1 : length (sub p k W) = W) by (apply length_sub; lia).
    assert (L2 : length (sub m k W) = W) by (apply length_sub; lia).
    revert L1 L2 Hj. generalize (sub p k W) (sub m k W). clear. intros a. revert j W.
    induction a as [|x a IH]; intros j W b L1 L2 Hj; [cbn in L1; lia|].
    destruct b as [|y b]; [cbn in L2; lia|]. destruct j as [|j]; [reflexivity|].
    cbn [map2 nth]. apply (IH j (W - 1)); cbn in *; lia.
Qed.

Lemma sse_match_blocks_spec : forall nb k, k + 16 * nb <= n ->
  sse_match_blocks nb p m k =
  Ok (let s := scan meq (16 * nb) k (k + 16 * nb) in if s <? k + 16 * nb then (s, true) else (k + 16 * nb, false)).
Proof.
  induction nb as [|nb IH]; intros k H.
  - cbn [sse_match_blocks]. rewrite Nat.mul_0_r. cbn [scan]. destruct (Nat.ltb_spec (k + 0) (k + 0)); [lia|]. f_equal. f_equal. lia.
  - rewrite (blocks_scan meq 16 (S nb) k) by lia. unfold block_result. cbv zeta.
    cbn [sse_match_blocks]. rewrite !load_ok by lia. cbn [bind].
    rewrite mask_bytes_eq. rewrite (cmp_bytes 16 k) by lia.
    set (cs := map (fun j => meq (k + j)) (seq 0 16)).
    assert (Lc : length cs = 16) by (unfold cs; rewrite map_length, seq_length; reflexivity).
    destruct (block_from_tests meq 16 k) as [T1 T2]. cbv zeta in T1, T2. fold cs in T1, T2.
    change 65535%N with (N.ones (N.of_nat 16)). rewrite <- Lc at 1. rewrite bits_eq_ones.
    destruct (forallb (fun b => b) cs) eqn:EA.
    + rewrite (T1 eq_refl). destruct (Nat.ltb_spec (k + 16) (k + 16)); [lia|]. apply IH. lia.
    + destruct (T2 eq_refl) as [T3 T4]. rewrite T3. destruct (Nat.ltb_spec (k + first_false cs) (k + 16)); [|lia].
      unfold ctz32. change 4294967295%N with (N.ones 32).
      rewrite ctz_first_false by (rewrite ?Lc; lia). reflexivity.
Qed.

Theorem sse_match_length_eq_scalar_ :
  exists r, sse_match_length n p m = Ok r /\ scalar_match_length n p m = Ok r.
Proof.
  exists (scan meq n 0 n). split.
  - unfold sse_match_length. rewrite sse_match_blocks_spec by lia. cbn [bind]. cbv zeta. cbn [plus].
    assert (E : scan meq n 0 n = scan meq (16 * (n / 16) + (n - 16 * (n / 16))) 0 n) by (f_equal; lia).
    rewrite E, scan_split by lia. cbv zeta. cbn [plus].
    destruct (Nat.ltb_spec (scan meq (16 * (n / 16)) 0 (16 * (n / 16))) (16 * (n / 16))) as [Lt|Ge]; [reflexivity|].
    rewrite match_scan_pure by lia. f_equal. f_equal. lia.
  - unfold scalar_match_length. rewrite match_scan_pure by lia. reflexivity.
Qed.
End Match.

Theorem sse_match_length_eq_scalar n p m :
  length p = n -> length m = n -> exists r, sse_match_length n p m = Ok r /\ scalar_match_length n p m = Ok r.
Proof. intros Hp Hm. apply sse_match_length_eq_scalar_; assumption. Qed.
