(** C15: carquet_sse_crc32c (as repaired) equals the table-driven scalar_crc32c of dispatch.c on every byte string
    and every initial value.  The crc32 instruction is the byte-serial Castagnoli step ([X86Sem.crc32c_u8], validated
    against the hardware); the 256-entry table regenerated from dispatch.c holds the 8-step images of the bytes
    (swept by vm_compute), and the step is linear over xor. *)
From Coq Require Import NArith ZArith List Arith Lia Bool ZifyBool ZifyNat ZifyN.
From Carquet Require Import Base.Res Base.Bits Gen.Consts_gen Simd.Vec Simd.X86Sem Simd.ScalarKernels Simd.SseKernels
  Simd.BitLemmas.
Import ListNotations.
Local Open Scope N_scope.
Ltac Zify.zify_post_hook ::= Z.div_mod_to_equations.

Definition POLYC : N := 0x82F63B78.
Definition step8 (x : N) : N := N.iter 8 crc32c_bit x.

Lemma bit_linear a b : crc32c_bit (N.lxor a b) = N.lxor (crc32c_bit a) (crc32c_bit b).
Proof.
  unfold crc32c_bit. rewrite N.lxor_spec, N.shiftr_lxor. fold POLYC.
  destruct (N.testbit a 0), (N.testbit b 0); cbn [xorb].
  - rewrite (N.lxor_comm (N.shiftr b 1) POLYC), N.lxor_assoc, <- (N.lxor_assoc POLYC POLYC), N.lxor_nilpotent, N.lxor_0_l. reflexivity.
  - rewrite !N.lxor_assoc. f_equal. apply N.lxor_comm.
  - rewrite !N.lxor_assoc. reflexivity.
  - reflexivity.
Qed.

Lemma step8_linear a b : step8 (N.lxor a b) = N.lxor (step8 a) (step8 b).
Proof. unfold step8. cbn [N.iter Pos.iter]. rewrite !bit_linear. reflexivity. Qed.

Lemma bit_even x : N.testbit x 0 = false -> crc32c_bit x = N.shiftr x 1.
Proof. intros H. unfold crc32c_bit. rewrite H. reflexivity. Qed.

(** a value whose low byte is zero is just shifted out *)
Lemma step8_high h : step8 (256 * h) = h.
Proof.
  unfold step8. cbn [N.iter Pos.iter].
  assert (T : forall j, j < 8 -> N.testbit (N.shiftr (256 * h) j) 0 = false).
  { intros j Hj. rewrite N.shiftr_spec by apply N.le_0_l. rewrite N.add_0_l.
    change 256 with (2 ^ 8). rewrite N.mul_comm. apply N.mul_pow2_bits_low. exact Hj. }
  rewrite (bit_even (256 * h)) by (apply (T 0); lia).
  rewrite (bit_even (N.shiftr (256 * h) 1)) by (apply (T 1); lia). rewrite N.shiftr_shiftr.
  rewrite (bit_even (N.shiftr (256 * h) (1 + 1))) by (apply (T 2); lia). rewrite N.shiftr_shiftr.
  rewrite (bit_even (N.shiftr (256 * h) (1 + 1 + 1))) by (apply (T 3); lia). rewrite N.shiftr_shiftr.
  rewrite (bit_even (N.shiftr (256 * h) (1 + 1 + 1 + 1))) by (apply (T 4); lia). rewrite N.shiftr_shiftr.
  rewrite (bit_even (N.shiftr (256 * h) (1 + 1 + 1 + 1 + 1))) by (apply (T 5); lia). rewrite N.shiftr_shiftr.
  rewrite (bit_even (N.shiftr (256 * h) (1 + 1 + 1 + 1 + 1 + 1))) by (apply (T 6); lia). rewrite N.shiftr_shiftr.
  rewrite (bit_even (N.shiftr (256 * h) (1 + 1 + 1 + 1 + 1 + 1 + 1))) by (apply (T 7); lia). rewrite N.shiftr_shiftr.
  change (1 + 1 + 1 + 1 + 1 + 1 + 1 + 1) with 8. rewrite N.shiftr_div_pow2. change (2 ^ 8) with 256.
  rewrite N.mul_comm, N.div_mul by discriminate. reflexivity.
Qed.

(** the table regenerated from dispatch.c: entry i = the byte i pushed through 8 steps *)
Definition idx256 : list N := map N.of_nat (seq 0 256).
Lemma table_sweep :
  (let t := Simd_crc32c_table in
   (length t =? 256)%nat && forallb (fun i => N.eqb (nth (N.to_nat i) t 0) (step8 i)) idx256) = true.
Proof. vm_compute. reflexivity. Qed.

Lemma table_entry i : i < 256 -> nth (N.to_nat i) Simd_crc32c_table 0 = step8 i.
Proof.
  intros Hi. pose proof table_sweep as H. cbv zeta in H. apply andb_true_iff in H. destruct H as [_ H].
  rewrite forallb_forall in H. apply N.eqb_eq. apply H. unfold idx256.
  apply in_map_iff. exists (N.to_nat i). split; [lia|]. apply in_seq. lia.
Qed.

(** splitting a register into its low byte and the rest *)
Lemma split_low y : y = N.lxor (N.land y 255) (256 * N.shiftr y 8).
Proof.
  apply N.bits_inj_iff. intro k. rewrite N.lxor_spec, N.land_spec.
  change 255 with (N.ones 8). change 256 with (2 ^ 8).
  destruct (N.lt_ge_cases k 8) as [L|G].
  - rewrite N.ones_spec_low by exact L. rewrite N.mul_comm, N.mul_pow2_bits_low by exact L.
    rewrite andb_true_r, xorb_false_r. reflexivity.
  - rewrite N.ones_spec_high by exact G. rewrite N.mul_comm, N.mul_pow2_bits_high by exact G.
    rewrite andb_false_r, xorb_false_l. rewrite N.shiftr_spec by apply N.le_0_l. f_equal. lia.
Qed.

(** one table step = one hardware byte step *)
Lemma table_step_eq crc x :
  crc < 2 ^ 32 -> x < 256 -> crc32c_table_step Simd_crc32c_table crc x = crc32c_u8 crc x.
Proof.
  intros Hc Hx. unfold crc32c_table_step, crc32c_u8.
  rewrite (N.mod_small crc) by exact Hc. rewrite (N.mod_small x) by exact Hx. fold (step8 (N.lxor crc x)).
  rewrite (split_low (N.lxor crc x)) at 2. rewrite step8_linear, step8_high.
  rewrite table_entry by (change 255 with (N.ones 8); rewrite N.land_ones; apply N.mod_lt; discriminate).
  f_equal. rewrite N.shiftr_lxor. rewrite (shiftr_small x 8) by exact Hx. rewrite N.lxor_0_r. reflexivity.
Qed.

Lemma bit_lt x : x < 2 ^ 32 -> crc32c_bit x < 2 ^ 32.
Proof.
  intros H. unfold crc32c_bit.
  assert (S : N.shiftr x 1 < 2 ^ 32) by (apply (N.le_lt_trans _ x); [rewrite N.shiftr_div_pow2; apply N.div_le_upper_bound; [discriminate|lia]|exact H]).
  destruct (N.testbit x 0); [apply lxor_lt_pow2; [exact S|reflexivity]|exact S].
Qed.

Lemma u8_lt crc x : crc32c_u8 crc x < 2 ^ 32.
Proof.
  unfold crc32c_u8. cbn [N.iter Pos.iter].
  do 8 apply bit_lt. apply lxor_lt_pow2; [apply N.mod_lt; discriminate|].
  apply (N.lt_trans _ 256); [apply N.mod_lt; discriminate|reflexivity].
Qed.

Lemma fold_u8_lt data c : c < 2 ^ 32 -> fold_left crc32c_u8 data c < 2 ^ 32.
Proof. revert c. induction data as [|x d IH]; intros c H; [exact H|]. cbn [fold_left]. apply IH, u8_lt. Qed.

Lemma fold_table_eq data : bytes_ok data -> forall c, c < 2 ^ 32 ->
  fold_left (crc32c_table_step Simd_crc32c_table) data c = fold_left crc32c_u8 data c.
Proof.
  induction data as [|x d IH]; intros B c H; [reflexivity|].
  apply bytes_ok_cons in B. destruct B as [Hx Bd]. cbn [fold_left].
  rewrite table_step_eq by assumption. apply IH; [exact Bd|apply u8_lt].
Qed.

(* ------------------------------------------------------------------ the chunked SSE loop is the byte fold *)

Lemma firstn_plus {A} n m : forall L : list A, firstn (n + m) L = firstn n L ++ firstn m (skipn n L).
Proof.
  induction n as [|n IH]; intro L; [reflexivity|].
  destruct L as [|x L]; [cbn; rewrite firstn_nil; reflexivity|]. cbn [plus firstn skipn app]. rewrite IH. reflexivity.
Qed.

Lemma fold_sub_app {A} (f : A -> N -> A) (d : list N) a n m c :
  fold_left f (sub d (a + n) m) (fold_left f (sub d a n) c) = fold_left f (sub d a (n + m)) c.
Proof.
  rewrite <- fold_left_app. f_equal. unfold sub. rewrite firstn_plus, skipn_add. reflexivity.
Qed.

Lemma fold_sub0 {A} (f : A -> N -> A) (d : list N) n m c :
  fold_left f (sub d n m) (fold_left f (sub d 0 n) c) = fold_left f (sub d 0 (n + m)) c.
Proof. exact (fold_sub_app f d 0 n m c). Qed.

Lemma sub1 (d : list N) k : (k < length d)%nat -> sub d k 1 = [nth k d 0].
Proof. intros H. unfold sub. rewrite (skipn_nth_cons d k 0) by exact H. reflexivity. Qed.

Lemma crc_chunks_spec data w : forall n i c, (i + n * w <= length data)%nat ->
  crc_chunks n w data i c = Ok (fold_left crc32c_u8 (sub data i (n * w)) c).
Proof.
  induction n as [|n IH]; intros i c H; [reflexivity|].
  cbn [crc_chunks]. rewrite load_ok by lia. cbn [bind]. rewrite IH by lia. f_equal.
  unfold crc32c_bytes. rewrite fold_sub_app. cbn [Nat.mul]. reflexivity.
Qed.

Theorem sse_crc32c_eq_scalar crc data :
  bytes_ok data -> sse_crc32c crc data = Ok (scalar_crc32c Simd_crc32c_table crc data).
Proof.
  intros B. unfold sse_crc32c, scalar_crc32c. cbv zeta.
  set (c0 := N.lxor (crc mod 2 ^ 32) 4294967295).
  assert (H0 : c0 < 2 ^ 32) by (apply lxor_lt_pow2; [apply N.mod_lt; discriminate|reflexivity]).
  rewrite fold_table_eq by assumption.
  set (len := length data). set (n8 := (len / 8)%nat).
  rewrite crc_chunks_spec by (fold len; lia). cbn [bind].
  set (n4 := ((len - 8 * n8) / 4)%nat).
  rewrite crc_chunks_spec by (fold len; lia). cbn [bind].
  replace (8 * n8)%nat with (0 + n8 * 8)%nat by lia. rewrite fold_sub_app.
  set (i4 := (0 + n8 * 8 + 4 * n4)%nat).
  set (c4 := fold_left crc32c_u8 (sub data 0 (n8 * 8 + n4 * 4)) c0).
  assert (Efull : forall k c, (k <= len)%nat -> fold_left crc32c_u8 (sub data k (len - k)) (fold_left crc32c_u8 (sub data 0 k) c) = fold_left crc32c_u8 data c).
  { intros k c Hk. rewrite (fold_sub0 crc32c_u8 data k (len - k) c). f_equal.
    unfold sub. cbn [skipn]. apply firstn_all2. fold len. lia. }
  destruct (Nat.leb_spec (i4 + 2) len) as [L2|G2].
  - rewrite load_ok by (fold len; lia). cbn [bind].
    destruct (Nat.ltb_spec (i4 + 2) len) as [L1|G1].
    + rewrite load1_ok by (fold len; lia). cbn [bind]. f_equal. f_equal.
      unfold crc32c_bytes. unfold c4.
      replace (n8 * 8 + n4 * 4)%nat with i4 by (unfold i4; lia).
      rewrite (fold_sub0 crc32c_u8 data i4 2 c0).
      rewrite <- (Efull (i4 + 2)%nat c0) by lia.
      replace (len - (i4 + 2))%nat with 1%nat by (unfold i4, n4, n8 in *; lia).
      rewrite sub1 by (fold len; lia). reflexivity.
    + f_equal. f_equal. unfold crc32c_bytes, c4.
      replace (n8 * 8 + n4 * 4)%nat with i4 by (unfold i4; lia).
      rewrite (fold_sub0 crc32c_u8 data i4 2 c0).
      rewrite <- (Efull (i4 + 2)%nat c0) by lia.
      replace (len - (i4 + 2))%nat with 0%nat by lia. reflexivity.
  - cbn [bind]. destruct (Nat.ltb_spec i4 len) as [L1|G1].
    + rewrite load1_ok by (fold len; lia). cbn [bind]. f_equal. f_equal. unfold c4.
      replace (n8 * 8 + n4 * 4)%nat with i4 by (unfold i4; lia).
      rewrite <- (Efull i4 c0) by lia.
      replace (len - i4)%nat with 1%nat by lia.
      rewrite sub1 by (fold len; lia). reflexivity.
    + cbn [bind]. f_equal. f_equal. unfold c4.
      replace (n8 * 8 + n4 * 4)%nat with i4 by (unfold i4; lia).
      rewrite <- (Efull i4 c0) by lia. replace (len - i4)%nat with 0%nat by lia. reflexivity.
Qed.
