(** src/simd/x86/avx2_ops.c: the AVX2 kernels, transcribed (vector main loop + scalar remainder), every
    load / store with its explicit index range. *)
From Coq Require Import NArith List Arith Bool.
From Carquet Require Import Base.Res Simd.Vec Simd.X86Sem Simd.ScalarKernels Simd.SseKernels.
Import ListNotations.
Local Open Scope nat_scope.
Local Open Scope res_scope.

(* ------------------------------------------------------------------ byte stream split *)

(** static const int8_t shuf_b<k>[32]: the 16-byte SSE table twice *)
Definition shuf32_b (k : N) : list N := shuf_b k ++ shuf_b k.

(** carquet_avx2_byte_stream_split_encode_float, body of `for (; i + 8 <= count; i += 8)` *)
Definition avx2_bss_encode_float_block (count : nat) (src : list N) (i : nat) (out : list N) : res (list N) :=
  let* v := load src (i * 4) 32 in
  let out0 := mm256_shuffle_epi8 v (shuf32_b 0) in
  let out1 := mm256_shuffle_epi8 v (shuf32_b 1) in
  let out2 := mm256_shuffle_epi8 v (shuf32_b 2) in
  let out3 := mm256_shuffle_epi8 v (shuf32_b 3) in
  let* out := store out (0 * count + i) (mm256_extract_epi32 out0 0) in
  let* out := store out (0 * count + i + 4) (mm256_extract_epi32 out0 4) in
  let* out := store out (1 * count + i) (mm256_extract_epi32 out1 0) in
  let* out := store out (1 * count + i + 4) (mm256_extract_epi32 out1 4) in
  let* out := store out (2 * count + i) (mm256_extract_epi32 out2 0) in
  let* out := store out (2 * count + i + 4) (mm256_extract_epi32 out2 4) in
  let* out := store out (3 * count + i) (mm256_extract_epi32 out3 0) in
  store out (3 * count + i + 4) (mm256_extract_epi32 out3 4).

Definition avx2_bss_encode_float (count : nat) (src out : list N) : res (list N) :=
  simd_loop 8 count (avx2_bss_encode_float_block count src) (bss_enc_step 4 count src) out.

(** carquet_avx2_byte_stream_split_decode_float, body of `for (; i + 8 <= count; i += 8)` *)
Definition avx2_bss_decode_float_block (count : nat) (src : list N) (i : nat) (out : list N) : res (list N) :=
  let* t0 := load src (0 * count + i) 8 in
  let* t1 := load src (1 * count + i) 8 in
  let* t2 := load src (2 * count + i) 8 in
  let* t3 := load src (3 * count + i) 8 in
  let b0 := mm_cvtsi64_si128 t0 in
  let b1 := mm_cvtsi64_si128 t1 in
  let b2 := mm_cvtsi64_si128 t2 in
  let b3 := mm_cvtsi64_si128 t3 in
  let lo01 := mm_unpacklo_epi8 b0 b1 in
  let lo23 := mm_unpacklo_epi8 b2 b3 in
  let result_lo := mm_unpacklo_epi16 lo01 lo23 in
  let result_hi := mm_unpackhi_epi16 lo01 lo23 in
  let* out := store out (i * 4) result_lo in
  store out (i * 4 + 16) result_hi.

Definition avx2_bss_decode_float (count : nat) (src out : list N) : res (list N) :=
  simd_loop 8 count (avx2_bss_decode_float_block count src) (bss_dec_step 4 count src) out.

(** carquet_avx2_byte_stream_split_encode_double: four values per iteration, scalar byte moves *)
Definition avx2_bss_encode_double_block (count : nat) (src : list N) (i : nat) (out : list N) : res (list N) :=
  iter_blocks 8 1 0 (fun b o =>
    let* x0 := load1 src (i * 8 + 0 + b) in
    let* o := store1 o (b * count + i + 0) x0 in
    let* x1 := load1 src (i * 8 + 8 + b) in
    let* o := store1 o (b * count + i + 1) x1 in
    let* x2 := load1 src (i * 8 + 16 + b) in
    let* o := store1 o (b * count + i + 2) x2 in
    let* x3 := load1 src (i * 8 + 24 + b) in
    store1 o (b * count + i + 3) x3) out.

Definition avx2_bss_encode_double (count : nat) (src out : list N) : res (list N) :=
  simd_loop 4 count (avx2_bss_encode_double_block count src) (bss_enc_step 8 count src) out.

(** carquet_avx2_byte_stream_split_decode_double has no vector loop *)
Definition avx2_bss_decode_double (count : nat) (src out : list N) : res (list N) :=
  scalar_loop count (bss_dec_step 8 count src) out.

(* ------------------------------------------------------------------ prefix sums *)
Local Open Scope N_scope.

(** carquet_avx2_prefix_sum_i32, body of `for (; i + 8 <= count; i += 8)` *)
Definition avx2_psum32_block (i : nat) (st : list N * N) : res (list N * N) :=
  let '(buf, sum) := st in
  let* v := load buf (i * 4)%nat 32 in
  let v := add_lanes 4 v (mm256_slli_si256 v 4) in
  let v := add_lanes 4 v (mm256_slli_si256 v 8) in
  let lo := mm256_extracti128_si256 v 0 in
  let hi := mm256_extracti128_si256 v 1 in
  let lane0_sum := le_num (mm_extract_epi32 lo 3) in
  let hi := add_lanes 4 hi (mm_set1_epi32 lane0_sum) in
  let v := mm256_inserti128_si256_1 v hi in
  let v := add_lanes 4 v (mm256_set1_epi32 sum) in
  let* buf := store buf (i * 4)%nat v in
  Ok (buf, le_num (mm256_extract_epi32 v 7)).

Definition avx2_prefix_sum_i32 (count : nat) (buf : list N) (initial : N) : res (list N) :=
  rmap fst (simd_loop 8 count avx2_psum32_block (psum_step 4) (buf, initial mod 2 ^ 32)).

(** carquet_avx2_prefix_sum_i64, body of `for (; i + 4 <= count; i += 4)` *)
Definition avx2_psum64_block (i : nat) (st : list N * N) : res (list N * N) :=
  let '(buf, sum) := st in
  let* v := load buf (i * 8)%nat 32 in
  let v := add_lanes 8 v (mm256_slli_si256 v 8) in
  let lo := mm256_extracti128_si256 v 0 in
  let hi := mm256_extracti128_si256 v 1 in
  let lane0_last := le_num (firstn 8 (mm_srli_si128 lo 8)) in
  let hi := add_lanes 8 hi (mm_set1_epi64x lane0_last) in
  let v := mm256_inserti128_si256_1 v hi in
  let v := add_lanes 8 v (mm256_set1_epi64x sum) in
  let* buf := store buf (i * 8)%nat v in
  Ok (buf, le_num (sub v 24 8)).

Definition avx2_prefix_sum_i64 (count : nat) (buf : list N) (initial : N) : res (list N) :=
  rmap fst (simd_loop 4 count avx2_psum64_block (psum_step 8) (buf, initial mod 2 ^ 64)).

(* ------------------------------------------------------------------ dictionary gather (hardware gather) *)

(** vpgatherdd / vpgatherdq: every lane loads w bytes at base + SIGNED 32-bit index * w; a negative index is
    an address below the dictionary, i.e. outside the caller's array *)
Definition hw_gather (w n : nat) (dict idx : list N) : res (list N) :=
  iter_blocks n 1 0 (fun k acc =>
    let ix := le_num (sub idx (k * 4)%nat 4) in
    if ix <? 2 ^ 31 then let* x := load dict (N.to_nat ix * w)%nat w in Ok (acc ++ x)
    else Fault OobRead) [].

(** carquet_avx2_gather_i32 / _float (the float version casts and calls the i32 one) *)
Definition avx2_gather32_block (dict idxs : list N) (i : nat) (out : list N) : res (list N) :=
  let* idx := load idxs (i * 4)%nat 32 in
  let* r := hw_gather 4 8 dict idx in
  store out (i * 4)%nat r.
Definition avx2_gather_i32 (count : nat) (dict idxs out : list N) : res (list N) :=
  simd_loop 8 count (avx2_gather32_block dict idxs) (gather_step 4 dict idxs) out.
Definition avx2_gather_float := avx2_gather_i32.

(** carquet_avx2_gather_i64 / _double *)
Definition avx2_gather64_block (dict idxs : list N) (i : nat) (out : list N) : res (list N) :=
  let* idx := load idxs (i * 4)%nat 16 in
  let* r := hw_gather 8 4 dict idx in
  store out (i * 8)%nat r.
Definition avx2_gather_i64 (count : nat) (dict idxs out : list N) : res (list N) :=
  simd_loop 4 count (avx2_gather64_block dict idxs) (gather_step 8 dict idxs) out.
Definition avx2_gather_double := avx2_gather_i64.

(* ------------------------------------------------------------------ memset / memcpy *)

(** carquet_avx2_memset: 128-byte unrolled (4 x 32), 32, 16, bytes *)
Definition avx2_memset (n : nat) (value : N) (out : list N) : res (list N) :=
  let n128 := (n / 128)%nat in
  let* out := set_chunks (4 * n128) 32 (set1_epi8 32 value) out 0 in
  let d := (128 * n128)%nat in
  let n32 := ((n - d) / 32)%nat in
  let* out := set_chunks n32 32 (set1_epi8 32 value) out d in
  let d := (d + 32 * n32)%nat in
  let n16 := ((n - d) / 16)%nat in
  let* out := set_chunks n16 16 (set1_epi8 16 value) out d in
  let d := (d + 16 * n16)%nat in
  set_chunks (n - d) 1 [value mod 256] out d.

Definition avx2_memcpy (n : nat) (src out : list N) : res (list N) :=
  let n128 := (n / 128)%nat in
  let* out := copy_chunks2 n128 128 src out 0 in
  let d := (128 * n128)%nat in
  let n32 := ((n - d) / 32)%nat in
  let* out := copy_chunks2 n32 32 src out d in
  let d := (d + 32 * n32)%nat in
  let n16 := ((n - d) / 16)%nat in
  let* out := copy_chunks2 n16 16 src out d in
  let d := (d + 16 * n16)%nat in
  copy_chunks2 (n - d) 1 src out d.

(* ------------------------------------------------------------------ booleans *)

Definition bit_mask32 : list N := bit_mask16 ++ bit_mask16.
Definition shuf_bytes0123 : list N :=
  [0; 0; 0; 0; 0; 0; 0; 0; 1; 1; 1; 1; 1; 1; 1; 1; 2; 2; 2; 2; 2; 2; 2; 2; 3; 3; 3; 3; 3; 3; 3; 3].

(** carquet_avx2_unpack_bools, body of `for (; i + 32 <= count; i += 32)` *)
Definition avx2_unpack_bools_block (inp : list N) (i : nat) (out : list N) : res (list N) :=
  let* packed := load inp (i / 8)%nat 4 in
  let bits := mm256_set1_epi32 (le_num packed) in
  let shuffled := mm256_shuffle_epi8 bits shuf_bytes0123 in
  let masked := mm_and shuffled bit_mask32 in
  let result := mm_min_epu8 masked (set1_epi8 32 1) in
  store out i result.
Definition avx2_unpack_bools (count : nat) (inp out : list N) : res (list N) :=
  simd_loop 32 count (avx2_unpack_bools_block inp) (unpack_step inp) out.

(** carquet_avx2_pack_bools, body of `for (; i + 8 <= count; i += 8)` (multiply by bit weights, horizontal add) *)
Definition avx2_pack_bools_block (inp : list N) (i : nat) (out : list N) : res (list N) :=
  let* x := load inp i 8 in
  let bools := mm_loadl_epi64 x in
  let mult := [1; 2; 4; 8; 16; 32; 64; 128; 0; 0; 0; 0; 0; 0; 0; 0] in
  let zero := zeros 16 in
  let words := mm_unpacklo_epi8 bools zero in
  let mwords := mm_unpacklo_epi8 mult zero in
  let prod := mullo_lanes 2 words mwords in
  let prod := add_lanes 2 prod (mm_srli_si128 prod 2) in
  let prod := add_lanes 2 prod (mm_srli_si128 prod 4) in
  let prod := add_lanes 2 prod (mm_srli_si128 prod 8) in
  store1 out (i / 8)%nat (le_num (mm_extract_epi16 prod 0) mod 256).
Definition avx2_pack_bools (count : nat) (inp out : list N) : res (list N) :=
  let n8 := (count / 8)%nat in
  let* out := iter_blocks n8 8 0 (avx2_pack_bools_block inp) out in
  let i := (8 * n8)%nat in
  if (i <? count)%nat then pack_tail count inp i out else Ok out.

(* ------------------------------------------------------------------ run length *)

(** carquet_avx2_find_run_length_i32: on a block with a mismatch, a scalar scan of that block *)
Fixpoint avx2_run_blocks (nb : nat) (vals first : list N) (i count : nat) : res (nat * bool) :=
  match nb with
  | O => Ok (i, false)
  | S nb' =>
      let* v := load vals (i * 4)%nat 32 in
      let mask := movemask_epi8 (cmpeq_lanes 4 v (flat_map (fun _ => first) (seq 0 8))) in
      if mask =? 0xFFFFFFFF then avx2_run_blocks nb' vals first (i + 8) count
      else
        (* `for (j = i; j < i + 8 && j < count; j++) if (values[j] != first) return j;` then the loop goes on *)
        let* r := run_scan (Nat.min 8 (count - i)) vals first i (i + 8) in
        if (r <? i + 8)%nat then Ok (r, true) else avx2_run_blocks nb' vals first (i + 8) count
  end.
Definition avx2_find_run_length (count : nat) (vals : list N) : res nat :=
  match count with
  | O => Ok O
  | _ => let* first := load vals 0 4 in
         let* r := avx2_run_blocks (count / 8) vals first 0 count in
         let '(i, done) := r in
         if done then Ok i else run_scan (count - i) vals first i count
  end.

(* ------------------------------------------------------------------ fixed-width bit unpackers *)

(** carquet_avx2_bitunpack64_1bit is scalar code: `values[b*8 + i] = (input[b] >> i) & 1` *)
Definition avx2_bitunpack64_1bit (inp : list N) : res (list N) :=
  iter_blocks 8 1 0 (fun b acc => let* x := load1 inp b in
     Ok (acc ++ flat_map (fun i => le_bytes 4 (bit_of x i)) (seq 0 8))) [].

(** carquet_avx2_bitunpack16_4bit: 8 bytes in, 16 x uint32 out *)
Definition avx2_bitunpack16_4bit (inp : list N) : res (list N) :=
  let* x := load inp 0 8 in
  let bytes := mm_loadl_epi64 x in
  let lo_nibbles := mm_and bytes (set1_epi8 16 0x0F) in
  let hi_nibbles := mm_and (mm_srli_epi16 bytes 4) (set1_epi8 16 0x0F) in
  let interleaved := mm_unpacklo_epi8 lo_nibbles hi_nibbles in
  let second_half := mm_unpackhi_epi64 interleaved interleaved in
  Ok (mm256_cvtepu8_epi32 interleaved ++ mm256_cvtepu8_epi32 second_half).

(** carquet_avx2_bitunpack16_8bit: 16 bytes in, 16 x uint32 out *)
Definition avx2_bitunpack16_8bit (inp : list N) : res (list N) :=
  let* bytes := load inp 0 16 in
  Ok (mm256_cvtepu8_epi32 bytes ++ mm256_cvtepu8_epi32 (mm_srli_si128 bytes 8)).

(** carquet_avx2_bitunpack8_16bit: 16 bytes in, 8 x uint32 out *)
Definition avx2_bitunpack8_16bit (inp : list N) : res (list N) :=
  let* words := load inp 0 16 in Ok (mm256_cvtepu16_epi32 words).
