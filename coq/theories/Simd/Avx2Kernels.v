(** src/simd/x86/avx2_ops.c: the AVX2 kernels, transcribed (vector main loop + scalar remainder), every
    load / store with its explicit index range. *)
From Coq Require Import NArith List Arith Bool.
From Carquet Require Import Base.Res Simd.Vec Simd.X86Sem Simd.ScalarKernels Simd.SseKernels.
Import ListNotations.
Local Open Scope nat_scope.
Local Open Scope res_scope.

(* ------------------------------------------------------------------ byte stream split *)

(** static const int8_t shuf_b<k>[32]: the 16-byte SSE table twice *)
Definition shuf32_b (k : N) : list N := shuf_b k ++ shuf_b k.

(** carquet_avx2_byte_stream_split_encode_float, body of `for (; i + 8 <= count; i += 8)` *)
Definition avx2_bss_encode_float_block (count : nat) (src : list N) (i : nat) (out : list N) : res (list N) :=
  let* v := load src (i * 4) 32 in
  let out0 := mm256_shuffle_epi8 v (shuf32_b 0) in
  let out1 := mm256_shuffle_epi8 v (shuf32_b 1) in
  let out2 := mm256_shuffle_epi8 v (shuf32_b 2) in
  let out3 := mm256_shuffle_epi8 v (shuf32_b 3) in
  let* out := store out (0 * count + i) (mm256_extract_epi32 out0 0) in
  let* out := store out (0 * count + i + 4) (mm256_extract_epi32 out0 4) in
  let* out := store out (1 * count + i) (mm256_extract_epi32 out1 0) in
  let* out := store out (1 * count + i + 4) (mm256_extract_epi32 out1 4) in
  let* out := store out (2 * count + i) (mm256_extract_epi32 out2 0) in
  let* out := store out (2 * count + i + 4) (mm256_extract_epi32 out2 4) in
  let* out := store out (3 * count + i) (mm256_extract_epi32 out3 0) in
  store out (3 * count + i + 4) (mm256_extract_epi32 out3 4).

Definition avx2_bss_encode_float (count : nat) (src out : list N) : res (list N) :=
  simd_loop 8 count (avx2_bss_encode_float_block count src) (bss_enc_step 4 count src) out.

(** carquet_avx2_byte_stream_split_decode_float, body of `for (; i + 8 <= count; i += 8)` *)
Definition avx2_bss_decode_float_block (count : nat) (src : list N) (i : nat) (out : list N) : res (list N) :=
  let* t0 := load src (0 * count + i) 8 in
  let* t1 := load src (1 * count + i) 8 in
  let* t2 := load src (2 * count + i) 8 in
  let* t3 := load src (3 * count + i) 8 in
  let b0 := mm_cvtsi64_si128 t0 in
  let b1 := mm_cvtsi64_si128 t1 in
  let b2 := mm_cvtsi64_si128 t2 in
  let b3 := mm_cvtsi64_si128 t3 in
  let lo01 := mm_unpacklo_epi8 b0 b1 in
  let lo23 := mm_unpacklo_epi8 b2 b3 in
  let result_lo := mm_unpacklo_epi16 lo01 lo23 in
  let result_hi := mm_unpackhi_epi16 lo01 lo23 in
  let* out := store out (i * 4) result_lo in
  store out (i * 4 + 16) result_hi.

Definition avx2_bss_decode_float (count : nat) (src out : list N) : res (list N) :=
  simd_loop 8 count (avx2_bss_decode_float_block count src) (bss_dec_step 4 count src) out.

(** carquet_avx2_byte_stream_split_encode_double: four values per iteration, scalar byte moves *)
Definition avx2_bss_encode_double_block (count : nat) (src : list N) (i : nat) (out : list N) : res (list N) :=
  iter_blocks 8 1 0 (fun b o =>
    let* x0 := load1 src (i * 8 + 0 + b) in
    let* o := store1 o (b * count + i + 0) x0 in
    let* x1 := load1 src (i * 8 + 8 + b) in
    let* o := store1 o (b * count + i + 1) x1 in
    let* x2 := load1 src (i * 8 + 16 + b) in
    let* o := store1 o (b * count + i + 2) x2 in
    let* x3 := load1 src (i * 8 + 24 + b) in
    store1 o (b * count + i + 3) x3) out.

Definition avx2_bss_encode_double (count : nat) (src out : list N) : res (list N) :=
  simd_loop 4 count (avx2_bss_encode_double_block count src) (bss_enc_step 8 count src) out.

(** carquet_avx2_byte_stream_split_decode_double has no vector loop *)
Definition avx2_bss_decode_double (count : nat) (src out : list N) : res (list N) :=
  scalar_loop count (bss_dec_step 8 count src) out.
