(** C15: kernels whose output is produced sequentially - element i of the output (w bytes at i*w) is a
    function [elem i] of the inputs only.  One generic theorem: if the scalar step stores [elem i] at i*w and a
    vector block stores the concatenation of W consecutive elements at i*w, then the vector kernel (main loop +
    scalar remainder) returns what the scalar loop returns, without a fault, for every count.
    Instances: fill_def_levels, unpack_bools (SSE/AVX2/AVX-512), dictionary gathers. *)
From Coq Require Import NArith List Arith Lia Bool.
From Carquet Require Import Base.Res Simd.Vec Simd.X86Sem Simd.ScalarKernels Simd.SseKernels Simd.Avx2Kernels
  Simd.Avx512Kernels.
Import ListNotations.
Local Open Scope nat_scope.

Section Seq.
Variables (w count : nat) (elem : nat -> list N).
Hypothesis Helem : forall i, i < count -> length (elem i) = w.

(** the first i elements have been produced *)
Definition Pseq (i : nat) (out : list N) : Prop :=
  length out = w * count /\ forall k, k < i -> sub out (k * w) w = elem k.

Lemma elems_length i W : i + W <= count -> length (flat_map elem (seq i W)) = W * w.
Proof.
  revert i. induction W as [|W IH]; intros i H; [reflexivity|].
  cbn [seq flat_map]. rewrite app_length, Helem by lia. rewrite IH by lia. lia.
Qed.

Lemma sub_elems i W k : i + W <= count -> k < W -> sub (flat_map elem (seq i W)) (k * w) w = elem (i + k).
Proof.
  revert i k. induction W as [|W IH]; intros i k H Hk; [lia|].
  cbn [seq flat_map]. destruct k as [|k].
  - cbn [Nat.mul]. unfold sub. cbn [skipn]. rewrite Nat.add_0_r.
    rewrite firstn_app, Helem by lia. rewrite Nat.sub_diag. cbn [firstn]. rewrite app_nil_r.
    rewrite <- (Helem i) at 1 by lia. apply firstn_all.
  - unfold sub. replace (S k * w) with (length (elem i) + k * w) by (rewrite Helem by lia; lia).
    rewrite skipn_app. rewrite skipn_all2 by lia. cbn [app].
    replace (length (elem i) + k * w - length (elem i)) with (k * w) by lia.
    change (firstn w (skipn (k * w) (flat_map elem (seq (S i) W)))) with (sub (flat_map elem (seq (S i) W)) (k * w) w).
    rewrite IH by lia. f_equal. lia.
Qed.

Lemma sub_upd_same (out v : list N) off k :
  off + length v <= length out -> k * w + w <= length v ->
  sub (upd out (off) v) (off + k * w) w = sub v (k * w) w.
Proof.
  intros H1 H2. apply (list_eq_nth _ _ 0%N).
  - rewrite !length_sub; [reflexivity|lia|rewrite length_upd by lia; lia].
  - intros j Hj. rewrite length_sub in Hj by (rewrite length_upd by lia; lia).
    rewrite !nth_sub by lia. rewrite nth_upd_in by lia. f_equal. lia.
Qed.

Lemma sub_upd_other (out v : list N) off k :
  off + length v <= length out -> k * w + w <= off ->
  sub (upd out off v) (k * w) w = sub out (k * w) w.
Proof.
  intros H1 H2. apply (list_eq_nth _ _ 0%N).
  - rewrite !length_sub; [reflexivity|lia|rewrite length_upd by lia; lia].
  - intros j Hj. rewrite length_sub in Hj by (rewrite length_upd by lia; lia).
    rewrite !nth_sub by lia. rewrite nth_upd_out by lia. reflexivity.
Qed.

(** storing W consecutive elements at i*w advances the invariant by W *)
Lemma Pseq_block i W out :
  i + W <= count -> Pseq i out -> Pseq (i + W) (upd out (i * w) (flat_map elem (seq i W))).
Proof.
  intros H [L Hk]. pose proof (elems_length i W H) as Le.
  assert (R : i * w + length (flat_map elem (seq i W)) <= length out) by (rewrite Le, L; nia).
  split; [rewrite length_upd by exact R; exact L|].
  intros k Hk'. destruct (Nat.lt_ge_cases k i) as [Lt|Ge].
  - rewrite sub_upd_other by (try exact R; nia). apply Hk. exact Lt.
  - replace (k * w) with (i * w + (k - i) * w) by nia.
    rewrite sub_upd_same by (try exact R; rewrite Le; nia).
    rewrite sub_elems by lia. f_equal. lia.
Qed.

Lemma Pseq_0 out : length out = w * count -> Pseq 0 out.
Proof. intros H. split; [exact H|]. intros; lia. Qed.

Lemma Pseq_final o1 o2 : 0 < w -> Pseq count o1 -> Pseq count o2 -> o1 = o2.
Proof.
  intros Hw [L1 H1] [L2 H2]. apply (list_eq_nth _ _ 0%N); [lia|].
  intros k Hk. rewrite L1 in Hk.
  assert (Hi : k / w < count) by (apply Nat.div_lt_upper_bound; lia).
  assert (Hb : k mod w < w) by (apply Nat.mod_upper_bound; lia).
  pose proof (Nat.div_mod k w ltac:(lia)) as D.
  replace k with (k / w * w + k mod w) by lia.
  rewrite <- !(nth_sub _ (k / w * w) w) by exact Hb. rewrite H1, H2 by exact Hi. reflexivity.
Qed.

Variables (step block : nat -> list N -> res (list N)) (W : nat).
Hypothesis Hw : 0 < w.
Hypothesis HW : 0 < W.
Hypothesis Hstep : forall i out, i < count -> length out = w * count -> step i out = Ok (upd out (i * w) (elem i)).
Hypothesis Hblock : forall i out, i + W <= count -> length out = w * count ->
                                  block i out = Ok (upd out (i * w) (flat_map elem (seq i W))).

Lemma seq_step_inv i out : i < count -> Pseq i out -> exists o, step i out = Ok o /\ Pseq (i + 1) o.
Proof.
  intros Hi HP. pose proof HP as [L _]. rewrite Hstep by assumption. eexists. split; [reflexivity|].
  replace (elem i) with (flat_map elem (seq i 1)) by (cbn; apply app_nil_r). apply Pseq_block; [lia|exact HP].
Qed.

Theorem seq_kernel_eq out0 :
  length out0 = w * count ->
  exists out, simd_loop W count block step out0 = Ok out /\ scalar_loop count step out0 = Ok out.
Proof.
  intros L.
  destruct (simd_loop_inv Pseq W count block step out0 HW (Pseq_0 out0 L)) as [o1 [E1 P1]].
  - intros j s0 Hj HP. pose proof HP as [L' _]. rewrite Hblock by assumption. eexists. split; [reflexivity|].
    apply Pseq_block; assumption.
  - intros j s0 Hj HP. apply seq_step_inv; assumption.
  - destruct (scalar_loop_inv Pseq count step out0 (Pseq_0 out0 L)) as [o2 [E2 P2]].
    + intros j s0 Hj HP. apply seq_step_inv; assumption.
    + exists o1. split; [exact E1|]. rewrite E2. f_equal. apply Pseq_final; assumption.
Qed.
End Seq.
