(** C15: kernels whose output is produced sequentially - element i of the output (w bytes at i*w) is a
    function [elem i] of the inputs only.  One generic theorem: if the scalar step stores [elem i] at i*w and a
    vector block stores the concatenation of W consecutive elements at i*w, then the vector kernel (main loop +
    scalar remainder) returns what the scalar loop returns, without a fault, for every count.
    Instances: fill_def_levels, unpack_bools (SSE/AVX2/AVX-512), dictionary gathers. *)
From Coq Require Import NArith ZArith List Arith Lia Bool ZifyBool ZifyNat ZifyN.
From Carquet Require Import Base.Res Simd.Vec Simd.X86Sem Simd.ScalarKernels Simd.SseKernels Simd.Avx2Kernels
  Simd.Avx512Kernels Simd.BitLemmas.
Import ListNotations.
Local Open Scope nat_scope.

(* ------------------------------------------------------------------ element-wise views of an update *)

Lemma sub_upd_same (w : nat) (out v : list N) off k :
  off + length v <= length out -> k * w + w <= length v ->
  sub (upd out (off) v) (off + k * w) w = sub v (k * w) w.
Proof.
  intros H1 H2. apply (list_eq_nth _ _ 0%N).
  - rewrite !length_sub; [reflexivity|lia|rewrite length_upd by lia; lia].
  - intros j Hj. rewrite length_sub in Hj by (rewrite length_upd by lia; lia).
    rewrite !nth_sub by lia. rewrite nth_upd_in by lia. f_equal. lia.
Qed.

Lemma sub_upd_other (w : nat) (out v : list N) off k :
  off + length v <= length out -> k * w + w <= off ->
  sub (upd out off v) (k * w) w = sub out (k * w) w.
Proof.
  intros H1 H2. apply (list_eq_nth _ _ 0%N).
  - rewrite !length_sub; [reflexivity|lia|rewrite length_upd by lia; lia].
  - intros j Hj. rewrite length_sub in Hj by (rewrite length_upd by lia; lia).
    rewrite !nth_sub by lia. rewrite nth_upd_out by lia. reflexivity.
Qed.

Lemma sub_upd_after (w : nat) (out v : list N) off k :
  off + length v <= length out -> off + length v <= k * w -> k * w + w <= length out ->
  sub (upd out off v) (k * w) w = sub out (k * w) w.
Proof.
  intros H1 H2 H3. apply (list_eq_nth _ _ 0%N).
  - rewrite !length_sub; [reflexivity|lia|rewrite length_upd by lia; lia].
  - intros j Hj. rewrite length_sub in Hj by (rewrite length_upd by lia; lia).
    rewrite !nth_sub by lia. rewrite nth_upd_out by lia. reflexivity.
Qed.

Section Seq.
Variables (w count : nat) (elem : nat -> list N).
Hypothesis Helem : forall i, i < count -> length (elem i) = w.

(** the first i elements have been produced *)
Definition Pseq (i : nat) (out : list N) : Prop :=
  length out = w * count /\ forall k, k < i -> sub out (k * w) w = elem k.

Lemma elems_length i W : i + W <= count -> length (flat_map elem (seq i W)) = W * w.
Proof.
  revert i. induction W as [|W IH]; intros i H; [reflexivity|].
  cbn [seq flat_map]. rewrite app_length, Helem by lia. rewrite IH by lia. lia.
Qed.

Lemma sub_elems i W k : i + W <= count -> k < W -> sub (flat_map elem (seq i W)) (k * w) w = elem (i + k).
Proof.
  revert i k. induction W as [|W IH]; intros i k H Hk; [lia|].
  cbn [seq flat_map]. destruct k as [|k].
  - cbn [Nat.mul]. unfold sub. cbn [skipn]. rewrite Nat.add_0_r.
    rewrite firstn_app, Helem by lia. rewrite Nat.sub_diag. cbn [firstn]. rewrite app_nil_r.
    rewrite <- (Helem i) at 1 by lia. apply firstn_all.
  - unfold sub. replace (S k * w) with (length (elem i) + k * w) by (rewrite Helem by lia; lia).
    rewrite skipn_app. rewrite skipn_all2 by lia. cbn [app].
    replace (length (elem i) + k * w - length (elem i)) with (k * w) by lia.
    change (firstn w (skipn (k * w) (flat_map elem (seq (S i) W)))) with (sub (flat_map elem (seq (S i) W)) (k * w) w).
    rewrite IH by lia. f_equal. lia.
Qed.




(** storing W consecutive elements at i*w advances the invariant by W *)
Lemma Pseq_block i W out :
  i + W <= count -> Pseq i out -> Pseq (i + W) (upd out (i * w) (flat_map elem (seq i W))).
Proof.
  intros H [L Hk]. pose proof (elems_length i W H) as Le.
  assert (R : i * w + length (flat_map elem (seq i W)) <= length out) by (rewrite Le, L; nia).
  split; [rewrite length_upd by exact R; exact L|].
  intros k Hk'. destruct (Nat.lt_ge_cases k i) as [Lt|Ge].
  - rewrite sub_upd_other by (try exact R; nia). apply Hk. exact Lt.
  - replace (k * w) with (i * w + (k - i) * w) by nia.
    rewrite sub_upd_same by (try exact R; rewrite Le; nia).
    rewrite sub_elems by lia. f_equal. lia.
Qed.

Lemma Pseq_0 out : length out = w * count -> Pseq 0 out.
Proof. intros H. split; [exact H|]. intros; lia. Qed.

Lemma Pseq_final o1 o2 : 0 < w -> Pseq count o1 -> Pseq count o2 -> o1 = o2.
Proof.
  intros Hw [L1 H1] [L2 H2]. apply (list_eq_nth _ _ 0%N); [lia|].
  intros k Hk. rewrite L1 in Hk.
  assert (Hi : k / w < count) by (apply Nat.div_lt_upper_bound; lia).
  assert (Hb : k mod w < w) by (apply Nat.mod_upper_bound; lia).
  pose proof (Nat.div_mod k w ltac:(lia)) as D.
  replace k with (k / w * w + k mod w) by lia.
  rewrite <- !(nth_sub _ (k / w * w) w) by exact Hb. rewrite H1, H2 by exact Hi. reflexivity.
Qed.

Variables (step block : nat -> list N -> res (list N)) (W : nat).
Hypothesis Hw : 0 < w.
Hypothesis HW : 0 < W.
Hypothesis Hstep : forall i out, i < count -> length out = w * count -> step i out = Ok (upd out (i * w) (elem i)).
Hypothesis Hblock : forall i out, i mod W = 0 -> i + W <= count -> length out = w * count ->
                                  block i out = Ok (upd out (i * w) (flat_map elem (seq i W))).

Lemma seq_step_inv i out : i < count -> Pseq i out -> exists o, step i out = Ok o /\ Pseq (i + 1) o.
Proof.
  intros Hi HP. pose proof HP as [L _]. rewrite Hstep by assumption. eexists. split; [reflexivity|].
  replace (elem i) with (flat_map elem (seq i 1)) by (cbn; apply app_nil_r). apply Pseq_block; [lia|exact HP].
Qed.

Theorem seq_kernel_eq out0 :
  length out0 = w * count ->
  exists out, simd_loop W count block step out0 = Ok out /\ scalar_loop count step out0 = Ok out.
Proof.
  intros L.
  destruct (simd_loop_inv_div Pseq W count block step out0 HW (Pseq_0 out0 L)) as [o1 [E1 P1]].
  - intros j s0 Hm Hj HP. pose proof HP as [L' _]. rewrite Hblock by assumption. eexists. split; [reflexivity|].
    apply Pseq_block; assumption.
  - intros j s0 Hj HP. apply seq_step_inv; assumption.
  - destruct (scalar_loop_inv Pseq count step out0 (Pseq_0 out0 L)) as [o2 [E2 P2]].
    + intros j s0 Hj HP. apply seq_step_inv; assumption.
    + exists o1. split; [exact E1|]. rewrite E2. f_equal. apply Pseq_final; assumption.
Qed.

(** kernels with two vector loops of decreasing width before the scalar remainder *)
Variables (block2 : nat -> list N -> res (list N)) (W2 : nat).
Hypothesis HW2 : 0 < W2.
Hypothesis Hblock2 : forall i out, i + W2 <= count -> length out = w * count ->
                                   block2 i out = Ok (upd out (i * w) (flat_map elem (seq i W2))).

Theorem seq_kernel3_eq out0 :
  length out0 = w * count ->
  exists out,
    bind (iter_blocks (count / W) W 0 block out0) (fun o =>
    bind (iter_blocks ((count - W * (count / W)) / W2) W2 (W * (count / W)) block2 o) (fun o =>
    iter_blocks (count - (W * (count / W) + W2 * ((count - W * (count / W)) / W2))) 1
                (W * (count / W) + W2 * ((count - W * (count / W)) / W2)) step o)) = Ok out /\
    scalar_loop count step out0 = Ok out.
Proof.
  intros L.
  pose proof (Nat.mul_div_le count W ltac:(lia)) as Hle.
  set (i1 := W * (count / W)) in *.
  pose proof (Nat.mul_div_le (count - i1) W2 ltac:(lia)) as Hle2.
  set (n2 := (count - i1) / W2) in *.
  destruct (iter_blocks_inv (fun j s => Pseq j s /\ j mod W = 0) block W (count / W) 0 out0) as [o1 [E1 [P1 _]]].
  { split; [exact (Pseq_0 out0 L)|]. apply Nat.mod_0_l. lia. }
  { intros j s0 _ H2 [HP Hm]. pose proof HP as [L' _].
    cbn in H2. rewrite (Nat.mul_comm (count / W) W) in H2. fold i1 in H2.
    rewrite Hblock by (try exact L'; try exact Hm; lia).
    eexists. split; [reflexivity|]. split; [apply Pseq_block; [lia|exact HP]|].
    rewrite <- Nat.add_mod_idemp_l by lia. rewrite Hm. cbn [plus]. apply Nat.mod_same. lia. }
  rewrite E1. cbn [bind]. cbn [plus] in P1. rewrite (Nat.mul_comm (count / W) W) in P1. fold i1 in P1.
  destruct (iter_blocks_inv Pseq block2 W2 n2 i1 o1 P1) as [o2 [E2 P2]].
  { intros j s0 H1 H2 HP. pose proof HP as [L' _]. rewrite (Nat.mul_comm n2 W2) in H2.
    rewrite Hblock2 by (try exact L'; lia). eexists. split; [reflexivity|]. apply Pseq_block; [lia|exact HP]. }
  rewrite E2. cbn [bind]. rewrite (Nat.mul_comm n2 W2) in P2.
  destruct (iter_blocks_inv Pseq step 1 (count - (i1 + W2 * n2)) (i1 + W2 * n2) o2 P2) as [o3 [E3 P3]].
  { intros j s0 H1 H2 HP. apply seq_step_inv; [lia|exact HP]. }
  replace (i1 + W2 * n2 + (count - (i1 + W2 * n2)) * 1) with count in P3 by lia.
  destruct (scalar_loop_inv Pseq count step out0 (Pseq_0 out0 L)) as [o4 [E4 P4]].
  { intros j s0 Hj HP. apply seq_step_inv; assumption. }
  exists o3. split; [exact E3|]. rewrite E4. f_equal. apply Pseq_final; assumption.
Qed.
End Seq.

Ltac Zify.zify_post_hook ::= Z.div_mod_to_equations.

(* ------------------------------------------------------------------ fill_def_levels *)

Theorem sse_fill_def_levels_eq_scalar count v out0 :
  length out0 = 2 * count ->
  exists out, sse_fill_def_levels count v out0 = Ok out /\ scalar_fill_def_levels count v out0 = Ok out.
Proof.
  intros L. unfold sse_fill_def_levels, scalar_fill_def_levels.
  apply (seq_kernel_eq 2 count (fun _ => le_bytes 2 v)); try lia; try exact L.
  - intros. apply le_bytes_length.
  - intros i out Hi Lo. unfold fill_step. apply store_ok. rewrite le_bytes_length. lia.
  - intros i out _ Hi Lo. unfold sse_fill_block, mm_set1_epi16, set1_lanes.
    rewrite (flat_map_shift (fun _ => le_bytes 2 v) i 8). apply store_ok. cbn [seq flat_map].
    rewrite !app_length, !le_bytes_length. cbn [length]. lia.
Qed.

(* ------------------------------------------------------------------ unpack_bools *)

Tactic Notation "dlist" ident(v) hyp(H) integer(n) :=
  do n (destruct v as [|? v]; [simpl in H; discriminate H|]); destruct v; [|simpl in H; discriminate H]; clear H.

Section Unpack.
Variables (count : nat) (inp : list N).
Hypothesis Hinp : length inp = (count + 7) / 8.
Hypothesis Hbytes : bytes_ok inp.

(** output byte k *)
Definition unpack_elem (k : nat) : list N := [bit_of (nth (k / 8) inp 0%N) (k mod 8)].

Lemma unpack_step_spec i out :
  i < count -> length out = 1 * count -> unpack_step inp i out = Ok (upd out (i * 1) (unpack_elem i)).
Proof.
  intros Hi Lo. unfold unpack_step. rewrite load1_ok by lia. cbn [bind].
  rewrite store1_ok by lia. rewrite Nat.mul_1_r. reflexivity.
Qed.

(** the bytes of a block that starts at a multiple of 8, as a function of the packed bytes it loads *)
Lemma unpack_elems_block i n :
  i mod 8 = 0 ->
  flat_map unpack_elem (seq i n) = map (fun k => bit_of (nth (k / 8) (sub inp (i / 8) ((n + 7) / 8)) 0%N) (k mod 8)) (seq 0 n).
Proof.
  intros Hi. rewrite flat_map_shift. unfold unpack_elem. rewrite flat_map_singleton.
  apply map_ext_in. intros k Hk. apply in_seq in Hk.
  rewrite nth_sub by lia. f_equal; [f_equal|]; lia.
Qed.

Lemma min_bits8 (p : N) :
  [N.min (N.land p 1) 1; N.min (N.land p 2) 1; N.min (N.land p 4) 1; N.min (N.land p 8) 1;
   N.min (N.land p 16) 1; N.min (N.land p 32) 1; N.min (N.land p 64) 1; N.min (N.land p 128) 1]%N
  = [bit_of p 0; bit_of p 1; bit_of p 2; bit_of p 3; bit_of p 4; bit_of p 5; bit_of p 6; bit_of p 7].
Proof.
  change ([N.min (N.land p (2 ^ 0)) 1; N.min (N.land p (2 ^ 1)) 1; N.min (N.land p (2 ^ 2)) 1; N.min (N.land p (2 ^ 3)) 1;
           N.min (N.land p (2 ^ 4)) 1; N.min (N.land p (2 ^ 5)) 1; N.min (N.land p (2 ^ 6)) 1; N.min (N.land p (2 ^ 7)) 1]%N
          = [bit_of p 0; bit_of p 1; bit_of p 2; bit_of p 3; bit_of p 4; bit_of p 5; bit_of p 6; bit_of p 7]).
  rewrite !min_land_pow2, !bit_of_testbit. reflexivity.
Qed.

Lemma sse_unpack_block_compute (p0 p1 : N) :
  (p0 < 256)%N -> (p1 < 256)%N ->
  mm_min_epu8 (mm_and (mm_shuffle_epi8 (mm_set1_epi16 (le_num [p0; p1])) shuf_bytes01) bit_mask16) (set1_epi8 16 1)
  = map (fun k => bit_of (nth (k / 8) [p0; p1] 0%N) (k mod 8)) (seq 0 16).
Proof.
  intros H0 H1.
  assert (E : mm_set1_epi16 (le_num [p0; p1]) = [p0; p1; p0; p1; p0; p1; p0; p1; p0; p1; p0; p1; p0; p1; p0; p1]).
  { unfold mm_set1_epi16, set1_lanes. cbn [seq flat_map].
    change 2%nat with (length [p0; p1]). rewrite le_bytes_le_num by (repeat constructor; assumption). reflexivity. }
  rewrite E.
  change (mm_min_epu8 (mm_and (mm_shuffle_epi8 [p0; p1; p0; p1; p0; p1; p0; p1; p0; p1; p0; p1; p0; p1; p0; p1] shuf_bytes01) bit_mask16)
                      (set1_epi8 16 1))
    with ([N.min (N.land p0 1) 1; N.min (N.land p0 2) 1; N.min (N.land p0 4) 1; N.min (N.land p0 8) 1;
           N.min (N.land p0 16) 1; N.min (N.land p0 32) 1; N.min (N.land p0 64) 1; N.min (N.land p0 128) 1] ++
          [N.min (N.land p1 1) 1; N.min (N.land p1 2) 1; N.min (N.land p1 4) 1; N.min (N.land p1 8) 1;
           N.min (N.land p1 16) 1; N.min (N.land p1 32) 1; N.min (N.land p1 64) 1; N.min (N.land p1 128) 1])%N.
  rewrite !min_bits8. reflexivity.
Qed.
End Unpack.

Theorem sse_unpack_bools_eq_scalar count inp out0 :
  length inp = (count + 7) / 8 -> bytes_ok inp -> length out0 = count ->
  exists out, sse_unpack_bools count inp out0 = Ok out /\ scalar_unpack_bools count inp out0 = Ok out.
Proof.
  intros Hinp Hb L. unfold sse_unpack_bools, scalar_unpack_bools.
  apply (seq_kernel_eq 1 count (unpack_elem inp)); try lia.
  - intros; reflexivity.
  - intros i out Hi Lo. apply (unpack_step_spec count inp Hinp); assumption.
  - intros i out Hm Hi Lo. unfold sse_unpack_bools_block.
    rewrite load_ok by lia. cbn [bind].
    rewrite (unpack_elems_block count inp Hinp i 16) by lia. change ((16 + 7) / 8) with 2.
    pose proof (bytes_ok_sub inp (i / 8) 2 Hb) as Bp.
    assert (Lp : length (sub inp (i / 8) 2) = 2) by (apply length_sub; lia).
    destruct (sub inp (i / 8) 2) as [|p0 [|p1 [|? ?]]]; try discriminate Lp.
    apply bytes_ok_cons in Bp. destruct Bp as [B0 Bp]. apply bytes_ok_cons in Bp. destruct Bp as [B1 _].
    rewrite sse_unpack_block_compute by assumption.
    rewrite store_ok by (rewrite map_length, seq_length; lia). rewrite Nat.mul_1_r. reflexivity.
Qed.

Lemma avx2_unpack_block_compute (p0 p1 p2 p3 : N) :
  (p0 < 256)%N -> (p1 < 256)%N -> (p2 < 256)%N -> (p3 < 256)%N ->
  mm_min_epu8 (mm_and (mm256_shuffle_epi8 (mm256_set1_epi32 (le_num [p0; p1; p2; p3])) shuf_bytes0123) bit_mask32) (set1_epi8 32 1)
  = map (fun k => bit_of (nth (k / 8) [p0; p1; p2; p3] 0%N) (k mod 8)) (seq 0 32).
Proof.
  intros H0 H1 H2 H3.
  assert (E : mm256_set1_epi32 (le_num [p0; p1; p2; p3]) =
              [p0; p1; p2; p3; p0; p1; p2; p3; p0; p1; p2; p3; p0; p1; p2; p3; p0; p1; p2; p3; p0; p1; p2; p3; p0; p1; p2; p3; p0; p1; p2; p3]).
  { unfold mm256_set1_epi32, set1_lanes. cbn [seq flat_map].
    change 4%nat with (length [p0; p1; p2; p3]). rewrite le_bytes_le_num by (repeat constructor; assumption). reflexivity. }
  rewrite E.
  match goal with |- ?X = _ =>
    change X with
      (([N.min (N.land p0 1) 1; N.min (N.land p0 2) 1; N.min (N.land p0 4) 1; N.min (N.land p0 8) 1;
         N.min (N.land p0 16) 1; N.min (N.land p0 32) 1; N.min (N.land p0 64) 1; N.min (N.land p0 128) 1] ++
        [N.min (N.land p1 1) 1; N.min (N.land p1 2) 1; N.min (N.land p1 4) 1; N.min (N.land p1 8) 1;
         N.min (N.land p1 16) 1; N.min (N.land p1 32) 1; N.min (N.land p1 64) 1; N.min (N.land p1 128) 1]) ++
       ([N.min (N.land p2 1) 1; N.min (N.land p2 2) 1; N.min (N.land p2 4) 1; N.min (N.land p2 8) 1;
         N.min (N.land p2 16) 1; N.min (N.land p2 32) 1; N.min (N.land p2 64) 1; N.min (N.land p2 128) 1] ++
        [N.min (N.land p3 1) 1; N.min (N.land p3 2) 1; N.min (N.land p3 4) 1; N.min (N.land p3 8) 1;
         N.min (N.land p3 16) 1; N.min (N.land p3 32) 1; N.min (N.land p3 64) 1; N.min (N.land p3 128) 1]))%N end.
  rewrite !min_bits8. reflexivity.
Qed.

Theorem avx2_unpack_bools_eq_scalar count inp out0 :
  length inp = (count + 7) / 8 -> bytes_ok inp -> length out0 = count ->
  exists out, avx2_unpack_bools count inp out0 = Ok out /\ scalar_unpack_bools count inp out0 = Ok out.
Proof.
  intros Hinp Hb L. unfold avx2_unpack_bools, scalar_unpack_bools.
  apply (seq_kernel_eq 1 count (unpack_elem inp)); try lia.
  - intros; reflexivity.
  - intros i out Hi Lo. apply (unpack_step_spec count inp Hinp); assumption.
  - intros i out Hm Hi Lo. unfold avx2_unpack_bools_block.
    rewrite load_ok by lia. cbn [bind].
    rewrite (unpack_elems_block count inp Hinp i 32) by lia. change ((32 + 7) / 8) with 4.
    pose proof (bytes_ok_sub inp (i / 8) 4 Hb) as Bp.
    assert (Lp : length (sub inp (i / 8) 4) = 4) by (apply length_sub; lia).
    destruct (sub inp (i / 8) 4) as [|p0 [|p1 [|p2 [|p3 [|? ?]]]]]; try discriminate Lp.
    apply bytes_ok_cons in Bp. destruct Bp as [B0 Bp]. apply bytes_ok_cons in Bp. destruct Bp as [B1 Bp].
    apply bytes_ok_cons in Bp. destruct Bp as [B2 Bp]. apply bytes_ok_cons in Bp. destruct Bp as [B3 _].
    rewrite avx2_unpack_block_compute by assumption.
    rewrite store_ok by (rewrite map_length, seq_length; lia). rewrite Nat.mul_1_r. reflexivity.
Qed.

Theorem avx512_unpack_bools_eq_scalar count inp out0 :
  length inp = (count + 7) / 8 -> bytes_ok inp -> length out0 = count ->
  exists out, avx512_unpack_bools count inp out0 = Ok out /\ scalar_unpack_bools count inp out0 = Ok out.
Proof.
  intros Hinp Hb L. unfold avx512_unpack_bools, scalar_unpack_bools.
  apply (seq_kernel_eq 1 count (unpack_elem inp)); try lia.
  - intros; reflexivity.
  - intros i out Hi Lo. apply (unpack_step_spec count inp Hinp); assumption.
  - intros i out Hm Hi Lo. unfold avx512_unpack_bools_block.
    rewrite load_ok by lia. cbn [bind].
    rewrite (unpack_elems_block count inp Hinp i 64) by lia. change ((64 + 7) / 8) with 8.
    pose proof (bytes_ok_sub inp (i / 8) 8 Hb) as Bp.
    set (packed := sub inp (i / 8) 8) in *.
    assert (E : mm512_maskz_set1_epi8 (le_num packed) 1 =
                map (fun k => bit_of (nth (k / 8) packed 0%N) (k mod 8)) (seq 0 64)).
    { unfold mm512_maskz_set1_epi8. apply map_ext_in. intros k Hk. apply in_seq in Hk.
      rewrite testbit_le_num by exact Bp. rewrite bit_of_testbit. change (1 mod 256)%N with 1%N.
      replace (N.to_nat (N.of_nat k / 8)) with (k / 8) by lia.
      replace (N.of_nat k mod 8)%N with (N.of_nat (k mod 8)) by lia. reflexivity. }
    rewrite E. rewrite store_ok by (rewrite map_length, seq_length; lia). rewrite Nat.mul_1_r. reflexivity.
Qed.

(* ------------------------------------------------------------------ dictionary gather *)

Lemma iter_acc (f : nat -> list N -> res (list N)) (e : nat -> list N) : forall n s acc,
  (forall k a, s <= k < s + n -> f k a = Ok (a ++ e k)) ->
  iter_blocks n 1 s f acc = Ok (acc ++ flat_map e (seq s n)).
Proof.
  induction n as [|n IH]; intros s acc H.
  - cbn. rewrite app_nil_r. reflexivity.
  - cbn [iter_blocks seq flat_map]. rewrite H by lia. cbn [bind]. replace (s + 1) with (S s) by lia.
    rewrite IH by (intros; apply H; lia). rewrite app_assoc. reflexivity.
Qed.

Section Gather.
Variables (w count : nat) (dict idxs : list N).
Hypothesis Hw : 0 < w.
Hypothesis Hidx : length idxs = 4 * count.

Definition gather_index (i : nat) : N := le_num (sub idxs (i * 4) 4).
Definition gather_elem (i : nat) : list N := sub dict (N.to_nat (gather_index i) * w) w.

(** the kernel's domain: every index addresses an element of the dictionary (the reader validates this before
    the call, page_reader.c) *)
Definition gather_in_range : Prop := forall i, i < count -> N.to_nat (gather_index i) * w + w <= length dict.
(** ... and, for the hardware gathers, is below 2^31 (dictionary_count is an int32_t) *)
Definition gather_small : Prop := forall i, i < count -> (gather_index i < 2 ^ 31)%N.

Hypothesis Hrange : gather_in_range.

Lemma gather_elem_length i : i < count -> length (gather_elem i) = w.
Proof. intros Hi. apply length_sub. apply Hrange. exact Hi. Qed.

Lemma gather_step_spec i out :
  i < count -> length out = w * count -> gather_step w dict idxs i out = Ok (upd out (i * w) (gather_elem i)).
Proof.
  intros Hi Lo. unfold gather_step. rewrite load_ok by lia. cbn [bind].
  fold (gather_index i). rewrite load_ok by (apply Hrange; exact Hi). cbn [bind].
  fold (gather_elem i). apply store_ok. rewrite gather_elem_length by exact Hi. nia.
Qed.

(** n scalar loads assembled into a register (SSE: _mm_set_epi32 / _mm_set_epi64x of scalar loads) *)
Lemma gather_n_ok n i : i + n <= count -> gather_n w n dict idxs i = Ok (flat_map gather_elem (seq i n)).
Proof.
  intros H. unfold gather_n.
  rewrite (iter_acc _ (fun k => gather_elem (i + k))).
  - cbn [app]. f_equal. symmetry. apply flat_map_shift.
  - intros k a Hk. rewrite load_ok by lia. cbn [bind]. fold (gather_index (i + k)).
    rewrite load_ok by (apply Hrange; lia). reflexivity.
Qed.

(** the hardware gather of n lanes whose indices were loaded from idxs[i .. i+n) *)
Lemma hw_gather_ok n i :
  gather_small -> i + n <= count ->
  hw_gather w n dict (sub idxs (i * 4) (n * 4)) = Ok (flat_map gather_elem (seq i n)).
Proof.
  intros Hs H. unfold hw_gather.
  rewrite (iter_acc _ (fun k => gather_elem (i + k))).
  - cbn [app]. f_equal. symmetry. apply flat_map_shift.
  - intros k a Hk. rewrite sub_sub by lia. replace (i * 4 + k * 4) with ((i + k) * 4) by lia.
    fold (gather_index (i + k)). pose proof (Hs (i + k) ltac:(lia)) as Hlt.
    destruct (N.ltb_spec (gather_index (i + k)) (2 ^ 31)) as [_|G]; [|lia].
    rewrite load_ok by (apply Hrange; lia). reflexivity.
Qed.

Lemma gather_elems_length i n : i + n <= count -> length (flat_map gather_elem (seq i n)) = n * w.
Proof. intros H. apply (elems_length w count gather_elem gather_elem_length). exact H. Qed.
End Gather.

(** carquet_avx2_gather_i32 / _float *)
Theorem avx2_gather_i32_eq_scalar count dict idxs out0 :
  length idxs = 4 * count -> gather_in_range 4 count dict idxs -> gather_small count idxs -> length out0 = 4 * count ->
  exists out, avx2_gather_i32 count dict idxs out0 = Ok out /\ scalar_gather 4 count dict idxs out0 = Ok out.
Proof.
  intros Hi Hr Hs L. unfold avx2_gather_i32, scalar_gather.
  apply (seq_kernel_eq 4 count (gather_elem 4 dict idxs)); try lia.
  - intros i Hlt. apply (gather_elem_length 4 count dict idxs Hr); assumption.
  - intros i out Hlt Lo. apply (gather_step_spec 4 count dict idxs ltac:(lia) Hi Hr); assumption.
  - intros i out _ Hlt Lo. unfold avx2_gather32_block. rewrite load_ok by lia. cbn [bind].
    change 32 with (8 * 4). rewrite (hw_gather_ok 4 count dict idxs ltac:(lia) Hi Hr 8 i Hs Hlt). cbn [bind].
    apply store_ok. rewrite (gather_elems_length 4 count dict idxs Hr) by exact Hlt. lia.
Qed.

(** carquet_avx2_gather_i64 / _double *)
Theorem avx2_gather_i64_eq_scalar count dict idxs out0 :
  length idxs = 4 * count -> gather_in_range 8 count dict idxs -> gather_small count idxs -> length out0 = 8 * count ->
  exists out, avx2_gather_i64 count dict idxs out0 = Ok out /\ scalar_gather 8 count dict idxs out0 = Ok out.
Proof.
  intros Hi Hr Hs L. unfold avx2_gather_i64, scalar_gather.
  apply (seq_kernel_eq 8 count (gather_elem 8 dict idxs)); try lia.
  - intros i Hlt. apply (gather_elem_length 8 count dict idxs Hr); assumption.
  - intros i out Hlt Lo. apply (gather_step_spec 8 count dict idxs ltac:(lia) Hi Hr); assumption.
  - intros i out _ Hlt Lo. unfold avx2_gather64_block. rewrite load_ok by lia. cbn [bind].
    change 16 with (4 * 4). rewrite (hw_gather_ok 8 count dict idxs ltac:(lia) Hi Hr 4 i Hs Hlt). cbn [bind].
    apply store_ok. rewrite (gather_elems_length 8 count dict idxs Hr) by exact Hlt. lia.
Qed.

(** carquet_avx512_gather_i64 / _double *)
Theorem avx512_gather_i64_eq_scalar count dict idxs out0 :
  length idxs = 4 * count -> gather_in_range 8 count dict idxs -> gather_small count idxs -> length out0 = 8 * count ->
  exists out, avx512_gather_i64 count dict idxs out0 = Ok out /\ scalar_gather 8 count dict idxs out0 = Ok out.
Proof.
  intros Hi Hr Hs L. unfold avx512_gather_i64, scalar_gather.
  apply (seq_kernel_eq 8 count (gather_elem 8 dict idxs)); try lia.
  - intros i Hlt. apply (gather_elem_length 8 count dict idxs Hr); assumption.
  - intros i out Hlt Lo. apply (gather_step_spec 8 count dict idxs ltac:(lia) Hi Hr); assumption.
  - intros i out _ Hlt Lo. unfold avx512_gather64_block. rewrite load_ok by lia. cbn [bind].
    change 32 with (8 * 4). rewrite (hw_gather_ok 8 count dict idxs ltac:(lia) Hi Hr 8 i Hs Hlt). cbn [bind].
    apply store_ok. rewrite (gather_elems_length 8 count dict idxs Hr) by exact Hlt. lia.
Qed.

(** carquet_avx512_gather_i32 / _float: 16-wide, then 8-wide, then scalar *)
Theorem avx512_gather_i32_eq_scalar count dict idxs out0 :
  length idxs = 4 * count -> gather_in_range 4 count dict idxs -> gather_small count idxs -> length out0 = 4 * count ->
  exists out, avx512_gather_i32 count dict idxs out0 = Ok out /\ scalar_gather 4 count dict idxs out0 = Ok out.
Proof.
  intros Hi Hr Hs L. unfold avx512_gather_i32, scalar_gather.
  apply (seq_kernel3_eq 4 count (gather_elem 4 dict idxs)); try lia.
  - intros i Hlt. apply (gather_elem_length 4 count dict idxs Hr); assumption.
  - intros i out Hlt Lo. apply (gather_step_spec 4 count dict idxs ltac:(lia) Hi Hr); assumption.
  - intros i out _ Hlt Lo. unfold avx512_gather32_block16. rewrite load_ok by lia. cbn [bind].
    change 64 with (16 * 4). rewrite (hw_gather_ok 4 count dict idxs ltac:(lia) Hi Hr 16 i Hs Hlt). cbn [bind].
    apply store_ok. rewrite (gather_elems_length 4 count dict idxs Hr) by exact Hlt. lia.
  - intros i out Hlt Lo. unfold avx2_gather32_block. rewrite load_ok by lia. cbn [bind].
    change 32 with (8 * 4). rewrite (hw_gather_ok 4 count dict idxs ltac:(lia) Hi Hr 8 i Hs Hlt). cbn [bind].
    apply store_ok. rewrite (gather_elems_length 4 count dict idxs Hr) by exact Hlt. lia.
Qed.

(** carquet_sse_gather_i64 / _double: scalar loads, two 16-byte stores per 4 values *)
Theorem sse_gather_i64_eq_scalar count dict idxs out0 :
  length idxs = 4 * count -> gather_in_range 8 count dict idxs -> length out0 = 8 * count ->
  exists out, sse_gather_i64 count dict idxs out0 = Ok out /\ scalar_gather 8 count dict idxs out0 = Ok out.
Proof.
  intros Hi Hr L. unfold sse_gather_i64, scalar_gather.
  apply (seq_kernel_eq 8 count (gather_elem 8 dict idxs)); try lia.
  - intros i Hlt. apply (gather_elem_length 8 count dict idxs Hr); assumption.
  - intros i out Hlt Lo. apply (gather_step_spec 8 count dict idxs ltac:(lia) Hi Hr); assumption.
  - intros i out _ Hlt Lo. unfold sse_gather64_block4.
    rewrite (gather_n_ok 8 count dict idxs ltac:(lia) Hi Hr 4 i Hlt). cbn [bind].
    pose proof (gather_elems_length 8 count dict idxs Hr i 4 Hlt) as Lr.
    set (r := flat_map (gather_elem 8 dict idxs) (seq i 4)) in *.
    rewrite store_ok by (rewrite length_sub by lia; lia). cbn [bind].
    rewrite store_ok by (rewrite length_upd by (rewrite length_sub by lia; lia); rewrite length_sub by lia; lia).
    f_equal. replace ((i + 2) * 8) with (i * 8 + length (sub r 0 16)) by (rewrite length_sub by lia; lia).
    rewrite upd_app by (rewrite !length_sub by lia; lia). f_equal.
    apply (list_eq_nth _ _ 0%N).
    + rewrite app_length, !length_sub by lia. lia.
    + intros k Hk. rewrite app_length, !length_sub in Hk by lia.
      destruct (Nat.lt_ge_cases k 16) as [Lt|Ge].
      * rewrite app_nth1 by (rewrite length_sub by lia; lia). rewrite nth_sub by lia. reflexivity.
      * rewrite app_nth2 by (rewrite length_sub by lia; lia). rewrite length_sub by lia.
        rewrite nth_sub by lia. f_equal. lia.
Qed.

(** carquet_sse_gather_i32 / _float: 8 per iteration, then 4, then 1 *)
Theorem sse_gather_i32_eq_scalar count dict idxs out0 :
  length idxs = 4 * count -> gather_in_range 4 count dict idxs -> length out0 = 4 * count ->
  exists out, sse_gather_i32 count dict idxs out0 = Ok out /\ scalar_gather 4 count dict idxs out0 = Ok out.
Proof.
  intros Hi Hr L. unfold sse_gather_i32, scalar_gather.
  apply (seq_kernel3_eq 4 count (gather_elem 4 dict idxs)); try lia.
  - intros i Hlt. apply (gather_elem_length 4 count dict idxs Hr); assumption.
  - intros i out Hlt Lo. apply (gather_step_spec 4 count dict idxs ltac:(lia) Hi Hr); assumption.
  - intros i out _ Hlt Lo. unfold sse_gather32_block8.
    rewrite (gather_n_ok 4 count dict idxs ltac:(lia) Hi Hr 4 i) by lia. cbn [bind].
    pose proof (gather_elems_length 4 count dict idxs Hr i 4 ltac:(lia)) as L0.
    rewrite store_ok by (rewrite L0; lia). cbn [bind].
    rewrite (gather_n_ok 4 count dict idxs ltac:(lia) Hi Hr 4 (i + 4)) by lia. cbn [bind].
    pose proof (gather_elems_length 4 count dict idxs Hr (i + 4) 4 ltac:(lia)) as L1.
    rewrite store_ok by (rewrite length_upd by (rewrite L0; lia); rewrite L1; lia).
    f_equal. replace ((i + 4) * 4) with (i * 4 + length (flat_map (gather_elem 4 dict idxs) (seq i 4))) by (rewrite L0; lia).
    rewrite upd_app by (rewrite L0, L1; lia). f_equal.
    change 8 with (4 + 4). rewrite seq_app, flat_map_app. reflexivity.
  - intros i out Hlt Lo. unfold sse_gather32_block4.
    rewrite (gather_n_ok 4 count dict idxs ltac:(lia) Hi Hr 4 i Hlt). cbn [bind].
    apply store_ok. rewrite (gather_elems_length 4 count dict idxs Hr) by exact Hlt. lia.
Qed.
