(** C15: definition-level kernels of sse_ops.c: count_non_nulls and build_null_bitmap equal their scalar
    definitions for every count, every level array (bytes) and every 16-bit max_def_level. *)
From Coq Require Import NArith ZArith List Arith Lia Bool ZifyBool ZifyNat ZifyN.
From Carquet Require Import Base.Res Simd.Vec Simd.X86Sem Simd.ScalarKernels Simd.SseKernels Simd.BitLemmas.
Import ListNotations.
Local Open Scope nat_scope.
Ltac Zify.zify_post_hook ::= Z.div_mod_to_equations.

Tactic Notation "dlist" ident(v) hyp(H) integer(n) :=
  do n (destruct v as [|? v]; [simpl in H; discriminate H|]); destruct v; [|simpl in H; discriminate H]; clear H.

(* ------------------------------------------------------------------ count_non_nulls *)

Definition b2n (b : bool) : N := if b then 1%N else 0%N.

(** 8 compare results (0xFFFF / 0) -> movemask -> popcount / 2 *)
Lemma popcount_mask8 (e0 e1 e2 e3 e4 e5 e6 e7 : bool) :
  N.shiftr (popcount32 (movemask_epi8 (unlanes 2 (map (fun e : bool => if e then 65535%N else 0%N) [e0; e1; e2; e3; e4; e5; e6; e7])))) 1
  = (b2n e0 + b2n e1 + b2n e2 + b2n e3 + b2n e4 + b2n e5 + b2n e6 + b2n e7)%N.
Proof. destruct e0, e1, e2, e3, e4, e5, e6, e7; reflexivity. Qed.

Section Count.
Variables (count : nat) (lv : list N) (mx : N).
Hypothesis Hlv : length lv = 2 * count.
Hypothesis Hbytes : bytes_ok lv.
Hypothesis Hmx : (mx < 65536)%N.

Definition level (k : nat) : N := le_num (sub lv (k * 2) 2).
Fixpoint cnt (i : nat) : N := match i with O => 0%N | S j => (cnt j + b2n (level j =? mx)%N)%N end.

Lemma nonnull_step_spec i acc :
  i < count -> nonnull_step lv mx i acc = Ok (acc + b2n (level i =? mx)%N)%N.
Proof.
  intros Hi. unfold nonnull_step. rewrite load_ok by lia. cbn [bind]. fold (level i).
  destruct (level i =? mx)%N; cbn [b2n]; f_equal; lia.
Qed.

Lemma sse_nonnull_block_spec i acc :
  i + 8 <= count ->
  sse_nonnull_block lv mx i acc =
  Ok (acc + (b2n (level i =? mx) + b2n (level (i + 1) =? mx) + b2n (level (i + 2) =? mx) + b2n (level (i + 3) =? mx) +
             b2n (level (i + 4) =? mx) + b2n (level (i + 5) =? mx) + b2n (level (i + 6) =? mx) + b2n (level (i + 7) =? mx)))%N.
Proof.
  intros Hi. unfold sse_nonnull_block. rewrite load_ok by lia. cbn [bind]. f_equal. f_equal.
  assert (Lv : forall k, k < 8 -> level (i + k) = le_num (sub (sub lv (i * 2) 16) (k * 2) 2)).
  { intros k Hk. unfold level. rewrite sub_sub by lia. f_equal. f_equal. lia. }
  replace (level i) with (level (i + 0)) by (f_equal; lia).
  rewrite !Lv by lia.
  pose proof (bytes_ok_sub lv (i * 2) 16 Hbytes) as Bv.
  assert (L16 : length (sub lv (i * 2) 16) = 16) by (apply length_sub; lia).
  set (v := sub lv (i * 2) 16) in *. clearbody v.
  dlist v L16 16.
  set (m0 := (mx mod 256)%N). set (m1 := (mx / 256 mod 256)%N).
  assert (Em : (m0 + 256 * (m1 + 0) = mx)%N) by (unfold m0, m1; lia).
  change (mm_set1_epi16 mx) with [m0; m1; m0; m1; m0; m1; m0; m1; m0; m1; m0; m1; m0; m1; m0; m1].
  unfold cmpeq_lanes.
  change (lanes 2 [m0; m1; m0; m1; m0; m1; m0; m1; m0; m1; m0; m1; m0; m1; m0; m1])
    with (let m := (m0 + 256 * (m1 + 0))%N in [m; m; m; m; m; m; m; m]).
  rewrite Em. cbv zeta.
  match goal with |- context [lanes 2 ?l] =>
    change (lanes 2 l) with [le_num (sub l 0 2); le_num (sub l 2 2); le_num (sub l 4 2); le_num (sub l 6 2);
                             le_num (sub l 8 2); le_num (sub l 10 2); le_num (sub l 12 2); le_num (sub l 14 2)] end.
  cbn [map2].
  change (2 ^ (8 * N.of_nat 2) - 1)%N with 65535%N.
  match goal with |- N.shiftr (popcount32 (movemask_epi8 (unlanes 2 [if ?a0 then _ else _; if ?a1 then _ else _; if ?a2 then _ else _;
            if ?a3 then _ else _; if ?a4 then _ else _; if ?a5 then _ else _; if ?a6 then _ else _; if ?a7 then _ else _]))) 1 = _ =>
    exact (popcount_mask8 a0 a1 a2 a3 a4 a5 a6 a7) end.
Qed.
End Count.

Lemma cnt_add8 lv mx i :
  cnt lv mx (i + 8) =
  (cnt lv mx i + (b2n (level lv i =? mx) + b2n (level lv (i + 1) =? mx) + b2n (level lv (i + 2) =? mx) + b2n (level lv (i + 3) =? mx) +
                  b2n (level lv (i + 4) =? mx) + b2n (level lv (i + 5) =? mx) + b2n (level lv (i + 6) =? mx) + b2n (level lv (i + 7) =? mx)))%N.
Proof.
  replace (i + 8) with (S (S (S (S (S (S (S (S i)))))))) by lia. cbn [cnt].
  replace (i + 1) with (S i) by lia. replace (i + 2) with (S (S i)) by lia. replace (i + 3) with (S (S (S i))) by lia.
  replace (i + 4) with (S (S (S (S i)))) by lia. replace (i + 5) with (S (S (S (S (S i))))) by lia.
  replace (i + 6) with (S (S (S (S (S (S i)))))) by lia. replace (i + 7) with (S (S (S (S (S (S (S i))))))) by lia.
  lia.
Qed.

(** carquet_sse_count_non_nulls *)
Theorem sse_count_non_nulls_eq_scalar count lv mx :
  length lv = 2 * count -> bytes_ok lv -> (mx < 65536)%N ->
  exists r, sse_count_non_nulls count lv mx = Ok r /\ scalar_count_non_nulls count lv mx = Ok r.
Proof.
  intros Hl Hb Hm. unfold sse_count_non_nulls, scalar_count_non_nulls.
  destruct (simd_loop_inv (fun i acc => acc = cnt lv mx i) 8 count (sse_nonnull_block lv mx) (nonnull_step lv mx) 0%N) as [r1 [E1 P1]];
    try lia; try reflexivity.
  - intros j s0 Hj HP. subst s0. rewrite (sse_nonnull_block_spec count lv mx Hl Hb Hm) by exact Hj.
    eexists. split; [reflexivity|]. rewrite cnt_add8. reflexivity.
  - intros j s0 Hj HP. subst s0. rewrite (nonnull_step_spec count lv mx Hl Hm) by exact Hj.
    eexists. split; [reflexivity|]. replace (j + 1) with (S j) by lia. reflexivity.
  - destruct (scalar_loop_inv (fun i acc => acc = cnt lv mx i) count (nonnull_step lv mx) 0%N) as [r2 [E2 P2]]; try reflexivity.
    + intros j s0 Hj HP. subst s0. rewrite (nonnull_step_spec count lv mx Hl Hm) by exact Hj.
      eexists. split; [reflexivity|]. replace (j + 1) with (S j) by lia. reflexivity.
    + exists r1. split; [exact E1|]. rewrite E2. f_equal. congruence.
Qed.

(* ------------------------------------------------------------------ build_null_bitmap *)

Lemma iter_blocks_ext {St} (f g : nat -> St -> res St) W : 0 < W -> forall n i s,
  (forall j s0, i <= j < i + n * W -> f j s0 = g j s0) -> iter_blocks n W i f s = iter_blocks n W i g s.
Proof.
  intros HW. induction n as [|n IH]; intros i s H; [reflexivity|].
  cbn [iter_blocks]. rewrite H by (cbn; lia). destruct (g i s); cbn [bind]; try reflexivity.
  apply IH. intros j s0 Hj. apply H. cbn. lia.
Qed.

(** the accumulation `if (e_j) bits |= 1 << j` for j = 0..7, as the scalar loop computes it *)
Definition or_bits8 (e0 e1 e2 e3 e4 e5 e6 e7 : bool) : N :=
  let a := 0%N in
  let a := if e0 then N.lor a (N.shiftl 1 (N.of_nat 0)) else a in
  let a := if e1 then N.lor a (N.shiftl 1 (N.of_nat 1)) else a in
  let a := if e2 then N.lor a (N.shiftl 1 (N.of_nat 2)) else a in
  let a := if e3 then N.lor a (N.shiftl 1 (N.of_nat 3)) else a in
  let a := if e4 then N.lor a (N.shiftl 1 (N.of_nat 4)) else a in
  let a := if e5 then N.lor a (N.shiftl 1 (N.of_nat 5)) else a in
  let a := if e6 then N.lor a (N.shiftl 1 (N.of_nat 6)) else a in
  if e7 then N.lor a (N.shiftl 1 (N.of_nat 7)) else a.

Lemma packs_mask8 (e0 e1 e2 e3 e4 e5 e6 e7 : bool) :
  (movemask_epi8 (mm_packs_epi16 (unlanes 2 (map (fun e : bool => if e then 65535%N else 0%N) [e0; e1; e2; e3; e4; e5; e6; e7])) (zeros 16)) mod 256)%N
  = or_bits8 e0 e1 e2 e3 e4 e5 e6 e7.
Proof. destruct e0, e1, e2, e3, e4, e5, e6, e7; reflexivity. Qed.

Lemma signed2_is_signed16 x : signed 2 x = signed16 x.
Proof. reflexivity. Qed.

Section Nullbm.
Variables (count : nat) (lv : list N) (mx : N).
Hypothesis Hlv : length lv = 2 * count.
Hypothesis Hmx : (mx < 65536)%N.

Definition isnull (k : nat) : bool := (signed16 (level lv k) <? signed16 mx)%Z.

Lemma null_bits8_spec i :
  i + 8 <= count ->
  null_bits lv mx i 8 = Ok (or_bits8 (isnull (i + 0)) (isnull (i + 1)) (isnull (i + 2)) (isnull (i + 3))
                                     (isnull (i + 4)) (isnull (i + 5)) (isnull (i + 6)) (isnull (i + 7))).
Proof.
  intros Hi. unfold null_bits. cbn [iter_blocks plus].
  rewrite !load_ok by lia. cbn [bind]. reflexivity.
Qed.

Lemma sse_nullbm_block_spec b out :
  b * 8 + 8 <= count ->
  sse_nullbm_block lv mx b out = bind (null_bits lv mx (b * 8) 8) (fun bits => store1 out b bits).
Proof.
  intros Hb. rewrite null_bits8_spec by exact Hb. cbn [bind]. unfold sse_nullbm_block.
  rewrite load_ok by lia. cbn [bind]. f_equal.
  assert (Lv : forall k, k < 8 -> level lv (b * 8 + k) = le_num (sub (sub lv (b * 8 * 2) 16) (k * 2) 2)).
  { intros k Hk. unfold level. rewrite sub_sub by lia. f_equal. f_equal. lia. }
  unfold isnull. rewrite !Lv by lia.
  assert (L16 : length (sub lv (b * 8 * 2) 16) = 16) by (apply length_sub; lia).
  set (v := sub lv (b * 8 * 2) 16) in *. clearbody v.
  dlist v L16 16.
  set (m0 := (mx mod 256)%N). set (m1 := (mx / 256 mod 256)%N).
  assert (Em : (m0 + 256 * (m1 + 0) = mx)%N) by (unfold m0, m1; lia).
  change (mm_set1_epi16 mx) with [m0; m1; m0; m1; m0; m1; m0; m1; m0; m1; m0; m1; m0; m1; m0; m1].
  unfold mm_cmplt_epi16.
  change (lanes 2 [m0; m1; m0; m1; m0; m1; m0; m1; m0; m1; m0; m1; m0; m1; m0; m1])
    with (let m := (m0 + 256 * (m1 + 0))%N in [m; m; m; m; m; m; m; m]).
  rewrite Em. cbv zeta.
  match goal with |- context [lanes 2 ?l] =>
    change (lanes 2 l) with [le_num (sub l 0 2); le_num (sub l 2 2); le_num (sub l 4 2); le_num (sub l 6 2);
                             le_num (sub l 8 2); le_num (sub l 10 2); le_num (sub l 12 2); le_num (sub l 14 2)] end.
  cbn [map2]. rewrite !signed2_is_signed16.
  match goal with |- (movemask_epi8 (mm_packs_epi16 (unlanes 2 [if ?a0 then _ else _; if ?a1 then _ else _; if ?a2 then _ else _;
            if ?a3 then _ else _; if ?a4 then _ else _; if ?a5 then _ else _; if ?a6 then _ else _; if ?a7 then _ else _]) _) mod 256)%N = _ =>
    exact (packs_mask8 a0 a1 a2 a3 a4 a5 a6 a7) end.
Qed.

(** the inner accumulation never faults inside the array *)
Lemma null_bits_ok i n : i + n <= count -> exists v, null_bits lv mx i n = Ok v.
Proof.
  intros H. unfold null_bits.
  destruct (iter_blocks_inv (fun _ _ => True) (fun j acc => bind (load lv ((i + j) * 2) 2) (fun x =>
              Ok (if (signed16 (le_num x) <? signed16 mx)%Z then N.lor acc (N.shiftl 1 (N.of_nat j)) else acc))) 1 n 0 0%N I) as [v [E _]].
  - intros j s0 _ Hj _. rewrite load_ok by lia. eexists. split; [reflexivity|exact I].
  - exists v. exact E.
Qed.
End Nullbm.

(** carquet_sse_build_null_bitmap *)
Theorem sse_build_null_bitmap_eq_scalar count lv mx out0 :
  length lv = 2 * count -> (mx < 65536)%N -> length out0 = (count + 7) / 8 ->
  exists out, sse_build_null_bitmap count lv mx out0 = Ok out /\ scalar_build_null_bitmap count lv mx out0 = Ok out.
Proof.
  intros Hl Hm Lo.
  assert (E : sse_build_null_bitmap count lv mx out0 = scalar_build_null_bitmap count lv mx out0).
  { unfold sse_build_null_bitmap, scalar_build_null_bitmap. cbv zeta.
    rewrite (iter_blocks_ext (sse_nullbm_block lv mx)
               (fun b o => bind (null_bits lv mx (b * 8) 8) (fun bits => store1 o b bits)) 1 ltac:(lia)).
    - destruct (iter_blocks (count / 8) 1 0 _ out0); cbn [bind]; try reflexivity.
      destruct (Nat.ltb_spec (count / 8 * 8) count); [|reflexivity].
      replace (Nat.min (count - count / 8 * 8) 8) with (count - count / 8 * 8) by lia. reflexivity.
    - intros j s0 Hj. apply (sse_nullbm_block_spec count lv mx Hl Hm). lia. }
  rewrite E. unfold scalar_build_null_bitmap. cbv zeta.
  destruct (iter_blocks_inv (fun _ o => length o = (count + 7) / 8)
              (fun b o => bind (null_bits lv mx (b * 8) 8) (fun bits => store1 o b bits)) 1 (count / 8) 0 out0 Lo) as [o1 [E1 L1]].
  - intros j s0 _ Hj Ls. destruct (null_bits_ok count lv mx Hl Hm (j * 8) 8 ltac:(lia)) as [v Ev]. rewrite Ev. cbn [bind].
    rewrite store1_ok by lia. eexists. split; [reflexivity|]. rewrite length_upd by (cbn [length]; lia). exact Ls.
  - rewrite E1. cbn [bind]. destruct (Nat.ltb_spec (count / 8 * 8) count) as [Lt|Ge].
    + destruct (null_bits_ok count lv mx Hl Hm (count / 8 * 8) (count - count / 8 * 8) ltac:(lia)) as [v Ev]. rewrite Ev. cbn [bind].
      rewrite store1_ok by lia. eexists. split; reflexivity.
    + eexists. split; reflexivity.
Qed.
