(** C15: the fixed-width bit unpackers (carquet_{sse,avx2,avx512}_bitunpackN_Wbit) produce the generic LSB-first
    unpacking [scalar_bitunpack W N] of their input bytes (the meaning of core/bitpack.c), for every input. *)
From Coq Require Import NArith ZArith List Arith Lia Bool ZifyBool ZifyNat ZifyN.
From Carquet Require Import Base.Res Base.Bits Simd.Vec Simd.X86Sem Simd.ScalarKernels Simd.SseKernels Simd.Avx2Kernels
  Simd.Avx512Kernels Simd.BitLemmas.
Import ListNotations.
Local Open Scope nat_scope.
Ltac Zify.zify_post_hook ::= Z.div_mod_to_equations.

Tactic Notation "dlist" ident(v) hyp(H) integer(n) :=
  do n (destruct v as [|? v]; [simpl in H; discriminate H|]); destruct v; [|simpl in H; discriminate H]; clear H.

(* ------------------------------------------------------------------ the generic value in terms of the bytes *)

Lemma testbit_unpack_value l w i k :
  bytes_ok l ->
  N.testbit (unpack_value l w i) k =
  (k <? N.of_nat w)%N && N.testbit (nth ((i * w + N.to_nat k) / 8) l 0%N) (N.of_nat ((i * w + N.to_nat k) mod 8)).
Proof.
  intros B. unfold unpack_value. rewrite N.land_spec, N.shiftr_spec by apply N.le_0_l.
  rewrite testbit_le_num by exact B.
  destruct (N.ltb_spec k (N.of_nat w)) as [L|G].
  - rewrite N.ones_spec_low by exact L. rewrite andb_true_r. cbn [andb].
    repeat (f_equal; try lia).
  - rewrite N.ones_spec_high by exact G. rewrite andb_false_r. reflexivity.
Qed.

Lemma unpack8 l i : bytes_ok l -> unpack_value l 8 i = nth i l 0%N.
Proof.
  intros B. apply N.bits_inj_iff. intro k. rewrite testbit_unpack_value by exact B.
  destruct (N.ltb_spec k (N.of_nat 8)) as [L|G]; cbn [andb].
  - repeat (f_equal; try lia).
  - symmetry. apply (testbit_high_lt _ 8); [apply bytes_ok_nth; exact B|lia].
Qed.

Lemma unpack16 l i : bytes_ok l -> unpack_value l 16 i = (nth (2 * i) l 0 + 256 * nth (2 * i + 1) l 0)%N.
Proof.
  intros B. apply N.bits_inj_iff. intro k. rewrite testbit_unpack_value by exact B.
  pose proof (bytes_ok_nth l (2 * i) B) as H0. pose proof (bytes_ok_nth l (2 * i + 1) B) as H1.
  change 256%N with (2 ^ 8)%N. rewrite add_shift_lxor by exact H0. rewrite N.lxor_spec.
  destruct (N.ltb_spec k (N.of_nat 16)) as [L|G]; cbn [andb].
  - destruct (N.lt_ge_cases k 8) as [L8|G8].
    + rewrite N.mul_comm, N.mul_pow2_bits_low by exact L8. rewrite xorb_false_r. repeat (f_equal; try lia).
    + rewrite (testbit_high_lt _ 8 k H0 G8). rewrite N.mul_comm, N.mul_pow2_bits_high by exact G8. rewrite xorb_false_l.
      repeat (f_equal; try lia).
  - rewrite (testbit_high_lt _ 8 k H0) by lia. rewrite N.mul_comm, N.mul_pow2_bits_high by lia.
    rewrite (testbit_high_lt _ 8 (k - 8) H1) by lia. reflexivity.
Qed.

Lemma unpack4 l i : bytes_ok l -> unpack_value l 4 i = N.land (N.shiftr (nth (i / 2) l 0%N) (N.of_nat (4 * (i mod 2)))) 15.
Proof.
  intros B. apply N.bits_inj_iff. intro k. rewrite testbit_unpack_value by exact B.
  change 15%N with (N.ones 4). rewrite N.land_spec, N.shiftr_spec by apply N.le_0_l.
  destruct (N.ltb_spec k (N.of_nat 4)) as [L|G]; cbn [andb].
  - rewrite N.ones_spec_low by lia. rewrite andb_true_r. repeat (f_equal; try lia).
  - rewrite N.ones_spec_high by lia. rewrite andb_false_r. reflexivity.
Qed.

Lemma unpack1 l i : bytes_ok l -> unpack_value l 1 i = bit_of (nth (i / 8) l 0%N) (i mod 8).
Proof.
  intros B. apply N.bits_inj_iff. intro k. rewrite testbit_unpack_value by exact B.
  unfold bit_of. replace (N.land (N.shiftr (nth (i / 8) l 0%N) (N.of_nat (i mod 8))) 1) with
    (N.land (N.shiftr (nth (i / 8) l 0%N) (N.of_nat (i mod 8))) (N.ones 1)) by reflexivity.
  rewrite N.land_spec, N.shiftr_spec by apply N.le_0_l.
  destruct (N.ltb_spec k (N.of_nat 1)) as [L|G]; cbn [andb].
  - rewrite N.ones_spec_low by lia. rewrite andb_true_r. repeat (f_equal; try lia).
  - rewrite N.ones_spec_high by lia. rewrite andb_false_r. reflexivity.
Qed.

Lemma le_bytes4_byte x : (x < 256)%N -> le_bytes 4 x = [x; 0; 0; 0]%N.
Proof.
  intros H. cbn [le_bytes]. rewrite (N.mod_small x 256) by exact H. rewrite (N.div_small x 256) by exact H.
  reflexivity.
Qed.

Lemma le_bytes4_word x0 x1 : (x0 < 256)%N -> (x1 < 256)%N -> le_bytes 4 (x0 + 256 * x1) = [x0; x1; 0; 0]%N.
Proof.
  intros H0 H1. cbn [le_bytes].
  replace ((x0 + 256 * x1) mod 256)%N with x0 by lia.
  replace ((x0 + 256 * x1) / 256)%N with x1 by lia.
  rewrite (N.mod_small x1 256) by exact H1. rewrite (N.div_small x1 256) by exact H1. reflexivity.
Qed.

Lemma bit_of_lt p k : (bit_of p k < 256)%N.
Proof. rewrite bit_of_testbit. destruct (N.testbit _ _); reflexivity. Qed.

Lemma land15_lt x : (N.land x 15 < 256)%N.
Proof. change 15%N with (N.ones 4). rewrite N.land_ones. pose proof (N.mod_lt x (2 ^ 4) ltac:(discriminate)). change (2 ^ 4)%N with 16%N in *. lia. Qed.

(** split the bytes_ok hypothesis of an explicit list into one bound per byte *)
Ltac split_bytes B :=
  repeat match type of B with
         | bytes_ok (_ :: _) => let H := fresh "Hb" in apply bytes_ok_cons in B; destruct B as [H B]
         end.

(* ------------------------------------------------------------------ 8-bit and 16-bit: zero extension *)

Theorem sse_bitunpack8_8bit_eq_scalar inp :
  length inp = 8 -> bytes_ok inp -> sse_bitunpack8_8bit inp = Ok (scalar_bitunpack 8 8 inp).
Proof.
  intros L B. unfold sse_bitunpack8_8bit. rewrite load_ok by lia. cbn [bind].
  unfold scalar_bitunpack. cbn [seq flat_map]. rewrite !unpack8 by exact B.
  dlist inp L 8. split_bytes B. cbn [nth]. rewrite !le_bytes4_byte by assumption. reflexivity.
Qed.

Theorem avx2_bitunpack16_8bit_eq_scalar inp :
  length inp = 16 -> bytes_ok inp -> avx2_bitunpack16_8bit inp = Ok (scalar_bitunpack 8 16 inp).
Proof.
  intros L B. unfold avx2_bitunpack16_8bit. rewrite load_ok by lia. cbn [bind].
  unfold scalar_bitunpack. cbn [seq flat_map]. rewrite !unpack8 by exact B.
  dlist inp L 16. split_bytes B. cbn [nth]. rewrite !le_bytes4_byte by assumption. reflexivity.
Qed.

Theorem avx512_bitunpack32_8bit_eq_scalar inp :
  length inp = 32 -> bytes_ok inp -> avx512_bitunpack32_8bit inp = Ok (scalar_bitunpack 8 32 inp).
Proof.
  intros L B. unfold avx512_bitunpack32_8bit. rewrite !load_ok by lia. cbn [bind].
  unfold scalar_bitunpack. cbn [seq flat_map]. rewrite !unpack8 by exact B.
  dlist inp L 32. split_bytes B. cbn [nth]. rewrite !le_bytes4_byte by assumption. reflexivity.
Qed.

Theorem avx2_bitunpack8_16bit_eq_scalar inp :
  length inp = 16 -> bytes_ok inp -> avx2_bitunpack8_16bit inp = Ok (scalar_bitunpack 16 8 inp).
Proof.
  intros L B. unfold avx2_bitunpack8_16bit. rewrite load_ok by lia. cbn [bind].
  unfold scalar_bitunpack. cbn [seq flat_map]. rewrite !unpack16 by exact B.
  dlist inp L 16. split_bytes B. cbn [nth Nat.mul Nat.add]. rewrite !le_bytes4_word by assumption. reflexivity.
Qed.

Theorem avx512_bitunpack16_16bit_eq_scalar inp :
  length inp = 32 -> bytes_ok inp -> avx512_bitunpack16_16bit inp = Ok (scalar_bitunpack 16 16 inp).
Proof.
  intros L B. unfold avx512_bitunpack16_16bit. rewrite load_ok by lia. cbn [bind].
  unfold scalar_bitunpack. cbn [seq flat_map]. rewrite !unpack16 by exact B.
  dlist inp L 32. split_bytes B. cbn [nth Nat.mul Nat.add]. rewrite !le_bytes4_word by assumption. reflexivity.
Qed.

(* ------------------------------------------------------------------ 4-bit *)

Lemma nib_lo x : N.land x 15 = N.land (N.shiftr x (N.of_nat (4 * 0))) 15.
Proof. reflexivity. Qed.

Lemma nib_hi_even x0 x1 :
  (x0 < 256)%N -> (x1 < 256)%N -> N.land (N.shiftr (x0 + 256 * x1) 4 mod 256) 15 = N.land (N.shiftr x0 (N.of_nat (4 * 1))) 15.
Proof.
  intros H0 H1. change 15%N with (N.ones 4). rewrite !N.land_ones, !N.shiftr_div_pow2.
  change (N.of_nat (4 * 1)) with 4%N. change (2 ^ 4)%N with 16%N. lia.
Qed.

Lemma nib_hi_odd x0 x1 :
  (x0 < 256)%N -> (x1 < 256)%N -> N.land (N.shiftr (x0 + 256 * x1) 4 / 256 mod 256) 15 = N.land (N.shiftr x1 (N.of_nat (4 * 1))) 15.
Proof.
  intros H0 H1. change 15%N with (N.ones 4). rewrite !N.land_ones, !N.shiftr_div_pow2.
  change (N.of_nat (4 * 1)) with 4%N. change (2 ^ 4)%N with 16%N. lia.
Qed.

Ltac nibbles :=
  rewrite !le_bytes4_byte by apply land15_lt;
  cbv -[N.land N.shiftr N.modulo N.div N.add N.mul N.of_nat];
  change (15 mod 256)%N with 15%N; rewrite ?N.mul_0_r, ?N.add_0_r;
  repeat (f_equal; try (first [reflexivity | apply nib_hi_even; assumption | apply nib_hi_odd; assumption])).

Theorem sse_bitunpack8_4bit_eq_scalar inp :
  length inp = 4 -> bytes_ok inp -> sse_bitunpack8_4bit inp = Ok (scalar_bitunpack 4 8 inp).
Proof.
  intros L B. unfold sse_bitunpack8_4bit. rewrite load_ok by lia. cbn [bind].
  unfold scalar_bitunpack. cbn [seq flat_map]. rewrite !unpack4 by exact B.
  dlist inp L 4. split_bytes B. nibbles.
Qed.

Theorem avx2_bitunpack16_4bit_eq_scalar inp :
  length inp = 8 -> bytes_ok inp -> avx2_bitunpack16_4bit inp = Ok (scalar_bitunpack 4 16 inp).
Proof.
  intros L B. unfold avx2_bitunpack16_4bit. rewrite load_ok by lia. cbn [bind].
  unfold scalar_bitunpack. cbn [seq flat_map]. rewrite !unpack4 by exact B.
  dlist inp L 8. split_bytes B. nibbles.
Qed.

Theorem avx512_bitunpack32_4bit_eq_scalar inp :
  length inp = 16 -> bytes_ok inp -> avx512_bitunpack32_4bit inp = Ok (scalar_bitunpack 4 32 inp).
Proof.
  intros L B. unfold avx512_bitunpack32_4bit. rewrite load_ok by lia. cbn [bind].
  unfold scalar_bitunpack. cbn [seq flat_map]. rewrite !unpack4 by exact B.
  dlist inp L 16. split_bytes B. nibbles.
Qed.

(* ------------------------------------------------------------------ 1-bit *)

Lemma min_bit p k : N.min (N.land p (2 ^ N.of_nat k)) 1 = bit_of p k.
Proof. rewrite min_land_pow2, bit_of_testbit. reflexivity. Qed.

Ltac one_bit :=
  first [ reflexivity
        | exact (min_bit _ 0) | exact (min_bit _ 1) | exact (min_bit _ 2) | exact (min_bit _ 3)
        | exact (min_bit _ 4) | exact (min_bit _ 5) | exact (min_bit _ 6) | exact (min_bit _ 7) ].

Theorem avx2_bitunpack64_1bit_eq_scalar inp :
  length inp = 8 -> bytes_ok inp -> avx2_bitunpack64_1bit inp = Ok (scalar_bitunpack 1 64 inp).
Proof.
  intros L B. unfold avx2_bitunpack64_1bit, scalar_bitunpack. cbn [seq flat_map]. rewrite !unpack1 by exact B.
  dlist inp L 8. split_bytes B.
  cbv -[N.land N.shiftr N.modulo N.div N.add N.mul N.of_nat bit_of N.min le_bytes]. reflexivity.
Qed.

Theorem sse_bitunpack32_1bit_eq_scalar inp :
  length inp = 4 -> bytes_ok inp -> sse_bitunpack32_1bit inp = Ok (scalar_bitunpack 1 32 inp).
Proof.
  intros L B. unfold sse_bitunpack32_1bit. rewrite load_ok by lia. cbn [bind].
  unfold scalar_bitunpack. cbn [seq flat_map]. rewrite !unpack1 by exact B.
  dlist inp L 4. split_bytes B.
  rewrite !le_bytes4_byte by apply bit_of_lt.
  cbv -[N.land N.shiftr N.modulo N.div N.add N.mul N.of_nat bit_of N.min].
  change (1 mod 256)%N with 1%N.
  repeat (f_equal; try one_bit).
Qed.
