(** C15: carquet_sse_match_copy equals scalar_match_copy (LZ77 match copy inside one buffer: dst = buf + d,
    src = dst - offset, forward byte order so that an overlapping copy replicates the last [offset] bytes).
    Everything is reduced to the byte-by-byte loop [copy_bytes]: a W-byte memcpy with W <= offset is W byte
    steps (A); hence the byte loop over q*offset + r bytes writes q copies of the last [offset] bytes and r more
    (P); the special cases offset = 1, 2, 4 of the SSE code write exactly that. *)
From Coq Require Import NArith ZArith List Arith Lia Bool ZifyBool ZifyNat ZifyN.
From Carquet Require Import Base.Res Simd.Vec Simd.X86Sem Simd.ScalarKernels Simd.SseKernels Simd.BitLemmas.
Import ListNotations.
Local Open Scope nat_scope.
Ltac Zify.zify_post_hook ::= Z.div_mod_to_equations.

Lemma copy_bytes_app : forall a b buf s d,
  copy_bytes (a + b) buf s d = bind (copy_bytes a buf s d) (fun buf' => copy_bytes b buf' (s + a) (d + a)).
Proof.
  induction a as [|a IH]; intros b buf s d.
  - cbn. rewrite !Nat.add_0_r. reflexivity.
  - cbn [plus copy_bytes]. destruct (load1 buf s) as [x| |]; cbn [bind]; try reflexivity.
    destruct (store1 buf d x) as [b1| |]; cbn [bind]; try reflexivity.
    rewrite IH. replace (s + 1 + a) with (s + S a) by lia. replace (d + 1 + a) with (d + S a) by lia. reflexivity.
Qed.

Lemma sub_cons (l : list N) s n : s < length l -> sub l s (S n) = nth s l 0%N :: sub l (s + 1) n.
Proof.
  intros H. unfold sub. rewrite (skipn_nth_cons l s 0%N) by exact H. cbn [firstn]. replace (s + 1) with (S s) by lia. reflexivity.
Qed.

Lemma sub_upd_disjoint (l v : list N) off s n :
  off + length v <= length l -> s + n <= off -> sub (upd l off v) s n = sub l s n.
Proof.
  intros H1 H2. apply (list_eq_nth _ _ 0%N).
  - rewrite !length_sub; [reflexivity|lia|rewrite length_upd by lia; lia].
  - intros j Hj. rewrite length_sub in Hj by (rewrite length_upd by lia; lia).
    rewrite !nth_sub by lia. rewrite nth_upd_out by lia. reflexivity.
Qed.

(** (A) a non-overlapping W-byte copy, byte by byte, is one W-byte move *)
Lemma copy_bytes_chunk : forall W buf s d,
  s + W <= d -> d + W <= length buf -> copy_bytes W buf s d = Ok (upd buf d (sub buf s W)).
Proof.
  induction W as [|W IH]; intros buf s d H1 H2.
  - cbn. unfold upd, sub. cbn. rewrite Nat.add_0_r, firstn_skipn. reflexivity.
  - cbn [copy_bytes]. rewrite load1_ok by lia. cbn [bind]. rewrite store1_ok by lia. cbn [bind].
    rewrite IH by (rewrite ?length_upd by (cbn [length]; lia); lia).
    rewrite sub_upd_disjoint by (cbn [length]; lia).
    change (d + 1) with (d + length [nth s buf 0%N]). rewrite upd_app by (cbn [length]; rewrite length_sub by lia; lia).
    rewrite (sub_cons buf s W) by lia. reflexivity.
Qed.

Lemma copy_chunks_as_bytes W : forall n buf s d,
  s + W <= d -> d + n * W <= length buf -> copy_chunks n W buf s d = copy_bytes (n * W) buf s d.
Proof.
  induction n as [|n IH]; intros buf s d H1 H2; [reflexivity|].
  cbn [copy_chunks]. rewrite load_ok by lia. cbn [bind]. rewrite store_ok by (rewrite length_sub by lia; lia). cbn [bind].
  replace (S n * W) with (W + n * W) by lia. rewrite copy_bytes_app. rewrite copy_bytes_chunk by lia. cbn [bind].
  apply IH; [lia|]. rewrite length_upd by (rewrite length_sub by lia; lia). lia.
Qed.

Lemma concat_repeat_length {A} (p : list A) q : length (concat (repeat p q)) = q * length p.
Proof. induction q as [|q IH]; [reflexivity|]. cbn. rewrite app_length, IH. reflexivity. Qed.

(** (P) the byte loop over q*o + r bytes (r <= o) replicates the o bytes in front of the destination *)
Lemma copy_bytes_periodic o : forall q buf d r,
  0 < o -> o <= d -> r <= o -> d + q * o + r <= length buf ->
  copy_bytes (q * o + r) buf (d - o) d =
  Ok (upd buf d (concat (repeat (sub buf (d - o) o) q) ++ firstn r (sub buf (d - o) o))).
Proof.
  induction q as [|q IH]; intros buf d r Ho Hd Hr HL.
  - cbn [Nat.mul plus repeat concat app]. rewrite copy_bytes_chunk by lia. f_equal. f_equal.
    unfold sub. rewrite firstn_firstn. f_equal. lia.
  - replace (S q * o + r) with (o + (q * o + r)) by lia. rewrite copy_bytes_app.
    rewrite copy_bytes_chunk by lia. cbn [bind].
    set (p := sub buf (d - o) o). assert (Lp : length p = o) by (apply length_sub; lia).
    replace (d - o + o) with (d + o - o) by lia.
    rewrite IH by (try lia; rewrite length_upd by lia; lia).
    replace (d + o - o) with d by lia.
    assert (Ep : sub (upd buf d p) d o = p).
    { apply (list_eq_nth _ _ 0%N); [rewrite length_sub by (rewrite length_upd by lia; lia); lia|].
      intros j Hj. rewrite length_sub in Hj by (rewrite length_upd by lia; lia).
      rewrite nth_sub by lia. rewrite nth_upd_in by lia. f_equal. lia. }
    rewrite Ep. f_equal.
    replace (d + o) with (d + length p) by lia.
    rewrite upd_app by (rewrite app_length, concat_repeat_length, firstn_length, Lp; lia).
    cbn [repeat concat]. rewrite app_assoc. reflexivity.
Qed.

Lemma fill_pattern_spec W v : forall n buf d,
  length v = W -> d + n * W <= length buf -> fill_pattern n W v buf d = Ok (upd buf d (concat (repeat v n))).
Proof.
  induction n as [|n IH]; intros buf d Lv H.
  - cbn. unfold upd. cbn. rewrite Nat.add_0_r, firstn_skipn. reflexivity.
  - cbn [fill_pattern]. rewrite store_ok by lia. cbn [bind].
    rewrite IH by (try exact Lv; rewrite length_upd by lia; lia).
    f_equal. rewrite <- Lv at 1. rewrite upd_app by (rewrite concat_repeat_length; lia). reflexivity.
Qed.

(* ------------------------------------------------------------------ small list identities *)

Lemma concat_repeat_single {A} (x : A) n : concat (repeat [x] n) = repeat x n.
Proof. induction n as [|n IH]; [reflexivity|]. cbn. rewrite IH. reflexivity. Qed.

Lemma concat_repeat_repeat {A} (x : A) m k : concat (repeat (repeat x m) k) = repeat x (k * m).
Proof. induction k as [|k IH]; [reflexivity|]. cbn [repeat concat Nat.mul]. rewrite IH, repeat_app. reflexivity. Qed.

Lemma concat_repeat_add {A} (p : list A) a b : concat (repeat p (a + b)) = concat (repeat p a) ++ concat (repeat p b).
Proof. induction a as [|a IH]; [reflexivity|]. cbn. rewrite IH, app_assoc. reflexivity. Qed.

Lemma concat_repeat_4 {A} (p : list A) k : concat (repeat (p ++ p ++ p ++ p) k) = concat (repeat p (4 * k)).
Proof.
  induction k as [|k IH]; [reflexivity|]. replace (4 * S k) with (4 + 4 * k) by lia.
  rewrite concat_repeat_add. cbn [repeat concat]. rewrite IH, !app_assoc, app_nil_r. reflexivity.
Qed.

(* ------------------------------------------------------------------ the scalar definition is the byte loop *)

Section Mc.
Variables (buf : list N) (d len offset : nat).
Hypothesis Hoff : 1 <= offset <= d.
Hypothesis Hlen : d + len <= length buf.
Let s := d - offset.

Lemma scalar_mc : scalar_match_copy buf d len offset = copy_bytes len buf s d.
Proof.
  unfold scalar_match_copy. fold s. destruct (Nat.leb_spec 8 offset) as [H8|H8]; [|reflexivity].
  rewrite copy_chunks_as_bytes by (unfold s; lia).
  assert (E : copy_bytes len buf s d = copy_bytes (len / 8 * 8 + (len - 8 * (len / 8))) buf s d) by (f_equal; lia).
  rewrite E, copy_bytes_app. replace (8 * (len / 8)) with (len / 8 * 8) by lia. reflexivity.
Qed.

(** the reference result, explicitly *)
Lemma byte_loop_result :
  copy_bytes len buf s d =
  Ok (upd buf d (concat (repeat (sub buf s offset) (len / offset)) ++ firstn (len mod offset) (sub buf s offset))).
Proof.
  pose proof (Nat.div_mod len offset ltac:(lia)) as D.
  pose proof (Nat.mod_upper_bound len offset ltac:(lia)) as R.
  assert (E : copy_bytes len buf s d = copy_bytes (len / offset * offset + len mod offset) buf s d) by (f_equal; lia).
  rewrite E. unfold s. apply copy_bytes_periodic; lia.
Qed.

(** the tail loop of the offset = 4 branch (`dst[i] = src[i]` with the original src) is a byte copy *)
Lemma tail_as_bytes (s0 d0 : nat) : forall n i0 b,
  iter_blocks n 1 i0 (fun i b => bind (load1 b (s0 + i)) (fun x => store1 b (d0 + i) x)) b
  = copy_bytes n b (s0 + i0) (d0 + i0).
Proof.
  induction n as [|n IH]; intros i0 b; [reflexivity|].
  cbn [iter_blocks copy_bytes]. destruct (load1 b (s0 + i0)) as [x| |]; cbn [bind]; try reflexivity.
  destruct (store1 b (d0 + i0) x) as [b1| |]; cbn [bind]; try reflexivity.
  rewrite IH. f_equal; lia.
Qed.

Lemma sse_mc_ge16 : 16 <= offset -> sse_match_copy buf d len offset = copy_bytes len buf s d.
Proof.
  intros H16. unfold sse_match_copy. fold s. destruct (Nat.leb_spec 16 offset); [|lia]. cbv zeta.
  rewrite copy_chunks_as_bytes by (unfold s; lia).
  set (k := len / 16).
  assert (E : copy_bytes len buf s d = copy_bytes (k * 16 + (len - 16 * k)) buf s d) by (f_equal; unfold k; lia).
  rewrite E, copy_bytes_app.
  destruct (copy_bytes (k * 16) buf s d) as [b1| |] eqn:E1; cbn [bind]; try reflexivity.
  assert (L1 : length b1 = length buf).
  { pose proof E1 as E1'. rewrite <- copy_chunks_as_bytes in E1' by (unfold s, k; lia).
    clear -E1' Hlen Hoff. revert E1'. unfold s. generalize (d - offset) as s0. intros s0.
    assert (G : forall n bb ss dd b', copy_chunks n 16 bb ss dd = Ok b' -> length b' = length bb).
    { induction n as [|n IH]; intros bb ss dd b' H; [cbn in H; congruence|].
      cbn [copy_chunks] in H. unfold load in H. destruct (ss + 16 <=? length bb); [|discriminate H]. cbn [bind] in H.
      unfold store in H. destruct (dd + length (sub bb ss 16) <=? length bb) eqn:Es; [|discriminate H]. cbn [bind] in H.
      apply IH in H. rewrite H. apply length_upd. apply Nat.leb_le. exact Es. }
    apply G. }
  replace (16 * k) with (k * 16) by lia.
  destruct (Nat.leb_spec 8 (len - k * 16)) as [L8|G8].
  - rewrite load_ok by (rewrite L1; unfold s, k in *; lia). cbn [bind].
    rewrite store_ok by (rewrite length_sub by (rewrite L1; unfold s, k in *; lia); rewrite L1; unfold k in *; lia). cbn [bind].
    assert (E2 : copy_bytes (len - k * 16) b1 (s + k * 16) (d + k * 16) = copy_bytes (8 + (len - k * 16 - 8)) b1 (s + k * 16) (d + k * 16)) by (f_equal; lia).
    rewrite E2, copy_bytes_app. rewrite (copy_bytes_chunk 8 b1 (s + k * 16) (d + k * 16)) by (rewrite ?L1; unfold s, k in *; lia). reflexivity.
  - reflexivity.
Qed.
Lemma sse_mc_other : offset < 16 -> offset <> 1 -> offset <> 2 -> offset <> 4 ->
  sse_match_copy buf d len offset = copy_bytes len buf s d.
Proof.
  intros H16 H1 H2 H4. unfold sse_match_copy. fold s.
  destruct (Nat.leb_spec 16 offset); [lia|].
  destruct (Nat.eqb_spec offset 1); [lia|]. destruct (Nat.eqb_spec offset 2); [lia|].
  destruct (Nat.eqb_spec offset 4); [lia|]. reflexivity.
Qed.

Lemma sse_mc_1 : bytes_ok buf -> offset = 1 -> sse_match_copy buf d len offset = copy_bytes len buf s d.
Proof.
  intros B H1. rewrite byte_loop_result. unfold sse_match_copy. fold s.
  destruct (Nat.leb_spec 16 offset); [lia|]. destruct (Nat.eqb_spec offset 1); [|lia].
  rewrite load1_ok by (unfold s; lia). cbn [bind]. cbv zeta.
  set (val := nth s buf 0%N).
  assert (Hv : (val mod 256 = val)%N) by (apply N.mod_small, bytes_ok_nth; exact B).
  unfold set1_epi8. rewrite Hv.
  rewrite (fill_pattern_spec 16 (repeat val 16)) by (try apply repeat_length; lia). cbn [bind].
  rewrite (fill_pattern_spec 1 [val]) by (try reflexivity; rewrite length_upd by (rewrite concat_repeat_length, repeat_length; lia); lia).
  f_equal. rewrite concat_repeat_repeat, concat_repeat_single.
  replace (d + 16 * (len / 16)) with (d + length (repeat val (len / 16 * 16))) by (rewrite repeat_length; lia).
  rewrite upd_app by (rewrite !repeat_length; lia). rewrite <- repeat_app. f_equal.
  rewrite H1. rewrite Nat.div_1_r, Nat.mod_1_r. cbn [firstn]. rewrite app_nil_r.
  assert (Es : sub buf s 1 = [val]) by (unfold sub; rewrite (skipn_nth_cons buf s 0%N) by (unfold s; lia); reflexivity).
  rewrite Es, concat_repeat_single. f_equal. lia.
Qed.

Lemma sse_mc_2 : offset = 2 -> sse_match_copy buf d len offset = copy_bytes len buf s d.
Proof.
  intros H2. rewrite byte_loop_result. unfold sse_match_copy. fold s.
  destruct (Nat.leb_spec 16 offset); [lia|]. destruct (Nat.eqb_spec offset 1); [lia|].
  destruct (Nat.eqb_spec offset 2); [|lia].
  rewrite !load1_ok by (unfold s; lia). cbn [bind]. cbv zeta.
  set (v0 := nth s buf 0%N). set (v1 := nth (s + 1) buf 0%N).
  assert (Es : sub buf s offset = [v0; v1]).
  { rewrite H2. rewrite (sub_cons buf s 1) by (unfold s; lia). rewrite (sub_cons buf (s + 1) 0) by (unfold s; lia). reflexivity. }
  rewrite Es.
  rewrite (fill_pattern_spec 2 [v0; v1]) by (try reflexivity; lia). cbn [bind].
  rewrite H2.
  destruct (Nat.ltb_spec 0 (len - 2 * (len / 2))) as [Odd|Even].
  - rewrite store1_ok by (rewrite length_upd by (rewrite concat_repeat_length; cbn [length]; lia); lia).
    f_equal. replace (d + 2 * (len / 2)) with (d + length (concat (repeat [v0; v1] (len / 2)))) by (rewrite concat_repeat_length; cbn [length]; lia).
    rewrite upd_app by (rewrite concat_repeat_length; cbn [length]; lia).
    replace (len mod 2) with 1 by lia. reflexivity.
  - f_equal. replace (len mod 2) with 0 by lia. cbn [firstn]. rewrite app_nil_r. reflexivity.
Qed.

Lemma sse_mc_4 : offset = 4 -> sse_match_copy buf d len offset = copy_bytes len buf s d.
Proof.
  intros H4. rewrite byte_loop_result. unfold sse_match_copy. fold s.
  destruct (Nat.leb_spec 16 offset); [lia|]. destruct (Nat.eqb_spec offset 1); [lia|].
  destruct (Nat.eqb_spec offset 2); [lia|]. destruct (Nat.eqb_spec offset 4); [|lia].
  rewrite H4.
  rewrite load_ok by (unfold s; lia). cbn [bind]. cbv zeta.
  set (p := sub buf s 4). assert (Lp : length p = 4) by (apply length_sub; unfold s; lia).
  set (k := len / 16). set (k4 := (len - 16 * k) / 4).
  rewrite (fill_pattern_spec 16 (p ++ p ++ p ++ p)) by (rewrite ?app_length, ?Lp; unfold k; lia). cbn [bind].
  set (b1 := upd buf d (concat (repeat (p ++ p ++ p ++ p) k))).
  assert (L1 : length b1 = length buf) by (unfold b1; apply length_upd; rewrite concat_repeat_length, !app_length, Lp; unfold k; lia).
  rewrite (fill_pattern_spec 4 p) by (try exact Lp; rewrite L1; unfold k4, k; lia). cbn [bind].
  set (b2 := upd b1 (d + 16 * k) (concat (repeat p k4))).
  assert (L2 : length b2 = length buf) by (unfold b2; rewrite length_upd by (rewrite concat_repeat_length, Lp, L1; unfold k4, k; lia); exact L1).
  rewrite tail_as_bytes. rewrite !Nat.add_0_r.
  rewrite copy_bytes_chunk by (rewrite ?L2; unfold s, k4, k; lia).
  f_equal.
  assert (Et : sub b2 s (len - 16 * k - 4 * k4) = firstn (len mod 4) p).
  { unfold b2. rewrite sub_upd_disjoint by (rewrite ?concat_repeat_length, ?Lp, ?L1; unfold s, k4, k; lia).
    unfold b1. rewrite sub_upd_disjoint by (rewrite ?concat_repeat_length, ?app_length, ?Lp; unfold s, k4, k; lia).
    unfold p, sub. rewrite firstn_firstn. f_equal. unfold k4, k. lia. }
  rewrite Et. unfold b2, b1.
  rewrite concat_repeat_4.
  replace (d + 16 * k) with (d + length (concat (repeat p (4 * k)))) by (rewrite concat_repeat_length, Lp; lia).
  rewrite upd_app by (rewrite !concat_repeat_length, Lp; unfold k4, k; lia).
  rewrite <- concat_repeat_add.
  replace (d + length (concat (repeat p (4 * k))) + 4 * k4) with (d + length (concat (repeat p (4 * k + k4)))) by (rewrite !concat_repeat_length, Lp; lia).
  rewrite upd_app by (rewrite concat_repeat_length, firstn_length, Lp; unfold k4, k; lia).
  f_equal. f_equal. f_equal. f_equal. unfold k4, k. lia.
Qed.

Theorem sse_match_copy_eq_scalar_ :
  bytes_ok buf ->
  exists out, sse_match_copy buf d len offset = Ok out /\ scalar_match_copy buf d len offset = Ok out.
Proof.
  intros B. rewrite scalar_mc.
  assert (E : sse_match_copy buf d len offset = copy_bytes len buf s d).
  { destruct (Nat.le_gt_cases 16 offset) as [G|L]; [apply sse_mc_ge16; exact G|].
    destruct (Nat.eq_dec offset 1) as [E1|N1]; [apply sse_mc_1; assumption|].
    destruct (Nat.eq_dec offset 2) as [E2|N2]; [apply sse_mc_2; assumption|].
    destruct (Nat.eq_dec offset 4) as [E4|N4]; [apply sse_mc_4; assumption|].
    apply sse_mc_other; assumption. }
  rewrite E, byte_loop_result. eexists. split; reflexivity.
Qed.
End Mc.

(** carquet_sse_match_copy(dst = buf + d, src = dst - offset, len, offset) *)
Theorem sse_match_copy_eq_scalar buf d len offset :
  1 <= offset <= d -> d + len <= length buf -> bytes_ok buf ->
  exists out, sse_match_copy buf d len offset = Ok out /\ scalar_match_copy buf d len offset = Ok out.
Proof. intros H1 H2 B. apply sse_match_copy_eq_scalar_; assumption. Qed.
