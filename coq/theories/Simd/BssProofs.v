(** C15, byte_stream_split kernels: every ISA variant equals the scalar definition, for every count and every
    input, and stays inside [0, w*count) of both arrays.

    Method: one invariant per direction ([Penc] / [Pdec]: the part of the output that has been produced is
    the transposition of the input); the scalar step and every vector block preserve it (a block is shown, by
    computation on a symbolic register, to store pieces of the transposed streams); at i = count the
    invariant determines the output completely. *)
From Coq Require Import NArith List Arith Lia Bool.
From Carquet Require Import Base.Res Simd.Vec Simd.X86Sem Simd.ScalarKernels Simd.SseKernels Simd.Avx2Kernels
  Simd.Avx512Kernels.
Import ListNotations.
Local Open Scope nat_scope.

(* ------------------------------------------------------------------ storing one piece per stream *)

(** stores in stream order: stream b receives [pc b] at offset b*count + i *)
Fixpoint upd_streams (nb count i : nat) (pc : nat -> list N) (out : list N) : list N :=
  match nb with O => out | S b => upd (upd_streams b count i pc out) (b * count + i) (pc b) end.

Section Streams.
Variables (w count i W : nat) (pc : nat -> list N) (out : list N).
Hypothesis Hlen : length out = w * count.
Hypothesis Hpc : forall b, b < w -> length (pc b) = W.
Hypothesis HiW : i + W <= count.

Lemma stream_range b : b < w -> b * count + i + W <= w * count.
Proof. intros Hb. nia. Qed.

Lemma length_upd_streams nb : nb <= w -> length (upd_streams nb count i pc out) = w * count.
Proof.
  induction nb as [|b IH]; intro H; [exact Hlen|].
  cbn [upd_streams]. rewrite length_upd; [apply IH; lia|].
  rewrite IH by lia. rewrite Hpc by lia. pose proof (stream_range b ltac:(lia)). lia.
Qed.

Lemma nth_upd_streams_in nb b j :
  nb <= w -> b < nb -> j < W -> nth (b * count + i + j) (upd_streams nb count i pc out) 0%N = nth j (pc b) 0%N.
Proof.
  induction nb as [|c IH]; intros Hnb Hb Hj; [lia|].
  cbn [upd_streams].
  assert (Hr : c * count + i + length (pc c) <= length (upd_streams c count i pc out)).
  { rewrite length_upd_streams by lia. rewrite Hpc by lia. apply stream_range. lia. }
  destruct (Nat.eq_dec b c) as [E|E].
  - subst c. rewrite nth_upd_in; [f_equal; lia|exact Hr|]. rewrite Hpc by lia. lia.
  - rewrite nth_upd_out; [apply IH; lia|exact Hr|]. rewrite Hpc by lia.
    assert (b < c) by lia. left. nia.
Qed.

Lemma nth_upd_streams_out nb k :
  nb <= w -> (forall b, b < nb -> k < b * count + i \/ b * count + i + W <= k) ->
  nth k (upd_streams nb count i pc out) 0%N = nth k out 0%N.
Proof.
  induction nb as [|c IH]; intros Hnb Hk; [reflexivity|].
  cbn [upd_streams].
  assert (Hr : c * count + i + length (pc c) <= length (upd_streams c count i pc out)).
  { rewrite length_upd_streams by lia. rewrite Hpc by lia. apply stream_range. lia. }
  rewrite nth_upd_out; [apply IH; [lia|intros b Hb; apply Hk; lia]|exact Hr|].
  rewrite Hpc by lia. apply Hk. lia.
Qed.
End Streams.

(* ------------------------------------------------------------------ encode: invariant *)

Definition Penc (w count : nat) (src : list N) (i : nat) (out : list N) : Prop :=
  length out = w * count /\
  forall b i', b < w -> i' < i -> nth (b * count + i') out 0%N = nth (i' * w + b) src 0%N.

(** the piece of stream b contributed by W consecutive values held in [v] *)
Definition piece (w b W : nat) (v : list N) : list N := map (fun j => nth (j * w + b) v 0%N) (seq 0 W).

Lemma piece_length w b W v : length (piece w b W v) = W.
Proof. unfold piece. rewrite map_length, seq_length. reflexivity. Qed.

Lemma enc_pieces_inv w count src i W out :
  i + W <= count -> Penc w count src i out ->
  Penc w count src (i + W) (upd_streams w count i (fun b => piece w b W (sub src (i * w) (W * w))) out).
Proof.
  intros HiW [Hlen Hin].
  set (pc := fun b => piece w b W (sub src (i * w) (W * w))).
  assert (Hpc : forall b, b < w -> length (pc b) = W) by (intros; apply piece_length).
  split; [apply (length_upd_streams w count i W pc out Hlen Hpc HiW); lia|].
  intros b i' Hb Hi'.
  destruct (Nat.lt_ge_cases i' i) as [L|G].
  - rewrite (nth_upd_streams_out w count i W pc out Hlen Hpc HiW) by
      (first [lia | intros c Hc; destruct (Nat.lt_trichotomy b c) as [T|[T|T]]; [left|left|right]; nia]).
    apply Hin; assumption.
  - replace (b * count + i') with (b * count + i + (i' - i)) by lia.
    rewrite (nth_upd_streams_in w count i W pc out Hlen Hpc HiW) by lia.
    unfold pc, piece. rewrite nth_map_seq by lia. rewrite nth_sub by nia. f_equal. nia.
Qed.

Lemma Penc_0 w count src out : length out = w * count -> Penc w count src 0 out.
Proof. intros H. split; [exact H|]. intros; lia. Qed.

(** at i = count the invariant determines every byte of the output *)
Lemma Penc_final w count src o1 o2 : Penc w count src count o1 -> Penc w count src count o2 -> o1 = o2.
Proof.
  intros [L1 H1] [L2 H2]. apply (list_eq_nth _ _ 0%N); [lia|].
  intros k Hk. rewrite L1 in Hk.
  destruct (Nat.eq_dec count 0) as [E|E]; [subst; lia|].
  assert (Hb : k / count < w) by (apply Nat.div_lt_upper_bound; lia).
  assert (Hi : k mod count < count) by (apply Nat.mod_upper_bound; exact E).
  pose proof (Nat.div_mod k count E) as D.
  replace k with (k / count * count + k mod count) by lia.
  rewrite H1, H2 by assumption. reflexivity.
Qed.

(* ------------------------------------------------------------------ decode: invariant *)

Definition Pdec (w count : nat) (src : list N) (i : nat) (out : list N) : Prop :=
  length out = w * count /\
  forall i' b, i' < i -> b < w -> nth (i' * w + b) out 0%N = nth (b * count + i') src 0%N.

Lemma dec_block_inv w count src i W out res :
  i + W <= count -> Pdec w count src i out -> length res = W * w ->
  (forall j b, j < W -> b < w -> nth (j * w + b) res 0%N = nth (b * count + i + j) src 0%N) ->
  Pdec w count src (i + W) (upd out (i * w) res).
Proof.
  intros HiW [Hlen Hin] Hres Hpt.
  assert (Hr : i * w + length res <= length out) by (rewrite Hres, Hlen; nia).
  split; [rewrite length_upd by exact Hr; exact Hlen|].
  intros i' b Hi' Hb.
  destruct (Nat.lt_ge_cases i' i) as [L|G].
  - rewrite nth_upd_out; [apply Hin; assumption|exact Hr|]. left. nia.
  - rewrite nth_upd_in; [|exact Hr|rewrite Hres; nia].
    replace (i' * w + b - i * w) with ((i' - i) * w + b) by nia.
    rewrite Hpt by lia. f_equal. lia.
Qed.

Lemma Pdec_0 w count src out : length out = w * count -> Pdec w count src 0 out.
Proof. intros H. split; [exact H|]. intros; lia. Qed.

Lemma Pdec_final w count src o1 o2 : 0 < w -> Pdec w count src count o1 -> Pdec w count src count o2 -> o1 = o2.
Proof.
  intros Hw [L1 H1] [L2 H2]. apply (list_eq_nth _ _ 0%N); [lia|].
  intros k Hk. rewrite L1 in Hk.
  assert (Hi : k / w < count) by (apply Nat.div_lt_upper_bound; lia).
  assert (Hb : k mod w < w) by (apply Nat.mod_upper_bound; lia).
  pose proof (Nat.div_mod k w ltac:(lia)) as D.
  replace k with (k / w * w + k mod w) by lia.
  rewrite H1, H2 by assumption. reflexivity.
Qed.

(* ------------------------------------------------------------------ scalar steps *)

Lemma upd_streams_ext nb count i pc pc' out :
  (forall b, b < nb -> pc b = pc' b) -> upd_streams nb count i pc out = upd_streams nb count i pc' out.
Proof.
  induction nb as [|b IH]; intro H; [reflexivity|].
  cbn [upd_streams]. rewrite IH by (intros; apply H; lia). rewrite H by lia. reflexivity.
Qed.

(** the inner `for b` loop of the scalar encode step stores one byte per stream *)
Lemma enc_step_streams w count src i out :
  length src = w * count -> length out = w * count -> i < count ->
  bss_enc_step w count src i out = Ok (upd_streams w count i (fun b => [nth (i * w + b) src 0%N]) out).
Proof.
  intros Hs Ho Hi. unfold bss_enc_step.
  set (pc := fun b => [nth (i * w + b) src 0%N]).
  assert (G : forall n b0, b0 + n = w ->
            iter_blocks n 1 b0 (fun b o => bind (load1 src (i * w + b)) (fun x => store1 o (b * count + i) x))
                        (upd_streams b0 count i pc out) = Ok (upd_streams w count i pc out)).
  { induction n as [|n IH]; intros b0 Hb.
    - cbn. replace b0 with w by lia. reflexivity.
    - cbn [iter_blocks]. rewrite load1_ok by nia. cbn [bind].
      assert (L : length (upd_streams b0 count i pc out) = w * count).
      { apply (length_upd_streams w count i 1 pc out Ho); [reflexivity|lia|lia]. }
      rewrite store1_ok by (rewrite L; nia). cbn [bind].
      change (upd (upd_streams b0 count i pc out) (b0 * count + i) [nth (i * w + b0) src 0%N])
        with (upd_streams (S b0) count i pc out).
      replace (b0 + 1) with (S b0) by lia. apply IH. lia. }
  apply (G w 0). lia.
Qed.

Lemma enc_step_inv w count src i out :
  length src = w * count -> i < count -> Penc w count src i out ->
  exists out', bss_enc_step w count src i out = Ok out' /\ Penc w count src (i + 1) out'.
Proof.
  intros Hs Hi HP. destruct HP as [Ho Hin].
  rewrite (enc_step_streams w count src i out Hs Ho Hi). eexists. split; [reflexivity|].
  rewrite (upd_streams_ext w count i _ (fun b => piece w b 1 (sub src (i * w) (1 * w)))).
  - apply enc_pieces_inv; [lia|split; assumption].
  - intros b Hb. unfold piece. cbn [seq map]. rewrite nth_sub by lia. reflexivity.
Qed.

Lemma dec_step_inv w count src i out :
  0 < w -> length src = w * count -> i < count -> Pdec w count src i out ->
  exists out', bss_dec_step w count src i out = Ok out' /\ Pdec w count src (i + 1) out'.
Proof.
  intros Hw Hs Hi [Ho Hin]. unfold bss_dec_step.
  (* the inner loop writes w consecutive bytes; invariant: bytes [i*w, i*w+b) hold the transposed values *)
  set (Q := fun (b : nat) (o : list N) =>
              length o = w * count /\
              (forall i' c, i' < i -> c < w -> nth (i' * w + c) o 0%N = nth (c * count + i') src 0%N) /\
              (forall c, c < b -> c < w -> nth (i * w + c) o 0%N = nth (c * count + i) src 0%N)).
  destruct (iter_blocks_inv Q (fun b o => bind (load1 src (b * count + i)) (fun x => store1 o (i * w + b) x)) 1 w 0 out)
    as [o' [E [L [H1 H2]]]].
  - split; [exact Ho|]. split; [exact Hin|]. intros; lia.
  - intros b o Hb0 Hb1 [L [H1 H2]]. rewrite load1_ok by nia. cbn [bind]. rewrite store1_ok by nia.
    eexists. split; [reflexivity|]. split; [rewrite length_upd by (cbn; nia); exact L|]. split.
    + intros i' c Hi' Hc. rewrite nth_upd1 by nia. destruct (Nat.eqb_spec (i' * w + c) (i * w + b)); [nia|]. apply H1; assumption.
    + intros c Hc Hcw. rewrite nth_upd1 by nia. destruct (Nat.eqb_spec (i * w + c) (i * w + b)) as [Eq|Ne].
      * assert (c = b) by lia. subst. reflexivity.
      * apply H2; lia.
  - exists o'. split; [exact E|]. split; [exact L|].
    intros i' b Hi' Hb. destruct (Nat.lt_ge_cases i' i) as [Lt|Ge].
    + apply H1; assumption.
    + assert (i' = i) by lia. subst. apply H2; lia.
Qed.

(* ------------------------------------------------------------------ the scalar definitions meet the invariant *)

Lemma scalar_bss_encode_spec w count src out0 :
  length src = w * count -> length out0 = w * count ->
  exists out, scalar_bss_encode w count src out0 = Ok out /\ Penc w count src count out.
Proof.
  intros Hs Ho. apply scalar_loop_inv; [apply Penc_0; exact Ho|].
  intros j s0 Hj HP. apply enc_step_inv; assumption.
Qed.

Lemma scalar_bss_decode_spec w count src out0 :
  0 < w -> length src = w * count -> length out0 = w * count ->
  exists out, scalar_bss_decode w count src out0 = Ok out /\ Pdec w count src count out.
Proof.
  intros Hw Hs Ho. apply scalar_loop_inv; [apply Pdec_0; exact Ho|].
  intros j s0 Hj HP. apply dec_step_inv; assumption.
Qed.

(** a vector kernel whose blocks preserve the invariant returns what the scalar definition returns *)
Lemma enc_kernel_eq w W count src out0 block :
  0 < W -> length src = w * count -> length out0 = w * count ->
  (forall j s0, j + W <= count -> Penc w count src j s0 ->
                exists s1, block j s0 = Ok s1 /\ Penc w count src (j + W) s1) ->
  exists out, simd_loop W count block (bss_enc_step w count src) out0 = Ok out /\
              scalar_bss_encode w count src out0 = Ok out.
Proof.
  intros HW Hs Ho Hb.
  destruct (simd_loop_inv (Penc w count src) W count block (bss_enc_step w count src) out0 HW (Penc_0 _ _ _ _ Ho) Hb)
    as [o1 [E1 P1]]; [intros j s0 Hj HP; apply enc_step_inv; assumption|].
  destruct (scalar_bss_encode_spec w count src out0 Hs Ho) as [o2 [E2 P2]].
  exists o1. split; [exact E1|]. rewrite E2. f_equal. apply (Penc_final w count src); assumption.
Qed.

Lemma dec_kernel_eq w W count src out0 block :
  0 < w -> 0 < W -> length src = w * count -> length out0 = w * count ->
  (forall j s0, j + W <= count -> Pdec w count src j s0 ->
                exists s1, block j s0 = Ok s1 /\ Pdec w count src (j + W) s1) ->
  exists out, simd_loop W count block (bss_dec_step w count src) out0 = Ok out /\
              scalar_bss_decode w count src out0 = Ok out.
Proof.
  intros Hw HW Hs Ho Hb.
  destruct (simd_loop_inv (Pdec w count src) W count block (bss_dec_step w count src) out0 HW (Pdec_0 _ _ _ _ Ho) Hb)
    as [o1 [E1 P1]]; [intros j s0 Hj HP; apply dec_step_inv; assumption|].
  destruct (scalar_bss_decode_spec w count src out0 Hw Hs Ho) as [o2 [E2 P2]].
  exists o1. split; [exact E1|]. rewrite E2. f_equal. apply (Pdec_final w count src); assumption.
Qed.

(* ------------------------------------------------------------------ vector blocks: encode float *)

(** destructure a list of known length into its elements *)
Tactic Notation "dlist" ident(v) hyp(H) integer(n) :=
  do n (destruct v as [|? v]; [simpl in H; discriminate H|]); destruct v; [|simpl in H; discriminate H]; clear H.

Lemma store4_streams count i W pc out :
  length out = 4 * count -> (forall b, b < 4 -> length (pc b) = W) -> i + W <= count ->
  bind (store out (0 * count + i) (pc 0)) (fun o =>
  bind (store o (1 * count + i) (pc 1)) (fun o =>
  bind (store o (2 * count + i) (pc 2)) (fun o => store o (3 * count + i) (pc 3))))
  = Ok (upd_streams 4 count i pc out).
Proof.
  intros Ho Hpc HiW.
  assert (L : forall nb, nb <= 4 -> length (upd_streams nb count i pc out) = 4 * count)
    by (intros; apply (length_upd_streams 4 count i W pc out Ho Hpc HiW); assumption).
  rewrite store_ok by (rewrite Hpc by lia; lia). cbn [bind].
  change (upd out (0 * count + i) (pc 0)) with (upd_streams 1 count i pc out).
  rewrite store_ok by (rewrite L, Hpc by lia; lia). cbn [bind].
  change (upd (upd_streams 1 count i pc out) (1 * count + i) (pc 1)) with (upd_streams 2 count i pc out).
  rewrite store_ok by (rewrite L, Hpc by lia; lia). cbn [bind].
  change (upd (upd_streams 2 count i pc out) (2 * count + i) (pc 2)) with (upd_streams 3 count i pc out).
  rewrite store_ok by (rewrite L, Hpc by lia; lia). reflexivity.
Qed.

(** a block that stores the four stream pieces of W values preserves the encode invariant *)
Lemma enc4_block_inv count src j W s0 pc :
  length src = 4 * count -> j + W <= count -> Penc 4 count src j s0 ->
  (forall b, b < 4 -> pc b = piece 4 b W (sub src (j * 4) (W * 4))) ->
  exists s1,
    bind (store s0 (0 * count + j) (pc 0)) (fun o =>
    bind (store o (1 * count + j) (pc 1)) (fun o =>
    bind (store o (2 * count + j) (pc 2)) (fun o => store o (3 * count + j) (pc 3)))) = Ok s1 /\
    Penc 4 count src (j + W) s1.
Proof.
  intros Hs HjW HP Hpc. pose proof HP as [Ho _].
  rewrite (store4_streams count j W pc s0 Ho); [|intros b Hb; rewrite Hpc by exact Hb; apply piece_length|exact HjW].
  eexists. split; [reflexivity|].
  rewrite (upd_streams_ext 4 count j pc _ _ Hpc). apply enc_pieces_inv; assumption.
Qed.

Lemma sse_enc_f_pieces v :
  length v = 16 ->
  mm_cvtsi128_si32 (mm_shuffle_epi8 v (shuf_b 0)) = piece 4 0 4 v /\
  mm_cvtsi128_si32 (mm_shuffle_epi8 v (shuf_b 1)) = piece 4 1 4 v /\
  mm_cvtsi128_si32 (mm_shuffle_epi8 v (shuf_b 2)) = piece 4 2 4 v /\
  mm_cvtsi128_si32 (mm_shuffle_epi8 v (shuf_b 3)) = piece 4 3 4 v.
Proof. intros H. dlist v H 16. repeat split; reflexivity. Qed.

Lemma sse_bss_encode_float_block_inv count src j s0 :
  length src = 4 * count -> j + 4 <= count -> Penc 4 count src j s0 ->
  exists s1, sse_bss_encode_float_block count src j s0 = Ok s1 /\ Penc 4 count src (j + 4) s1.
Proof.
  intros Hs Hj HP. unfold sse_bss_encode_float_block. rewrite load_ok by lia. cbn [bind].
  set (v := sub src (j * 4) 16).
  assert (Lv : length v = 16) by (apply length_sub; lia).
  destruct (sse_enc_f_pieces v Lv) as [E0 [E1 [E2 E3]]].
  apply (enc4_block_inv count src j 4 s0
           (fun b => match b with 0 => _ | 1 => _ | 2 => _ | _ => _ end) Hs Hj HP).
  intros b Hb. destruct b as [|[|[|[|b]]]]; [exact E0|exact E1|exact E2|exact E3|lia].
Qed.

Theorem sse_bss_encode_float_eq_scalar count src out0 :
  length src = 4 * count -> length out0 = 4 * count ->
  exists out, sse_bss_encode_float count src out0 = Ok out /\ scalar_bss_encode 4 count src out0 = Ok out.
Proof.
  intros Hs Ho. apply enc_kernel_eq; [lia|exact Hs|exact Ho|].
  intros j s0 Hj HP. apply sse_bss_encode_float_block_inv; assumption.
Qed.

(** four pieces given as upd_seq *)
Lemma upd_streams4_seq count i pc out :
  upd_streams 4 count i pc out =
  upd_seq [(0 * count + i, pc 0); (1 * count + i, pc 1); (2 * count + i, pc 2); (3 * count + i, pc 3)] out.
Proof. reflexivity. Qed.

Lemma avx2_enc_f_pieces v :
  length v = 32 ->
  let o b := mm256_shuffle_epi8 v (shuf32_b b) in
  mm256_extract_epi32 (o 0%N) 0 ++ mm256_extract_epi32 (o 0%N) 4 = piece 4 0 8 v /\
  mm256_extract_epi32 (o 1%N) 0 ++ mm256_extract_epi32 (o 1%N) 4 = piece 4 1 8 v /\
  mm256_extract_epi32 (o 2%N) 0 ++ mm256_extract_epi32 (o 2%N) 4 = piece 4 2 8 v /\
  mm256_extract_epi32 (o 3%N) 0 ++ mm256_extract_epi32 (o 3%N) 4 = piece 4 3 8 v.
Proof. intros H. dlist v H 32. repeat split; reflexivity. Qed.

Lemma extract_epi32_length v k : 4 * k + 4 <= length v -> length (mm256_extract_epi32 v k) = 4.
Proof. intros H. unfold mm256_extract_epi32. apply length_sub. exact H. Qed.

Lemma avx2_bss_encode_float_block_inv count src j s0 :
  length src = 4 * count -> j + 8 <= count -> Penc 4 count src j s0 ->
  exists s1, avx2_bss_encode_float_block count src j s0 = Ok s1 /\ Penc 4 count src (j + 8) s1.
Proof.
  intros Hs Hj HP. pose proof HP as [Ho _].
  unfold avx2_bss_encode_float_block. rewrite load_ok by lia. cbn [bind].
  set (v := sub src (j * 4) 32).
  assert (Lv : length v = 32) by (apply length_sub; lia).
  destruct (avx2_enc_f_pieces v Lv) as [E0 [E1 [E2 E3]]]. cbv zeta in E0, E1, E2, E3.
  set (o0 := mm256_shuffle_epi8 v (shuf32_b 0)) in *. set (o1 := mm256_shuffle_epi8 v (shuf32_b 1)) in *.
  set (o2 := mm256_shuffle_epi8 v (shuf32_b 2)) in *. set (o3 := mm256_shuffle_epi8 v (shuf32_b 3)) in *.
  assert (L32 : forall b, length (mm256_shuffle_epi8 v (shuf32_b b)) = 32).
  { intro b. clear -Lv. dlist v Lv 32. reflexivity. }
  assert (Lx : forall b k, k < 8 -> length (mm256_extract_epi32 (mm256_shuffle_epi8 v (shuf32_b b)) k) = 4)
    by (intros; apply extract_epi32_length; rewrite L32; lia).
  match goal with |- exists s1, ?X = Ok s1 /\ _ =>
    change X with (store_seq [(0 * count + j, mm256_extract_epi32 o0 0); (0 * count + j + 4, mm256_extract_epi32 o0 4);
                              (1 * count + j, mm256_extract_epi32 o1 0); (1 * count + j + 4, mm256_extract_epi32 o1 4);
                              (2 * count + j, mm256_extract_epi32 o2 0); (2 * count + j + 4, mm256_extract_epi32 o2 4);
                              (3 * count + j, mm256_extract_epi32 o3 0); (3 * count + j + 4, mm256_extract_epi32 o3 4)] s0) end.
  match goal with |- exists s1, store_seq ?ops s0 = Ok s1 /\ _ =>
    destruct (store_seq_ok ops s0) as [E _] end.
  { unfold o0, o1, o2, o3. repeat constructor; cbn [fst snd]; rewrite Lx by lia; lia. }
  rewrite E. eexists. split; [reflexivity|].
  unfold o0, o1, o2, o3 in *.
  rewrite (upd_seq_merge (0 * count + j) 4) by (rewrite ?Lx by lia; lia). rewrite upd_seq_cons.
  rewrite (upd_seq_merge (1 * count + j) 4) by (rewrite ?length_upd, ?app_length, ?Lx by (rewrite ?app_length, ?Lx by lia; lia); lia).
  rewrite upd_seq_cons.
  rewrite (upd_seq_merge (2 * count + j) 4) by
    (rewrite ?length_upd, ?app_length, ?Lx by (rewrite ?length_upd, ?app_length, ?Lx by (rewrite ?app_length, ?Lx by lia; lia); lia); lia).
  rewrite upd_seq_cons.
  rewrite (upd_seq_merge (3 * count + j) 4) by
    (rewrite ?length_upd, ?app_length, ?Lx by
       (rewrite ?length_upd, ?app_length, ?Lx by (rewrite ?length_upd, ?app_length, ?Lx by (rewrite ?app_length, ?Lx by lia; lia); lia); lia); lia).
  cbn [upd_seq]. rewrite E0, E1, E2, E3.
  change (upd (upd (upd (upd s0 (0 * count + j) (piece 4 0 8 v)) (1 * count + j) (piece 4 1 8 v)) (2 * count + j) (piece 4 2 8 v))
              (3 * count + j) (piece 4 3 8 v))
    with (upd_streams 4 count j (fun b => piece 4 b 8 (sub src (j * 4) (8 * 4))) s0).
  apply enc_pieces_inv; assumption.
Qed.

Theorem avx2_bss_encode_float_eq_scalar count src out0 :
  length src = 4 * count -> length out0 = 4 * count ->
  exists out, avx2_bss_encode_float count src out0 = Ok out /\ scalar_bss_encode 4 count src out0 = Ok out.
Proof.
  intros Hs Ho. apply enc_kernel_eq; [lia|exact Hs|exact Ho|].
  intros j s0 Hj HP. apply avx2_bss_encode_float_block_inv; assumption.
Qed.

Lemma avx512_enc_f_pieces v :
  length v = 64 ->
  let t := mm512_permutexvar_epi32 cross_lane_perm (mm512_shuffle_epi8 v intra_lane_shuf) in
  mm512_castsi512_si128 t = piece 4 0 16 v /\
  mm512_extracti32x4_epi32 t 1 = piece 4 1 16 v /\
  mm512_extracti32x4_epi32 t 2 = piece 4 2 16 v /\
  mm512_extracti32x4_epi32 t 3 = piece 4 3 16 v.
Proof. intros H. dlist v H 64. repeat split; vm_compute; reflexivity. Qed.

Lemma avx512_bss_encode_float_block_inv count src j s0 :
  length src = 4 * count -> j + 16 <= count -> Penc 4 count src j s0 ->
  exists s1, avx512_bss_encode_float_block count src j s0 = Ok s1 /\ Penc 4 count src (j + 16) s1.
Proof.
  intros Hs Hj HP. unfold avx512_bss_encode_float_block. rewrite load_ok by lia. cbn [bind].
  set (v := sub src (j * 4) 64).
  assert (Lv : length v = 64) by (apply length_sub; lia).
  destruct (avx512_enc_f_pieces v Lv) as [E0 [E1 [E2 E3]]]. cbv zeta in E0, E1, E2, E3.
  apply (enc4_block_inv count src j 16 s0
           (fun b => match b with 0 => _ | 1 => _ | 2 => _ | _ => _ end) Hs Hj HP).
  intros b Hb. destruct b as [|[|[|[|b]]]]; [exact E0|exact E1|exact E2|exact E3|lia].
Qed.

Theorem avx512_bss_encode_float_eq_scalar count src out0 :
  length src = 4 * count -> length out0 = 4 * count ->
  exists out, avx512_bss_encode_float count src out0 = Ok out /\ scalar_bss_encode 4 count src out0 = Ok out.
Proof.
  intros Hs Ho. apply enc_kernel_eq; [lia|exact Hs|exact Ho|].
  intros j s0 Hj HP. apply avx512_bss_encode_float_block_inv; assumption.
Qed.

(* ------------------------------------------------------------------ encode double (unrolled scalar moves) *)

Lemma iter_streams w count i W pc (f : nat -> list N -> res (list N)) out :
  length out = w * count -> (forall b, b < w -> length (pc b) = W) -> i + W <= count ->
  (forall b o, b < w -> length o = w * count -> f b o = Ok (upd o (b * count + i) (pc b))) ->
  iter_blocks w 1 0 f out = Ok (upd_streams w count i pc out).
Proof.
  intros Ho Hpc HiW Hf.
  assert (G : forall n b0, b0 + n = w ->
            iter_blocks n 1 b0 f (upd_streams b0 count i pc out) = Ok (upd_streams w count i pc out)).
  { induction n as [|n IH]; intros b0 Hb.
    - cbn. replace b0 with w by lia. reflexivity.
    - cbn [iter_blocks].
      rewrite Hf; [|lia|apply (length_upd_streams w count i W pc out Ho Hpc HiW); lia]. cbn [bind].
      change (upd (upd_streams b0 count i pc out) (b0 * count + i) (pc b0)) with (upd_streams (S b0) count i pc out).
      replace (b0 + 1) with (S b0) by lia. apply IH. lia. }
  apply (G w 0). lia.
Qed.

Lemma sse_bss_encode_double_block_inv count src j s0 :
  length src = 8 * count -> j + 2 <= count -> Penc 8 count src j s0 ->
  exists s1, sse_bss_encode_double_block count src j s0 = Ok s1 /\ Penc 8 count src (j + 2) s1.
Proof.
  intros Hs Hj HP. pose proof HP as [Ho _]. unfold sse_bss_encode_double_block.
  rewrite (iter_streams 8 count j 2 (fun b => [nth (j * 8 + 0 + b) src 0%N; nth (j * 8 + 8 + b) src 0%N])); try assumption; try reflexivity.
  - eexists. split; [reflexivity|].
    rewrite (upd_streams_ext 8 count j _ (fun b => piece 8 b 2 (sub src (j * 8) (2 * 8)))).
    + apply enc_pieces_inv; assumption.
    + intros b Hb. unfold piece. cbn [seq map]. rewrite !nth_sub by lia.
      replace (j * 8 + (0 * 8 + b)) with (j * 8 + 0 + b) by lia. replace (j * 8 + (1 * 8 + b)) with (j * 8 + 8 + b) by lia. reflexivity.
  - intros b o Hb Lo. rewrite load1_ok by lia. cbn [bind]. rewrite store1_ok by nia. cbn [bind].
    rewrite load1_ok by lia. cbn [bind]. rewrite store1_ok by (rewrite length_upd by (cbn [length]; nia); nia).
    f_equal. rewrite Nat.add_0_r.
    change (b * count + j + 1) with (b * count + j + length [nth (j * 8 + 0 + b) src 0%N]).
    rewrite upd_app by (cbn [length]; nia). reflexivity.
Qed.

Theorem sse_bss_encode_double_eq_scalar count src out0 :
  length src = 8 * count -> length out0 = 8 * count ->
  exists out, sse_bss_encode_double count src out0 = Ok out /\ scalar_bss_encode 8 count src out0 = Ok out.
Proof.
  intros Hs Ho. apply enc_kernel_eq; [lia|exact Hs|exact Ho|].
  intros j s0 Hj HP. apply sse_bss_encode_double_block_inv; assumption.
Qed.

Lemma avx2_bss_encode_double_block_inv count src j s0 :
  length src = 8 * count -> j + 4 <= count -> Penc 8 count src j s0 ->
  exists s1, avx2_bss_encode_double_block count src j s0 = Ok s1 /\ Penc 8 count src (j + 4) s1.
Proof.
  intros Hs Hj HP. pose proof HP as [Ho _]. unfold avx2_bss_encode_double_block.
  rewrite (iter_streams 8 count j 4 (fun b => [nth (j * 8 + 0 + b) src 0%N; nth (j * 8 + 8 + b) src 0%N;
                                               nth (j * 8 + 16 + b) src 0%N; nth (j * 8 + 24 + b) src 0%N]));
    try assumption; try reflexivity.
  - eexists. split; [reflexivity|].
    rewrite (upd_streams_ext 8 count j _ (fun b => piece 8 b 4 (sub src (j * 8) (4 * 8)))).
    + apply enc_pieces_inv; assumption.
    + intros b Hb. unfold piece. cbn [seq map]. rewrite !nth_sub by lia.
      replace (j * 8 + (0 * 8 + b)) with (j * 8 + 0 + b) by lia. replace (j * 8 + (1 * 8 + b)) with (j * 8 + 8 + b) by lia.
      replace (j * 8 + (2 * 8 + b)) with (j * 8 + 16 + b) by lia. replace (j * 8 + (3 * 8 + b)) with (j * 8 + 24 + b) by lia. reflexivity.
  - intros b o Hb Lo.
    rewrite load1_ok by lia. cbn [bind]. rewrite store1_ok by nia. cbn [bind].
    rewrite load1_ok by lia. cbn [bind]. rewrite store1_ok by (rewrite !length_upd by (rewrite ?length_upd by (cbn [length]; nia); cbn [length]; nia); nia). cbn [bind].
    rewrite load1_ok by lia. cbn [bind].
    rewrite store1_ok by (rewrite !length_upd by (rewrite ?length_upd by (cbn [length]; nia); cbn [length]; nia); nia). cbn [bind].
    rewrite load1_ok by lia. cbn [bind].
    rewrite store1_ok by
      (rewrite !length_upd by (rewrite ?length_upd by (rewrite ?length_upd by (cbn [length]; nia); cbn [length]; nia); cbn [length]; nia); nia).
    f_equal. rewrite Nat.add_0_r.
    set (x0 := nth (j * 8 + 0 + b) src 0%N). set (x1 := nth (j * 8 + 8 + b) src 0%N).
    set (x2 := nth (j * 8 + 16 + b) src 0%N). set (x3 := nth (j * 8 + 24 + b) src 0%N).
    change (b * count + j + 1) with (b * count + j + length [x0]).
    rewrite (upd_app o [x0] [x1]) by (cbn [length]; nia).
    change (b * count + j + 2) with (b * count + j + length ([x0] ++ [x1])).
    rewrite (upd_app o ([x0] ++ [x1]) [x2]) by (cbn [length app]; nia).
    change (b * count + j + 3) with (b * count + j + length (([x0] ++ [x1]) ++ [x2])).
    rewrite (upd_app o (([x0] ++ [x1]) ++ [x2]) [x3]) by (cbn [length app]; nia).
    reflexivity.
Qed.

Theorem avx2_bss_encode_double_eq_scalar count src out0 :
  length src = 8 * count -> length out0 = 8 * count ->
  exists out, avx2_bss_encode_double count src out0 = Ok out /\ scalar_bss_encode 8 count src out0 = Ok out.
Proof.
  intros Hs Ho. apply enc_kernel_eq; [lia|exact Hs|exact Ho|].
  intros j s0 Hj HP. apply avx2_bss_encode_double_block_inv; assumption.
Qed.

(* ------------------------------------------------------------------ vector blocks: decode float *)

Fixpoint interleave4 (a b c d : list N) : list N :=
  match a, b, c, d with
  | x :: a', y :: b', z :: c', t :: d' => x :: y :: z :: t :: interleave4 a' b' c' d'
  | _, _, _, _ => []
  end.

Lemma interleave4_spec : forall a b c d W,
  length a = W -> length b = W -> length c = W -> length d = W ->
  length (interleave4 a b c d) = W * 4 /\
  forall j, j < W ->
    nth (j * 4 + 0) (interleave4 a b c d) 0%N = nth j a 0%N /\
    nth (j * 4 + 1) (interleave4 a b c d) 0%N = nth j b 0%N /\
    nth (j * 4 + 2) (interleave4 a b c d) 0%N = nth j c 0%N /\
    nth (j * 4 + 3) (interleave4 a b c d) 0%N = nth j d 0%N.
Proof.
  induction a as [|x a IH]; intros b c d W Ha Hb Hc Hd.
  - cbn in Ha. subst W. split; [reflexivity|]. intros; lia.
  - destruct b as [|y b]; [cbn in *; lia|]. destruct c as [|z c]; [cbn in *; lia|]. destruct d as [|t d]; [cbn in *; lia|].
    destruct W as [|W]; [cbn in Ha; lia|].
    cbn [length] in *. destruct (IH b c d W ltac:(lia) ltac:(lia) ltac:(lia) ltac:(lia)) as [L H].
    cbn [interleave4 length]. split; [lia|].
    intros j Hj. destruct j as [|j]; [cbn; auto|].
    replace (S j * 4 + 0) with (S (S (S (S (j * 4 + 0))))) by lia.
    replace (S j * 4 + 1) with (S (S (S (S (j * 4 + 1))))) by lia.
    replace (S j * 4 + 2) with (S (S (S (S (j * 4 + 2))))) by lia.
    replace (S j * 4 + 3) with (S (S (S (S (j * 4 + 3))))) by lia.
    cbn [nth]. apply H. lia.
Qed.

(** a block that stores the interleaving of the four stream pieces preserves the decode invariant *)
Lemma dec4_block_inv count src j W s0 :
  length src = 4 * count -> j + W <= count -> Pdec 4 count src j s0 ->
  Pdec 4 count src (j + W)
       (upd s0 (j * 4) (interleave4 (sub src (0 * count + j) W) (sub src (1 * count + j) W)
                                    (sub src (2 * count + j) W) (sub src (3 * count + j) W))).
Proof.
  intros Hs Hj HP.
  destruct (interleave4_spec (sub src (0 * count + j) W) (sub src (1 * count + j) W)
                             (sub src (2 * count + j) W) (sub src (3 * count + j) W) W) as [L H];
    try (apply length_sub; lia).
  apply dec_block_inv; [exact Hj|exact HP|exact L|].
  intros k b Hk Hb. destruct (H k Hk) as [H0 [H1 [H2 H3]]].
  destruct b as [|[|[|[|b]]]]; [rewrite H0|rewrite H1|rewrite H2|rewrite H3|lia]; rewrite nth_sub by lia; f_equal; lia.
Qed.

Lemma sse_dec_f_compute b0 b1 b2 b3 :
  length b0 = 4 -> length b1 = 4 -> length b2 = 4 -> length b3 = 4 ->
  mm_unpacklo_epi16 (mm_unpacklo_epi8 (mm_cvtsi32_si128 b0) (mm_cvtsi32_si128 b1))
                    (mm_unpacklo_epi8 (mm_cvtsi32_si128 b2) (mm_cvtsi32_si128 b3)) = interleave4 b0 b1 b2 b3.
Proof. intros H0 H1 H2 H3. dlist b0 H0 4. dlist b1 H1 4. dlist b2 H2 4. dlist b3 H3 4. reflexivity. Qed.

Lemma sse_bss_decode_float_block_inv count src j s0 :
  length src = 4 * count -> j + 4 <= count -> Pdec 4 count src j s0 ->
  exists s1, sse_bss_decode_float_block count src j s0 = Ok s1 /\ Pdec 4 count src (j + 4) s1.
Proof.
  intros Hs Hj HP. pose proof HP as [Ho _]. unfold sse_bss_decode_float_block.
  rewrite !load_ok by lia. cbn [bind].
  rewrite sse_dec_f_compute by (apply length_sub; lia).
  pose proof (interleave4_spec (sub src (0 * count + j) 4) (sub src (1 * count + j) 4)
                               (sub src (2 * count + j) 4) (sub src (3 * count + j) 4) 4) as [L _];
    try (apply length_sub; lia).
  rewrite store_ok by (rewrite L; lia). eexists. split; [reflexivity|].
  apply dec4_block_inv; assumption.
Qed.

Theorem sse_bss_decode_float_eq_scalar count src out0 :
  length src = 4 * count -> length out0 = 4 * count ->
  exists out, sse_bss_decode_float count src out0 = Ok out /\ scalar_bss_decode 4 count src out0 = Ok out.
Proof.
  intros Hs Ho. apply dec_kernel_eq; [lia|lia|exact Hs|exact Ho|].
  intros j s0 Hj HP. apply sse_bss_decode_float_block_inv; assumption.
Qed.

Lemma avx2_dec_f_compute t0 t1 t2 t3 :
  length t0 = 8 -> length t1 = 8 -> length t2 = 8 -> length t3 = 8 ->
  let lo01 := mm_unpacklo_epi8 (mm_cvtsi64_si128 t0) (mm_cvtsi64_si128 t1) in
  let lo23 := mm_unpacklo_epi8 (mm_cvtsi64_si128 t2) (mm_cvtsi64_si128 t3) in
  length (mm_unpacklo_epi16 lo01 lo23) = 16 /\ length (mm_unpackhi_epi16 lo01 lo23) = 16 /\
  mm_unpacklo_epi16 lo01 lo23 ++ mm_unpackhi_epi16 lo01 lo23 = interleave4 t0 t1 t2 t3.
Proof. intros H0 H1 H2 H3. dlist t0 H0 8. dlist t1 H1 8. dlist t2 H2 8. dlist t3 H3 8. repeat split; reflexivity. Qed.

Lemma avx2_bss_decode_float_block_inv count src j s0 :
  length src = 4 * count -> j + 8 <= count -> Pdec 4 count src j s0 ->
  exists s1, avx2_bss_decode_float_block count src j s0 = Ok s1 /\ Pdec 4 count src (j + 8) s1.
Proof.
  intros Hs Hj HP. pose proof HP as [Ho _]. unfold avx2_bss_decode_float_block.
  rewrite !load_ok by lia. cbn [bind].
  destruct (avx2_dec_f_compute (sub src (0 * count + j) 8) (sub src (1 * count + j) 8)
                               (sub src (2 * count + j) 8) (sub src (3 * count + j) 8)) as [L1 [L2 E]];
    try (apply length_sub; lia). cbv zeta in L1, L2, E.
  rewrite store_ok by (rewrite L1; lia). cbn [bind].
  rewrite store_ok by (rewrite length_upd by (rewrite L1; lia); rewrite L2; lia).
  eexists. split; [reflexivity|].
  replace (j * 4 + 16) with (j * 4 + length (mm_unpacklo_epi16
      (mm_unpacklo_epi8 (mm_cvtsi64_si128 (sub src (0 * count + j) 8)) (mm_cvtsi64_si128 (sub src (1 * count + j) 8)))
      (mm_unpacklo_epi8 (mm_cvtsi64_si128 (sub src (2 * count + j) 8)) (mm_cvtsi64_si128 (sub src (3 * count + j) 8)))))
    by (rewrite L1; reflexivity).
  rewrite upd_app by (rewrite L1, L2; lia). rewrite E.
  apply dec4_block_inv; assumption.
Qed.

Theorem avx2_bss_decode_float_eq_scalar count src out0 :
  length src = 4 * count -> length out0 = 4 * count ->
  exists out, avx2_bss_decode_float count src out0 = Ok out /\ scalar_bss_decode 4 count src out0 = Ok out.
Proof.
  intros Hs Ho. apply dec_kernel_eq; [lia|lia|exact Hs|exact Ho|].
  intros j s0 Hj HP. apply avx2_bss_decode_float_block_inv; assumption.
Qed.

Lemma avx512_dec_f_compute b0 b1 b2 b3 :
  length b0 = 16 -> length b1 = 16 -> length b2 = 16 -> length b3 = 16 ->
  let lo01_lo := mm_unpacklo_epi8 b0 b1 in let lo01_hi := mm_unpackhi_epi8 b0 b1 in
  let lo23_lo := mm_unpacklo_epi8 b2 b3 in let lo23_hi := mm_unpackhi_epi8 b2 b3 in
  let r0 := mm_unpacklo_epi16 lo01_lo lo23_lo in let r1 := mm_unpackhi_epi16 lo01_lo lo23_lo in
  let r2 := mm_unpacklo_epi16 lo01_hi lo23_hi in let r3 := mm_unpackhi_epi16 lo01_hi lo23_hi in
  length r0 = 16 /\ length r1 = 16 /\ length r2 = 16 /\ length r3 = 16 /\
  ((r0 ++ r1) ++ r2) ++ r3 = interleave4 b0 b1 b2 b3.
Proof. intros H0 H1 H2 H3. dlist b0 H0 16. dlist b1 H1 16. dlist b2 H2 16. dlist b3 H3 16. repeat split; reflexivity. Qed.

Lemma avx512_bss_decode_float_block_inv count src j s0 :
  length src = 4 * count -> j + 16 <= count -> Pdec 4 count src j s0 ->
  exists s1, avx512_bss_decode_float_block count src j s0 = Ok s1 /\ Pdec 4 count src (j + 16) s1.
Proof.
  intros Hs Hj HP. pose proof HP as [Ho _]. unfold avx512_bss_decode_float_block.
  rewrite !load_ok by lia. cbn [bind].
  destruct (avx512_dec_f_compute (sub src (0 * count + j) 16) (sub src (1 * count + j) 16)
                                 (sub src (2 * count + j) 16) (sub src (3 * count + j) 16)) as [L0 [L1 [L2 [L3 E]]]];
    try (apply length_sub; lia). cbv zeta in L0, L1, L2, L3, E.
  set (b0 := sub src (0 * count + j) 16) in *. set (b1 := sub src (1 * count + j) 16) in *.
  set (b2 := sub src (2 * count + j) 16) in *. set (b3 := sub src (3 * count + j) 16) in *.
  set (r0 := mm_unpacklo_epi16 (mm_unpacklo_epi8 b0 b1) (mm_unpacklo_epi8 b2 b3)) in *.
  set (r1 := mm_unpackhi_epi16 (mm_unpacklo_epi8 b0 b1) (mm_unpacklo_epi8 b2 b3)) in *.
  set (r2 := mm_unpacklo_epi16 (mm_unpackhi_epi8 b0 b1) (mm_unpackhi_epi8 b2 b3)) in *.
  set (r3 := mm_unpackhi_epi16 (mm_unpackhi_epi8 b0 b1) (mm_unpackhi_epi8 b2 b3)) in *.
  match goal with |- exists s1, ?X = Ok s1 /\ _ =>
    change X with (store_seq [(j * 4 + 0, r0); (j * 4 + 16, r1); (j * 4 + 32, r2); (j * 4 + 48, r3)] s0) end.
  destruct (store_seq_ok [(j * 4 + 0, r0); (j * 4 + 16, r1); (j * 4 + 32, r2); (j * 4 + 48, r3)] s0) as [Es _].
  { repeat constructor; cbn [fst snd]; rewrite ?L0, ?L1, ?L2, ?L3; lia. }
  rewrite Es. eexists. split; [reflexivity|].
  rewrite Nat.add_0_r.
  rewrite (upd_seq_merge (j * 4) 16 r0 r1) by (rewrite ?L0, ?L1; lia).
  replace (j * 4 + 32) with (j * 4 + 32) by reflexivity.
  rewrite (upd_seq_merge (j * 4) 32 (r0 ++ r1) r2) by (rewrite ?app_length, ?L0, ?L1, ?L2; lia).
  rewrite (upd_seq_merge (j * 4) 48 ((r0 ++ r1) ++ r2) r3) by (rewrite ?app_length, ?L0, ?L1, ?L2, ?L3; lia).
  cbn [upd_seq]. rewrite E. apply dec4_block_inv; assumption.
Qed.

Theorem avx512_bss_decode_float_eq_scalar count src out0 :
  length src = 4 * count -> length out0 = 4 * count ->
  exists out, avx512_bss_decode_float count src out0 = Ok out /\ scalar_bss_decode 4 count src out0 = Ok out.
Proof.
  intros Hs Ho. apply dec_kernel_eq; [lia|lia|exact Hs|exact Ho|].
  intros j s0 Hj HP. apply avx512_bss_decode_float_block_inv; assumption.
Qed.

(** the double decoders of sse_ops.c / avx2_ops.c have no vector loop at all *)
Theorem sse_bss_decode_double_eq_scalar count src out0 :
  length src = 8 * count -> length out0 = 8 * count ->
  exists out, sse_bss_decode_double count src out0 = Ok out /\ scalar_bss_decode 8 count src out0 = Ok out.
Proof.
  intros Hs Ho. destruct (scalar_bss_decode_spec 8 count src out0 ltac:(lia) Hs Ho) as [o [E _]].
  exists o. split; exact E.
Qed.

Theorem avx2_bss_decode_double_eq_scalar count src out0 :
  length src = 8 * count -> length out0 = 8 * count ->
  exists out, avx2_bss_decode_double count src out0 = Ok out /\ scalar_bss_decode 8 count src out0 = Ok out.
Proof.
  intros Hs Ho. destruct (scalar_bss_decode_spec 8 count src out0 ltac:(lia) Hs Ho) as [o [E _]].
  exists o. split; exact E.
Qed.

(* ------------------------------------------------------------------ what the scalar definition computes, and non-vacuity *)

(** the scalar definition itself is the transposition: output[b*count + i] = src[i*w + b] *)
Theorem scalar_bss_encode_transposes w count src out0 :
  length src = w * count -> length out0 = w * count ->
  exists out, scalar_bss_encode w count src out0 = Ok out /\ length out = w * count /\
              forall b i, b < w -> i < count -> nth (b * count + i) out 0%N = nth (i * w + b) src 0%N.
Proof.
  intros Hs Ho. destruct (scalar_bss_encode_spec w count src out0 Hs Ho) as [o [E [L H]]].
  exists o. split; [exact E|]. split; [exact L|exact H].
Qed.

(** in the model an access outside the caller's arrays is a fault: one byte short is detected *)
Example sse_encode_short_output_faults :
  sse_bss_encode_float 4 (map N.of_nat (seq 0 16)) (repeat 0%N 15) = Fault OobWrite.
Proof. vm_compute. reflexivity. Qed.

Example avx512_decode_short_input_faults :
  avx512_bss_decode_float 16 (map N.of_nat (seq 0 63)) (repeat 0%N 64) = Fault OobRead.
Proof. vm_compute. reflexivity. Qed.

Example avx2_encode_example :
  avx2_bss_encode_float 9 (map N.of_nat (seq 0 36)) (repeat 0%N 36) =
  Ok (map N.of_nat [0;4;8;12;16;20;24;28;32; 1;5;9;13;17;21;25;29;33; 2;6;10;14;18;22;26;30;34; 3;7;11;15;19;23;27;31;35]).
Proof. vm_compute. reflexivity. Qed.
