(** Proofs about the dispatcher model (C15, dispatcher part): for EVERY capability set the kernel selected
    for every slot needs only ISA features the capability set provides.  The capability sets are finite
    (sub-sets of [all_features]); an arbitrary list is first normalised to one of them, then all 2^14 sets
    x 19 slots are swept by vm_compute. *)
From Coq Require Import List Bool String Lia Arith.
From Carquet Require Import Gen.Dispatch_gen Gen.Intrinsics_gen Simd.DispatchModel.
Import ListNotations.

(* ------------------------------------------------------------------ everything depends on [has] only *)

Lemma feature_beq_true f g : feature_beq f g = true <-> f = g.
Proof. split; [apply internal_feature_dec_bl | apply internal_feature_dec_lb]. Qed.

Lemma all_features_complete f : In f all_features.
Proof. destruct f; cbn; tauto. Qed.

Lemma has_In c f : has c f = true <-> In f c.
Proof.
  unfold has. rewrite existsb_exists. split.
  - intros [g [Hin Heq]]. apply feature_beq_true in Heq. subst. exact Hin.
  - intros Hin. exists f. split; [exact Hin | apply feature_beq_true; reflexivity].
Qed.

Definition norm (c : caps) : caps := filter (has c) all_features.

Lemma has_norm c f : has (norm c) f = has c f.
Proof.
  destruct (has c f) eqn:E.
  - apply has_In. unfold norm. apply filter_In. split; [apply all_features_complete | exact E].
  - destruct (has (norm c) f) eqn:E2; [|reflexivity].
    apply has_In in E2. unfold norm in E2. apply filter_In in E2. destruct E2 as [_ E2]. congruence.
Qed.

Lemma forallb_ext' {A} (p q : A -> bool) l : (forall x, p x = q x) -> forallb p l = forallb q l.
Proof. intros H. induction l as [|x tl IH]; [reflexivity|]. cbn. rewrite H, IH. reflexivity. Qed.

Lemma cond_holds_ext c c' cond : (forall f, has c f = has c' f) -> cond_holds c cond = cond_holds c' cond.
Proof. intros H. unfold cond_holds. apply forallb_ext'. intros f. apply H. Qed.

Lemma run_blocks_ext bl c c' s acc :
  (forall f, has c f = has c' f) -> run_blocks bl c s acc = run_blocks bl c' s acc.
Proof.
  intros H. revert acc. induction bl as [|[cond asg] tl IH]; intro acc; [reflexivity|].
  cbn [run_blocks]. rewrite (cond_holds_ext c c' cond H). apply IH.
Qed.

Lemma existsb_ext' {A} (p q : A -> bool) l : (forall x, p x = q x) -> existsb p l = existsb q l.
Proof. intros H. induction l as [|x tl IH]; [reflexivity|]. cbn. rewrite H, IH. reflexivity. Qed.

Lemma provides_ext c c' f : (forall g, has c g = has c' g) -> provides c f = provides c' f.
Proof. intros H. unfold provides. apply existsb_ext'. intros g. rewrite H. reflexivity. Qed.

Lemma supported_ext c c' k : (forall g, has c g = has c' g) -> supported c k = supported c' k.
Proof. intros H. unfold supported. apply forallb_ext'. intros f. apply provides_ext, H. Qed.

Lemma filter_in_powerset {A} (p : A -> bool) (l : list A) : In (filter p l) (powerset l).
Proof.
  induction l as [|x tl IH]; [cbn; tauto|].
  cbn [filter powerset]. apply in_or_app. destruct (p x).
  - left. apply in_map, IH.
  - right. exact IH.
Qed.

(* ------------------------------------------------------------------ the sweep *)

(** the kernels for which Props/Properties_C15.v carries a kernel_eq_scalar theorem (the scalar definitions are
    their own reference); if the table ever selects anything else the sweep below fails *)
Definition proved_kernels : list kernel :=
  [K_scalar_prefix_sum_i32; K_scalar_prefix_sum_i64; K_scalar_gather_i32; K_scalar_gather_i64; K_scalar_gather_float;
   K_scalar_gather_double; K_scalar_byte_split_encode_float; K_scalar_byte_split_decode_float;
   K_scalar_byte_split_encode_double; K_scalar_byte_split_decode_double; K_scalar_unpack_bools; K_scalar_pack_bools;
   K_scalar_find_run_length_i32; K_scalar_crc32c; K_scalar_match_copy; K_scalar_match_length; K_scalar_count_non_nulls;
   K_scalar_build_null_bitmap; K_scalar_fill_def_levels;
   K_carquet_sse_prefix_sum_i32; K_carquet_sse_prefix_sum_i64; K_carquet_sse_gather_i32; K_carquet_sse_gather_i64;
   K_carquet_sse_gather_float; K_carquet_sse_gather_double; K_carquet_sse_byte_stream_split_encode_float;
   K_carquet_sse_byte_stream_split_decode_float; K_carquet_sse_byte_stream_split_encode_double;
   K_carquet_sse_byte_stream_split_decode_double; K_carquet_sse_unpack_bools; K_carquet_sse_pack_bools;
   K_carquet_sse_crc32c; K_carquet_sse_match_copy; K_carquet_sse_match_length; K_carquet_sse_count_non_nulls;
   K_carquet_sse_build_null_bitmap; K_carquet_sse_fill_def_levels; K_carquet_sse_find_run_length_i32;
   K_carquet_avx2_prefix_sum_i32; K_carquet_avx2_prefix_sum_i64; K_carquet_avx2_gather_i32; K_carquet_avx2_gather_i64;
   K_carquet_avx2_gather_float; K_carquet_avx2_gather_double; K_carquet_avx2_byte_stream_split_encode_float;
   K_carquet_avx2_byte_stream_split_decode_float; K_carquet_avx2_unpack_bools; K_carquet_avx2_pack_bools;
   K_carquet_avx2_find_run_length_i32;
   K_carquet_avx512_prefix_sum_i32; K_carquet_avx512_prefix_sum_i64; K_carquet_avx512_gather_i32; K_carquet_avx512_gather_i64;
   K_carquet_avx512_gather_float; K_carquet_avx512_gather_double; K_carquet_avx512_byte_stream_split_encode_float;
   K_carquet_avx512_byte_stream_split_decode_float; K_carquet_avx512_unpack_bools; K_carquet_avx512_pack_bools;
   K_carquet_avx512_find_run_length_i32].

Definition proved_indices : list nat := map kernel_index proved_kernels.
Definition is_proved (k : kernel) : bool := existsb (Nat.eqb (kernel_index k)) proved_indices.

Definition slot_ok (base : list (slot * kernel)) (bl : list (list feature * list (slot * kernel)))
           (c : caps) (s : slot) : bool :=
  match select_with base bl c s with Some k => supported c k | None => false end.

Definition table_ok (base : list (slot * kernel)) (bl : list (list feature * list (slot * kernel))) : bool :=
  forallb (fun c => forallb (slot_ok base bl c) all_slots) (powerset all_features).

Lemma all_slots_complete s : In s all_slots.
Proof. destruct s; cbn; tauto. Qed.

Lemma table_ok_sound base bl :
  table_ok base bl = true ->
  forall c s, exists k, select_with base bl c s = Some k /\ supported c k = true.
Proof.
  intros H c s. unfold table_ok in H. rewrite forallb_forall in H.
  specialize (H (norm c) (filter_in_powerset _ _)). rewrite forallb_forall in H.
  specialize (H s (all_slots_complete s)). unfold slot_ok in H.
  assert (E : select_with base bl (norm c) s = select_with base bl c s).
  { unfold select_with. apply run_blocks_ext. intros f. apply has_norm. }
  rewrite E in H. destruct (select_with base bl c s) as [k|]; [|discriminate H].
  exists k. split; [reflexivity|]. rewrite <- H. apply supported_ext. intros g. symmetry. apply has_norm.
Qed.

(** The table of the current source tree passes for all 2^14 capability sets x 19 slots. *)
Lemma current_table_ok : table_ok base_table override_blocks = true.
Proof. vm_compute. reflexivity. Qed.

(** C15, dispatcher: whatever the CPU reports, every slot holds a kernel the CPU can execute. *)
Theorem dispatch_selects_supported_all :
  forall (c : caps) (s : slot), exists k, select c s = Some k /\ supported c k = true.
Proof. exact (table_ok_sound _ _ current_table_ok). Qed.

(** whatever is selected is a kernel named in the table ... *)
Lemma last_assign_in l s : forall acc k, last_assign l s acc = Some k -> acc = Some k \/ In k (map snd l).
Proof.
  induction l as [|[s' k'] tl IH]; intros acc k H; [left; exact H|].
  cbn [last_assign] in H. apply IH in H. destruct H as [H|H]; [|right; right; exact H].
  destruct (slot_beq s' s); [right; left; cbn; congruence|left; exact H].
Qed.

Definition block_kernels (bl : list (list feature * list (slot * kernel))) : list kernel :=
  flat_map (fun b => map snd (snd b)) bl.

Lemma run_blocks_in bl c s : forall acc k, run_blocks bl c s acc = Some k -> acc = Some k \/ In k (block_kernels bl).
Proof.
  induction bl as [|[cond asg] tl IH]; intros acc k H; [left; exact H|].
  cbn [run_blocks] in H. apply IH in H. unfold block_kernels. cbn [flat_map snd].
  destruct H as [H|H]; [|right; apply in_or_app; right; exact H].
  destruct (cond_holds c cond); [|left; exact H].
  apply last_assign_in in H. destruct H as [H|H]; [left; exact H|right; apply in_or_app; left; exact H].
Qed.

(** ... and every kernel named in the table is one proved equal to its scalar definition (or a scalar definition) *)
Lemma table_kernels_proved : forallb is_proved (map snd base_table ++ block_kernels override_blocks) = true.
Proof. vm_compute. reflexivity. Qed.

Theorem dispatch_selects_proved_all :
  forall (c : caps) (s : slot), exists k, select c s = Some k /\ In k proved_kernels.
Proof.
  intros c s. destruct (dispatch_selects_supported_all c s) as [k [H1 _]]. exists k. split; [exact H1|].
  assert (Hin : In k (map snd base_table ++ block_kernels override_blocks)).
  { unfold select, select_with in H1. apply run_blocks_in in H1. apply in_or_app. destruct H1 as [H1|H1]; [left|right; exact H1].
    apply last_assign_in in H1. destruct H1 as [H1|H1]; [discriminate H1|exact H1]. }
  pose proof table_kernels_proved as P. rewrite forallb_forall in P. specialize (P k Hin).
  unfold is_proved, proved_indices in P. apply existsb_exists in P. destruct P as [i [Hi Heq]]. apply Nat.eqb_eq in Heq.
  apply in_map_iff in Hi. destruct Hi as [k' [Hk' Hi]]. subst i.
  assert (Inv : forall x, nth_error all_kernels (kernel_index x) = Some x) by (intro x; destruct x; reflexivity).
  assert (k = k') by (pose proof (Inv k) as A; rewrite Heq, Inv in A; congruence).
  subst. exact Hi.
Qed.

(** The same statement is FALSE for the table of the pinned tree (AVX-512 block keyed on avx512f alone):
    a CPU with AVX-512F but without AVX-512BW (e.g. Knights Landing) gets a byte_split_encode_float kernel
    that uses _mm512_shuffle_epi8.  Finding F28; repaired in /repo by a `fix:` commit. *)
Theorem dispatch_pinned_table_refuted :
  exists (c : caps) (s : slot) (k : kernel),
    select_with base_table pinned_blocks c s = Some k /\ supported c k = false /\
    In F_avx512bw (requires k) /\ ~ In F_avx512bw c.
Proof.
  exists [F_sse2; F_sse41; F_sse42; F_avx; F_avx2; F_avx512f], S_byte_split_encode_float,
         K_carquet_avx512_byte_stream_split_encode_float.
  split; [vm_compute; reflexivity|]. split; [vm_compute; reflexivity|].
  split; [vm_compute; tauto|]. intros H. cbn in H. repeat (destruct H as [H|H]; [discriminate H|]). exact H.
Qed.

(** The generated [requires] is exactly the feature set of the generated intrinsic inventory. *)
Definition same_set (a b : list feature) : bool :=
  forallb (fun f => existsb (feature_beq f) b) a && forallb (fun f => existsb (feature_beq f) a) b.

Lemma requires_matches_inventory :
  forallb (fun k => match requires_from_intrinsics k with Some l => same_set l (requires k) | None => false end)
          all_kernels = true.
Proof. vm_compute. reflexivity. Qed.

(** The override order on a CPU with everything / with nothing / at each classical ISA level. *)
Example select_full_host :
  map (selected_name [F_sse2; F_sse41; F_sse42; F_avx; F_avx2; F_avx512f; F_avx512bw; F_avx512vl; F_avx512vbmi])
      [S_prefix_sum_i32; S_byte_split_encode_double; S_crc32c]
  = ["carquet_avx512_prefix_sum_i32"; "carquet_sse_byte_stream_split_encode_double"; "carquet_sse_crc32c"]%string.
Proof. vm_compute. reflexivity. Qed.

Example select_nothing : map (selected_name []) [S_prefix_sum_i32; S_crc32c]
  = ["scalar_prefix_sum_i32"; "scalar_crc32c"]%string.
Proof. vm_compute. reflexivity. Qed.

(** non-vacuity: the hypotheses-free theorem is about a table that really selects SIMD kernels *)
Example supported_nontrivial :
  supported [F_sse2; F_sse41; F_sse42] K_carquet_sse_unpack_bools = true /\
  supported [F_sse2] K_carquet_sse_unpack_bools = false.
Proof. vm_compute. split; reflexivity. Qed.
