(** The scalar definitions of src/simd/dispatch.c (scalar_* functions), transcribed with explicit index
    ranges: every element read is a checked [load]/[load1], every element written a checked [store]/[store1].
    Counts and indices are [nat]; array contents are byte lists (little-endian elements). *)
From Coq Require Import NArith ZArith List Arith Bool.
From Carquet Require Import Base.Res Simd.Vec.
Import ListNotations.
Local Open Scope nat_scope.
Local Open Scope res_scope.

(* ------------------------------------------------------------------ byte stream split *)

(** `for (int b = 0; b < w; b++) output[b * count + i] = src[i * w + b];` *)
Definition bss_enc_step (w count : nat) (src : list N) (i : nat) (out : list N) : res (list N) :=
  iter_blocks w 1 0 (fun b o => let* x := load1 src (i * w + b) in store1 o (b * count + i) x) out.

(** `for (int b = 0; b < w; b++) dst[i * w + b] = data[b * count + i];` *)
Definition bss_dec_step (w count : nat) (src : list N) (i : nat) (out : list N) : res (list N) :=
  iter_blocks w 1 0 (fun b o => let* x := load1 src (b * count + i) in store1 o (i * w + b) x) out.

(** scalar_byte_split_encode_float / _double (w = 4 / 8): `for (i = 0; i < count; i++) ...` *)
Definition scalar_bss_encode (w count : nat) (src out : list N) : res (list N) :=
  scalar_loop count (bss_enc_step w count src) out.
Definition scalar_bss_decode (w count : nat) (src out : list N) : res (list N) :=
  scalar_loop count (bss_dec_step w count src) out.

(* ------------------------------------------------------------------ booleans *)
Local Open Scope N_scope.

(** `(input[byte_idx] >> bit_idx) & 1` *)
Definition bit_of (x : N) (k : nat) : N := N.land (N.shiftr x (N.of_nat k)) 1.

(** scalar_unpack_bools: `output[i] = (input[i / 8] >> (i % 8)) & 1` *)
Definition unpack_step (inp : list N) (i : nat) (out : list N) : res (list N) :=
  let* x := load1 inp (i / 8)%nat in store1 out i (bit_of x (i mod 8)%nat).
Definition scalar_unpack_bools (count : nat) (inp out : list N) : res (list N) :=
  scalar_loop count (unpack_step inp) out.

(** `for (j = 0; j < n; j++) if (input[i + j]) byte |= (1 << j);` with n = min(8, count - i) *)
Definition pack_group (inp : list N) (i n : nat) : res N :=
  iter_blocks n 1 0 (fun j acc => let* x := load1 inp (i + j)%nat in
                                  Ok (if x =? 0 then acc else N.lor acc (N.shiftl 1 (N.of_nat j)))) 0.

Definition pack_tail (count : nat) (inp : list N) (i : nat) (out : list N) : res (list N) :=
  let* byte := pack_group inp i (Nat.min 8 (count - i)) in store1 out (i / 8)%nat byte.

(** scalar_pack_bools: `for (i = 0; i < count; i += 8) { ...; output[i / 8] = byte; }` *)
Definition scalar_pack_bools (count : nat) (inp out : list N) : res (list N) :=
  iter_blocks ((count + 7) / 8) 8 0 (pack_tail count inp) out.

(* ------------------------------------------------------------------ prefix sums (in place; state = array, running sum) *)

(** `sum += values[i]; values[i] = sum;` on w-byte two's complement integers (signed overflow wraps) *)
Definition psum_step (w : nat) (i : nat) (st : list N * N) : res (list N * N) :=
  let '(buf, sum) := st in
  let* x := load buf (i * w)%nat w in
  let sum' := (sum + le_num x) mod 2 ^ (8 * N.of_nat w) in
  let* buf' := store buf (i * w)%nat (le_bytes w sum') in
  Ok (buf', sum').

Definition scalar_prefix_sum (w count : nat) (buf : list N) (initial : N) : res (list N) :=
  rmap fst (scalar_loop count (psum_step w) (buf, initial mod 2 ^ (8 * N.of_nat w))).

(* ------------------------------------------------------------------ dictionary gather *)

(** `output[i] = dict[indices[i]]` for w-byte elements; indices are uint32_t *)
Definition gather_step (w : nat) (dict idxs : list N) (i : nat) (out : list N) : res (list N) :=
  let* ix := load idxs (i * 4)%nat 4 in
  let* x := load dict (N.to_nat (le_num ix) * w)%nat w in
  store out (i * w)%nat x.
Definition scalar_gather (w count : nat) (dict idxs out : list N) : res (list N) :=
  scalar_loop count (gather_step w dict idxs) out.

(* ------------------------------------------------------------------ definition levels (int16_t) *)

Definition signed16 (x : N) : Z := if x <? 32768 then Z.of_N x else (Z.of_N x - 65536)%Z.

(** scalar_count_non_nulls: `if (def_levels[i] == max_def_level) non_null_count++;` *)
Definition nonnull_step (lv : list N) (mx : N) (i : nat) (acc : N) : res N :=
  let* x := load lv (i * 2)%nat 2 in Ok (if le_num x =? mx then acc + 1 else acc).
Definition scalar_count_non_nulls (count : nat) (lv : list N) (mx : N) : res N :=
  scalar_loop count (nonnull_step lv mx) 0.

(** bits j of the result: def_levels[i + j] < max_def_level (signed), for j < n *)
Definition null_bits (lv : list N) (mx : N) (i n : nat) : res N :=
  iter_blocks n 1 0 (fun j acc => let* x := load lv ((i + j) * 2)%nat 2 in
                                  Ok (if (signed16 (le_num x) <? signed16 mx)%Z then N.lor acc (N.shiftl 1 (N.of_nat j)) else acc)) 0.

(** scalar_build_null_bitmap (as repaired): full bytes, then the last partial byte is assigned *)
Definition scalar_build_null_bitmap (count : nat) (lv : list N) (mx : N) (out : list N) : res (list N) :=
  let full := (count / 8)%nat in
  let* out := iter_blocks full 1 0 (fun b o => let* bits := null_bits lv mx (b * 8) 8 in store1 o b bits) out in
  if (full * 8 <? count)%nat then
    let* bits := null_bits lv mx (full * 8) (count - full * 8) in store1 out full bits
  else Ok out.

(** scalar_fill_def_levels: `def_levels[i] = value` *)
Definition fill_step (v : N) (i : nat) (out : list N) : res (list N) := store out (i * 2)%nat (le_bytes 2 v).
Definition scalar_fill_def_levels (count : nat) (v : N) (out : list N) : res (list N) :=
  scalar_loop count (fill_step v) out.

(* ------------------------------------------------------------------ run length / match length (early return) *)

(** `for (; i < count; i++) if (values[i] != first) return i;  return count;` from index i, n iterations *)
Fixpoint run_scan (n : nat) (vals : list N) (first : list N) (i : nat) (count : nat) : res nat :=
  match n with
  | O => Ok count
  | S m => let* x := load vals (i * 4)%nat 4 in
           if list_eq_dec N.eq_dec x first then run_scan m vals first (i + 1) count else Ok i
  end.

(** scalar_find_run_length_i32 *)
Definition scalar_find_run_length (count : nat) (vals : list N) : res nat :=
  match count with
  | O => Ok O
  | _ => let* first := load vals 0 4 in run_scan (count - 1) vals first 1 count
  end.

(** `while (p < limit && *p == *match) { p++; match++; }` from offset k, at most n iterations *)
Fixpoint match_scan (n : nat) (p m : list N) (k : nat) : res nat :=
  match n with
  | O => Ok k
  | S n' => let* a := load1 p k in let* b := load1 m k in
            if a =? b then match_scan n' p m (k + 1) else Ok k
  end.
(** scalar_match_length(p, match, limit) with limit - p = n *)
Definition scalar_match_length (n : nat) (p m : list N) : res nat := match_scan n p m 0.

(* ------------------------------------------------------------------ match copy (one buffer; dst = d, src = d - offset) *)

(** `while (len > 0) { *dst++ = *src++; len--; }` *)
Fixpoint copy_bytes (n : nat) (buf : list N) (s d : nat) : res (list N) :=
  match n with
  | O => Ok buf
  | S m => let* x := load1 buf s in let* buf := store1 buf d x in copy_bytes m buf (s + 1) (d + 1)
  end.
(** `while (len >= W) { memcpy(dst, src, W); dst += W; src += W; len -= W; }` *)
Fixpoint copy_chunks (n W : nat) (buf : list N) (s d : nat) : res (list N) :=
  match n with
  | O => Ok buf
  | S m => let* x := load buf s W in let* buf := store buf d x in copy_chunks m W buf (s + W) (d + W)
  end.

(** scalar_match_copy(dst, src, len, offset) *)
Definition scalar_match_copy (buf : list N) (d len offset : nat) : res (list N) :=
  let s := (d - offset)%nat in
  if (8 <=? offset)%nat then
    let k := (len / 8)%nat in
    let* buf := copy_chunks k 8 buf s d in
    copy_bytes (len - 8 * k) buf (s + 8 * k) (d + 8 * k)
  else copy_bytes len buf s d.

(* ------------------------------------------------------------------ CRC32C (table driven) *)

Definition crc32c_table_step (tbl : list N) (crc x : N) : N :=
  N.lxor (nth (N.to_nat (N.land (N.lxor crc x) 255)) tbl 0) (N.shiftr crc 8).
(** scalar_crc32c: `crc = ~crc; for ... crc = table[(crc ^ data[i]) & 0xFF] ^ (crc >> 8); return ~crc;` *)
Definition scalar_crc32c (tbl : list N) (crc : N) (data : list N) : N :=
  N.lxor (fold_left (crc32c_table_step tbl) data (N.lxor (crc mod 2 ^ 32) 0xFFFFFFFF)) 0xFFFFFFFF.

(* ------------------------------------------------------------------ fixed-width bit unpacking, memset, memcpy *)

(** value i of nvals w-bit values packed LSB first: the generic meaning (core/bitpack.c) *)
Definition unpack_value (inp : list N) (w i : nat) : N :=
  N.land (N.shiftr (le_num inp) (N.of_nat (i * w))) (N.ones (N.of_nat w)).
Definition scalar_bitunpack (w nvals : nat) (inp : list N) : list N :=
  flat_map (fun i => le_bytes 4 (unpack_value inp w i)) (seq 0 nvals).

Definition scalar_memset (n : nat) (v : N) (out : list N) : res (list N) :=
  scalar_loop n (fun i o => store1 o i (v mod 256)) out.
Definition scalar_memcpy (n : nat) (src out : list N) : res (list N) :=
  scalar_loop n (fun i o => let* x := load1 src i in store1 o i x) out.
