(** The scalar definitions of src/simd/dispatch.c (scalar_* functions), transcribed with explicit index
    ranges: every element read is a checked [load]/[load1], every element written a checked [store]/[store1].
    Counts and indices are [nat]; array contents are byte lists (little-endian elements). *)
From Coq Require Import NArith List Arith Bool.
From Carquet Require Import Base.Res Simd.Vec.
Import ListNotations.
Local Open Scope nat_scope.
Local Open Scope res_scope.

(* ------------------------------------------------------------------ byte stream split *)

(** `for (int b = 0; b < w; b++) output[b * count + i] = src[i * w + b];` *)
Definition bss_enc_step (w count : nat) (src : list N) (i : nat) (out : list N) : res (list N) :=
  iter_blocks w 1 0 (fun b o => let* x := load1 src (i * w + b) in store1 o (b * count + i) x) out.

(** `for (int b = 0; b < w; b++) dst[i * w + b] = data[b * count + i];` *)
Definition bss_dec_step (w count : nat) (src : list N) (i : nat) (out : list N) : res (list N) :=
  iter_blocks w 1 0 (fun b o => let* x := load1 src (b * count + i) in store1 o (i * w + b) x) out.

(** scalar_byte_split_encode_float / _double (w = 4 / 8): `for (i = 0; i < count; i++) ...` *)
Definition scalar_bss_encode (w count : nat) (src out : list N) : res (list N) :=
  scalar_loop count (bss_enc_step w count src) out.
Definition scalar_bss_decode (w count : nat) (src out : list N) : res (list N) :=
  scalar_loop count (bss_dec_step w count src) out.
