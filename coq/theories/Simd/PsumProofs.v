(** C15: prefix-sum kernels (carquet_{sse,avx2,avx512}_prefix_sum_{i32,i64}) equal the scalar definition for every
    count, every array content and every initial value; arithmetic is two's complement (wraps modulo 2^32 / 2^64).

    Method: registers are rewritten into lane form ([unlanes w L]); each intrinsic used has a lane-level lemma
    (proved by computation on symbolic lanes); the block result is then a list of nested modular sums that is
    normalised and compared with the scalar recurrence S(k+1) = (S k + A k) mod 2^(8w). *)
From Coq Require Import NArith ZArith List Arith Lia Bool ZifyBool ZifyNat ZifyN.
From Carquet Require Import Base.Res Simd.Vec Simd.X86Sem Simd.ScalarKernels Simd.SseKernels Simd.Avx2Kernels
  Simd.Avx512Kernels Simd.BitLemmas Simd.SeqProofs.
Import ListNotations.
Local Open Scope nat_scope.
Ltac Zify.zify_post_hook ::= Z.div_mod_to_equations.

(* ------------------------------------------------------------------ the recurrence and the loop invariant *)

Fixpoint pflat (M acc : N) (l : list N) : list N :=
  match l with [] => [] | a :: t => ((acc + a) mod M)%N :: pflat M (acc + a)%N t end.

Section Psum.
Variables (w count : nat) (buf0 : list N) (init : N).
Hypothesis Hw : 0 < w.
Hypothesis Hlen : length buf0 = w * count.
Hypothesis Hbytes : bytes_ok buf0.

Definition Mw : N := 2 ^ (8 * N.of_nat w).
Definition A (j : nat) : N := le_num (sub buf0 (j * w) w).
Fixpoint S_ (k : nat) : N := match k with O => (init mod Mw)%N | S j => ((S_ j + A j) mod Mw)%N end.

Lemma Mw_256 : Mw = (256 ^ N.of_nat w)%N.
Proof. unfold Mw. change 256%N with (2 ^ 8)%N. rewrite <- N.pow_mul_r. reflexivity. Qed.

Lemma Mw_nz : Mw <> 0%N.
Proof. unfold Mw. apply N.pow_nonzero. discriminate. Qed.

Lemma S_lt k : (S_ k < Mw)%N.
Proof. destruct k; cbn [S_]; apply N.mod_lt, Mw_nz. Qed.

(** elements [0, i) hold the prefix sums, elements [i, count) are untouched, the running sum is S i *)
Definition Pps (i : nat) (st : list N * N) : Prop :=
  let '(buf, sum) := st in
  length buf = w * count /\ sum = S_ i /\
  (forall k, k < i -> sub buf (k * w) w = le_bytes w (S_ (k + 1))) /\
  (forall k, i <= k < count -> sub buf (k * w) w = sub buf0 (k * w) w).

Lemma Pps_0 : Pps 0 (buf0, (init mod Mw)%N).
Proof. cbn. repeat split; try assumption; try reflexivity; intros; lia. Qed.

(** the block of W new prefix sums *)
Definition sums (i W : nat) : list N := flat_map (fun k => le_bytes w (S_ (k + 1))) (seq i W).

Lemma sums_length i W : length (sums i W) = W * w.
Proof.
  unfold sums. revert i. induction W as [|W IH]; intro i; [reflexivity|].
  cbn [seq flat_map]. rewrite app_length, le_bytes_length, IH. lia.
Qed.

Lemma Pps_block i W buf sum :
  i + W <= count -> Pps i (buf, sum) -> Pps (i + W) (upd buf (i * w) (sums i W), S_ (i + W)).
Proof.
  intros HiW [L [Hs [Hdone Hrest]]]. pose proof (sums_length i W) as Ls.
  assert (R : i * w + length (sums i W) <= length buf) by (rewrite Ls, L; nia).
  cbn. split; [rewrite length_upd by exact R; exact L|]. split; [reflexivity|]. split.
  - intros k Hk. destruct (Nat.lt_ge_cases k i) as [Lt|Ge].
    + rewrite (sub_upd_other w) by (try exact R; nia). apply Hdone. exact Lt.
    + replace (k * w) with (i * w + (k - i) * w) by nia.
      rewrite (sub_upd_same w) by (try exact R; rewrite Ls; nia).
      unfold sums. rewrite (sub_elems w (i + W) (fun k => le_bytes w (S_ (k + 1)))) by (try lia; intros; apply le_bytes_length).
      f_equal. f_equal. lia.
  - intros k Hk. rewrite (sub_upd_after w) by (try exact R; rewrite ?Ls, ?L; nia). apply Hrest. lia.
Qed.

Lemma psum_step_inv i buf sum :
  i < count -> Pps i (buf, sum) -> exists st', psum_step w i (buf, sum) = Ok st' /\ Pps (i + 1) st'.
Proof.
  intros Hi HP. pose proof HP as [L [Hs [Hdone Hrest]]]. unfold psum_step.
  rewrite load_ok by nia. cbn [bind]. rewrite (Hrest i) by lia. fold (A i). subst sum.
  change (2 ^ (8 * N.of_nat w))%N with Mw.
  replace ((S_ i + A i) mod Mw)%N with (S_ (i + 1)) by (replace (i + 1) with (S i) by lia; reflexivity).
  rewrite store_ok by (rewrite le_bytes_length; nia). cbn [bind].
  eexists. split; [reflexivity|].
  replace (le_bytes w (S_ (i + 1))) with (sums i 1) by (unfold sums; cbn [seq flat_map]; apply app_nil_r).
  apply (Pps_block i 1 buf (S_ i)); [lia|exact HP].
Qed.

Lemma Pps_final b1 s1 b2 s2 : Pps count (b1, s1) -> Pps count (b2, s2) -> b1 = b2.
Proof.
  intros [L1 [_ [H1 _]]] [L2 [_ [H2 _]]]. apply (list_eq_nth _ _ 0%N); [lia|].
  intros k Hk. rewrite L1 in Hk.
  assert (Hi : k / w < count) by (apply Nat.div_lt_upper_bound; lia).
  assert (Hb : k mod w < w) by (apply Nat.mod_upper_bound; lia).
  pose proof (Nat.div_mod k w ltac:(lia)) as D.
  replace k with (k / w * w + k mod w) by lia.
  rewrite <- !(nth_sub _ (k / w * w) w) by exact Hb. rewrite H1, H2 by exact Hi. reflexivity.
Qed.

(** a kernel whose blocks store the next W prefix sums and return the last one equals the scalar definition *)
Lemma psum_kernel_eq W (block : nat -> list N * N -> res (list N * N)) :
  0 < W ->
  (forall i buf sum, i + W <= count -> Pps i (buf, sum) ->
                     block i (buf, sum) = Ok (upd buf (i * w) (sums i W), S_ (i + W))) ->
  exists out, rmap fst (simd_loop W count block (psum_step w) (buf0, (init mod Mw)%N)) = Ok out /\
              scalar_prefix_sum w count buf0 init = Ok out.
Proof.
  intros HW Hb.
  destruct (simd_loop_inv Pps W count block (psum_step w) (buf0, (init mod Mw)%N) HW Pps_0) as [[b1 s1] [E1 P1]].
  - intros j [b s] Hj HP. rewrite Hb by assumption. eexists. split; [reflexivity|]. apply (Pps_block j W b s); assumption.
  - intros j [b s] Hj HP. apply psum_step_inv; assumption.
  - destruct (scalar_loop_inv Pps count (psum_step w) (buf0, (init mod Mw)%N) Pps_0) as [[b2 s2] [E2 P2]].
    + intros j [b s] Hj HP. apply psum_step_inv; assumption.
    + exists b1. rewrite E1. split; [reflexivity|]. unfold scalar_prefix_sum. fold Mw. rewrite E2. cbn [rmap fst].
      f_equal. symmetry. apply (Pps_final b1 s1 b2 s2); assumption.
Qed.

(** the W elements a block loads are still the original ones, in lane form *)
Lemma A_lt j : j < count -> (A j < 256 ^ N.of_nat w)%N.
Proof.
  intros Hj. unfold A. pose proof (le_num_lt (sub buf0 (j * w) w) (bytes_ok_sub _ _ _ Hbytes)) as H.
  rewrite length_sub in H by nia. exact H.
Qed.

Lemma block_input i W buf sum :
  i + W <= count -> Pps i (buf, sum) -> sub buf (i * w) (W * w) = unlanes w (map A (seq i W)).
Proof.
  intros HiW [L [_ [_ Hrest]]]. revert i HiW Hrest. induction W as [|W IH]; intros i HiW Hrest; [reflexivity|].
  cbn [seq map]. change (unlanes w (A i :: map A (seq (S i) W))) with (le_bytes w (A i) ++ unlanes w (map A (seq (S i) W))).
  rewrite <- IH by (try lia; intros; apply Hrest; lia).
  unfold A. rewrite <- (Hrest i) by lia.
  replace w with (length (sub buf (i * w) w)) at 3 by (apply length_sub; nia).
  rewrite le_bytes_le_num.
  - apply (list_eq_nth _ _ 0%N).
    + rewrite app_length, !length_sub by nia. lia.
    + intros k Hk. rewrite length_sub in Hk by nia.
      destruct (Nat.lt_ge_cases k w) as [Lt|Ge].
      * rewrite app_nth1 by (rewrite length_sub by nia; lia). rewrite !nth_sub by nia. reflexivity.
      * rewrite app_nth2 by (rewrite length_sub by nia; lia). rewrite length_sub by nia.
        rewrite !nth_sub by nia. f_equal. nia.
  - rewrite (Hrest i) by lia. apply bytes_ok_sub. exact Hbytes.
Qed.

(** the new sums in flat form: (acc + a0) mod M, (acc + a0 + a1) mod M, ... *)
Lemma S_pflat W : forall i acc,
  (acc mod Mw = S_ i)%N -> map (fun k => S_ (S k)) (seq i W) = pflat Mw acc (map A (seq i W)).
Proof.
  induction W as [|W IH]; intros i acc H; [reflexivity|].
  cbn [seq map pflat S_]. rewrite <- H. rewrite N.add_mod_idemp_l by apply Mw_nz. f_equal.
  apply IH. cbn [S_]. rewrite <- H. rewrite N.add_mod_idemp_l by apply Mw_nz. reflexivity.
Qed.
End Psum.

(* ------------------------------------------------------------------ lane-level forms of the intrinsics *)

Definition M32 : N := 4294967296%N.
Definition M64 : N := 18446744073709551616%N.

Lemma slli4_lanes a b c d : mm_slli_si128 (unlanes 4 [a; b; c; d]) 4 = unlanes 4 [0%N; a; b; c].
Proof. reflexivity. Qed.
Lemma slli8_lanes a b c d : mm_slli_si128 (unlanes 4 [a; b; c; d]) 8 = unlanes 4 [0%N; 0%N; a; b].
Proof. reflexivity. Qed.
Lemma set1_32_lanes s : mm_set1_epi32 s = unlanes 4 [s; s; s; s].
Proof. reflexivity. Qed.
Lemma extract3_lanes a b c d : mm_extract_epi32 (unlanes 4 [a; b; c; d]) 3 = le_bytes 4 d.
Proof. reflexivity. Qed.


Lemma slli8_lanes64 a0 a1 : mm_slli_si128 (unlanes 8 [a0; a1]) 8 = unlanes 8 [0%N; a0].
Proof. reflexivity. Qed.
Lemma set1_64x_lanes s : mm_set1_epi64x s = unlanes 8 [s; s].
Proof. reflexivity. Qed.
Lemma hi64_lanes a0 a1 : sub (unlanes 8 [a0; a1]) 8 8 = le_bytes 8 a1.
Proof. reflexivity. Qed.
Lemma slli256_4_lanes a0 a1 a2 a3 a4 a5 a6 a7 : mm256_slli_si256 (unlanes 4 [a0; a1; a2; a3; a4; a5; a6; a7]) 4 = unlanes 4 [0%N; a0; a1; a2; 0%N; a4; a5; a6].
Proof. reflexivity. Qed.
Lemma slli256_8_lanes a0 a1 a2 a3 a4 a5 a6 a7 : mm256_slli_si256 (unlanes 4 [a0; a1; a2; a3; a4; a5; a6; a7]) 8 = unlanes 4 [0%N; 0%N; a0; a1; 0%N; 0%N; a4; a5].
Proof. reflexivity. Qed.
Lemma ext128_0_lanes a0 a1 a2 a3 a4 a5 a6 a7 : mm256_extracti128_si256 (unlanes 4 [a0; a1; a2; a3; a4; a5; a6; a7]) 0 = unlanes 4 [a0; a1; a2; a3].
Proof. reflexivity. Qed.
Lemma ext128_1_lanes a0 a1 a2 a3 a4 a5 a6 a7 : mm256_extracti128_si256 (unlanes 4 [a0; a1; a2; a3; a4; a5; a6; a7]) 1 = unlanes 4 [a4; a5; a6; a7].
Proof. reflexivity. Qed.
Lemma ins128_lanes a0 a1 a2 a3 a4 a5 a6 a7 b0 b1 b2 b3 : mm256_inserti128_si256_1 (unlanes 4 [a0; a1; a2; a3; a4; a5; a6; a7]) (unlanes 4 [b0; b1; b2; b3]) = unlanes 4 [a0; a1; a2; a3; b0; b1; b2; b3].
Proof. reflexivity. Qed.
Lemma set1_256_32_lanes s : mm256_set1_epi32 s = unlanes 4 [s; s; s; s; s; s; s; s].
Proof. reflexivity. Qed.
Lemma extract256_7_lanes a0 a1 a2 a3 a4 a5 a6 a7 : mm256_extract_epi32 (unlanes 4 [a0; a1; a2; a3; a4; a5; a6; a7]) 7 = le_bytes 4 a7.
Proof. reflexivity. Qed.
Lemma slli256_8_lanes64 a0 a1 a2 a3 : mm256_slli_si256 (unlanes 8 [a0; a1; a2; a3]) 8 = unlanes 8 [0%N; a0; 0%N; a2].
Proof. reflexivity. Qed.
Lemma ext128_0_lanes64 a0 a1 a2 a3 : mm256_extracti128_si256 (unlanes 8 [a0; a1; a2; a3]) 0 = unlanes 8 [a0; a1].
Proof. reflexivity. Qed.
Lemma ext128_1_lanes64 a0 a1 a2 a3 : mm256_extracti128_si256 (unlanes 8 [a0; a1; a2; a3]) 1 = unlanes 8 [a2; a3].
Proof. reflexivity. Qed.
Lemma srli8_first8 a0 a1 : firstn 8 (mm_srli_si128 (unlanes 8 [a0; a1]) 8) = le_bytes 8 a1.
Proof. reflexivity. Qed.
Lemma ins128_lanes64 a0 a1 a2 a3 b0 b1 : mm256_inserti128_si256_1 (unlanes 8 [a0; a1; a2; a3]) (unlanes 8 [b0; b1]) = unlanes 8 [a0; a1; b0; b1].
Proof. reflexivity. Qed.
Lemma set1_256_64_lanes s : mm256_set1_epi64x s = unlanes 8 [s; s; s; s].
Proof. reflexivity. Qed.
Lemma last256_lanes64 a0 a1 a2 a3 : sub (unlanes 8 [a0; a1; a2; a3]) 24 8 = le_bytes 8 a3.
Proof. reflexivity. Qed.
Lemma alignr32_1_lanes a0 a1 a2 a3 a4 a5 a6 a7 a8 a9 a10 a11 a12 a13 a14 a15 : mm512_maskz_alignr_epi32 65534 (unlanes 4 [a0; a1; a2; a3; a4; a5; a6; a7; a8; a9; a10; a11; a12; a13; a14; a15]) (zeros 64) 15 = unlanes 4 [0%N; a0; a1; a2; a3; a4; a5; a6; a7; a8; a9; a10; a11; a12; a13; a14].
Proof. reflexivity. Qed.
Lemma alignr32_2_lanes a0 a1 a2 a3 a4 a5 a6 a7 a8 a9 a10 a11 a12 a13 a14 a15 : mm512_maskz_alignr_epi32 65532 (unlanes 4 [a0; a1; a2; a3; a4; a5; a6; a7; a8; a9; a10; a11; a12; a13; a14; a15]) (zeros 64) 14 = unlanes 4 [0%N; 0%N; a0; a1; a2; a3; a4; a5; a6; a7; a8; a9; a10; a11; a12; a13].
Proof. reflexivity. Qed.
Lemma alignr32_4_lanes a0 a1 a2 a3 a4 a5 a6 a7 a8 a9 a10 a11 a12 a13 a14 a15 : mm512_maskz_alignr_epi32 65520 (unlanes 4 [a0; a1; a2; a3; a4; a5; a6; a7; a8; a9; a10; a11; a12; a13; a14; a15]) (zeros 64) 12 = unlanes 4 [0%N; 0%N; 0%N; 0%N; a0; a1; a2; a3; a4; a5; a6; a7; a8; a9; a10; a11].
Proof. reflexivity. Qed.
Lemma alignr32_8_lanes a0 a1 a2 a3 a4 a5 a6 a7 a8 a9 a10 a11 a12 a13 a14 a15 : mm512_maskz_alignr_epi32 65280 (unlanes 4 [a0; a1; a2; a3; a4; a5; a6; a7; a8; a9; a10; a11; a12; a13; a14; a15]) (zeros 64) 8 = unlanes 4 [0%N; 0%N; 0%N; 0%N; 0%N; 0%N; 0%N; 0%N; a0; a1; a2; a3; a4; a5; a6; a7].
Proof. reflexivity. Qed.
Lemma set1_512_32_lanes s : mm512_set1_epi32 s = unlanes 4 [s; s; s; s; s; s; s; s; s; s; s; s; s; s; s; s].
Proof. reflexivity. Qed.
Lemma alignr64_1_lanes a0 a1 a2 a3 a4 a5 a6 a7 : mm512_maskz_alignr_epi64 254 (unlanes 8 [a0; a1; a2; a3; a4; a5; a6; a7]) (zeros 64) 7 = unlanes 8 [0%N; a0; a1; a2; a3; a4; a5; a6].
Proof. reflexivity. Qed.
Lemma alignr64_2_lanes a0 a1 a2 a3 a4 a5 a6 a7 : mm512_maskz_alignr_epi64 252 (unlanes 8 [a0; a1; a2; a3; a4; a5; a6; a7]) (zeros 64) 6 = unlanes 8 [0%N; 0%N; a0; a1; a2; a3; a4; a5].
Proof. reflexivity. Qed.
Lemma alignr64_4_lanes a0 a1 a2 a3 a4 a5 a6 a7 : mm512_maskz_alignr_epi64 240 (unlanes 8 [a0; a1; a2; a3; a4; a5; a6; a7]) (zeros 64) 4 = unlanes 8 [0%N; 0%N; 0%N; 0%N; a0; a1; a2; a3].
Proof. reflexivity. Qed.
Lemma set1_512_64_lanes s : mm512_set1_epi64 s = unlanes 8 [s; s; s; s; s; s; s; s].
Proof. reflexivity. Qed.

Lemma last512_lanes32 a0 a1 a2 a3 a4 a5 a6 a7 a8 a9 a10 a11 a12 a13 a14 a15 :
  sub (unlanes 4 [a0; a1; a2; a3; a4; a5; a6; a7; a8; a9; a10; a11; a12; a13; a14; a15]) (15 * 4) 4 = le_bytes 4 a15.
Proof. reflexivity. Qed.
Lemma last512_lanes64 a0 a1 a2 a3 a4 a5 a6 a7 :
  sub (unlanes 8 [a0; a1; a2; a3; a4; a5; a6; a7]) (7 * 8) 8 = le_bytes 8 a7.
Proof. reflexivity. Qed.

(** unfolding the recurrence / the block of sums for the first few indices *)
Lemma sums_unlanes w buf0 init i W :
  sums w buf0 init i W = unlanes w (map (fun k => S_ w buf0 init (S k)) (seq i W)).
Proof.
  unfold sums, unlanes. rewrite flat_map_concat_map, (flat_map_concat_map (le_bytes w)), map_map.
  f_equal. apply map_ext. intros k. rewrite Nat.add_1_r. reflexivity.
Qed.

Ltac consts :=
  change (256 ^ N.of_nat 4)%N with 4294967296%N; change (2 ^ (8 * N.of_nat 4))%N with 4294967296%N;
  change (256 ^ N.of_nat 8)%N with 18446744073709551616%N; change (2 ^ (8 * N.of_nat 8))%N with 18446744073709551616%N.
Ltac consts_in E :=
  change (256 ^ N.of_nat 4)%N with 4294967296%N in E; change (2 ^ (8 * N.of_nat 4))%N with 4294967296%N in E;
  change (256 ^ N.of_nat 8)%N with 18446744073709551616%N in E; change (2 ^ (8 * N.of_nat 8))%N with 18446744073709551616%N in E.

(** flatten nested modular sums: (x mod M + y mod M) mod M -> (x + y) mod M *)
Ltac flatten_mods :=
  consts; repeat rewrite N.mod_mod by discriminate; repeat rewrite <- N.add_mod by discriminate;
  repeat rewrite N.add_mod_idemp_l by discriminate; repeat rewrite N.add_mod_idemp_r by discriminate;
  rewrite ?N.add_0_r, ?N.add_0_l.
Ltac flatten_mods_in E :=
  consts_in E; repeat rewrite N.mod_mod in E by discriminate; repeat rewrite <- N.add_mod in E by discriminate;
  repeat rewrite N.add_mod_idemp_l in E by discriminate; repeat rewrite N.add_mod_idemp_r in E by discriminate;
  rewrite ?N.add_0_r, ?N.add_0_l in E.

Ltac lane_rewrite_in E :=
  first
    [ rewrite slli4_lanes in E | rewrite slli8_lanes in E | rewrite set1_32_lanes in E | rewrite extract3_lanes in E
    | rewrite slli8_lanes64 in E | rewrite set1_64x_lanes in E | rewrite hi64_lanes in E
    | rewrite slli256_4_lanes in E | rewrite slli256_8_lanes in E | rewrite ext128_0_lanes in E | rewrite ext128_1_lanes in E
    | rewrite ins128_lanes in E | rewrite set1_256_32_lanes in E | rewrite extract256_7_lanes in E
    | rewrite slli256_8_lanes64 in E | rewrite ext128_0_lanes64 in E | rewrite ext128_1_lanes64 in E | rewrite srli8_first8 in E
    | rewrite ins128_lanes64 in E | rewrite set1_256_64_lanes in E | rewrite last256_lanes64 in E
    | rewrite alignr32_1_lanes in E | rewrite alignr32_2_lanes in E | rewrite alignr32_4_lanes in E | rewrite alignr32_8_lanes in E
    | rewrite set1_512_32_lanes in E
    | rewrite alignr64_1_lanes in E | rewrite alignr64_2_lanes in E | rewrite alignr64_4_lanes in E | rewrite set1_512_64_lanes in E
    | rewrite le_num_le_bytes in E
    | (rewrite add_lanes_unlanes in E by lia; cbn [map map2] in E; flatten_mods_in E) ].

(** one `let x := body in ...`: bring [body] into lane form in a small context, then substitute it *)
Ltac stage :=
  match goal with
  | |- let _ := _ in _ =>
      let v := fresh "v" in let E := fresh "E" in
      intro v; pose proof (eq_refl v) as E; unfold v at 2 in E;
      unfold M32, M64 in E; repeat (lane_rewrite_in E); clearbody v; subst v
  end.

(** the same when the lets are on the left of an equation *)
Ltac pull_let :=
  match goal with |- (let x := ?a in @?f x) = ?r => change (let x := a in f x = r); cbv beta end.
Ltac stage_eq := pull_let; stage.

(** recover the sharing lost by zeta-expansion: name the innermost lanewise addition whose first operand is already in
    lane form, normalise it in a small context, substitute *)
Ltac restage :=
  match goal with
  | |- context [add_lanes ?w (unlanes ?w ?L) ?Y] =>
      let v := fresh "v" in let E := fresh "E" in
      set (v := add_lanes w (unlanes w L) Y);
      pose proof (eq_refl v) as E; unfold v at 2 in E; unfold M32, M64 in E;
      repeat (lane_rewrite_in E); clearbody v; subst v
  end.

Ltac lanes_finish :=
  f_equal; repeat (apply f_equal2; [flatten_mods; f_equal; lia|]); try reflexivity.

(* ------------------------------------------------------------------ what one block computes *)

Lemma sse_psum32_compute a b c d s :
  let v := unlanes 4 [a; b; c; d] in
  let v := add_lanes 4 v (mm_slli_si128 v 4) in
  let v := add_lanes 4 v (mm_slli_si128 v 8) in
  let v := add_lanes 4 v (mm_set1_epi32 s) in
  v = unlanes 4 (pflat M32 s [a; b; c; d]).
Proof. repeat stage. cbn [pflat]. unfold M32. lanes_finish. Qed.

Lemma sse_psum64_compute a0 a1 s :
  let v := unlanes 8 [a0; a1] in
  let v := add_lanes 8 v (mm_slli_si128 v 8) in
  let v := add_lanes 8 v (mm_set1_epi64x s) in
  v = unlanes 8 (pflat M64 s [a0; a1]).
Proof. repeat stage. cbn [pflat]. unfold M64. lanes_finish. Qed.

Lemma avx2_psum32_compute a0 a1 a2 a3 a4 a5 a6 a7 s :
  let v := unlanes 4 [a0; a1; a2; a3; a4; a5; a6; a7] in
  let v := add_lanes 4 v (mm256_slli_si256 v 4) in
  let v := add_lanes 4 v (mm256_slli_si256 v 8) in
  let lo := mm256_extracti128_si256 v 0 in
  let hi := mm256_extracti128_si256 v 1 in
  let lane0_sum := le_num (mm_extract_epi32 lo 3) in
  let hi := add_lanes 4 hi (mm_set1_epi32 lane0_sum) in
  let v := mm256_inserti128_si256_1 v hi in
  let v := add_lanes 4 v (mm256_set1_epi32 s) in
  v = unlanes 4 (pflat M32 s [a0; a1; a2; a3; a4; a5; a6; a7]).
Proof. repeat stage. cbn [pflat]. unfold M32. lanes_finish. Qed.

Lemma avx2_psum64_compute a0 a1 a2 a3 s :
  let v := unlanes 8 [a0; a1; a2; a3] in
  let v := add_lanes 8 v (mm256_slli_si256 v 8) in
  let lo := mm256_extracti128_si256 v 0 in
  let hi := mm256_extracti128_si256 v 1 in
  let lane0_last := le_num (firstn 8 (mm_srli_si128 lo 8)) in
  let hi := add_lanes 8 hi (mm_set1_epi64x lane0_last) in
  let v := mm256_inserti128_si256_1 v hi in
  let v := add_lanes 8 v (mm256_set1_epi64x s) in
  v = unlanes 8 (pflat M64 s [a0; a1; a2; a3]).
Proof. repeat stage. cbn [pflat]. unfold M64. lanes_finish. Qed.



(* ------------------------------------------------------------------ the kernels *)

Theorem sse_prefix_sum_i32_eq_scalar count buf init :
  length buf = 4 * count -> bytes_ok buf ->
  exists out, sse_prefix_sum_i32 count buf init = Ok out /\ scalar_prefix_sum 4 count buf init = Ok out.
Proof.
  intros L B. unfold sse_prefix_sum_i32. change (2 ^ 32)%N with (Mw 4).
  apply (psum_kernel_eq 4 count buf init ltac:(lia) L 4 sse_psum32_block ltac:(lia)).
  intros i b s Hi HP. pose proof HP as [Lb [Hs _]]. unfold sse_psum32_block.
  rewrite load_ok by lia. cbn [bind].
  change (sub b (i * 4) 16) with (sub b (i * 4) (4 * 4)). rewrite (block_input 4 count buf init ltac:(lia) L B i 4 b s Hi HP).
  cbn [seq map].
  pose proof (sse_psum32_compute (A 4 buf i) (A 4 buf (S i)) (A 4 buf (S (S i))) (A 4 buf (S (S (S i)))) s) as E. cbv zeta in E. rewrite E. clear E.
  assert (Hmod : (s mod Mw 4 = S_ 4 buf init i)%N)
    by (rewrite Hs; apply N.mod_small, S_lt).
  pose proof (S_pflat 4 buf init 4 i s Hmod) as EP. cbn [seq map] in EP.
  rewrite sums_unlanes. cbn [seq map]. rewrite EP. change (Mw 4) with M32.
  assert (ES : S_ 4 buf init (i + 4) = last (pflat M32 s [A 4 buf i; A 4 buf (S i); A 4 buf (S (S i)); A 4 buf (S (S (S i)))]) 0%N).
  { replace (i + 4) with (S (S (S (S i)))) by lia. change M32 with (Mw 4). rewrite <- EP. cbn [last]. reflexivity. }
  rewrite ES. clear ES EP.
  cbn [pflat last].
  rewrite store_ok by (rewrite unlanes_length; cbn [length]; lia). cbn [bind].
  rewrite extract3_lanes, le_num_le_bytes. consts. unfold M32. rewrite N.mod_mod by discriminate. reflexivity.
Qed.

Theorem sse_prefix_sum_i64_eq_scalar count buf init :
  length buf = 8 * count -> bytes_ok buf ->
  exists out, sse_prefix_sum_i64 count buf init = Ok out /\ scalar_prefix_sum 8 count buf init = Ok out.
Proof.
  intros L B. unfold sse_prefix_sum_i64. change (2 ^ 64)%N with (Mw 8).
  apply (psum_kernel_eq 8 count buf init ltac:(lia) L 2 sse_psum64_block ltac:(lia)).
  intros i b s Hi HP. pose proof HP as [Lb [Hs _]]. unfold sse_psum64_block.
  rewrite load_ok by lia. cbn [bind].
  change (sub b (i * 8) 16) with (sub b (i * 8) (2 * 8)). rewrite (block_input 8 count buf init ltac:(lia) L B i 2 b s Hi HP).
  cbn [seq map].
  pose proof (sse_psum64_compute (A 8 buf i) (A 8 buf (S i)) s) as E. cbv zeta in E. rewrite E. clear E.
  assert (Hmod : (s mod Mw 8 = S_ 8 buf init i)%N)
    by (rewrite Hs; apply N.mod_small, S_lt).
  pose proof (S_pflat 8 buf init 2 i s Hmod) as EP. cbn [seq map] in EP.
  rewrite sums_unlanes. cbn [seq map]. rewrite EP. change (Mw 8) with M64.
  assert (ES : S_ 8 buf init (i + 2) = last (pflat M64 s [A 8 buf i; A 8 buf (S i)]) 0%N).
  { replace (i + 2) with (S (S i)) by lia. change M64 with (Mw 8). rewrite <- EP. cbn [last]. reflexivity. }
  rewrite ES. clear ES EP.
  cbn [pflat last].
  rewrite store_ok by (rewrite unlanes_length; cbn [length]; lia). cbn [bind].
  rewrite hi64_lanes, le_num_le_bytes. consts. unfold M64. rewrite N.mod_mod by discriminate. reflexivity.
Qed.

Theorem avx2_prefix_sum_i32_eq_scalar count buf init :
  length buf = 4 * count -> bytes_ok buf ->
  exists out, avx2_prefix_sum_i32 count buf init = Ok out /\ scalar_prefix_sum 4 count buf init = Ok out.
Proof.
  intros L B. unfold avx2_prefix_sum_i32. change (2 ^ 32)%N with (Mw 4).
  apply (psum_kernel_eq 4 count buf init ltac:(lia) L 8 avx2_psum32_block ltac:(lia)).
  intros i b s Hi HP. pose proof HP as [Lb [Hs _]]. unfold avx2_psum32_block.
  rewrite load_ok by lia. cbn [bind].
  change (sub b (i * 4) 32) with (sub b (i * 4) (8 * 4)). rewrite (block_input 4 count buf init ltac:(lia) L B i 8 b s Hi HP).
  cbn [seq map].
  pose proof (avx2_psum32_compute (A 4 buf i) (A 4 buf (S i)) (A 4 buf (S (S i))) (A 4 buf (S (S (S i)))) (A 4 buf (S (S (S (S i))))) (A 4 buf (S (S (S (S (S i)))))) (A 4 buf (S (S (S (S (S (S i))))))) (A 4 buf (S (S (S (S (S (S (S i)))))))) s) as E. cbv zeta in E. rewrite E. clear E.
  assert (Hmod : (s mod Mw 4 = S_ 4 buf init i)%N)
    by (rewrite Hs; apply N.mod_small, S_lt).
  pose proof (S_pflat 4 buf init 8 i s Hmod) as EP. cbn [seq map] in EP.
  rewrite sums_unlanes. cbn [seq map]. rewrite EP. change (Mw 4) with M32.
  assert (ES : S_ 4 buf init (i + 8) = last (pflat M32 s [A 4 buf i; A 4 buf (S i); A 4 buf (S (S i)); A 4 buf (S (S (S i))); A 4 buf (S (S (S (S i)))); A 4 buf (S (S (S (S (S i))))); A 4 buf (S (S (S (S (S (S i)))))); A 4 buf (S (S (S (S (S (S (S i)))))))]) 0%N).
  { replace (i + 8) with (S (S (S (S (S (S (S (S i)))))))) by lia. change M32 with (Mw 4). rewrite <- EP. cbn [last]. reflexivity. }
  rewrite ES. clear ES EP.
  cbn [pflat last].
  rewrite store_ok by (rewrite unlanes_length; cbn [length]; lia). cbn [bind].
  rewrite extract256_7_lanes, le_num_le_bytes. consts. unfold M32. rewrite N.mod_mod by discriminate. reflexivity.
Qed.

Theorem avx2_prefix_sum_i64_eq_scalar count buf init :
  length buf = 8 * count -> bytes_ok buf ->
  exists out, avx2_prefix_sum_i64 count buf init = Ok out /\ scalar_prefix_sum 8 count buf init = Ok out.
Proof.
  intros L B. unfold avx2_prefix_sum_i64. change (2 ^ 64)%N with (Mw 8).
  apply (psum_kernel_eq 8 count buf init ltac:(lia) L 4 avx2_psum64_block ltac:(lia)).
  intros i b s Hi HP. pose proof HP as [Lb [Hs _]]. unfold avx2_psum64_block.
  rewrite load_ok by lia. cbn [bind].
  change (sub b (i * 8) 32) with (sub b (i * 8) (4 * 8)). rewrite (block_input 8 count buf init ltac:(lia) L B i 4 b s Hi HP).
  cbn [seq map].
  pose proof (avx2_psum64_compute (A 8 buf i) (A 8 buf (S i)) (A 8 buf (S (S i))) (A 8 buf (S (S (S i)))) s) as E. cbv zeta in E. rewrite E. clear E.
  assert (Hmod : (s mod Mw 8 = S_ 8 buf init i)%N)
    by (rewrite Hs; apply N.mod_small, S_lt).
  pose proof (S_pflat 8 buf init 4 i s Hmod) as EP. cbn [seq map] in EP.
  rewrite sums_unlanes. cbn [seq map]. rewrite EP. change (Mw 8) with M64.
  assert (ES : S_ 8 buf init (i + 4) = last (pflat M64 s [A 8 buf i; A 8 buf (S i); A 8 buf (S (S i)); A 8 buf (S (S (S i)))]) 0%N).
  { replace (i + 4) with (S (S (S (S i)))) by lia. change M64 with (Mw 8). rewrite <- EP. cbn [last]. reflexivity. }
  rewrite ES. clear ES EP.
  cbn [pflat last].
  rewrite store_ok by (rewrite unlanes_length; cbn [length]; lia). cbn [bind].
  rewrite last256_lanes64, le_num_le_bytes. consts. unfold M64. rewrite N.mod_mod by discriminate. reflexivity.
Qed.

Theorem avx512_prefix_sum_i32_eq_scalar count buf init :
  length buf = 4 * count -> bytes_ok buf ->
  exists out, avx512_prefix_sum_i32 count buf init = Ok out /\ scalar_prefix_sum 4 count buf init = Ok out.
Proof.
  intros L B. unfold avx512_prefix_sum_i32. change (2 ^ 32)%N with (Mw 4).
  apply (psum_kernel_eq 4 count buf init ltac:(lia) L 16 avx512_psum32_block ltac:(lia)).
  intros i b s Hi HP. pose proof HP as [Lb [Hs _]]. unfold avx512_psum32_block.
  rewrite load_ok by lia. cbn [bind].
  change (sub b (i * 4) 64) with (sub b (i * 4) (16 * 4)).
  rewrite (block_input 4 count buf init ltac:(lia) L B i 16 b s Hi HP).
  cbn [seq map].
  repeat restage.
  assert (Hmod : (s mod Mw 4 = S_ 4 buf init i)%N)
    by (rewrite Hs; apply N.mod_small, S_lt).
  pose proof (S_pflat 4 buf init 16 i s Hmod) as EP. cbn [seq map] in EP.
  rewrite sums_unlanes. cbn [seq map]. rewrite EP. change (Mw 4) with M32.
  assert (ES : S_ 4 buf init (i + 16) = last (pflat M32 s [A 4 buf i; A 4 buf (S i); A 4 buf (S (S i)); A 4 buf (S (S (S i))); A 4 buf (S (S (S (S i)))); A 4 buf (S (S (S (S (S i))))); A 4 buf (S (S (S (S (S (S i)))))); A 4 buf (S (S (S (S (S (S (S i))))))); A 4 buf (S (S (S (S (S (S (S (S i)))))))); A 4 buf (S (S (S (S (S (S (S (S (S i))))))))); A 4 buf (S (S (S (S (S (S (S (S (S (S i)))))))))); A 4 buf (S (S (S (S (S (S (S (S (S (S (S i))))))))))); A 4 buf (S (S (S (S (S (S (S (S (S (S (S (S i)))))))))))); A 4 buf (S (S (S (S (S (S (S (S (S (S (S (S (S i))))))))))))); A 4 buf (S (S (S (S (S (S (S (S (S (S (S (S (S (S i)))))))))))))); A 4 buf (S (S (S (S (S (S (S (S (S (S (S (S (S (S (S i)))))))))))))))]) 0%N).
  { replace (i + 16) with (S (S (S (S (S (S (S (S (S (S (S (S (S (S (S (S i)))))))))))))))) by lia. change M32 with (Mw 4). rewrite <- EP. cbn [last]. reflexivity. }
  rewrite ES. clear ES EP.
  match goal with |- context [store b _ (unlanes 4 ?LL)] =>
    assert (EL : unlanes 4 LL = unlanes 4 (pflat M32 s [A 4 buf i; A 4 buf (S i); A 4 buf (S (S i)); A 4 buf (S (S (S i))); A 4 buf (S (S (S (S i)))); A 4 buf (S (S (S (S (S i))))); A 4 buf (S (S (S (S (S (S i)))))); A 4 buf (S (S (S (S (S (S (S i))))))); A 4 buf (S (S (S (S (S (S (S (S i)))))))); A 4 buf (S (S (S (S (S (S (S (S (S i))))))))); A 4 buf (S (S (S (S (S (S (S (S (S (S i)))))))))); A 4 buf (S (S (S (S (S (S (S (S (S (S (S i))))))))))); A 4 buf (S (S (S (S (S (S (S (S (S (S (S (S i)))))))))))); A 4 buf (S (S (S (S (S (S (S (S (S (S (S (S (S i))))))))))))); A 4 buf (S (S (S (S (S (S (S (S (S (S (S (S (S (S i)))))))))))))); A 4 buf (S (S (S (S (S (S (S (S (S (S (S (S (S (S (S i)))))))))))))))]))
      by (cbn [pflat]; unfold M32; lanes_finish);
    rewrite EL; clear EL end.
  cbn [pflat last].
  rewrite store_ok by (rewrite unlanes_length; cbn [length]; lia). cbn [bind].
  rewrite load_ok by (rewrite length_upd by (rewrite unlanes_length; cbn [length]; lia); lia). cbn [bind].
  replace ((i + 15) * 4) with (i * 4 + 15 * 4) by lia.
  rewrite (sub_upd_same 4) by (rewrite ?unlanes_length; cbn [length]; lia).
  rewrite last512_lanes32, le_num_le_bytes. consts. unfold M32. rewrite N.mod_mod by discriminate. reflexivity.
Qed.

Theorem avx512_prefix_sum_i64_eq_scalar count buf init :
  length buf = 8 * count -> bytes_ok buf ->
  exists out, avx512_prefix_sum_i64 count buf init = Ok out /\ scalar_prefix_sum 8 count buf init = Ok out.
Proof.
  intros L B. unfold avx512_prefix_sum_i64. change (2 ^ 64)%N with (Mw 8).
  apply (psum_kernel_eq 8 count buf init ltac:(lia) L 8 avx512_psum64_block ltac:(lia)).
  intros i b s Hi HP. pose proof HP as [Lb [Hs _]]. unfold avx512_psum64_block.
  rewrite load_ok by lia. cbn [bind].
  change (sub b (i * 8) 64) with (sub b (i * 8) (8 * 8)).
  rewrite (block_input 8 count buf init ltac:(lia) L B i 8 b s Hi HP).
  cbn [seq map].
  repeat restage.
  assert (Hmod : (s mod Mw 8 = S_ 8 buf init i)%N)
    by (rewrite Hs; apply N.mod_small, S_lt).
  pose proof (S_pflat 8 buf init 8 i s Hmod) as EP. cbn [seq map] in EP.
  rewrite sums_unlanes. cbn [seq map]. rewrite EP. change (Mw 8) with M64.
  assert (ES : S_ 8 buf init (i + 8) = last (pflat M64 s [A 8 buf i; A 8 buf (S i); A 8 buf (S (S i)); A 8 buf (S (S (S i))); A 8 buf (S (S (S (S i)))); A 8 buf (S (S (S (S (S i))))); A 8 buf (S (S (S (S (S (S i)))))); A 8 buf (S (S (S (S (S (S (S i)))))))]) 0%N).
  { replace (i + 8) with (S (S (S (S (S (S (S (S i)))))))) by lia. change M64 with (Mw 8). rewrite <- EP. cbn [last]. reflexivity. }
  rewrite ES. clear ES EP.
  match goal with |- context [store b _ (unlanes 8 ?LL)] =>
    assert (EL : unlanes 8 LL = unlanes 8 (pflat M64 s [A 8 buf i; A 8 buf (S i); A 8 buf (S (S i)); A 8 buf (S (S (S i))); A 8 buf (S (S (S (S i)))); A 8 buf (S (S (S (S (S i))))); A 8 buf (S (S (S (S (S (S i)))))); A 8 buf (S (S (S (S (S (S (S i)))))))]))
      by (cbn [pflat]; unfold M64; lanes_finish);
    rewrite EL; clear EL end.
  cbn [pflat last].
  rewrite store_ok by (rewrite unlanes_length; cbn [length]; lia). cbn [bind].
  rewrite load_ok by (rewrite length_upd by (rewrite unlanes_length; cbn [length]; lia); lia). cbn [bind].
  replace ((i + 7) * 8) with (i * 8 + 7 * 8) by lia.
  rewrite (sub_upd_same 8) by (rewrite ?unlanes_length; cbn [length]; lia).
  rewrite last512_lanes64, le_num_le_bytes. consts. unfold M64. rewrite N.mod_mod by discriminate. reflexivity.
Qed.
