(** src/simd/x86/avx512_ops.c: the AVX-512 kernels, transcribed (vector main loop + scalar remainder), every
    load / store with its explicit index range.  The file is compiled without -mavx512vbmi, so the
    `#else` (shuffle_epi8 + permutexvar_epi32) variant of byte_stream_split_encode_float is the one modelled
    (the translator's inventory confirms which branch is compiled). *)
From Coq Require Import NArith List Arith Bool.
From Carquet Require Import Base.Res Simd.Vec Simd.X86Sem Simd.ScalarKernels.
Import ListNotations.
Local Open Scope nat_scope.
Local Open Scope res_scope.

(** _mm512_set_epi8 / _mm512_set_epi32 list their arguments from the most significant element down *)
Definition set_hi_to_lo (args : list N) : list N := rev args.

(* ------------------------------------------------------------------ byte stream split *)

Definition intra_lane_shuf : list N :=
  set_hi_to_lo ([15; 11; 7; 3; 14; 10; 6; 2; 13; 9; 5; 1; 12; 8; 4; 0] ++ [15; 11; 7; 3; 14; 10; 6; 2; 13; 9; 5; 1; 12; 8; 4; 0] ++
                [15; 11; 7; 3; 14; 10; 6; 2; 13; 9; 5; 1; 12; 8; 4; 0] ++ [15; 11; 7; 3; 14; 10; 6; 2; 13; 9; 5; 1; 12; 8; 4; 0])%N.
Definition cross_lane_perm : list N :=
  flat_map (le_bytes 4) (set_hi_to_lo [15; 11; 7; 3; 14; 10; 6; 2; 13; 9; 5; 1; 12; 8; 4; 0]%N).

(** carquet_avx512_byte_stream_split_encode_float, body of `for (; i + 16 <= count; i += 16)` *)
Definition avx512_bss_encode_float_block (count : nat) (src : list N) (i : nat) (out : list N) : res (list N) :=
  let* v := load src (i * 4) 64 in
  let shuffled := mm512_shuffle_epi8 v intra_lane_shuf in
  let transposed := mm512_permutexvar_epi32 cross_lane_perm shuffled in
  let* out := store out (0 * count + i) (mm512_castsi512_si128 transposed) in
  let* out := store out (1 * count + i) (mm512_extracti32x4_epi32 transposed 1) in
  let* out := store out (2 * count + i) (mm512_extracti32x4_epi32 transposed 2) in
  store out (3 * count + i) (mm512_extracti32x4_epi32 transposed 3).

Definition avx512_bss_encode_float (count : nat) (src out : list N) : res (list N) :=
  simd_loop 16 count (avx512_bss_encode_float_block count src) (bss_enc_step 4 count src) out.

(** carquet_avx512_byte_stream_split_decode_float, body of `for (; i + 16 <= count; i += 16)` *)
Definition avx512_bss_decode_float_block (count : nat) (src : list N) (i : nat) (out : list N) : res (list N) :=
  let* b0 := load src (0 * count + i) 16 in
  let* b1 := load src (1 * count + i) 16 in
  let* b2 := load src (2 * count + i) 16 in
  let* b3 := load src (3 * count + i) 16 in
  let lo01_lo := mm_unpacklo_epi8 b0 b1 in
  let lo01_hi := mm_unpackhi_epi8 b0 b1 in
  let lo23_lo := mm_unpacklo_epi8 b2 b3 in
  let lo23_hi := mm_unpackhi_epi8 b2 b3 in
  let result0 := mm_unpacklo_epi16 lo01_lo lo23_lo in
  let result1 := mm_unpackhi_epi16 lo01_lo lo23_lo in
  let result2 := mm_unpacklo_epi16 lo01_hi lo23_hi in
  let result3 := mm_unpackhi_epi16 lo01_hi lo23_hi in
  let* out := store out (i * 4 + 0) result0 in
  let* out := store out (i * 4 + 16) result1 in
  let* out := store out (i * 4 + 32) result2 in
  store out (i * 4 + 48) result3.

Definition avx512_bss_decode_float (count : nat) (src out : list N) : res (list N) :=
  simd_loop 16 count (avx512_bss_decode_float_block count src) (bss_dec_step 4 count src) out.

(* ------------------------------------------------------------------ prefix sums *)
Local Open Scope N_scope.
From Carquet Require Import Simd.SseKernels Simd.Avx2Kernels.

(** carquet_avx512_prefix_sum_i32, body of `for (; i + 16 <= count; i += 16)`; the running sum is re-read
    from the array (`sum = values[i + 15]`) *)
Definition avx512_psum32_block (i : nat) (st : list N * N) : res (list N * N) :=
  let '(buf, sum) := st in
  let z := zeros 64 in
  let* v := load buf (i * 4)%nat 64 in
  let v := add_lanes 4 v (mm512_maskz_alignr_epi32 0xFFFE v z 15) in
  let v := add_lanes 4 v (mm512_maskz_alignr_epi32 0xFFFC v z 14) in
  let v := add_lanes 4 v (mm512_maskz_alignr_epi32 0xFFF0 v z 12) in
  let v := add_lanes 4 v (mm512_maskz_alignr_epi32 0xFF00 v z 8) in
  let v := add_lanes 4 v (mm512_set1_epi32 sum) in
  let* buf := store buf (i * 4)%nat v in
  let* last := load buf ((i + 15) * 4)%nat 4 in
  Ok (buf, le_num last).

Definition avx512_prefix_sum_i32 (count : nat) (buf : list N) (initial : N) : res (list N) :=
  rmap fst (simd_loop 16 count avx512_psum32_block (psum_step 4) (buf, initial mod 2 ^ 32)).

(** carquet_avx512_prefix_sum_i64, body of `for (; i + 8 <= count; i += 8)` *)
Definition avx512_psum64_block (i : nat) (st : list N * N) : res (list N * N) :=
  let '(buf, sum) := st in
  let z := zeros 64 in
  let* v := load buf (i * 8)%nat 64 in
  let v := add_lanes 8 v (mm512_maskz_alignr_epi64 0xFE v z 7) in
  let v := add_lanes 8 v (mm512_maskz_alignr_epi64 0xFC v z 6) in
  let v := add_lanes 8 v (mm512_maskz_alignr_epi64 0xF0 v z 4) in
  let v := add_lanes 8 v (mm512_set1_epi64 sum) in
  let* buf := store buf (i * 8)%nat v in
  let* last := load buf ((i + 7) * 8)%nat 8 in
  Ok (buf, le_num last).

Definition avx512_prefix_sum_i64 (count : nat) (buf : list N) (initial : N) : res (list N) :=
  rmap fst (simd_loop 8 count avx512_psum64_block (psum_step 8) (buf, initial mod 2 ^ 64)).

(* ------------------------------------------------------------------ dictionary gather *)

(** carquet_avx512_gather_i32 / _float: 16 per iteration (zmm gather), then 8 (ymm gather), then one *)
Definition avx512_gather32_block16 (dict idxs : list N) (i : nat) (out : list N) : res (list N) :=
  let* idx := load idxs (i * 4)%nat 64 in
  let* r := hw_gather 4 16 dict idx in
  store out (i * 4)%nat r.
Definition avx512_gather_i32 (count : nat) (dict idxs out : list N) : res (list N) :=
  let n16 := (count / 16)%nat in
  let* out := iter_blocks n16 16 0 (avx512_gather32_block16 dict idxs) out in
  let i := (16 * n16)%nat in
  let n8 := ((count - i) / 8)%nat in
  let* out := iter_blocks n8 8 i (avx2_gather32_block dict idxs) out in
  let i := (i + 8 * n8)%nat in
  iter_blocks (count - i) 1 i (gather_step 4 dict idxs) out.
Definition avx512_gather_float := avx512_gather_i32.

(** carquet_avx512_gather_i64 / _double: 8 per iteration, then one *)
Definition avx512_gather64_block (dict idxs : list N) (i : nat) (out : list N) : res (list N) :=
  let* idx := load idxs (i * 4)%nat 32 in
  let* r := hw_gather 8 8 dict idx in
  store out (i * 8)%nat r.
Definition avx512_gather_i64 (count : nat) (dict idxs out : list N) : res (list N) :=
  simd_loop 8 count (avx512_gather64_block dict idxs) (gather_step 8 dict idxs) out.
Definition avx512_gather_double := avx512_gather_i64.

(* ------------------------------------------------------------------ memset / memcpy *)

Definition avx512_memset (n : nat) (value : N) (out : list N) : res (list N) :=
  let n256 := (n / 256)%nat in
  let* out := set_chunks (4 * n256) 64 (set1_epi8 64 value) out 0 in
  let d := (256 * n256)%nat in
  let n64 := ((n - d) / 64)%nat in
  let* out := set_chunks n64 64 (set1_epi8 64 value) out d in
  let d := (d + 64 * n64)%nat in
  let n32 := ((n - d) / 32)%nat in
  let* out := set_chunks n32 32 (set1_epi8 32 value) out d in
  let d := (d + 32 * n32)%nat in
  let n16 := ((n - d) / 16)%nat in
  let* out := set_chunks n16 16 (set1_epi8 16 value) out d in
  let d := (d + 16 * n16)%nat in
  set_chunks (n - d) 1 [value mod 256] out d.

Definition avx512_memcpy (n : nat) (src out : list N) : res (list N) :=
  let n256 := (n / 256)%nat in
  let* out := copy_chunks2 n256 256 src out 0 in
  let d := (256 * n256)%nat in
  let n64 := ((n - d) / 64)%nat in
  let* out := copy_chunks2 n64 64 src out d in
  let d := (d + 64 * n64)%nat in
  let n32 := ((n - d) / 32)%nat in
  let* out := copy_chunks2 n32 32 src out d in
  let d := (d + 32 * n32)%nat in
  let n16 := ((n - d) / 16)%nat in
  let* out := copy_chunks2 n16 16 src out d in
  let d := (d + 16 * n16)%nat in
  copy_chunks2 (n - d) 1 src out d.

(* ------------------------------------------------------------------ booleans *)

(** carquet_avx512_unpack_bools, body of `for (; i + 64 <= count; i += 64)` *)
Definition avx512_unpack_bools_block (inp : list N) (i : nat) (out : list N) : res (list N) :=
  let* packed := load inp (i / 8)%nat 8 in
  store out i (mm512_maskz_set1_epi8 (le_num packed) 1).
Definition avx512_unpack_bools (count : nat) (inp out : list N) : res (list N) :=
  simd_loop 64 count (avx512_unpack_bools_block inp) (unpack_step inp) out.

(** carquet_avx512_pack_bools: 64 per iteration, then ONE masked iteration for the remainder *)
Definition avx512_pack_bools_block (inp : list N) (i : nat) (out : list N) : res (list N) :=
  let* bools := load inp i 64 in
  store out (i / 8)%nat (le_bytes 8 (mm512_test_epi8_mask bools bools)).
Definition avx512_pack_bools (count : nat) (inp out : list N) : res (list N) :=
  let n64 := (count / 64)%nat in
  let* out := iter_blocks n64 64 0 (avx512_pack_bools_block inp) out in
  let i := (64 * n64)%nat in
  if (i <? count)%nat then
    let remaining := (count - i)%nat in
    (* _mm512_maskz_loadu_epi8(load_mask, input + i): only the first `remaining` bytes are accessed *)
    let* x := load inp i remaining in
    let bools := x ++ zeros (64 - remaining) in
    let result_mask := mm512_test_epi8_mask bools bools in
    let bytes_to_write := ((remaining + 7) / 8)%nat in
    store out (i / 8)%nat (firstn bytes_to_write (le_bytes 8 result_mask))
  else Ok out.

(* ------------------------------------------------------------------ run length *)

Fixpoint avx512_run_blocks (nb : nat) (vals first : list N) (i : nat) : res (nat * bool) :=
  match nb with
  | O => Ok (i, false)
  | S nb' =>
      let* v := load vals (i * 4)%nat 64 in
      let cmp := mm512_cmpeq_epi32_mask v (flat_map (fun _ => first) (seq 0 16)) in
      if cmp =? 0xFFFF then avx512_run_blocks nb' vals first (i + 16)
      else Ok ((i + N.to_nat (ctz32 (N.lxor cmp 0xFFFFFFFF)))%nat, true)
  end.
Definition avx512_find_run_length (count : nat) (vals : list N) : res nat :=
  match count with
  | O => Ok O
  | _ => let* first := load vals 0 4 in
         let* r := avx512_run_blocks (count / 16) vals first 0 in
         let '(i, done) := r in
         if done then Ok i else run_scan (count - i) vals first i count
  end.

(* ------------------------------------------------------------------ fixed-width bit unpackers *)

Definition avx512_bitunpack32_8bit (inp : list N) : res (list N) :=
  let* lo := load inp 0 16 in
  let* hi := load inp 16 16 in
  Ok (mm512_cvtepu8_epi32 lo ++ mm512_cvtepu8_epi32 hi).

Definition avx512_bitunpack16_16bit (inp : list N) : res (list N) :=
  let* words := load inp 0 32 in Ok (mm512_cvtepu16_epi32 words).

Definition avx512_bitunpack32_4bit (inp : list N) : res (list N) :=
  let* bytes := load inp 0 16 in
  let lo_nibbles := mm_and bytes (set1_epi8 16 0x0F) in
  let hi_nibbles := mm_and (mm_srli_epi16 bytes 4) (set1_epi8 16 0x0F) in
  let interleaved_lo := mm_unpacklo_epi8 lo_nibbles hi_nibbles in
  let interleaved_hi := mm_unpackhi_epi8 lo_nibbles hi_nibbles in
  Ok (mm512_cvtepu8_epi32 interleaved_lo ++ mm512_cvtepu8_epi32 interleaved_hi).
