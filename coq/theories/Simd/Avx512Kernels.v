(** src/simd/x86/avx512_ops.c: the AVX-512 kernels, transcribed (vector main loop + scalar remainder), every
    load / store with its explicit index range.  The file is compiled without -mavx512vbmi, so the
    `#else` (shuffle_epi8 + permutexvar_epi32) variant of byte_stream_split_encode_float is the one modelled
    (the translator's inventory confirms which branch is compiled). *)
From Coq Require Import NArith List Arith Bool.
From Carquet Require Import Base.Res Simd.Vec Simd.X86Sem Simd.ScalarKernels.
Import ListNotations.
Local Open Scope nat_scope.
Local Open Scope res_scope.

(** _mm512_set_epi8 / _mm512_set_epi32 list their arguments from the most significant element down *)
Definition set_hi_to_lo (args : list N) : list N := rev args.

(* ------------------------------------------------------------------ byte stream split *)

Definition intra_lane_shuf : list N :=
  set_hi_to_lo ([15; 11; 7; 3; 14; 10; 6; 2; 13; 9; 5; 1; 12; 8; 4; 0] ++ [15; 11; 7; 3; 14; 10; 6; 2; 13; 9; 5; 1; 12; 8; 4; 0] ++
                [15; 11; 7; 3; 14; 10; 6; 2; 13; 9; 5; 1; 12; 8; 4; 0] ++ [15; 11; 7; 3; 14; 10; 6; 2; 13; 9; 5; 1; 12; 8; 4; 0])%N.
Definition cross_lane_perm : list N :=
  flat_map (le_bytes 4) (set_hi_to_lo [15; 11; 7; 3; 14; 10; 6; 2; 13; 9; 5; 1; 12; 8; 4; 0]%N).

(** carquet_avx512_byte_stream_split_encode_float, body of `for (; i + 16 <= count; i += 16)` *)
Definition avx512_bss_encode_float_block (count : nat) (src : list N) (i : nat) (out : list N) : res (list N) :=
  let* v := load src (i * 4) 64 in
  let shuffled := mm512_shuffle_epi8 v intra_lane_shuf in
  let transposed := mm512_permutexvar_epi32 cross_lane_perm shuffled in
  let* out := store out (0 * count + i) (mm512_castsi512_si128 transposed) in
  let* out := store out (1 * count + i) (mm512_extracti32x4_epi32 transposed 1) in
  let* out := store out (2 * count + i) (mm512_extracti32x4_epi32 transposed 2) in
  store out (3 * count + i) (mm512_extracti32x4_epi32 transposed 3).

Definition avx512_bss_encode_float (count : nat) (src out : list N) : res (list N) :=
  simd_loop 16 count (avx512_bss_encode_float_block count src) (bss_enc_step 4 count src) out.

(** carquet_avx512_byte_stream_split_decode_float, body of `for (; i + 16 <= count; i += 16)` *)
Definition avx512_bss_decode_float_block (count : nat) (src : list N) (i : nat) (out : list N) : res (list N) :=
  let* b0 := load src (0 * count + i) 16 in
  let* b1 := load src (1 * count + i) 16 in
  let* b2 := load src (2 * count + i) 16 in
  let* b3 := load src (3 * count + i) 16 in
  let lo01_lo := mm_unpacklo_epi8 b0 b1 in
  let lo01_hi := mm_unpackhi_epi8 b0 b1 in
  let lo23_lo := mm_unpacklo_epi8 b2 b3 in
  let lo23_hi := mm_unpackhi_epi8 b2 b3 in
  let result0 := mm_unpacklo_epi16 lo01_lo lo23_lo in
  let result1 := mm_unpackhi_epi16 lo01_lo lo23_lo in
  let result2 := mm_unpacklo_epi16 lo01_hi lo23_hi in
  let result3 := mm_unpackhi_epi16 lo01_hi lo23_hi in
  let* out := store out (i * 4 + 0) result0 in
  let* out := store out (i * 4 + 16) result1 in
  let* out := store out (i * 4 + 32) result2 in
  store out (i * 4 + 48) result3.

Definition avx512_bss_decode_float (count : nat) (src out : list N) : res (list N) :=
  simd_loop 16 count (avx512_bss_decode_float_block count src) (bss_dec_step 4 count src) out.
