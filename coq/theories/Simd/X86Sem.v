(** Gallina semantics of the x86 intrinsics used by the kernels that are modelled (C15).

    A register is the list of its byte lanes, least significant first ([Vec.v]).  Every definition here is
    executed against the hardware on random vectors by checks/C15.py (`intr` cases of harness/h_simd.c vs
    the extracted functions): the names below are the C names with the leading underscore dropped.
    Scalars travel as numbers ([N]); 32/64-bit scalars that are only moved travel as byte lists. *)
From Coq Require Import NArith ZArith List Arith Bool.
From Carquet Require Import Simd.Vec.
Import ListNotations.
Local Open Scope N_scope.

Definition zeros (n : nat) : list N := repeat 0 n.

Fixpoint map2 {A B C} (f : A -> B -> C) (a : list A) (b : list B) : list C :=
  match a, b with x :: a', y :: b' => f x y :: map2 f a' b' | _, _ => [] end.

(** the k-th 128-bit lane of a wider register *)
Definition lane128 (v : list N) (k : nat) : list N := sub v (16 * k)%nat 16.
Definition per_lane1 (n : nat) (f : list N -> list N) (a : list N) : list N :=
  flat_map (fun k => f (lane128 a k)) (seq 0 n).
Definition per_lane2 (n : nat) (f : list N -> list N -> list N) (a b : list N) : list N :=
  flat_map (fun k => f (lane128 a k) (lane128 b k)) (seq 0 n).

(* ------------------------------------------------------------------ moves between scalars and registers *)

Definition mm_cvtsi32_si128 (x4 : list N) : list N := firstn 4 x4 ++ zeros 12.     (* movd *)
Definition mm_cvtsi64_si128 (x8 : list N) : list N := firstn 8 x8 ++ zeros 8.      (* movq *)
Definition mm_loadl_epi64 (x8 : list N) : list N := firstn 8 x8 ++ zeros 8.
Definition mm_cvtsi128_si32 (v : list N) : list N := firstn 4 v.
Definition mm_extract_epi32 (v : list N) (k : nat) : list N := sub v (4 * k)%nat 4.
Definition mm_extract_epi16 (v : list N) (k : nat) : list N := sub v (2 * k)%nat 2.
Definition mm256_extract_epi32 (v : list N) (k : nat) : list N := sub v (4 * k)%nat 4.
Definition mm256_extracti128_si256 (v : list N) (k : nat) : list N := sub v (16 * k)%nat 16.
Definition mm256_inserti128_si256_1 (v x : list N) : list N := firstn 16 v ++ firstn 16 x.
Definition mm512_castsi512_si128 (v : list N) : list N := firstn 16 v.
Definition mm512_extracti32x4_epi32 (v : list N) (k : nat) : list N := sub v (16 * k)%nat 16.

Definition set1_epi8 (n : nat) (x : N) : list N := repeat (x mod 256) n.
Definition set1_lanes (w n : nat) (x : N) : list N := flat_map (fun _ => le_bytes w x) (seq 0 n).
Definition mm_set1_epi16 (x : N) := set1_lanes 2 8 x.
Definition mm_set1_epi32 (x : N) := set1_lanes 4 4 x.
Definition mm_set1_epi64x (x : N) := set1_lanes 8 2 x.
Definition mm256_set1_epi32 (x : N) := set1_lanes 4 8 x.
Definition mm256_set1_epi64x (x : N) := set1_lanes 8 4 x.
Definition mm512_set1_epi32 (x : N) := set1_lanes 4 16 x.
Definition mm512_set1_epi64 (x : N) := set1_lanes 8 8 x.

(* ------------------------------------------------------------------ byte permutations *)

(** pshufb on one 128-bit lane: control byte with bit 7 set gives 0, otherwise its low 4 bits select *)
Definition shuffle128 (a c : list N) : list N :=
  map (fun ci => if 128 <=? ci then 0 else nth (N.to_nat (ci mod 16)) a 0) c.
Definition mm_shuffle_epi8 (a c : list N) : list N := shuffle128 (firstn 16 a) (firstn 16 c).
Definition mm256_shuffle_epi8 (a c : list N) : list N := per_lane2 2 shuffle128 a c.
Definition mm512_shuffle_epi8 (a c : list N) : list N := per_lane2 4 shuffle128 a c.

Fixpoint interleave1 (a b : list N) : list N :=
  match a, b with x :: a', y :: b' => x :: y :: interleave1 a' b' | _, _ => [] end.
Fixpoint interleave2 (a b : list N) : list N :=
  match a, b with x0 :: x1 :: a', y0 :: y1 :: b' => x0 :: x1 :: y0 :: y1 :: interleave2 a' b' | _, _ => [] end.

Definition mm_unpacklo_epi8 (a b : list N) := interleave1 (sub a 0 8) (sub b 0 8).
Definition mm_unpackhi_epi8 (a b : list N) := interleave1 (sub a 8 8) (sub b 8 8).
Definition mm_unpacklo_epi16 (a b : list N) := interleave2 (sub a 0 8) (sub b 0 8).
Definition mm_unpackhi_epi16 (a b : list N) := interleave2 (sub a 8 8) (sub b 8 8).
Definition mm_unpackhi_epi64 (a b : list N) := sub a 8 8 ++ sub b 8 8.

(** byte shifts of a 128-bit lane *)
Definition slli128 (k : nat) (a : list N) : list N := zeros k ++ firstn (16 - k) a.
Definition srli128 (k : nat) (a : list N) : list N := skipn k (firstn 16 a) ++ zeros k.
Definition mm_slli_si128 (a : list N) (k : nat) := slli128 k (firstn 16 a).
Definition mm_srli_si128 (a : list N) (k : nat) := srli128 k a.
Definition mm256_slli_si256 (a : list N) (k : nat) := per_lane1 2 (slli128 k) a.

(** vpermd: dword j of the result is dword (idx_j mod 16) of a *)
Definition mm512_permutexvar_epi32 (idx a : list N) : list N :=
  flat_map (fun j => sub a (4 * N.to_nat (le_num (sub idx (4 * j)%nat 4) mod 16))%nat 4) (seq 0 16).

(** zero-extensions *)
Definition cvtepu (wfrom wto n : nat) (a : list N) : list N :=
  flat_map (fun j => sub a (wfrom * j)%nat wfrom ++ zeros (wto - wfrom)) (seq 0 n).
Definition mm256_cvtepu8_epi32 a := cvtepu 1 4 8 a.
Definition mm256_cvtepu16_epi32 a := cvtepu 2 4 8 a.
Definition mm512_cvtepu8_epi32 a := cvtepu 1 4 16 a.
Definition mm512_cvtepu16_epi32 a := cvtepu 2 4 16 a.

(* ------------------------------------------------------------------ bytewise / lanewise arithmetic *)

Definition mm_and (a b : list N) : list N := map2 N.land a b.
Definition mm_min_epu8 (a b : list N) : list N := map2 N.min a b.
Definition cmpeq_lanes (w : nat) (a b : list N) : list N :=
  unlanes w (map2 (fun x y => if x =? y then 2 ^ (8 * N.of_nat w) - 1 else 0) (lanes w a) (lanes w b)).
Definition add_lanes (w : nat) (a b : list N) : list N :=
  unlanes w (map2 (fun x y => (x + y) mod 2 ^ (8 * N.of_nat w)) (lanes w a) (lanes w b)).
Definition mullo_lanes (w : nat) (a b : list N) : list N :=
  unlanes w (map2 (fun x y => (x * y) mod 2 ^ (8 * N.of_nat w)) (lanes w a) (lanes w b)).

(** two's complement reading of a w-byte lane *)
Definition signed (w : nat) (x : N) : Z :=
  if x <? 2 ^ (8 * N.of_nat w - 1) then Z.of_N x else (Z.of_N x - 2 ^ (8 * Z.of_nat w))%Z.
Definition mm_cmplt_epi16 (a b : list N) : list N :=
  unlanes 2 (map2 (fun x y => if (signed 2 x <? signed 2 y)%Z then 65535 else 0) (lanes 2 a) (lanes 2 b)).
(** packsswb: signed saturation of 16-bit lanes to bytes, a then b *)
Definition sat8 (x : N) : N :=
  let z := signed 2 x in if (z <? -128)%Z then 128 else if (127 <? z)%Z then 127 else x mod 256.
Definition mm_packs_epi16 (a b : list N) : list N := map sat8 (lanes 2 a) ++ map sat8 (lanes 2 b).

Definition shl_lanes (w : nat) (k : N) (a : list N) : list N :=
  unlanes w (map (fun x => N.shiftl x k mod 2 ^ (8 * N.of_nat w)) (lanes w a)).
Definition shr_lanes (w : nat) (k : N) (a : list N) : list N :=
  unlanes w (map (fun x => N.shiftr x k) (lanes w a)).
Definition mm_slli_epi32 a k := shl_lanes 4 k a.
Definition mm_srli_epi16 a k := shr_lanes 2 k a.

(** movemask: bit i = top bit of byte i *)
Fixpoint bits_to_N (l : list bool) : N :=
  match l with [] => 0 | b :: tl => (if b then 1 else 0) + 2 * bits_to_N tl end.
Definition movemask_epi8 (a : list N) : N := bits_to_N (map (fun x => 128 <=? x) a).

(* ------------------------------------------------------------------ AVX-512 mask operations *)

Definition mm512_maskz_set1_epi8 (k x : N) : list N :=
  map (fun i => if N.testbit k (N.of_nat i) then x mod 256 else 0) (seq 0 64).
Definition mm512_test_epi8_mask (a b : list N) : N :=
  bits_to_N (map2 (fun x y => negb (N.land x y =? 0)) a b).
Definition mm512_cmpeq_epi32_mask (a b : list N) : N :=
  bits_to_N (map2 N.eqb (lanes 4 a) (lanes 4 b)).
(** valignd/valignq with zero masking: element i of (a:b >> imm elements), zeroed where the mask bit is clear *)
Definition maskz_alignr (w n : nat) (k : N) (a b : list N) (imm : nat) : list N :=
  flat_map (fun i => if N.testbit k (N.of_nat i) then sub (b ++ a) (w * (i + imm))%nat w else zeros w) (seq 0 n).
Definition mm512_maskz_alignr_epi32 k a b imm := maskz_alignr 4 16 k a b imm.
Definition mm512_maskz_alignr_epi64 k a b imm := maskz_alignr 8 8 k a b imm.

(* ------------------------------------------------------------------ CRC32C (SSE4.2 crc32 instruction) *)

Definition crc32c_bit (crc : N) : N :=
  if N.testbit crc 0 then N.lxor (N.shiftr crc 1) 0x82F63B78 else N.shiftr crc 1.
Definition crc32c_u8 (crc x : N) : N := N.iter 8 crc32c_bit (N.lxor (crc mod 2 ^ 32) (x mod 256)).
Definition crc32c_bytes (crc : N) (bs : list N) : N := fold_left crc32c_u8 bs crc.
Definition mm_crc32_u8 (crc x : N) := crc32c_u8 crc x.
Definition mm_crc32_u16 (crc x : N) := crc32c_bytes crc (le_bytes 2 x).
Definition mm_crc32_u32 (crc x : N) := crc32c_bytes crc (le_bytes 4 x).
Definition mm_crc32_u64 (crc x : N) := crc32c_bytes crc (le_bytes 8 x).

(* ------------------------------------------------------------------ bit scans *)

Fixpoint ctz_fuel (fuel : nat) (x : N) : N :=
  match fuel with O => 0 | S f => if N.testbit x 0 then 0 else 1 + ctz_fuel f (N.shiftr x 1) end.
Definition ctz32 (x : N) : N := ctz_fuel 32 x.
Fixpoint popcount_fuel (fuel : nat) (x : N) : N :=
  match fuel with O => 0 | S f => (if N.testbit x 0 then 1 else 0) + popcount_fuel f (N.shiftr x 1) end.
Definition popcount32 (x : N) : N := popcount_fuel 32 x.

(** masked byte move with zeroing (the register part of _mm512_maskz_loadu_epi8) *)
Definition maskz_bytes (k : N) (v : list N) : list N :=
  map2 (fun i x => if N.testbit k (N.of_nat i) then x else 0) (seq 0 (length v)) v.

(* ------------------------------------------------------------------ evaluation by number (for the hardware comparison)
   [intr_eval id a b]: a and b are 64-byte register images; the result is the byte image the C driver prints
   (16/32/64 bytes for a register, 8 bytes little-endian for a scalar).  The numbering is the order of the X/Y/Z/S
   lines of run_intrinsic in harness/h_simd.c; ocaml/run_simd.ml maps names to numbers. *)
Definition x16 (v : list N) := firstn 16 v.
Definition y32 (v : list N) := firstn 32 v.
Definition sc (x : N) : list N := le_bytes 8 x.
Definition intr_eval (id : N) (a b : list N) : list N :=
  match id with
  | 0 => mm_shuffle_epi8 (x16 a) (x16 b)
  | 1 => mm_unpacklo_epi8 (x16 a) (x16 b) | 2 => mm_unpackhi_epi8 (x16 a) (x16 b)
  | 3 => mm_unpacklo_epi16 (x16 a) (x16 b) | 4 => mm_unpackhi_epi16 (x16 a) (x16 b)
  | 5 => mm_unpackhi_epi64 (x16 a) (x16 b)
  | 6 => mm_and (x16 a) (x16 b) | 7 => mm_min_epu8 (x16 a) (x16 b)
  | 8 => add_lanes 2 (x16 a) (x16 b) | 9 => add_lanes 4 (x16 a) (x16 b) | 10 => add_lanes 8 (x16 a) (x16 b)
  | 11 => cmpeq_lanes 1 (x16 a) (x16 b) | 12 => cmpeq_lanes 2 (x16 a) (x16 b) | 13 => cmpeq_lanes 4 (x16 a) (x16 b)
  | 14 => mm_cmplt_epi16 (x16 a) (x16 b) | 15 => mullo_lanes 2 (x16 a) (x16 b) | 16 => mm_packs_epi16 (x16 a) (x16 b)
  | 17 => mm_slli_si128 (x16 a) 4 | 18 => mm_slli_si128 (x16 a) 8
  | 19 => mm_srli_si128 (x16 a) 2 | 20 => mm_srli_si128 (x16 a) 4 | 21 => mm_srli_si128 (x16 a) 8
  | 22 => mm_slli_epi32 (x16 a) 7 | 23 => mm_srli_epi16 (x16 a) 4
  | 24 => set1_epi8 16 (nth 0 a 0) | 25 => mm_set1_epi16 (le_num (firstn 2 a))
  | 26 => mm_set1_epi32 (le_num (firstn 4 a)) | 27 => mm_set1_epi64x (le_num (firstn 8 a))
  | 28 => mm_cvtsi32_si128 a | 29 => mm_cvtsi64_si128 a | 30 => mm_loadl_epi64 a
  | 31 => sc (movemask_epi8 (x16 a)) | 32 => sc (le_num (mm_cvtsi128_si32 a))
  | 33 => sc (le_num (mm_extract_epi32 a 3)) | 34 => sc (le_num (mm_extract_epi16 a 0))
  | 35 => sc (mm_crc32_u8 (le_num (firstn 4 a)) (nth 0 b 0)) | 36 => sc (mm_crc32_u16 (le_num (firstn 4 a)) (le_num (firstn 2 b)))
  | 37 => sc (mm_crc32_u32 (le_num (firstn 4 a)) (le_num (firstn 4 b))) | 38 => sc (mm_crc32_u64 (le_num (firstn 4 a)) (le_num (firstn 8 b)))
  | 39 => mm256_shuffle_epi8 (y32 a) (y32 b) | 40 => mm_and (y32 a) (y32 b) | 41 => mm_min_epu8 (y32 a) (y32 b)
  | 42 => add_lanes 4 (y32 a) (y32 b) | 43 => add_lanes 8 (y32 a) (y32 b) | 44 => cmpeq_lanes 4 (y32 a) (y32 b)
  | 45 => mm256_slli_si256 (y32 a) 4 | 46 => mm256_slli_si256 (y32 a) 8
  | 47 => set1_epi8 32 (nth 0 a 0) | 48 => mm256_set1_epi32 (le_num (firstn 4 a)) | 49 => mm256_set1_epi64x (le_num (firstn 8 a))
  | 50 => mm256_cvtepu8_epi32 a | 51 => mm256_cvtepu16_epi32 a
  | 52 => mm256_inserti128_si256_1 (y32 a) (x16 b)
  | 53 => mm256_extracti128_si256 a 0 | 54 => mm256_extracti128_si256 a 1
  | 55 => sc (movemask_epi8 (y32 a))
  | 56 => sc (le_num (mm256_extract_epi32 a 0)) | 57 => sc (le_num (mm256_extract_epi32 a 4)) | 58 => sc (le_num (mm256_extract_epi32 a 7))
  | 59 => mm512_shuffle_epi8 a b | 60 => mm512_permutexvar_epi32 a b
  | 61 => add_lanes 4 a b | 62 => add_lanes 8 a b
  | 63 => set1_epi8 64 (nth 0 a 0) | 64 => mm512_set1_epi32 (le_num (firstn 4 a)) | 65 => mm512_set1_epi64 (le_num (firstn 8 a))
  | 66 => mm512_cvtepu8_epi32 a | 67 => mm512_cvtepu16_epi32 a
  | 68 => mm512_maskz_set1_epi8 (le_num (firstn 8 a)) 1
  | 69 => mm512_maskz_alignr_epi32 0xFFFE a (zeros 64) 15 | 70 => mm512_maskz_alignr_epi32 0xFFFC a (zeros 64) 14
  | 71 => mm512_maskz_alignr_epi32 0xFFF0 a (zeros 64) 12 | 72 => mm512_maskz_alignr_epi32 0xFF00 a (zeros 64) 8
  | 73 => mm512_maskz_alignr_epi64 0xFE a (zeros 64) 7 | 74 => mm512_maskz_alignr_epi64 0xFC a (zeros 64) 6
  | 75 => mm512_maskz_alignr_epi64 0xF0 a (zeros 64) 4
  | 76 => maskz_bytes (le_num (firstn 8 b)) a
  | 77 => mm512_castsi512_si128 a
  | 78 => mm512_extracti32x4_epi32 a 1 | 79 => mm512_extracti32x4_epi32 a 2 | 80 => mm512_extracti32x4_epi32 a 3
  | 81 => sc (mm512_test_epi8_mask a b) | 82 => sc (mm512_cmpeq_epi32_mask a b)
  | _ => []
  end.
