(** Gallina semantics of the x86 intrinsics used by the kernels that are modelled (C15).

    A register is the list of its byte lanes, least significant first ([Vec.v]).  Every definition here is
    executed against the hardware on random vectors by checks/C15.py (`intr` cases of harness/h_simd.c vs
    the extracted functions): the names below are the C names with the leading underscore dropped.
    Scalars travel as numbers ([N]); 32/64-bit scalars that are only moved travel as byte lists. *)
From Coq Require Import NArith ZArith List Arith Bool.
From Carquet Require Import Simd.Vec.
Import ListNotations.
Local Open Scope N_scope.

Definition zeros (n : nat) : list N := repeat 0 n.

Fixpoint map2 {A B C} (f : A -> B -> C) (a : list A) (b : list B) : list C :=
  match a, b with x :: a', y :: b' => f x y :: map2 f a' b' | _, _ => [] end.

(** the k-th 128-bit lane of a wider register *)
Definition lane128 (v : list N) (k : nat) : list N := sub v (16 * k)%nat 16.
Definition per_lane1 (n : nat) (f : list N -> list N) (a : list N) : list N :=
  flat_map (fun k => f (lane128 a k)) (seq 0 n).
Definition per_lane2 (n : nat) (f : list N -> list N -> list N) (a b : list N) : list N :=
  flat_map (fun k => f (lane128 a k) (lane128 b k)) (seq 0 n).

(* ------------------------------------------------------------------ moves between scalars and registers *)

Definition mm_cvtsi32_si128 (x4 : list N) : list N := firstn 4 x4 ++ zeros 12.     (* movd *)
Definition mm_cvtsi64_si128 (x8 : list N) : list N := firstn 8 x8 ++ zeros 8.      (* movq *)
Definition mm_loadl_epi64 (x8 : list N) : list N := firstn 8 x8 ++ zeros 8.
Definition mm_cvtsi128_si32 (v : list N) : list N := firstn 4 v.
Definition mm_extract_epi32 (v : list N) (k : nat) : list N := sub v (4 * k)%nat 4.
Definition mm_extract_epi16 (v : list N) (k : nat) : list N := sub v (2 * k)%nat 2.
Definition mm256_extract_epi32 (v : list N) (k : nat) : list N := sub v (4 * k)%nat 4.
Definition mm256_extracti128_si256 (v : list N) (k : nat) : list N := sub v (16 * k)%nat 16.
Definition mm256_inserti128_si256_1 (v x : list N) : list N := firstn 16 v ++ firstn 16 x.
Definition mm512_castsi512_si128 (v : list N) : list N := firstn 16 v.
Definition mm512_extracti32x4_epi32 (v : list N) (k : nat) : list N := sub v (16 * k)%nat 16.

Definition set1_epi8 (n : nat) (x : N) : list N := repeat (x mod 256) n.
Definition set1_lanes (w n : nat) (x : N) : list N := flat_map (fun _ => le_bytes w x) (seq 0 n).
Definition mm_set1_epi16 (x : N) := set1_lanes 2 8 x.
Definition mm_set1_epi32 (x : N) := set1_lanes 4 4 x.
Definition mm_set1_epi64x (x : N) := set1_lanes 8 2 x.
Definition mm256_set1_epi32 (x : N) := set1_lanes 4 8 x.
Definition mm256_set1_epi64x (x : N) := set1_lanes 8 4 x.
Definition mm512_set1_epi32 (x : N) := set1_lanes 4 16 x.
Definition mm512_set1_epi64 (x : N) := set1_lanes 8 8 x.

(* ------------------------------------------------------------------ byte permutations *)

(** pshufb on one 128-bit lane: control byte with bit 7 set gives 0, otherwise its low 4 bits select *)
Definition shuffle128 (a c : list N) : list N :=
  map (fun ci => if 128 <=? ci then 0 else nth (N.to_nat (ci mod 16)) a 0) c.
Definition mm_shuffle_epi8 (a c : list N) : list N := shuffle128 (firstn 16 a) (firstn 16 c).
Definition mm256_shuffle_epi8 (a c : list N) : list N := per_lane2 2 shuffle128 a c.
Definition mm512_shuffle_epi8 (a c : list N) : list N := per_lane2 4 shuffle128 a c.

Fixpoint interleave1 (a b : list N) : list N :=
  match a, b with x :: a', y :: b' => x :: y :: interleave1 a' b' | _, _ => [] end.
Fixpoint interleave2 (a b : list N) : list N :=
  match a, b with x0 :: x1 :: a', y0 :: y1 :: b' => x0 :: x1 :: y0 :: y1 :: interleave2 a' b' | _, _ => [] end.

Definition mm_unpacklo_epi8 (a b : list N) := interleave1 (sub a 0 8) (sub b 0 8).
Definition mm_unpackhi_epi8 (a b : list N) := interleave1 (sub a 8 8) (sub b 8 8).
Definition mm_unpacklo_epi16 (a b : list N) := interleave2 (sub a 0 8) (sub b 0 8).
Definition mm_unpackhi_epi16 (a b : list N) := interleave2 (sub a 8 8) (sub b 8 8).
Definition mm_unpackhi_epi64 (a b : list N) := sub a 8 8 ++ sub b 8 8.

(** byte shifts of a 128-bit lane *)
Definition slli128 (k : nat) (a : list N) : list N := zeros k ++ firstn (16 - k) a.
Definition srli128 (k : nat) (a : list N) : list N := skipn k (firstn 16 a) ++ zeros k.
Definition mm_slli_si128 (a : list N) (k : nat) := slli128 k (firstn 16 a).
Definition mm_srli_si128 (a : list N) (k : nat) := srli128 k a.
Definition mm256_slli_si256 (a : list N) (k : nat) := per_lane1 2 (slli128 k) a.

(** vpermd: dword j of the result is dword (idx_j mod 16) of a *)
Definition mm512_permutexvar_epi32 (idx a : list N) : list N :=
  flat_map (fun j => sub a (4 * N.to_nat (le_num (sub idx (4 * j)%nat 4) mod 16))%nat 4) (seq 0 16).

(** zero-extensions *)
Definition cvtepu (wfrom wto n : nat) (a : list N) : list N :=
  flat_map (fun j => sub a (wfrom * j)%nat wfrom ++ zeros (wto - wfrom)) (seq 0 n).
Definition mm256_cvtepu8_epi32 a := cvtepu 1 4 8 a.
Definition mm256_cvtepu16_epi32 a := cvtepu 2 4 8 a.
Definition mm512_cvtepu8_epi32 a := cvtepu 1 4 16 a.
Definition mm512_cvtepu16_epi32 a := cvtepu 2 4 16 a.

(* ------------------------------------------------------------------ bytewise / lanewise arithmetic *)

Definition mm_and (a b : list N) : list N := map2 N.land a b.
Definition mm_min_epu8 (a b : list N) : list N := map2 N.min a b.
Definition cmpeq_lanes (w : nat) (a b : list N) : list N :=
  unlanes w (map2 (fun x y => if x =? y then 2 ^ (8 * N.of_nat w) - 1 else 0) (lanes w a) (lanes w b)).
Definition add_lanes (w : nat) (a b : list N) : list N :=
  unlanes w (map2 (fun x y => (x + y) mod 2 ^ (8 * N.of_nat w)) (lanes w a) (lanes w b)).
Definition mullo_lanes (w : nat) (a b : list N) : list N :=
  unlanes w (map2 (fun x y => (x * y) mod 2 ^ (8 * N.of_nat w)) (lanes w a) (lanes w b)).

(** two's complement reading of a w-byte lane *)
Definition signed (w : nat) (x : N) : Z :=
  if x <? 2 ^ (8 * N.of_nat w - 1) then Z.of_N x else (Z.of_N x - 2 ^ (8 * Z.of_nat w))%Z.
Definition mm_cmplt_epi16 (a b : list N) : list N :=
  unlanes 2 (map2 (fun x y => if (signed 2 x <? signed 2 y)%Z then 65535 else 0) (lanes 2 a) (lanes 2 b)).
(** packsswb: signed saturation of 16-bit lanes to bytes, a then b *)
Definition sat8 (x : N) : N :=
  let z := signed 2 x in if (z <? -128)%Z then 128 else if (127 <? z)%Z then 127 else x mod 256.
Definition mm_packs_epi16 (a b : list N) : list N := map sat8 (lanes 2 a) ++ map sat8 (lanes 2 b).

Definition shl_lanes (w : nat) (k : N) (a : list N) : list N :=
  unlanes w (map (fun x => N.shiftl x k mod 2 ^ (8 * N.of_nat w)) (lanes w a)).
Definition shr_lanes (w : nat) (k : N) (a : list N) : list N :=
  unlanes w (map (fun x => N.shiftr x k) (lanes w a)).
Definition mm_slli_epi32 a k := shl_lanes 4 k a.
Definition mm_srli_epi16 a k := shr_lanes 2 k a.

(** movemask: bit i = top bit of byte i *)
Fixpoint bits_to_N (l : list bool) : N :=
  match l with [] => 0 | b :: tl => (if b then 1 else 0) + 2 * bits_to_N tl end.
Definition movemask_epi8 (a : list N) : N := bits_to_N (map (fun x => 128 <=? x) a).

(* ------------------------------------------------------------------ AVX-512 mask operations *)

Definition mm512_maskz_set1_epi8 (k x : N) : list N :=
  map (fun i => if N.testbit k (N.of_nat i) then x mod 256 else 0) (seq 0 64).
Definition mm512_test_epi8_mask (a b : list N) : N :=
  bits_to_N (map2 (fun x y => negb (N.land x y =? 0)) a b).
Definition mm512_cmpeq_epi32_mask (a b : list N) : N :=
  bits_to_N (map2 N.eqb (lanes 4 a) (lanes 4 b)).
(** valignd/valignq with zero masking: element i of (a:b >> imm elements), zeroed where the mask bit is clear *)
Definition maskz_alignr (w n : nat) (k : N) (a b : list N) (imm : nat) : list N :=
  flat_map (fun i => if N.testbit k (N.of_nat i) then sub (b ++ a) (w * (i + imm))%nat w else zeros w) (seq 0 n).
Definition mm512_maskz_alignr_epi32 k a b imm := maskz_alignr 4 16 k a b imm.
Definition mm512_maskz_alignr_epi64 k a b imm := maskz_alignr 8 8 k a b imm.

(* ------------------------------------------------------------------ CRC32C (SSE4.2 crc32 instruction) *)

Definition crc32c_bit (crc : N) : N :=
  if N.testbit crc 0 then N.lxor (N.shiftr crc 1) 0x82F63B78 else N.shiftr crc 1.
Definition crc32c_u8 (crc x : N) : N := N.iter 8 crc32c_bit (N.lxor (crc mod 2 ^ 32) (x mod 256)).
Definition crc32c_bytes (crc : N) (bs : list N) : N := fold_left crc32c_u8 bs crc.
Definition mm_crc32_u8 (crc x : N) := crc32c_u8 crc x.
Definition mm_crc32_u16 (crc x : N) := crc32c_bytes crc (le_bytes 2 x).
Definition mm_crc32_u32 (crc x : N) := crc32c_bytes crc (le_bytes 4 x).
Definition mm_crc32_u64 (crc x : N) := crc32c_bytes crc (le_bytes 8 x).

(* ------------------------------------------------------------------ bit scans *)

Fixpoint ctz_fuel (fuel : nat) (x : N) : N :=
  match fuel with O => 0 | S f => if N.testbit x 0 then 0 else 1 + ctz_fuel f (N.shiftr x 1) end.
Definition ctz32 (x : N) : N := ctz_fuel 32 x.
Fixpoint popcount_fuel (fuel : nat) (x : N) : N :=
  match fuel with O => 0 | S f => (if N.testbit x 0 then 1 else 0) + popcount_fuel f (N.shiftr x 1) end.
Definition popcount32 (x : N) : N := popcount_fuel 32 x.
