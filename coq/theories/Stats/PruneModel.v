(** Model of the reader-side statistics code (after repair 1099ed1) and of the value helpers:
      src/reader/statistics.c     carquet_reader_column_statistics, carquet_reader_row_group_matches,
                                  carquet_reader_filter_row_groups
      src/metadata/statistics.c   carquet_statistics_compare, carquet_statistics_range_overlaps
    No proofs here. *)
From Coq Require Import ZArith NArith List Bool.
From Carquet Require Import Gen.Enums_gen Stats.Order Stats.StatsBuilderModel.
Import ListNotations.

(** what the reader holds for one column chunk of one row group *)
Record chunk := mkChunk {
  ch_has_metadata : bool;
  ch_num_values : Z;
  ch_stats : option pstats }.          (* meta->has_statistics *)

Record rdr := mkRdr {
  r_row_groups : list (list chunk);    (* metadata.row_groups[i].columns[j] *)
  r_leaf_types : list (option ptype) } (* per column: elem->has_type ? elem->type : BYTE_ARRAY, None = no type *).

(** carquet_column_statistics_t *)
Record cstats := mkCS {
  cs_has_min_max : bool;
  cs_has_null_count : bool;
  cs_null_count : Z;
  cs_num_values : Z;
  cs_min : bytes;
  cs_max : bytes }.

Definition cs_empty : cstats := mkCS false false 0 0 [] [].

Definition nonempty (o : option bytes) : option bytes :=
  match o with Some (x :: tl) => Some (x :: tl) | _ => None end.

Definition nth_z {A} (l : list A) (i : Z) : option A :=
  if (i <? 0)%Z then None else nth_error l (Z.to_nat i).

(** carquet_reader_column_statistics *)
Definition column_statistics (r : rdr) (rg col : Z) : sres cstats :=
  match nth_z (r_row_groups r) rg with
  | None => SErr E_CARQUET_ERROR_ROW_GROUP_NOT_FOUND
  | Some cols =>
    if (col <? 0)%Z || (Z.of_nat (length (r_leaf_types r)) <=? col)%Z then SErr E_CARQUET_ERROR_COLUMN_NOT_FOUND
    else match nth_z cols col with
    | None => SErr E_CARQUET_ERROR_COLUMN_NOT_FOUND
    | Some ch =>
      if negb (ch_has_metadata ch) then SOk cs_empty
      else match ch_stats ch with
      | None => SOk (mkCS false false 0 (ch_num_values ch) [] [])
      | Some ps =>
        let hn := ps_has_null_count ps in
        let nc := if hn then ps_null_count ps else 0%Z in
        (* prefer the new fields, fall back to the deprecated ones *)
        match nonempty (ps_min_value ps), nonempty (ps_max_value ps) with
        | Some mn, Some mx => SOk (mkCS true hn nc (ch_num_values ch) mn mx)
        | _, _ =>
          match nonempty (ps_min_deprecated ps), nonempty (ps_max_deprecated ps) with
          | Some mn, Some mx => SOk (mkCS true hn nc (ch_num_values ch) mn mx)
          | _, _ => SOk (mkCS false hn nc (ch_num_values ch) [] [])
          end
        end
      end
    end
  end.

(** the operator table; an op outside the enum falls through the switch *)
Definition op_table (t : ptype) (op : Z) (cmin cmax : Z) : bool :=
  if (op =? E_CARQUET_COMPARE_EQ)%Z then negb ((cmin <? 0)%Z || (0 <? cmax)%Z)
  else if (op =? E_CARQUET_COMPARE_NE)%Z then
    negb ((cmin =? 0)%Z && (cmax =? 0)%Z && negb (match t with TFloat | TDouble => true | _ => false end))
  else if (op =? E_CARQUET_COMPARE_LT)%Z then negb (cmin <=? 0)%Z
  else if (op =? E_CARQUET_COMPARE_LE)%Z then negb (cmin <? 0)%Z
  else if (op =? E_CARQUET_COMPARE_GT)%Z then negb (0 <=? cmax)%Z
  else if (op =? E_CARQUET_COMPARE_GE)%Z then negb (0 <? cmax)%Z
  else true.

(** the decision of carquet_reader_row_group_matches once statistics and type are known *)
Definition matches_stats (t : ptype) (cs : cstats) (op : Z) (value : bytes) : sres bool :=
  if negb (cs_has_min_max cs) then SOk true
  else
    bind (compare_R t value (cs_min cs)) (fun cmin =>
    bind (compare_R t value (cs_max cs)) (fun cmax =>
    if (cmin =? UNORDERED)%Z || (cmax =? UNORDERED)%Z then SOk true
    else SOk (op_table t op cmin cmax))).

(** carquet_reader_row_group_matches: status and *might_match (true unless decided otherwise) *)
Definition row_group_matches (r : rdr) (rg col : Z) (op : Z) (value : bytes) : sres (Z * bool) :=
  match column_statistics r rg col with
  | SErr c => SOk (c, true)
  | SFault f => SFault f
  | SOk cs =>
    let t := match nth_z (r_leaf_types r) col with Some (Some t) => t | _ => TByteArray end in
    bind (matches_stats t cs op value) (fun m => SOk (E_CARQUET_OK, m))
  end.

(** carquet_reader_filter_row_groups: loop i = 0 .. num_row_groups-1 while fewer than max_indices are stored *)
Fixpoint filter_loop (r : rdr) (col op : Z) (value : bytes) (max_indices : Z) (i : Z) (n : nat) (acc : list Z)
  : sres (list Z) :=
  match n with
  | O => SOk (rev acc)
  | S n' =>
    if (max_indices <=? Z.of_nat (length acc))%Z then SOk (rev acc)
    else bind (row_group_matches r i col op value) (fun sm =>
         let might := if (fst sm =? E_CARQUET_OK)%Z then snd sm else true in
         filter_loop r col op value max_indices (i + 1)%Z n' (if might then i :: acc else acc))
  end.

(** returns -1 (no indices) for max_indices <= 0, else the stored indices (their count is the return value) *)
Definition filter_row_groups (r : rdr) (col op : Z) (value : bytes) (max_indices : Z) : sres (option (list Z)) :=
  if (max_indices <=? 0)%Z then SOk None
  else bind (filter_loop r col op value max_indices 0%Z (length (r_row_groups r)) []) (fun l => SOk (Some l)).

(** ------------------------------------------------------------------ helpers of metadata/statistics.c *)

(** carquet_statistics_compare: -1 value < min, 1 value > max, 0 otherwise *)
Definition statistics_compare (ps : pstats) (t : ptype) (value : bytes) : sres Z :=
  bind (match nonempty (ps_min_value ps) with
        | Some mn => bind (compare_M t value mn) (fun c => SOk (c <? 0)%Z)
        | None => SOk false end) (fun below =>
  if below then SOk (-1)%Z else
  bind (match nonempty (ps_max_value ps) with
        | Some mx => bind (compare_M t value mx) (fun c => SOk (0 <? c)%Z)
        | None => SOk false end) (fun above =>
  SOk (if above then 1%Z else 0%Z))).

(** carquet_statistics_range_overlaps: query bounds may be NULL (None = unbounded) *)
Definition range_overlaps (ps : pstats) (t : ptype) (qmin qmax : option bytes) : sres bool :=
  bind (match qmax, nonempty (ps_min_value ps) with
        | Some q, Some mn => bind (compare_M_overlap t q mn) (fun c => SOk (c <? 0)%Z)
        | _, _ => SOk false end) (fun disjoint_low =>
  if disjoint_low then SOk false else
  bind (match qmin, nonempty (ps_max_value ps) with
        | Some q, Some mx => bind (compare_M_overlap t q mx) (fun c => SOk (0 <? c)%Z)
        | _, _ => SOk false end) (fun disjoint_high =>
  SOk (negb disjoint_high))).
